// C01 — lookups on a stable ring return the node responsible for the key.
// Real LocalNodes (direct and proxied wiring), rings from layout classes,
// lookups from every node, compared with the sorted-membership successor.
package main

import (
	"encoding/json"
	"fmt"
	"math/rand"
	"runtime"
	"runtime/debug"
	"sort"
	"strings"
	"time"

	"verifharness/lab/batch"
	"verifharness/lab/child"
	"verifharness/lab/ev"
	"verifharness/lab/ringlab"
)

const M = ringlab.M

type ringCase struct {
	Name  string   `json:"name"`
	Class string   `json:"class"`
	IDs   []uint64 `json:"ids"`
	NetV  bool     `json:"netv"`
	RPC   bool     `json:"real_rpc"` // chord.RemoteNode over twirp/HTTP2 on an in-memory transport
	Seed  int64    `json:"seed"`
}

func genIDs(rng *rand.Rand, class string, n int) []uint64 {
	set := map[uint64]bool{}
	add := func(v uint64) { set[v%M] = true }
	switch class {
	case "random":
		for len(set) < n {
			add(rng.Uint64())
		}
	case "clustered":
		base := rng.Uint64() % M
		k := uint(rng.Intn(12) + 1)
		for len(set) < n {
			add(base + rng.Uint64()%(1<<k))
			if len(set) >= 1<<k {
				k++
			}
		}
	case "adjacent":
		base := rng.Uint64() % M
		if rng.Intn(2) == 0 {
			base = M - uint64(rng.Intn(n+1)) // straddles the wrap point
		}
		for i := 0; len(set) < n; i++ {
			add(base + uint64(i))
		}
	case "extremes":
		add(0)
		if n > 1 {
			add(M - 1)
		}
		for len(set) < n {
			switch rng.Intn(3) {
			case 0:
				add(uint64(rng.Intn(4)))
			case 1:
				add(M - 1 - uint64(rng.Intn(4)))
			default:
				add(rng.Uint64())
			}
		}
	default: // mixed: powers of two apart (finger targets coincide with ids)
		base := rng.Uint64() % M
		add(base)
		for len(set) < n {
			if rng.Intn(2) == 0 {
				add(base + uint64(1)<<uint(rng.Intn(48)))
			} else {
				add(rng.Uint64())
			}
		}
	}
	ids := make([]uint64, 0, len(set))
	for v := range set {
		ids = append(ids, v)
	}
	sort.Slice(ids, func(i, j int) bool { return ids[i] < ids[j] })
	return ids
}

func runRings(raw json.RawMessage) (any, error) {
	// a lookup that is forwarded round the ring for ever is a runaway recursion in the direct wiring:
	// with a 64 MiB stack limit it ends as a crash in repository code within seconds instead of
	// eating gigabytes until the watchdog
	debug.SetMaxStack(64 << 20)
	var cases []ringCase
	if err := json.Unmarshal(raw, &cases); err != nil {
		return nil, err
	}
	rep := &batch.Report{}
	prog := batch.OpenProgress()
	for _, c := range cases {
		prog.Begin(c.Name, c)
		res := runRing(c, rep)
		prog.Done(res)
		rep.Add(res)
	}
	return rep, nil
}

func runRing(c ringCase, rep *batch.Report) batch.CaseResult {
	res := batch.CaseResult{Name: c.Name}
	mode := ringlab.Direct
	if c.NetV {
		mode = ringlab.NetV
	}
	if c.RPC {
		mode = ringlab.RealRPC
	}
	lab := ringlab.New(ringlab.Options{Mode: mode, Seed: c.Seed})
	defer lab.Close()
	lab.SetHopLimit(int64(2*len(c.IDs) + 64)) // proxied wiring: a lookup gets this many hops
	rng := rand.New(rand.NewSource(c.Seed))
	order := rng.Perm(len(c.IDs))
	var members []*ringlab.Member
	for _, i := range order {
		m, err := lab.Spawn(c.IDs[i], ringlab.Memory)
		if err != nil {
			res.Inconclusive = "spawn: " + err.Error()
			return res
		}
		if len(members) == 0 {
			if err := m.Create(); err != nil {
				res.Inconclusive = "create: " + err.Error()
				return res
			}
		} else {
			via := members[rng.Intn(len(members))]
			var err error
			for attempt := 0; attempt < 5; attempt++ {
				if err = m.Join(via); err == nil {
					break
				}
				time.Sleep(20 * time.Millisecond)
			}
			if err != nil {
				lab.StopAll()
				res.Inconclusive = fmt.Sprintf("setup join of %d via %d failed: %v", m.ID, via.ID, err)
				return res
			}
		}
		members = append(members, m)
	}
	defer lab.StopAll()
	n := int64(len(c.IDs))
	cv := lab.WaitConverged(6*n+20, 60*time.Second, true)
	rep.Count("stabilize_rounds_to_converge", cv.Rounds)
	if !cv.Converged {
		// the ring did not reach the pointer oracle: C02's subject. Lookups are
		// only specified on a stabilised ring.
		if cv.Watchdog {
			res.Inconclusive = "watchdog before the ring stabilised: " + cv.Diff
		} else {
			res.Inconclusive = "ring did not stabilise within the round bound (see C02): " + cv.Diff
		}
		return res
	}
	ids := c.IDs
	sigs := map[string]bool{}
	lookups := 0
	for _, start := range members {
		e := ringlab.ExpectFor(ids, start.ID)
		targets := []uint64{0, M - 1, 1, M / 2}
		for _, id := range ids {
			targets = append(targets, id, (id+1)%M, (id+M-1)%M)
		}
		for k := 0; k < 48; k++ {
			targets = append(targets, (start.ID+uint64(1)<<uint(k))%M)
		}
		for i := 0; i < 16; i++ {
			targets = append(targets, rng.Uint64()%M)
		}
		for _, key := range targets {
			want := ringlab.OwnerOf(ids, key)
			got, err := start.Node.FindSuccessor(key)
			// A lookup is specified on a stabilised ring. Two things can take a ring out of that state
			// without any membership change, both seen only on a saturated machine: (1) a stabilize round
			// that was preempted between computing its list and storing it lands after a newer round and
			// puts an older successor list back for one round (self-healing; every wiring); (2) over the
			// real RPC path the production failure detector and time-outs (RPC 10 s, ping 3 s) suspect a
			// healthy node, or a request dies in the transport. So a wrong or failed lookup is judged only
			// if the pointers still equal the sorted-ring oracle right after it; otherwise the ring gets
			// its rounds to settle again and the lookup is repeated (at most 3 times); a lookup that never
			// ran on a stable ring is counted as indeterminate. A wrong answer with the pointers in
			// place is a violation in every wiring.
			indeterminate := false
			for try := 0; try < 3; try++ {
				wrong := err != nil || got == nil || got.ID() != want
				if !wrong {
					break
				}
				transportErr := c.RPC && err != nil && (strings.Contains(err.Error(), "context deadline exceeded") || strings.Contains(err.Error(), "failed to do request"))
				if !transportErr && lab.PointerDiff(true) == "" {
					break // stable ring, wrong answer: judged below
				}
				rep.Count("lookups_repeated(ring_had_left_the_stable_state_or_transport_failure)", 1)
				if cv2 := lab.WaitConverged(6*n+20, 60*time.Second, true); !cv2.Converged {
					indeterminate = true
					break
				}
				got, err = start.Node.FindSuccessor(key)
				if try == 2 && (err != nil || got == nil || got.ID() != want) && (transportErr || lab.PointerDiff(true) != "") {
					indeterminate = true
				}
			}
			if indeterminate {
				rep.Count("lookups_indeterminate(no_stable_ring_to_ask)", 1)
				continue
			}
			lookups++
			rel := "far"
			switch {
			case want == start.ID:
				rel = "own"
			case len(e.Succs) > 0 && want == e.Succs[0]:
				rel = "succ"
			}
			wrap := key > ids[len(ids)-1] || key <= ids[0]
			isMember := want == key
			sigs[fmt.Sprintf("%s/n%d/%s/wrap=%v/member=%v/netv=%v/rpc=%v", c.Class, bucket(len(ids)), rel, wrap, isMember, c.NetV, c.RPC)] = true
			if err != nil {
				res.Violations = append(res.Violations, batch.Viol{Key: "lookup-error", What: fmt.Sprintf("ring %v: FindSuccessor(%d) from %d returned error %v, owner is %d", ids, key, start.ID, err, want),
					Witness: map[string]any{"ring": ids, "start": start.ID, "key": key, "want": want, "err": err.Error(), "netv": c.NetV}})
				continue
			}
			if got == nil || got.ID() != want {
				var g any
				if got != nil {
					g = got.ID()
				}
				diag := map[string]any{"pointer_diff_right_after": lab.PointerDiff(true)}
				for _, id := range []uint64{want, ringlab.ExpectFor(ids, want).Pred} {
					if m := lab.Member(id); m != nil {
						vp := m.Node.VerifPointers()
						diag[fmt.Sprintf("node_%d", id)] = map[string]any{"state": m.State().String(), "history": fmt.Sprint(m.Node.VerifStateHistory()), "pred": vp.Predecessor, "succs": vp.Successors}
					}
				}
				if got != nil {
					if m := lab.Member(got.ID()); m != nil {
						vp := m.Node.VerifPointers()
						diag[fmt.Sprintf("node_%d", got.ID())] = map[string]any{"state": m.State().String(), "pred": vp.Predecessor, "succs": vp.Successors}
					}
				}
				res.Violations = append(res.Violations, batch.Viol{Key: "wrong-owner", What: fmt.Sprintf("ring %v: FindSuccessor(%d) from %d = %v, owner is %d", ids, key, start.ID, g, want),
					Witness: map[string]any{"ring": ids, "start": start.ID, "key": key, "want": want, "got": g, "netv": c.NetV, "rpc": c.RPC, "diagnosis": diag}})
			}
		}
		if len(res.Violations) > 20 {
			break
		}
	}
	rep.Count("lookups", int64(lookups))
	if lookups == 0 {
		res.Inconclusive = "no lookup of this ring could be judged (every one hit the transport timeout)"
	}
	if c.RPC {
		rep.Count("rings_over_real_rpc", 1)
	}
	rep.Count("max_hops_observed", 0)
	if h := lab.MaxHops.Load(); h > 0 {
		rep.Count("rings_with_proxied_hops", 1)
	}
	for s := range sigs {
		res.Sigs = append(res.Sigs, s)
	}
	sort.Strings(res.Sigs)
	res.Sig = fmt.Sprintf("%s/n%d/netv=%v/rpc=%v", c.Class, len(ids), c.NetV, c.RPC)
	res.Sample = map[string]any{"class": c.Class, "ids": ids, "netv": c.NetV, "real_rpc": c.RPC, "lookups": lookups, "rounds_to_converge": cv.Rounds}
	return res
}

func bucket(n int) int {
	switch {
	case n <= 1:
		return 1
	case n <= 2:
		return 2
	case n <= 4:
		return 4
	case n <= 8:
		return 8
	case n <= 16:
		return 16
	}
	return 64
}

func main() {
	child.Register("rings", runRings)
	child.Main()
	r := ev.Start("C01", "exploration")
	r.SetRule("rings of real LocalNodes built from layout classes {random, clustered, adjacent(incl. straddling 2^48), extremes(0 and 2^48-1), mixed(power-of-two offsets)} x size x wiring {direct, identity-by-ID proxies, the real RPC path (chord.RemoteNode -> twirp over HTTP/2 on an in-memory transport -> the node's RPC server)}; stabilised to the sorted-ring pointer oracle; from EVERY node look up every member id, id+-1, 0, 2^48-1, the 48 finger targets and 16 PRNG ids; distinct+non-trivial = (class, size bucket, owner relative to start {own, succ, far}, key wraps past the largest id, key equals a member id, wiring)")
	r.Assume("stabilised = predecessor, successor list and 48 fingers equal the sorted-ring oracle (reached through the real background tasks)")
	rng := r.Rand("rings")
	classes := []string{"random", "clustered", "adjacent", "extremes", "mixed"}
	nRings := r.Pick(40, 400)
	maxN := r.Pick(12, 48)
	var cases []ringCase
	for i := 0; i < nRings; i++ {
		class := classes[i%len(classes)]
		n := 1 + rng.Intn(maxN)
		if i < 10 {
			n = 1 + i%5 // always cover sizes 1..5
		}
		c := ringCase{Name: fmt.Sprintf("ring-%d", i), Class: class, IDs: genIDs(rng, class, n), NetV: i%3 == 1, RPC: i%3 == 2, Seed: rng.Int63()}
		if c.RPC && len(c.IDs) > 16 {
			c.IDs = c.IDs[:16]
		}
		if r.WantCase(c.Name) {
			cases = append(cases, c)
		}
	}
	par := runtime.NumCPU()
	nb := par * 2
	batches := make([][]ringCase, nb)
	for i, c := range cases {
		batches[i%nb] = append(batches[i%nb], c)
	}
	var args []any
	for _, b := range batches {
		if len(b) > 0 {
			args = append(args, b)
		}
	}
	batch.Run(r, "rings", args, par, 10*time.Minute, func(inflight, head string) string { return "crash:" + head })
	r.Finish()
}
