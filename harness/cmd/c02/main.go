// C02 — ring pointers converge to the true ring order after membership churn.
// Liveness restated as bounded progress: after the last membership event, within
// K = 6N+20 completed stabilize/fix-finger rounds per live node (counted at hooks)
// every live node's predecessor, successor list and 48 fingers equal the
// sorted-ring oracle.
package main

import (
	"encoding/json"
	"fmt"
	"math/rand"
	"runtime"
	"sort"
	"strings"
	"sync"
	"time"

	"verifharness/lab/batch"
	"verifharness/lab/child"
	"verifharness/lab/ev"
	"verifharness/lab/ringlab"

	"go.miragespace.co/specter/spec/chord"
)

const M = ringlab.M

type histCase struct {
	Name       string `json:"name"`
	Seed       int64  `json:"seed"`
	Initial    int    `json:"initial"`
	Events     int    `json:"events"`
	Goroutines int    `json:"goroutines"`
	NetV       bool   `json:"netv"`
	DelayMicro int    `json:"delay_micro"`
	LeaveBias  int    `json:"leave_bias"` // percent of events that are leaves
	Clustered  bool   `json:"clustered"`
}

func runHists(raw json.RawMessage) (any, error) {
	var cases []histCase
	if err := json.Unmarshal(raw, &cases); err != nil {
		return nil, err
	}
	rep := &batch.Report{}
	prog := batch.OpenProgress()
	for _, c := range cases {
		prog.Begin(c.Name, c)
		res := runHist(c, rep)
		prog.Done(res)
		rep.Add(res)
	}
	return rep, nil
}

type opLog struct {
	mu  sync.Mutex
	ops []string
}

func (o *opLog) add(f string, a ...any) {
	o.mu.Lock()
	o.ops = append(o.ops, fmt.Sprintf(f, a...))
	o.mu.Unlock()
}

var legalEdges = map[[2]chord.State]bool{
	{chord.Inactive, chord.Joining}:    true,
	{chord.Joining, chord.Active}:      true,
	{chord.Joining, chord.Inactive}:    true, // join failed
	{chord.Active, chord.Transferring}: true,
	{chord.Transferring, chord.Active}: true,
	{chord.Active, chord.Leaving}:      true,
	{chord.Leaving, chord.Active}:      true, // leave attempt reverted
	{chord.Leaving, chord.Left}:        true,
	{chord.Active, chord.Left}:         true, // the last node of a ring leaves without taking locks
}

func runHist(c histCase, rep *batch.Report) batch.CaseResult {
	res := batch.CaseResult{Name: c.Name}
	mode := ringlab.Direct
	if c.NetV {
		mode = ringlab.NetV
	}
	lab := ringlab.New(ringlab.Options{Mode: mode, Seed: c.Seed, HookDelayMaxMicro: c.DelayMicro, RecordEvents: true})
	defer lab.Close()
	rng := rand.New(rand.NewSource(c.Seed))
	used := map[uint64]bool{}
	base := rng.Uint64() % M
	newID := func() uint64 {
		for {
			var id uint64
			if c.Clustered {
				id = (base + uint64(rng.Intn(256))) % M
			} else {
				id = rng.Uint64() % M
			}
			if !used[id] {
				used[id] = true
				return id
			}
		}
	}
	var hmu sync.Mutex // harness bookkeeping
	var joined []*ringlab.Member
	leaving := map[uint64]bool{}
	log := &opLog{}

	first, err := lab.Spawn(newID(), ringlab.Memory)
	if err != nil {
		res.Inconclusive = err.Error()
		return res
	}
	if err := first.Create(); err != nil {
		res.Inconclusive = "create: " + err.Error()
		return res
	}
	joined = append(joined, first)
	log.add("create %d", first.ID)
	defer lab.StopAll()
	for i := 1; i < c.Initial; i++ {
		m, _ := lab.Spawn(newID(), ringlab.Memory)
		via := joined[rng.Intn(len(joined))]
		if err := m.Join(via); err != nil {
			log.add("join %d via %d: %v", m.ID, via.ID, err)
			continue
		}
		log.add("join %d via %d", m.ID, via.ID)
		joined = append(joined, m)
	}

	// pre-draw the event kinds and ids so the case is a function of the seed
	type evt struct {
		leave bool
		id    uint64
		pick  int64
	}
	perG := make([][]evt, c.Goroutines)
	for i := 0; i < c.Events; i++ {
		e := evt{leave: rng.Intn(100) < c.LeaveBias, id: newID(), pick: rng.Int63()}
		perG[i%c.Goroutines] = append(perG[i%c.Goroutines], e)
	}
	var wg sync.WaitGroup
	var joinsOK, joinsFailed, leavesDone, leavesGaveUp int64
	var cmu sync.Mutex
	for g := 0; g < c.Goroutines; g++ {
		wg.Add(1)
		go func(g int, evs []evt) {
			defer wg.Done()
			for _, e := range evs {
				if e.leave {
					hmu.Lock()
					cands := []*ringlab.Member{}
					for _, m := range joined {
						if !leaving[m.ID] {
							cands = append(cands, m)
						}
					}
					if len(cands) <= 1 { // keep at least one node
						hmu.Unlock()
						continue
					}
					m := cands[int(e.pick%int64(len(cands)))]
					leaving[m.ID] = true
					hmu.Unlock()
					log.add("g%d leave %d ...", g, m.ID)
					m.Leave()
					st := m.State()
					log.add("g%d leave %d -> %s", g, m.ID, st)
					cmu.Lock()
					if st == chord.Left {
						leavesDone++
					} else {
						leavesGaveUp++
					}
					cmu.Unlock()
					hmu.Lock()
					if st != chord.Left {
						delete(leaving, m.ID) // it gave up and stays a member
					} else {
						for i, x := range joined {
							if x == m {
								joined = append(joined[:i], joined[i+1:]...)
								break
							}
						}
					}
					hmu.Unlock()
				} else {
					hmu.Lock()
					cands := []*ringlab.Member{}
					for _, m := range joined {
						if !leaving[m.ID] {
							cands = append(cands, m)
						}
					}
					if len(cands) == 0 {
						cands = append(cands, joined...)
					}
					via := cands[int(e.pick%int64(len(cands)))]
					hmu.Unlock()
					m, err := lab.Spawn(e.id, ringlab.Memory)
					if err != nil {
						continue
					}
					log.add("g%d join %d via %d ...", g, m.ID, via.ID)
					err = m.Join(via)
					log.add("g%d join %d via %d -> %v", g, m.ID, via.ID, err)
					cmu.Lock()
					if err == nil {
						joinsOK++
					} else {
						joinsFailed++
					}
					cmu.Unlock()
					if err == nil {
						hmu.Lock()
						joined = append(joined, m)
						hmu.Unlock()
					}
				}
			}
		}(g, perG[g])
	}
	// advisory storm: FinishJoin(stabilize=true) is the advisory any neighbour may send; it runs a
	// stabilize round on the receiver that overlaps with the receiver's periodic rounds
	stormStop := make(chan struct{})
	var swg sync.WaitGroup
	for sg := 0; sg < 3; sg++ {
		swg.Add(1)
		go func(sg int) {
			defer swg.Done()
			sr := rand.New(rand.NewSource(c.Seed + int64(sg)*7919))
			for {
				select {
				case <-stormStop:
					return
				default:
				}
				hmu.Lock()
				var m *ringlab.Member
				if len(joined) > 0 {
					m = joined[sr.Intn(len(joined))]
				}
				hmu.Unlock()
				if m != nil && m.State() == chord.Active {
					_ = m.Node.FinishJoin(true, false)
				}
				time.Sleep(time.Duration(sr.Intn(300)) * time.Microsecond)
			}
		}(sg)
	}
	done := make(chan struct{})
	go func() {
		wg.Wait()
		// keep the storm going for a moment after the last membership event, then stop it
		time.Sleep(15 * time.Millisecond)
		close(stormStop)
		swg.Wait()
		close(done)
	}()
	select {
	case <-done:
	case <-time.After(4 * time.Minute):
		res.Inconclusive = "watchdog: membership events did not return"
		return res
	}
	rep.Count("joins_ok", joinsOK)
	rep.Count("joins_failed", joinsFailed)
	rep.Count("leaves_done", leavesDone)
	rep.Count("leaves_gave_up", leavesGaveUp)

	live := lab.Live()
	n := int64(len(live))
	K := 6*n + 20
	cv := lab.WaitConverged(K, 3*time.Minute, true)
	rep.Count("rounds_to_converge_sum", cv.Rounds)
	rep.Max("rounds_to_converge_max", cv.Rounds)
	rep.Max("live_nodes_max", n)
	ids := []uint64{}
	for _, m := range lab.Live() {
		ids = append(ids, m.ID)
	}
	if !cv.Converged {
		if cv.Watchdog {
			res.Inconclusive = fmt.Sprintf("watchdog before %d rounds completed (%d done): %s", K, cv.Rounds, cv.Diff)
		} else {
			kind := "pointers"
			if strings.Contains(cv.Diff, "finger") {
				kind = "fingers"
			} else if strings.Contains(cv.Diff, "successors") {
				kind = "successors"
			} else if strings.Contains(cv.Diff, "predecessor") {
				kind = "predecessor"
			}
			dump := map[string]any{}
			for _, m := range lab.Live() {
				p := m.Node.VerifPointers()
				dump[fmt.Sprint(m.ID)] = map[string]any{"pred": p.Predecessor, "succs": p.Successors, "state": m.State().String()}
			}
			res.Violations = append(res.Violations, batch.Viol{Key: "not-converged:" + kind,
				What:    fmt.Sprintf("after %d rounds (bound %d) on %d live nodes: %s", cv.Rounds, K, n, cv.Diff),
				Witness: map[string]any{"case": c, "members": ids, "diff": cv.Diff, "ops": log.ops, "pointers": dump}})
		}
	}
	// lifecycle legality of every node's recorded state history
	for _, m := range lab.All() {
		h := m.Node.VerifStateHistory()
		for i := 1; i < len(h); i++ {
			if !legalEdges[[2]chord.State{h[i-1], h[i]}] {
				res.Violations = append(res.Violations, batch.Viol{Key: fmt.Sprintf("illegal-lifecycle-edge:%s->%s", h[i-1], h[i]),
					What:    fmt.Sprintf("node %d lifecycle history %v contains %s -> %s", m.ID, h, h[i-1], h[i]),
					Witness: map[string]any{"case": c, "node": m.ID, "history": fmt.Sprint(h), "ops": log.ops}})
				break
			}
		}
	}
	// distinctness: order in which membership hook events of different nodes interleaved
	var sb strings.Builder
	idx := map[uint64]int{}
	for _, e := range lab.Events() {
		if _, ok := idx[e.Node]; !ok {
			idx[e.Node] = len(idx)
		}
		fmt.Fprintf(&sb, "%s@%d;", e.Point, idx[e.Node])
	}
	res.Sig = sb.String()
	if joinsOK+leavesDone == 0 {
		res.Sig = "" // nothing happened: trivial
	}
	sort.Slice(ids, func(i, j int) bool { return ids[i] < ids[j] })
	res.Sample = map[string]any{"initial": c.Initial, "events": c.Events, "goroutines": c.Goroutines, "netv": c.NetV, "final_members": len(ids), "joins_ok": joinsOK, "joins_failed": joinsFailed, "leaves_done": leavesDone, "leaves_gave_up": leavesGaveUp, "rounds_to_converge": cv.Rounds, "first_ops": head(log.ops, 12)}
	return res
}

func head(s []string, n int) []string {
	if len(s) > n {
		return s[:n]
	}
	return s
}

func main() {
	child.Register("hists", runHists)
	child.Main()
	r := ev.Start("C02", "exploration")
	r.SetRule("seeded histories: create + initial sequential joins, then join/leave events issued concurrently from 1-4 goroutines on real LocalNodes while 3 goroutines send stabilize advisories to random members (overlapping stabilize rounds) (direct and proxied wiring, random and clustered ids, seeded delays at the chord hook points); after the last event every live node must reach the sorted-ring pointer oracle (predecessor, successor list, 48 fingers) within K=6N+20 completed stabilize and fix-finger rounds; distinct+non-trivial = hash of the order in which membership hook events of different nodes interleaved, for histories in which at least one join or leave completed")
	r.Assume("membership is read from node state (a Leave may give up and the node stays a member)")
	r.Assume("liveness restated as bounded progress: K=6N+20 rounds per live node, counted at the round-done hooks; the wall-clock watchdog only yields inconclusive")
	rng := r.Rand("hists")
	n := r.Pick(30, 300)
	maxEv := r.Pick(12, 40)
	maxInit := r.Pick(8, 40)
	var cases []histCase
	for i := 0; i < n; i++ {
		c := histCase{
			Name: fmt.Sprintf("hist-%d", i), Seed: rng.Int63(),
			Initial: 1 + rng.Intn(maxInit), Events: 2 + rng.Intn(maxEv-1), Goroutines: 1 + rng.Intn(4),
			NetV: i%2 == 0, DelayMicro: []int{0, 200, 2000}[rng.Intn(3)], LeaveBias: []int{30, 50, 70}[rng.Intn(3)], Clustered: rng.Intn(4) == 0,
		}
		if r.WantCase(c.Name) {
			cases = append(cases, c)
		}
	}
	par := runtime.NumCPU()
	nb := par * 2
	batches := make([][]histCase, nb)
	for i, c := range cases {
		batches[i%nb] = append(batches[i%nb], c)
	}
	var args []any
	for _, b := range batches {
		if len(b) > 0 {
			args = append(args, b)
		}
	}
	batch.Run(r, "hists", args, par, 20*time.Minute, func(inflight, head string) string { return "crash:" + head })
	batch.ReportRaces(r, "/chord.", "/kv/")
	r.Finish()
}
