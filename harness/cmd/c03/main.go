// C03 — acknowledged KV data survives graceful joins and leaves.
// Single writer per key (deterministic model), every logical operation retried
// until acknowledged, churn concurrently; successful reads during churn and reads
// from EVERY live node after quiescence must return the last acknowledged state;
// every key holding data is stored on exactly one live node.
package main

import (
	"encoding/json"
	"fmt"
	"runtime"
	"time"

	"verifharness/lab/batch"
	"verifharness/lab/child"
	"verifharness/lab/ev"
	"verifharness/lab/ringlab"
)

func runCases(raw json.RawMessage) (any, error) {
	var cases []ringlab.ChurnCfg
	if err := json.Unmarshal(raw, &cases); err != nil {
		return nil, err
	}
	rep := &batch.Report{}
	prog := batch.OpenProgress()
	for _, c := range cases {
		prog.Begin(c.Name, c)
		res := runCase(c, rep)
		prog.Done(res)
		rep.Add(res)
	}
	return rep, nil
}

func runCase(c ringlab.ChurnCfg, rep *batch.Report) batch.CaseResult {
	out := batch.CaseResult{Name: c.Name}
	res := ringlab.RunChurnKV(c, child.InChildDir())
	if res.Setup != "" {
		out.Inconclusive = "setup: " + res.Setup
		return out
	}
	if res.Watchdog != "" {
		out.Inconclusive = "watchdog: " + res.Watchdog
		return out
	}
	if !res.Converge.Converged {
		if res.Converge.Watchdog {
			out.Inconclusive = "watchdog before the ring quiesced: " + res.Converge.Diff
		} else {
			out.Inconclusive = "ring did not converge after churn (C02's subject): " + res.Converge.Diff
		}
		return out
	}
	for _, f := range ringlab.CheckResidue(res) {
		out.Violations = append(out.Violations, batch.Viol{Key: f.Key, What: f.What, Witness: f.Witness})
	}
	// the cause behind misplaced data, seen directly: a predecessor pointer that moved away from a live node
	for _, f := range ringlab.CheckPredPointer(res) {
		out.Violations = append(out.Violations, batch.Viol{Key: f.Key, What: f.What, Witness: f.Witness})
	}
	rep.Count("predecessor_pointer_samples_checked", res.PredSamples)
	rep.Count("straggler_stalls_injected", res.Stragglers)
	findings, uncertain, reads := ringlab.CheckSingleWriter(res)
	for _, f := range findings {
		out.Violations = append(out.Violations, batch.Viol{Key: f.Key, What: f.What, Witness: f.Witness})
		if len(out.Violations) >= 5 {
			break
		}
	}
	acked, retry := 0, 0
	for _, o := range res.Ops {
		if o.Err == "" && o.Kind.Write() {
			acked++
		}
		if o.Retryable {
			retry++
		}
	}
	rep.Count("ops_recorded", int64(len(res.Ops)))
	rep.Count("writes_acknowledged", int64(acked))
	rep.Count("retryable_errors_seen", int64(retry))
	rep.Count("reads_checked", int64(reads))
	rep.Count("keys_left_uncertain", int64(uncertain))
	rep.Count("ops_abandoned", int64(res.Abandoned))
	rep.Count("joins_ok", int64(res.JoinsOK))
	rep.Count("joins_failed", int64(res.JoinsFailed))
	rep.Count("leaves_done", int64(res.LeavesDone))
	rep.Count("leaves_gave_up", int64(res.LeavesGave))
	rep.Count("backend_"+ringlab.Backend(c.Backend).String(), 1)
	if c.RealRPC {
		rep.Count("executions_over_real_rpc", 1)
	}
	if res.JoinsOK+res.LeavesDone > 0 && acked > 0 {
		out.Sig = res.EventSig
		out.Sigs = append(out.Sigs, "overlaps:"+res.OverlapSig)
	}
	out.Sample = map[string]any{"cfg": c, "final_members": len(res.Live), "ops": len(res.Ops), "acked_writes": acked, "retryable_errors": retry, "reads_checked": reads, "joins_ok": res.JoinsOK, "leaves_done": res.LeavesDone, "first_ops": firstOps(res.Ops, 6)}
	return out
}

func firstOps(ops []ringlab.OpRec, n int) []string {
	out := []string{}
	for i, o := range ops {
		if i >= n {
			break
		}
		out = append(out, fmt.Sprintf("c%d#%d.%d %s(%s,%s) via %d -> err=%q val=%q", o.Client, o.Seq, o.Attempt, o.Kind, o.Key, o.Arg, o.Entry, o.Err, o.Value))
	}
	return out
}

func main() {
	child.Register("cases", runCases)
	child.Main()
	r := ev.Start("C03", "exploration")
	r.SetRule("executions of real rings (memory in all tiers; AOF and SQLite for a third of the cases, <= 8 nodes) with 2-4 single-writer clients issuing Put(unique value)/Delete/PrefixAppend/PrefixRemove/Get/PrefixContains/PrefixList through random entry nodes (re-picked on every retry) while 1-3 goroutines join and leave nodes; seeded delays at the chord hook points; distinct+non-trivial = hash of the interleaving of membership hook events across nodes, and separately the set of kinds of membership operations whose windows overlapped ({join,leave} x {join,leave} x ring distance adjacent / one node between / farther, with or without a failed attempt), for executions with at least one completed join/leave and one acknowledged write; a fifth of the executions store 220-520 (a tenth: 2600-3400, on a ring of at most 2 nodes) write-once ballast keys before the churn and read each back after quiescence")
	r.Assume("each key has a single sequential writer, so the model of acknowledged state is deterministic; an operation is retried until acknowledged")
	r.Assume("whether a key holding no data is still listed by a raw store is not judged")
	rng := r.Rand("cases")
	n := r.Pick(24, 300)
	var cases []ringlab.ChurnCfg
	for i := 0; i < n; i++ {
		c := ringlab.ChurnCfg{
			Name: fmt.Sprintf("churn-%d", i), Seed: rng.Int63(), Initial: 1 + rng.Intn(r.Pick(6, 12)), NetV: true,
			Keys: 4 + rng.Intn(5), Clients: 2 + rng.Intn(3), OpsPerClient: r.Pick(40, 80), SingleWriter: true,
			ChurnG: 1 + rng.Intn(3), ChurnEvents: r.Pick(10, 30), DelayMicro: []int{0, 300, 2000}[rng.Intn(3)], LeaveBias: []int{35, 50, 65}[rng.Intn(3)], MaxNodes: r.Pick(10, 24),
		}
		if i%3 == 1 {
			c.Backend = int(ringlab.AOF)
			c.MaxNodes = 8
			if c.Initial > 6 {
				c.Initial = 6
			}
		} else if i%3 == 2 {
			c.Backend = int(ringlab.SQLite)
			c.MaxNodes = 8
			if c.Initial > 6 {
				c.Initial = 6
			}
		}
		if !r.Quick() && i%6 == 3 && c.Backend == int(ringlab.Memory) {
			// the real RPC path between the nodes (RemoteNode, twirp over HTTP/2, production timeouts)
			c.NetV, c.RealRPC = false, true
			c.MaxNodes = 6
			if c.Initial > 4 {
				c.Initial = 4
			}
		}
		if i%5 == 4 && !c.RealRPC {
			c.Ballast = 220 + (i*53)%300 // acknowledged once before the churn, every hand-over moves hundreds of keys
		}
		if i%10 == 9 && !c.RealRPC {
			// a small ring holding thousands of keys: a node that leaves hands over more than 1024 at once
			c.Ballast = 2600 + (i*53)%800
			c.MaxNodes = 2
			c.Initial = 1
		}
		if i%4 == 0 && !c.RealRPC {
			c.Straggler = true // one step in twelve of Notify / stabilize stalls for 20-40 ms
		}
		if r.WantCase(c.Name) {
			cases = append(cases, c)
		}
	}
	par := runtime.NumCPU()
	nb := par * 2
	if nb > len(cases) {
		nb = len(cases)
	}
	batches := make([][]ringlab.ChurnCfg, nb)
	for i, c := range cases {
		batches[i%nb] = append(batches[i%nb], c)
	}
	var args []any
	for _, b := range batches {
		if len(b) > 0 {
			args = append(args, b)
		}
	}
	batch.Run(r, "cases", args, par, 20*time.Minute, func(inflight, head string) string { return "crash:" + head })
	batch.ReportRaces(r, "/chord.", "/kv/")
	r.Finish()
}
