// C04 — DHT KV operations stay linearizable while the ring changes.
// Multi-writer clients over few keys through random entry nodes during churn;
// every attempt is an operation of the recorded history (client boundary, one
// monotonic clock); attempts that failed with a retryable error are removed (they
// must have no effect); porcupine checks each (key, simple|prefix) partition
// against a sequential register / set.
package main

import (
	"encoding/json"
	"fmt"
	"runtime"
	"strings"
	"time"

	"verifharness/lab/batch"
	"verifharness/lab/child"
	"verifharness/lab/ev"
	"verifharness/lab/ringlab"
)

func runCases(raw json.RawMessage) (any, error) {
	var cases []ringlab.ChurnCfg
	if err := json.Unmarshal(raw, &cases); err != nil {
		return nil, err
	}
	rep := &batch.Report{}
	prog := batch.OpenProgress()
	for _, c := range cases {
		prog.Begin(c.Name, c)
		res := runCase(c, rep)
		prog.Done(res)
		rep.Add(res)
	}
	return rep, nil
}

// directed schedules (hook-ordered): see ringlab/directed.go
type directedCase struct {
	Name    string `json:"name"`
	Seed    int64  `json:"seed"`
	NetV    bool   `json:"netv"`
	Backend int    `json:"backend"`
	Kind    int    `json:"kind"` // 0: Notify held over a join, 1: stabilize round held over a join
}

func runDirected(raw json.RawMessage) (any, error) {
	var cases []directedCase
	if err := json.Unmarshal(raw, &cases); err != nil {
		return nil, err
	}
	rep := &batch.Report{}
	prog := batch.OpenProgress()
	for _, c := range cases {
		prog.Begin(c.Name, c)
		out := batch.CaseResult{Name: c.Name}
		var d *ringlab.DirectedResult
		if c.Kind == 1 {
			d = ringlab.RunStabilizeHeldOverJoin(c.Seed, c.NetV)
		} else {
			d = ringlab.RunNotifyHeldOverJoin(c.Seed, c.NetV, ringlab.Backend(c.Backend))
		}
		if d.Setup != "" {
			// the schedule could not be built this time (e.g. the leave itself repaired the pointer): nothing judged
			rep.Count("directed_schedules_not_constructed", 1)
			why := d.Setup
			if i := strings.IndexAny(why, "0123456789"); i > 0 {
				why = why[:i]
			}
			rep.Count("directed_not_constructed: "+strings.TrimSpace(why), 1)
			out.Sig = ""
		} else {
			nw := 0
			for range d.Windows {
				nw++
			}
			out.Sig = fmt.Sprintf("directed/%s/netv=%v/backend=%d/windows=%d", d.Name, c.NetV, c.Backend, nw)
			rep.Count("directed_schedules_constructed("+d.Name+")", 1)
			out.Sample = map[string]any{"schedule": d.Name, "windows_reached": d.Windows, "pred_of_S_at_end": d.PredAtEnd, "trace": d.Trace}
		}
		for _, f := range d.Findings {
			out.Violations = append(out.Violations, batch.Viol{Key: f.Key, What: f.What, Witness: f.Witness})
		}
		prog.Done(out)
		rep.Add(out)
	}
	return rep, nil
}

func runCase(c ringlab.ChurnCfg, rep *batch.Report) batch.CaseResult {
	out := batch.CaseResult{Name: c.Name}
	res := ringlab.RunChurnKV(c, child.InChildDir())
	if res.Setup != "" {
		out.Inconclusive = "setup: " + res.Setup
		return out
	}
	if res.Watchdog != "" {
		out.Inconclusive = "watchdog: " + res.Watchdog
		return out
	}
	// the cause behind misplaced data, seen directly: a predecessor pointer that moved away from a live node
	for _, f := range ringlab.CheckPredPointer(res) {
		out.Violations = append(out.Violations, batch.Viol{Key: f.Key, What: f.What, Witness: f.Witness})
	}
	rep.Count("predecessor_pointer_samples_checked", res.PredSamples)
	rep.Count("straggler_stalls_injected", res.Stragglers)
	findings, st := ringlab.CheckLinearizable(res, 2*time.Minute)
	for _, f := range findings {
		out.Violations = append(out.Violations, batch.Viol{Key: f.Key, What: f.What, Witness: f.Witness})
	}
	// "either fails with a retryable error or takes effect": any other error is a violation
	seen := map[string]bool{}
	for _, o := range st.Unexpected {
		k := "non-retryable-error:" + o.Kind.String()
		if seen[k] {
			continue
		}
		seen[k] = true
		out.Violations = append(out.Violations, batch.Viol{Key: k, What: fmt.Sprintf("%s(%s) via node %d failed with a non-retryable error during churn: %s", o.Kind, o.Key, o.Entry, o.Err), Witness: map[string]any{"op": o, "member_log": res.MemberLog}})
	}
	if st.Unknown > 0 {
		out.Inconclusive = fmt.Sprintf("porcupine could not decide %d partition(s) within its timeout", st.Unknown)
	}
	if !res.Converge.Converged && res.Converge.Watchdog {
		out.Inconclusive = "watchdog before the ring quiesced"
	}
	rep.Count("ops_recorded", int64(len(res.Ops)))
	rep.Count("ops_in_checked_histories", int64(st.OpsChecked))
	rep.Count("partitions_checked", int64(st.Partitions))
	rep.Count("retryable_errors_removed", int64(st.RetryableOps))
	rep.Count("joins_ok", int64(res.JoinsOK))
	rep.Count("leaves_done", int64(res.LeavesDone))
	rep.Count("backend_"+ringlab.Backend(c.Backend).String(), 1)
	if c.RealRPC {
		rep.Count("executions_over_real_rpc", 1)
	}
	if res.JoinsOK+res.LeavesDone > 0 && st.OpsChecked > 0 {
		out.Sig = res.EventSig
		out.Sigs = append(out.Sigs, "overlaps:"+res.OverlapSig)
	}
	out.Sample = map[string]any{"cfg": c, "ops": len(res.Ops), "partitions": st.Partitions, "retryable_removed": st.RetryableOps, "joins_ok": res.JoinsOK, "leaves_done": res.LeavesDone, "first_ops": firstOps(res.Ops, 6)}
	return out
}

func firstOps(ops []ringlab.OpRec, n int) []string {
	out := []string{}
	for i, o := range ops {
		if i >= n {
			break
		}
		out = append(out, fmt.Sprintf("c%d#%d.%d %s(%s,%s) via %d [%d,%d] -> err=%q val=%q", o.Client, o.Seq, o.Attempt, o.Kind, o.Key, o.Arg, o.Entry, o.Call, o.Return, o.Err, o.Value))
	}
	return out
}

func main() {
	child.Register("cases", runCases)
	child.Register("directed", runDirected)
	child.Main()
	r := ev.Start("C04", "exploration")
	r.SetRule("executions of real rings with 3-6 multi-writer clients over 2-4 keys issuing all seven KV operations (unique put values) through random entry nodes while 1-3 goroutines join and leave nodes, seeded delays at the chord hook points (around key transfer, state changes and between lookup and lock); after quiescence every key is read from every live node (appended to the history); distinct+non-trivial = hash of the interleaving of membership hook events across nodes, and separately the set of kinds of membership operations whose windows overlapped ({join,leave} x {join,leave} x ring distance adjacent / one node between / farther, with or without a failed attempt), for executions with a completed join/leave and a non-empty checked history; plus directed hook-ordered schedules: after a leave the first Notify reaching the successor is held between its ping and its apply while a second Notify repairs the pointer and a node joins in between, then released (the predecessor pointer must not move back; a write through the successor for a key of the joiner must be visible through its neighbours); and a periodic stabilize round held between computing and storing its list while a join's advisory round stores the newer list, then released (the successor pointer must not move back)")
	r.Assume("operations that ended with a retryable error are removed from the history: if one took effect, a later read observes a value no remaining write produced and porcupine rejects the history")
	r.Assume("ErrKVSimpleConflict on Put/Delete is a failed CAS without effect; ErrKVPrefixConflict is the duplicate-child outcome of PrefixAppend")
	rng := r.Rand("cases")
	n := r.Pick(40, 600)
	var cases []ringlab.ChurnCfg
	for i := 0; i < n; i++ {
		c := ringlab.ChurnCfg{
			Name: fmt.Sprintf("lin-%d", i), Seed: rng.Int63(), Initial: 1 + rng.Intn(r.Pick(6, 10)), NetV: true,
			Keys: 2 + rng.Intn(3), Clients: 3 + rng.Intn(4), OpsPerClient: 25 + rng.Intn(25), SingleWriter: false,
			ChurnG: 1 + rng.Intn(3), ChurnEvents: r.Pick(10, 24), DelayMicro: []int{100, 500, 3000}[rng.Intn(3)], LeaveBias: []int{35, 50, 65}[rng.Intn(3)], MaxNodes: r.Pick(10, 16),
		}
		if i%5 == 3 {
			c.Backend = int(ringlab.AOF)
			c.MaxNodes = 8
		} else if i%5 == 4 {
			c.Backend = int(ringlab.SQLite)
			c.MaxNodes = 8
		}
		if c.Initial > c.MaxNodes-2 {
			c.Initial = c.MaxNodes - 2
		}
		if !r.Quick() && i%8 == 7 && c.Backend == int(ringlab.Memory) {
			// the real RPC path between the nodes (RemoteNode, twirp over HTTP/2, production timeouts)
			c.NetV, c.RealRPC = false, true
			c.MaxNodes = 6
			if c.Initial > 4 {
				c.Initial = 4
			}
		}
		if i%4 == 0 && !c.RealRPC {
			c.Straggler = true // one step in twelve of Notify / stabilize stalls for 20-40 ms
		}
		if r.WantCase(c.Name) {
			cases = append(cases, c)
		}
	}
	par := runtime.NumCPU()
	nb := par * 2
	if nb > len(cases) {
		nb = len(cases)
	}
	batches := make([][]ringlab.ChurnCfg, nb)
	for i, c := range cases {
		batches[i%nb] = append(batches[i%nb], c)
	}
	var args []any
	for _, b := range batches {
		if len(b) > 0 {
			args = append(args, b)
		}
	}
	batch.Run(r, "cases", args, par, 25*time.Minute, func(inflight, head string) string { return "crash:" + head })
	// directed schedules: a Notify held between its ping and its apply while a join completes
	drng := r.Rand("directed")
	nd := r.Pick(16, 128)
	dbatches := make([][]directedCase, min(par, nd))
	for i := 0; i < nd; i++ {
		c := directedCase{Name: fmt.Sprintf("directed-%d", i), Seed: drng.Int63(), NetV: i%2 == 1, Backend: []int{int(ringlab.Memory), int(ringlab.Memory), int(ringlab.AOF), int(ringlab.SQLite)}[i%4], Kind: (i / 2) % 2}
		if r.WantCase(c.Name) {
			dbatches[i%len(dbatches)] = append(dbatches[i%len(dbatches)], c)
		}
	}
	var dargs []any
	for _, b := range dbatches {
		if len(b) > 0 {
			dargs = append(dargs, b)
		}
	}
	if len(dargs) > 0 {
		batch.Run(r, "directed", dargs, par, 10*time.Minute, func(inflight, head string) string { return "crash:" + head })
	}
	batch.ReportRaces(r, "/chord.", "/kv/")
	r.Finish()
}
