// C05 — each stored key lives only on its responsible node once the ring is stable.
// Same churn executions as C03; the invariant is evaluated at the quiescent point:
// every key a live node's raw store reports hashes into (predecessor, self] and no
// key is reported by two nodes.
package main

import (
	"encoding/json"
	"fmt"
	"runtime"
	"time"

	"verifharness/lab/batch"
	"verifharness/lab/child"
	"verifharness/lab/ev"
	"verifharness/lab/ringlab"
)

func runCases(raw json.RawMessage) (any, error) {
	var cases []ringlab.ChurnCfg
	if err := json.Unmarshal(raw, &cases); err != nil {
		return nil, err
	}
	rep := &batch.Report{}
	prog := batch.OpenProgress()
	for _, c := range cases {
		prog.Begin(c.Name, c)
		res := runCase(c, rep)
		prog.Done(res)
		rep.Add(res)
	}
	return rep, nil
}

func runCase(c ringlab.ChurnCfg, rep *batch.Report) batch.CaseResult {
	out := batch.CaseResult{Name: c.Name}
	res := ringlab.RunChurnKV(c, child.InChildDir())
	if res.Setup != "" {
		out.Inconclusive = "setup: " + res.Setup
		return out
	}
	if res.Watchdog != "" {
		out.Inconclusive = "watchdog: " + res.Watchdog
		return out
	}
	if !res.Converge.Converged {
		if res.Converge.Watchdog {
			out.Inconclusive = "watchdog before the ring quiesced: " + res.Converge.Diff
		} else {
			out.Inconclusive = "ring did not converge after churn (C02's subject): " + res.Converge.Diff
		}
		return out
	}
	for _, f := range ringlab.CheckResidue(res) {
		out.Violations = append(out.Violations, batch.Viol{Key: f.Key, What: f.What, Witness: f.Witness})
	}
	// the cause behind misplaced data, seen directly: a predecessor pointer that moved away from a live node
	for _, f := range ringlab.CheckPredPointer(res) {
		out.Violations = append(out.Violations, batch.Viol{Key: f.Key, What: f.What, Witness: f.Witness})
	}
	rep.Count("predecessor_pointer_samples_checked", res.PredSamples)
	rep.Count("straggler_stalls_injected", res.Stragglers)
	findings, keysSeen := ringlab.CheckOwnership(res)
	uncertain, reads := 0, 0
	rep.Count("stored_keys_checked", int64(keysSeen))
	rep.Count("live_nodes_checked", int64(len(res.Live)))
	for _, f := range findings {
		out.Violations = append(out.Violations, batch.Viol{Key: f.Key, What: f.What, Witness: f.Witness})
		if len(out.Violations) >= 5 {
			break
		}
	}
	acked, retry := 0, 0
	for _, o := range res.Ops {
		if o.Err == "" && o.Kind.Write() {
			acked++
		}
		if o.Retryable {
			retry++
		}
	}
	rep.Count("ops_recorded", int64(len(res.Ops)))
	rep.Count("writes_acknowledged", int64(acked))
	rep.Count("retryable_errors_seen", int64(retry))
	rep.Count("reads_checked", int64(reads))
	rep.Count("keys_left_uncertain", int64(uncertain))
	rep.Count("ops_abandoned", int64(res.Abandoned))
	rep.Count("joins_ok", int64(res.JoinsOK))
	rep.Count("joins_failed", int64(res.JoinsFailed))
	rep.Count("leaves_done", int64(res.LeavesDone))
	rep.Count("leaves_gave_up", int64(res.LeavesGave))
	rep.Count("backend_"+ringlab.Backend(c.Backend).String(), 1)
	if c.RealRPC {
		rep.Count("executions_over_real_rpc", 1)
	}
	if res.JoinsOK+res.LeavesDone > 0 && acked > 0 {
		out.Sig = res.EventSig
		out.Sigs = append(out.Sigs, "overlaps:"+res.OverlapSig)
	}
	out.Sample = map[string]any{"cfg": c, "final_members": len(res.Live), "ops": len(res.Ops), "acked_writes": acked, "retryable_errors": retry, "reads_checked": reads, "joins_ok": res.JoinsOK, "leaves_done": res.LeavesDone, "first_ops": firstOps(res.Ops, 6)}
	return out
}

func firstOps(ops []ringlab.OpRec, n int) []string {
	out := []string{}
	for i, o := range ops {
		if i >= n {
			break
		}
		out = append(out, fmt.Sprintf("c%d#%d.%d %s(%s,%s) via %d -> err=%q val=%q", o.Client, o.Seq, o.Attempt, o.Kind, o.Key, o.Arg, o.Entry, o.Err, o.Value))
	}
	return out
}

// directed hook-ordered schedules (ringlab/directed.go)
type directedCase struct {
	Name    string `json:"name"`
	Seed    int64  `json:"seed"`
	NetV    bool   `json:"netv"`
	Backend int    `json:"backend"`
}

func runDirected(raw json.RawMessage) (any, error) {
	var cases []directedCase
	if err := json.Unmarshal(raw, &cases); err != nil {
		return nil, err
	}
	rep := &batch.Report{}
	prog := batch.OpenProgress()
	for _, c := range cases {
		prog.Begin(c.Name, c)
		out := batch.CaseResult{Name: c.Name}
		d := ringlab.RunJoinBehindDeparted(c.Seed, c.NetV, ringlab.Backend(c.Backend))
		if d.Setup != "" {
			rep.Count("directed_schedules_not_constructed", 1)
		} else {
			nw := 0
			for range d.Windows {
				nw++
			}
			out.Sig = fmt.Sprintf("directed/%s/netv=%v/backend=%d/windows=%d", d.Name, c.NetV, c.Backend, nw)
			rep.Count("directed_schedules_constructed(join right behind a departed node)", 1)
			out.Sample = map[string]any{"schedule": d.Name, "windows_reached": d.Windows, "trace": d.Trace}
		}
		for _, f := range d.Findings {
			out.Violations = append(out.Violations, batch.Viol{Key: f.Key, What: f.What, Witness: f.Witness})
		}
		prog.Done(out)
		rep.Add(out)
	}
	return rep, nil
}

func directedBatches(r *ev.Run, par, nd int) []any {
	drng := r.Rand("directed")
	db := make([][]directedCase, min(par, nd))
	for i := 0; i < nd; i++ {
		c := directedCase{Name: fmt.Sprintf("directed-%d", i), Seed: drng.Int63(), NetV: i%2 == 1, Backend: []int{int(ringlab.Memory), int(ringlab.Memory), int(ringlab.AOF), int(ringlab.SQLite)}[i%4]}
		if r.WantCase(c.Name) {
			db[i%len(db)] = append(db[i%len(db)], c)
		}
	}
	var out []any
	for _, b := range db {
		if len(b) > 0 {
			out = append(out, b)
		}
	}
	return out
}

func main() {
	child.Register("cases", runCases)
	child.Register("directed", runDirected)
	child.Main()
	r := ev.Start("C05", "exploration")
	r.SetRule("same generator as C03 (independent seeds): executions of real rings (memory/AOF/SQLite) with single-writer clients and 1-3 churn goroutines; at quiescence (pointer oracle reached) every live node's RangeKeys(0,0) and ListKeys('') are read; a quarter of the executions also hold lease-only keys that expire (1 s TTL, real time) before a second churn phase moves their ranges; distinct+non-trivial = hash of the interleaving of membership hook events across nodes, and separately the set of kinds of membership operations whose windows overlapped ({join,leave} x {join,leave} x ring distance adjacent / one node between / farther, with or without a failed attempt), for executions with at least one completed join/leave and one acknowledged write; keys are biased to many (16-40) so that every node owns some; a fifth of the executions additionally store 260-560 write-once ballast keys before the churn, so that hand-overs move hundreds of keys, and every eleventh holds 2600-3400 of them on a ring that starts with one node (one join or leave moves more than 512 / 1024 keys); plus directed hook-ordered schedules: a member leaves while the periodic tasks are parked (its successor holds its keys and still names it), a node then joins right behind it through that successor; after convergence every stored key must sit on its owner")
	r.Assume("ownership ranges are computed from the sorted ids of the live nodes after the pointer oracle has been reached")
	rng := r.Rand("cases-c05")
	n := r.Pick(24, 300)
	var cases []ringlab.ChurnCfg
	for i := 0; i < n; i++ {
		c := ringlab.ChurnCfg{
			Name: fmt.Sprintf("churn-%d", i), Seed: rng.Int63(), Initial: 1 + rng.Intn(r.Pick(6, 12)), NetV: true,
			Keys: 16 + rng.Intn(25), Clients: 2 + rng.Intn(3), OpsPerClient: r.Pick(40, 80), SingleWriter: true,
			ChurnG: 1 + rng.Intn(3), ChurnEvents: r.Pick(10, 30), DelayMicro: []int{0, 300, 2000}[rng.Intn(3)], LeaveBias: []int{35, 50, 65}[rng.Intn(3)], MaxNodes: r.Pick(10, 24),
		}
		if i%3 == 1 {
			c.Backend = int(ringlab.AOF)
			c.MaxNodes = 8
			if c.Initial > 6 {
				c.Initial = 6
			}
		} else if i%3 == 2 {
			c.Backend = int(ringlab.SQLite)
			c.MaxNodes = 8
			if c.Initial > 6 {
				c.Initial = 6
			}
		}
		if i%4 == 3 {
			c.Leases = true // lease-only keys that expire before a second churn phase
		}
		if i%5 == 2 {
			c.Ballast = 260 + (i*37)%300 // every hand-over moves hundreds of keys
		}
		if i%11 == 6 {
			// a ring of at most three nodes holding thousands of keys: one join or leave hands over more
			// than any plausible batch size (512, 1024) at once
			c.Ballast = 2600 + (i*37)%800
			c.MaxNodes = 3
			c.Initial = 1
		}
		if !r.Quick() && i%6 == 3 && c.Backend == int(ringlab.Memory) {
			// the real RPC path between the nodes (RemoteNode, twirp over HTTP/2, production timeouts)
			c.NetV, c.RealRPC = false, true
			c.MaxNodes = 6
			if c.Initial > 4 {
				c.Initial = 4
			}
		}
		if i%4 == 0 && !c.RealRPC {
			c.Straggler = true // one step in twelve of Notify / stabilize stalls for 20-40 ms
		}
		if r.WantCase(c.Name) {
			cases = append(cases, c)
		}
	}
	par := runtime.NumCPU()
	nb := par * 2
	if nb > len(cases) {
		nb = len(cases)
	}
	batches := make([][]ringlab.ChurnCfg, nb)
	for i, c := range cases {
		batches[i%nb] = append(batches[i%nb], c)
	}
	var args []any
	for _, b := range batches {
		if len(b) > 0 {
			args = append(args, b)
		}
	}
	batch.Run(r, "cases", args, par, 20*time.Minute, func(inflight, head string) string { return "crash:" + head })
	if dargs := directedBatches(r, par, r.Pick(12, 96)); len(dargs) > 0 {
		batch.Run(r, "directed", dargs, par, 10*time.Minute, func(inflight, head string) string { return "crash:" + head })
	}
	r.Finish()
}
