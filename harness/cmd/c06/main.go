// C06 — a node takes part in at most one membership change at a time.
// Aimed contention on rings of real LocalNodes (several joiners into one gap, a
// leave racing a join on the same node / on its neighbour, adjacent leaves,
// double Leave), seeded delays inside the critical windows. Monitors: transfer
// windows per node never overlap (hook counters), lifecycle edges are legal,
// lock acquisitions are conserved (one Active->Transferring edge per granted
// request), every refusal is retryable, and afterwards every node serves again.
package main

import (
	"context"
	"encoding/json"
	"errors"
	"fmt"
	"math/rand"
	"runtime"
	"sort"
	"strings"
	"sync"
	"time"

	"verifharness/lab/batch"
	"verifharness/lab/child"
	"verifharness/lab/ev"
	"verifharness/lab/ringlab"

	"go.miragespace.co/specter/spec/chord"
)

const M = ringlab.M

var scenarios = []string{"joiners-one-gap", "leave-vs-join-same-node", "leave-vs-join-neighbour", "adjacent-leaves", "double-leave", "mixed"}

type ccase struct {
	Name     string `json:"name"`
	Seed     int64  `json:"seed"`
	N        int    `json:"n"`
	NetV     bool   `json:"netv"`
	Scenario string `json:"scenario"`
	G        int    `json:"g"`
	Delay    int    `json:"delay_micro"`
}

func runCases(raw json.RawMessage) (any, error) {
	var cases []ccase
	if err := json.Unmarshal(raw, &cases); err != nil {
		return nil, err
	}
	rep := &batch.Report{}
	prog := batch.OpenProgress()
	for _, c := range cases {
		prog.Begin(c.Name, c)
		res := runCase(c, rep)
		prog.Done(res)
		rep.Add(res)
	}
	return rep, nil
}

var legalEdges = map[[2]chord.State]bool{
	{chord.Inactive, chord.Joining}:    true,
	{chord.Joining, chord.Active}:      true,
	{chord.Joining, chord.Inactive}:    true,
	{chord.Active, chord.Transferring}: true,
	{chord.Transferring, chord.Active}: true,
	{chord.Active, chord.Leaving}:      true,
	{chord.Leaving, chord.Active}:      true,
	{chord.Leaving, chord.Left}:        true,
	{chord.Active, chord.Left}:         true, // the last node of a ring leaves without taking locks
}

func runCase(c ccase, rep *batch.Report) batch.CaseResult {
	res := batch.CaseResult{Name: c.Name}
	mode := ringlab.Direct
	if c.NetV {
		mode = ringlab.NetV
	}
	delayPts := map[string]bool{"rtj.locked": true, "rtj.transfer.begin": true, "rtj.transfer.end": true, "leave.locked": true, "leave.transfer.begin": true, "leave.transfer.end": true, "join.requested": true, "join.finish.pred": true, "join.finish.self": true, "join.finish.succ": true, "leave.finish": true, "leave.finish.self": true, "xfer.up.imported": true, "xfer.down.imported": true}
	lab := ringlab.New(ringlab.Options{Mode: mode, Seed: c.Seed, HookDelayMaxMicro: c.Delay, DelayPoints: delayPts, RecordEvents: true})
	defer lab.Close()
	rng := rand.New(rand.NewSource(c.Seed))
	used := map[uint64]bool{}
	newID := func() uint64 {
		for {
			id := rng.Uint64() % M
			if !used[id] {
				used[id] = true
				return id
			}
		}
	}
	var members []*ringlab.Member
	for i := 0; i < c.N; i++ {
		m, err := lab.Spawn(newID(), ringlab.Memory)
		if err != nil {
			res.Inconclusive = err.Error()
			return res
		}
		if i == 0 {
			m.Create()
		} else {
			var jerr error
			for a := 0; a < 5; a++ {
				if jerr = m.Join(members[rng.Intn(len(members))]); jerr == nil {
					break
				}
				time.Sleep(10 * time.Millisecond)
			}
			if jerr != nil {
				lab.StopAll()
				res.Inconclusive = "setup join: " + jerr.Error()
				return res
			}
		}
		members = append(members, m)
	}
	defer lab.StopAll()
	if cv := lab.WaitConverged(int64(6*c.N+20), time.Minute, false); !cv.Converged {
		res.Inconclusive = "setup ring did not stabilise: " + cv.Diff
		return res
	}
	for i := 0; i < 24; i++ {
		_ = members[rng.Intn(len(members))].Node.Put(context.Background(), []byte(fmt.Sprintf("c06-%d", i)), []byte("v"))
	}
	ids := []uint64{}
	for _, m := range members {
		ids = append(ids, m.ID)
	}
	sort.Slice(ids, func(i, j int) bool { return ids[i] < ids[j] })

	baseLen := map[uint64]int{}
	for _, m := range members {
		baseLen[m.ID] = len(m.Node.VerifStateHistory())
	}
	baseCalls := len(lab.MCalls)
	// ---- monitor: transfer windows per node (state shadowed under the monitor's own lock)
	var mmu sync.Mutex
	open := map[uint64]string{}
	var overlaps []string
	rtjLocked := map[uint64]int{}
	maxOpen := 0
	lab.On("*", func(point string, node uint64) {
		mmu.Lock()
		defer mmu.Unlock()
		switch point {
		case "rtj.locked":
			rtjLocked[node]++
		case "rtj.transfer.begin", "leave.transfer.begin":
			if cur, ok := open[node]; ok {
				overlaps = append(overlaps, fmt.Sprintf("node %d began %s while its %s window was open", node, point, cur))
			}
			open[node] = point
			if len(open) > maxOpen {
				maxOpen = len(open)
			}
		case "rtj.transfer.end", "rtj.transfer.fail":
			if cur := open[node]; cur != "rtj.transfer.begin" {
				overlaps = append(overlaps, fmt.Sprintf("node %d reached %s with window %q", node, point, cur))
			}
			delete(open, node)
		case "leave.transfer.end", "leave.transfer.fail":
			if cur := open[node]; cur != "leave.transfer.begin" {
				overlaps = append(overlaps, fmt.Sprintf("node %d reached %s with window %q", node, point, cur))
			}
			delete(open, node)
		}
	})

	// ---- contention
	gap := func(i int) (lo, hi uint64) { return ids[i], ids[(i+1)%len(ids)] }
	idIn := func(lo, hi uint64) uint64 {
		span := (hi + M - lo) % M
		if span < 2 {
			return newID()
		}
		for k := 0; k < 50; k++ {
			id := (lo + 1 + rng.Uint64()%(span-1)) % M
			if !used[id] {
				used[id] = true
				return id
			}
		}
		return newID()
	}
	var wg sync.WaitGroup
	var rmu sync.Mutex
	results := []string{}
	note := func(f string, a ...any) { rmu.Lock(); results = append(results, fmt.Sprintf(f, a...)); rmu.Unlock() }
	join := func(id uint64, via *ringlab.Member) {
		m, err := lab.Spawn(id, ringlab.Memory)
		if err != nil {
			return
		}
		wg.Add(1)
		go func() {
			defer wg.Done()
			err := m.Join(via)
			note("join %d via %d -> %v", id, via.ID, err)
		}()
	}
	leave := func(m *ringlab.Member) {
		wg.Add(1)
		go func() {
			defer wg.Done()
			m.Leave()
			note("leave %d -> %s", m.ID, m.State())
		}()
	}
	gi := rng.Intn(len(ids))
	lo, hi := gap(gi)
	loM, hiM := lab.Member(lo), lab.Member(hi)
	other := func(not ...*ringlab.Member) *ringlab.Member {
		for k := 0; k < 100; k++ {
			m := members[rng.Intn(len(members))]
			ok := true
			for _, x := range not {
				if x == m {
					ok = false
				}
			}
			if ok {
				return m
			}
		}
		return members[0]
	}
	switch c.Scenario {
	case "joiners-one-gap":
		for g := 0; g < c.G; g++ {
			join(idIn(lo, hi), members[rng.Intn(len(members))])
		}
	case "leave-vs-join-same-node":
		if len(members) > 1 {
			leave(hiM)
		}
		for g := 0; g < c.G-1; g++ {
			join(idIn(lo, hi), other(hiM))
		}
	case "leave-vs-join-neighbour":
		if len(members) > 2 {
			leave(loM)
		}
		for g := 0; g < c.G-1; g++ {
			join(idIn(lo, hi), other(loM))
		}
	case "adjacent-leaves":
		if len(members) > 3 {
			leave(loM)
			leave(hiM)
			if c.G > 2 {
				leave(lab.Member(ids[(gi+2)%len(ids)]))
			}
		}
	case "double-leave":
		if len(members) > 1 {
			leave(hiM)
			leave(hiM)
			join(idIn(lo, hi), other(hiM))
		}
	default:
		left := map[uint64]bool{}
		for g := 0; g < c.G; g++ {
			if rng.Intn(2) == 0 && len(members)-len(left) > 2 {
				m := members[rng.Intn(len(members))]
				if !left[m.ID] {
					left[m.ID] = true
					leave(m)
					continue
				}
			}
			i := rng.Intn(len(ids))
			l2, h2 := gap(i)
			via := members[rng.Intn(len(members))]
			for left[via.ID] {
				via = members[rng.Intn(len(members))]
			}
			join(idIn(l2, h2), via)
		}
	}
	done := make(chan struct{})
	go func() { wg.Wait(); close(done) }()
	select {
	case <-done:
	case <-time.After(3 * time.Minute):
		res.Inconclusive = "watchdog: membership operations did not return"
		return res
	}
	lab.ClearCallbacks()
	witness := func(extra map[string]any) map[string]any {
		w := map[string]any{"case": c, "ring": ids, "results": results}
		for k, v := range extra {
			w[k] = v
		}
		return w
	}
	mmu.Lock()
	for _, o := range overlaps {
		res.Violations = append(res.Violations, batch.Viol{Key: "overlapping-transfer-windows", What: o, Witness: witness(nil)})
	}
	if len(open) > 0 {
		res.Violations = append(res.Violations, batch.Viol{Key: "transfer-window-never-closed", What: fmt.Sprintf("windows still open after all operations returned: %v", open), Witness: witness(nil)})
	}
	mmu.Unlock()
	// lifecycle legality + conservation of lock grants
	grantsLeave := map[uint64]int{}
	refusals, nonRetryable := 0, 0
	for _, mc := range lab.MCalls[baseCalls:] {
		if mc.Err == nil {
			if mc.Method == "RequestToLeave" {
				grantsLeave[mc.Target]++
			}
			continue
		}
		refusals++
		if chord.ErrorIsRetryable(mc.Err) || errors.Is(mc.Err, chord.ErrDuplicateJoinerID) {
			continue
		}
		// the target had left / was not started: not a refusal by a serving node
		last := mc.History[len(mc.History)-1]
		if (errors.Is(mc.Err, chord.ErrNodeGone) || errors.Is(mc.Err, chord.ErrNodeNotStarted)) && (last == chord.Left || last == chord.Leaving || last == chord.Inactive || last == chord.Joining) {
			continue
		}
		nonRetryable++
		res.Violations = append(res.Violations, batch.Viol{Key: "non-retryable-refusal:" + mc.Method, What: fmt.Sprintf("%s(%d) on node %d (history %v) was refused with the non-retryable error %q", mc.Method, mc.Subject, mc.Target, mc.History, mc.Err), Witness: witness(nil)})
	}
	for _, m := range lab.All() {
		h := m.Node.VerifStateHistory()
		at := 0
		for i := 1; i < len(h); i++ {
			e := [2]chord.State{h[i-1], h[i]}
			if !legalEdges[e] {
				res.Violations = append(res.Violations, batch.Viol{Key: fmt.Sprintf("illegal-lifecycle-edge:%s->%s", h[i-1], h[i]), What: fmt.Sprintf("node %d lifecycle history %v", m.ID, h), Witness: witness(nil)})
				break
			}
			if e == [2]chord.State{chord.Active, chord.Transferring} && i >= baseLen[m.ID] {
				at++
			}
		}
		if c.NetV {
			mmu.Lock()
			want := grantsLeave[m.ID] + rtjLocked[m.ID]
			mmu.Unlock()
			if at != want {
				res.Violations = append(res.Violations, batch.Viol{Key: "lock-grants-not-conserved", What: fmt.Sprintf("node %d entered Transferring %d times but granted %d leave locks and %d join locks (history %v)", m.ID, at, grantsLeave[m.ID], want-grantsLeave[m.ID], h), Witness: witness(nil)})
			}
		}
	}
	// everybody back to serving
	live := int64(len(lab.Live()))
	cv := lab.WaitConverged(6*live+20, 2*time.Minute, false)
	if !cv.Converged {
		if cv.Watchdog {
			res.Inconclusive = "watchdog while waiting for the ring to recover: " + cv.Diff
		} else {
			kind := "pointers"
			if strings.Contains(cv.Diff, "state") {
				kind = "state"
			}
			res.Violations = append(res.Violations, batch.Viol{Key: "not-serving-after-contention:" + kind, What: fmt.Sprintf("after the contention the nodes did not return to serving within the round bound: %s", cv.Diff), Witness: witness(nil)})
		}
	} else {
		for _, m := range lab.Live() {
			if m.State() != chord.Active {
				res.Violations = append(res.Violations, batch.Viol{Key: "node-not-active-after-contention", What: fmt.Sprintf("node %d is %s", m.ID, m.State()), Witness: witness(nil)})
			}
			var err error
			for a := 0; a < 100; a++ {
				if _, err = m.Node.Get(context.Background(), []byte("c06-probe")); err == nil || !chord.ErrorIsRetryable(err) {
					break
				}
				time.Sleep(2 * time.Millisecond)
			}
			if err != nil {
				res.Violations = append(res.Violations, batch.Viol{Key: "probe-failed-after-contention", What: fmt.Sprintf("KV probe via node %d failed: %v", m.ID, err), Witness: witness(nil)})
			}
		}
	}
	rep.Count("membership_requests_seen", int64(len(lab.MCalls)))
	rep.Count("refusals_seen", int64(refusals))
	rep.Count("transfer_windows", lab.Hits("rtj.transfer.begin")+lab.Hits("leave.transfer.begin"))
	rep.Count("join_lock_grants", lab.Hits("rtj.locked"))
	rep.Max("concurrent_windows_on_different_nodes_max", int64(maxOpen))
	var sb strings.Builder
	idx := map[uint64]int{}
	for _, e := range lab.Events() {
		if _, ok := idx[e.Node]; !ok {
			idx[e.Node] = len(idx)
		}
		fmt.Fprintf(&sb, "%s@%d;", e.Point, idx[e.Node])
	}
	if lab.Hits("rtj.locked")+lab.Hits("leave.locked") > 0 {
		res.Sig = c.Scenario + "/" + sb.String()
	}
	sort.Strings(results)
	res.Sample = map[string]any{"scenario": c.Scenario, "ring": ids, "netv": c.NetV, "goroutines": c.G, "results": results, "refusals": refusals}
	return res
}

// directed hook-ordered schedules (ringlab/directed.go)
type directedCase struct {
	Name    string `json:"name"`
	Seed    int64  `json:"seed"`
	NetV    bool   `json:"netv"`
	Backend int    `json:"backend"`
}

func runDirected(raw json.RawMessage) (any, error) {
	var cases []directedCase
	if err := json.Unmarshal(raw, &cases); err != nil {
		return nil, err
	}
	rep := &batch.Report{}
	prog := batch.OpenProgress()
	for _, c := range cases {
		prog.Begin(c.Name, c)
		out := batch.CaseResult{Name: c.Name}
		d := ringlab.RunRefusedLeaveDuringJoin(c.Seed, c.NetV)
		if d.Setup != "" {
			rep.Count("directed_schedules_not_constructed", 1)
		} else {
			nw := 0
			for range d.Windows {
				nw++
			}
			out.Sig = fmt.Sprintf("directed/%s/netv=%v/backend=%d/windows=%d", d.Name, c.NetV, c.Backend, nw)
			rep.Count("directed_schedules_constructed(leave refused while a join holds the successor)", 1)
			out.Sample = map[string]any{"schedule": d.Name, "windows_reached": d.Windows, "trace": d.Trace}
		}
		for _, f := range d.Findings {
			out.Violations = append(out.Violations, batch.Viol{Key: f.Key, What: f.What, Witness: f.Witness})
		}
		prog.Done(out)
		rep.Add(out)
	}
	return rep, nil
}

func directedBatches(r *ev.Run, par, nd int) []any {
	drng := r.Rand("directed")
	db := make([][]directedCase, min(par, nd))
	for i := 0; i < nd; i++ {
		c := directedCase{Name: fmt.Sprintf("directed-%d", i), Seed: drng.Int63(), NetV: i%2 == 1, Backend: []int{int(ringlab.Memory), int(ringlab.Memory), int(ringlab.AOF), int(ringlab.SQLite)}[i%4]}
		if r.WantCase(c.Name) {
			db[i%len(db)] = append(db[i%len(db)], c)
		}
	}
	var out []any
	for _, b := range db {
		if len(b) > 0 {
			out = append(out, b)
		}
	}
	return out
}

func main() {
	child.Register("cases", runCases)
	child.Register("directed", runDirected)
	child.Main()
	r := ev.Start("C06", "exploration")
	r.SetRule("aimed contention on rings of 2..8 real LocalNodes: 2-8 joiners with ids in one gap, a leave racing joins on the same node / on its neighbour, 2-3 adjacent leaves, double Leave, mixed; seeded delays (0-3 ms) at the 14 hook points inside the critical windows; direct and proxied wiring; distinct+non-trivial = (scenario, interleaving of membership hook events across nodes) for executions in which at least one membership lock was taken; plus directed hook-ordered schedules: a join is held after its successor granted it the membership lock, the successor's other neighbour then tries to leave (refused): the successor must stay locked until the join itself releases it")
	r.Assume("a request answered with ErrNodeGone/ErrNodeNotStarted by a node that has left or not started is not a refusal by a serving node")
	rng := r.Rand("cases")
	n := r.Pick(48, 600)
	var cases []ccase
	for i := 0; i < n; i++ {
		c := ccase{Name: fmt.Sprintf("cont-%d", i), Seed: rng.Int63(), N: 2 + rng.Intn(7), NetV: i%2 == 0, Scenario: scenarios[i%len(scenarios)], G: 2 + rng.Intn(7), Delay: []int{200, 1000, 3000}[rng.Intn(3)]}
		if r.WantCase(c.Name) {
			cases = append(cases, c)
		}
	}
	par := runtime.NumCPU()
	nb := par * 2
	if nb > len(cases) {
		nb = len(cases)
	}
	batches := make([][]ccase, nb)
	for i, c := range cases {
		batches[i%nb] = append(batches[i%nb], c)
	}
	var args []any
	for _, b := range batches {
		if len(b) > 0 {
			args = append(args, b)
		}
	}
	batch.Run(r, "cases", args, par, 15*time.Minute, func(inflight, head string) string { return "crash:" + head })
	if dargs := directedBatches(r, par, r.Pick(12, 96)); len(dargs) > 0 {
		batch.Run(r, "directed", dargs, par, 10*time.Minute, func(inflight, head string) string { return "crash:" + head })
	}
	batch.ReportRaces(r, "/chord.", "/kv/")
	r.Finish()
}
