// C07 — a failed or timed-out join or leave loses no data and locks no node.
// Fault enumeration: every membership RPC x {fail before delivery, lose the
// response after delivery} x {join into a populated ring, leave of a populated
// node} x {first, second occurrence}, injected by the lab's proxies between real
// LocalNodes. After the operation (and the operator's retries) gave up and the
// ring had K rounds to quiesce: every acknowledged key is readable through every
// remaining node, every remaining node is Active, serves a KV probe and accepts a
// new joiner.
package main

import (
	"context"
	"encoding/json"
	"fmt"
	"math/rand"
	"runtime"
	"sort"
	"strings"
	"time"

	"verifharness/lab/batch"
	"verifharness/lab/child"
	"verifharness/lab/ev"
	"verifharness/lab/ringlab"

	"go.miragespace.co/specter/spec/chord"
)

const M = ringlab.M

type fcase struct {
	Name     string `json:"name"`
	Seed     int64  `json:"seed"`
	N        int    `json:"n"`
	Scenario string `json:"scenario"` // join | leave
	RPC      string `json:"rpc"`      // RequestToJoin | FinishJoin.pred | FinishJoin.succ | Import | RequestToLeave | FinishLeave.pred | FinishLeave.succ
	Mode     string `json:"mode"`     // fail-before | lose-response
	Nth      int    `json:"nth"`
}

func (c fcase) cell() string { return fmt.Sprintf("%s:%s:%s", c.Scenario, c.RPC, c.Mode) }

func runCases(raw json.RawMessage) (any, error) {
	var cases []fcase
	if err := json.Unmarshal(raw, &cases); err != nil {
		return nil, err
	}
	rep := &batch.Report{}
	prog := batch.OpenProgress()
	for _, c := range cases {
		prog.Begin(c.Name, c)
		res := runCase(c, rep)
		prog.Done(res)
		rep.Add(res)
	}
	return rep, nil
}

func runCase(c fcase, rep *batch.Report) batch.CaseResult {
	res := batch.CaseResult{Name: c.Name}
	lab := ringlab.New(ringlab.Options{Mode: ringlab.NetV, Seed: c.Seed})
	defer lab.Close()
	rng := rand.New(rand.NewSource(c.Seed))
	used := map[uint64]bool{}
	newID := func() uint64 {
		for {
			id := rng.Uint64() % M
			if !used[id] {
				used[id] = true
				return id
			}
		}
	}
	var members []*ringlab.Member
	for i := 0; i < c.N; i++ {
		m, err := lab.Spawn(newID(), ringlab.Memory)
		if err != nil {
			res.Inconclusive = err.Error()
			return res
		}
		if i == 0 {
			m.Create()
		} else {
			var jerr error
			for a := 0; a < 5; a++ {
				if jerr = m.Join(members[rng.Intn(len(members))]); jerr == nil {
					break
				}
				time.Sleep(10 * time.Millisecond)
			}
			if jerr != nil {
				lab.StopAll()
				res.Inconclusive = "setup join: " + jerr.Error()
				return res
			}
		}
		members = append(members, m)
	}
	defer lab.StopAll()
	if cv := lab.WaitConverged(int64(6*c.N+20), time.Minute, true); !cv.Converged {
		res.Inconclusive = "setup ring did not stabilise: " + cv.Diff
		return res
	}
	ctx := context.Background()
	put := func(n *ringlab.Member, k, v string) error {
		var err error
		for a := 0; a < 200; a++ {
			if err = n.Node.Put(ctx, []byte(k), []byte(v)); err == nil || !chord.ErrorIsRetryable(err) {
				return err
			}
			time.Sleep(2 * time.Millisecond)
		}
		return err
	}
	acked := map[string]string{}
	for i := 0; i < 40; i++ {
		k, v := fmt.Sprintf("c07-%d", i), fmt.Sprintf("v%d", i)
		if err := put(members[rng.Intn(len(members))], k, v); err != nil {
			res.Inconclusive = "populate: " + err.Error()
			return res
		}
		acked[k] = v
	}
	ids := []uint64{}
	for _, m := range members {
		ids = append(ids, m.ID)
	}
	sort.Slice(ids, func(i, j int) bool { return ids[i] < ids[j] })

	var subject *ringlab.Member
	var succID, predID uint64
	switch c.Scenario {
	case "join":
		// pick a gap that holds keys so that the join really transfers data
		jid := newID()
		for tries := 0; tries < 200; tries++ {
			s := ringlab.OwnerOf(ids, jid)
			e := ringlab.ExpectFor(ids, s)
			n := 0
			for k := range acked {
				h := chord.Hash([]byte(k))
				if ringlab.OwnerOf(append(append([]uint64{}, ids...), jid), h) == jid || inRange(e.Pred, h, jid) {
					n++
				}
			}
			if n > 0 {
				break
			}
			jid = newID()
		}
		subject, _ = lab.Spawn(jid, ringlab.Memory)
		succID = ringlab.OwnerOf(ids, jid)
		predID = ringlab.ExpectFor(ids, succID).Pred
	case "leave":
		subject = members[rng.Intn(len(members))]
		e := ringlab.ExpectFor(ids, subject.ID)
		succID, predID = e.Succs[0], e.Pred
	}
	// the fault
	mode := ringlab.FailBefore
	var ferr error = ringlab.ErrInjected
	if c.Mode == "lose-response" {
		mode = ringlab.LoseResponse
		ferr = context.DeadlineExceeded // what a timed-out RPC looks like to the caller
	}
	f := &ringlab.Fault{Mode: mode, Err: ferr, Nth: c.Nth}
	switch c.RPC {
	case "RequestToJoin":
		f.Method, f.Target = "RequestToJoin", succID
	case "RequestToLeave":
		f.Method, f.Target = "RequestToLeave", succID
	case "FinishJoin.pred":
		f.Method, f.Target = "FinishJoin", predID
		f.Match = func(a []any) bool { return a[0].(bool) }
	case "FinishJoin.succ":
		f.Method, f.Target = "FinishJoin", succID
		f.Match = func(a []any) bool { return a[1].(bool) }
	case "FinishLeave.pred":
		f.Method, f.Target = "FinishLeave", predID
		f.Match = func(a []any) bool { return a[0].(bool) }
	case "FinishLeave.succ":
		f.Method, f.Target = "FinishLeave", succID
		f.Match = func(a []any) bool { return a[1].(bool) }
	case "Import":
		f.Method = "Import"
		if c.Scenario == "join" {
			f.Target = subject.ID
		} else {
			f.Target = succID
		}
	}
	lab.Faults = &ringlab.FaultPlan{Faults: []*ringlab.Fault{f}}
	via := members[rng.Intn(len(members))]
	for c.Scenario == "leave" && via == subject && len(members) > 1 {
		via = members[rng.Intn(len(members))]
	}
	outcome := []string{}
	switch c.Scenario {
	case "join":
		// the joiner gives up after its own retries; the operator then tries up to 3 more times
		for a := 0; a < 4; a++ {
			err := subject.Join(via)
			outcome = append(outcome, fmt.Sprint(err))
			if err == nil {
				break
			}
			if subject.State() != chord.Inactive {
				break
			}
			time.Sleep(20 * time.Millisecond)
		}
	case "leave":
		for a := 0; a < 3; a++ {
			subject.Leave()
			outcome = append(outcome, subject.State().String())
			if subject.State() == chord.Left {
				break
			}
			time.Sleep(20 * time.Millisecond)
		}
	}
	fired := f.Fired
	lab.Faults = nil
	if !fired {
		res.Sample = map[string]any{"cell": c.cell(), "nth": c.Nth, "note": "fault point not reached", "outcome": outcome}
		return res // trivial: the RPC did not occur (e.g. second occurrence never happens)
	}
	rep.Count("faults_fired", 1)
	live := lab.Live()
	K := int64(6*len(live) + 20)
	cv := lab.WaitConverged(K, 2*time.Minute, false)
	key := ""
	what := ""
	if !cv.Converged {
		if cv.Watchdog {
			res.Inconclusive = "watchdog while waiting for quiescence: " + cv.Diff
			return res
		}
		kind := "pointers-not-repaired"
		if strings.Contains(cv.Diff, " state ") {
			kind = "node-stuck-" + cv.Diff[strings.LastIndex(cv.Diff, " ")+1:]
		}
		key, what = kind, fmt.Sprintf("after %d rounds: %s", cv.Rounds, cv.Diff)
	}
	if key == "" {
		for _, m := range lab.Live() {
			if m.State() != chord.Active {
				key, what = "node-stuck-"+m.State().String(), fmt.Sprintf("node %d is %s", m.ID, m.State())
			}
		}
	}
	// acknowledged data reachable through every remaining node
	lost := []string{}
	if key == "" || !strings.HasPrefix(key, "node-stuck") {
		for _, m := range lab.Live() {
			for k, v := range acked {
				var got []byte
				var err error
				for a := 0; a < 100; a++ {
					if got, err = m.Node.Get(ctx, []byte(k)); err == nil || !chord.ErrorIsRetryable(err) {
						break
					}
					time.Sleep(2 * time.Millisecond)
				}
				if err != nil || string(got) != v {
					lost = append(lost, fmt.Sprintf("%s via %d: %q err=%v", k, m.ID, got, err))
				}
			}
			if len(lost) > 0 {
				break
			}
		}
		if len(lost) > 0 {
			key, what = "acknowledged-keys-unreachable", fmt.Sprintf("%d acknowledged keys not readable, e.g. %s", len(lost), lost[0])
		}
	}
	// join probe: the ring still admits a new node
	if key == "" {
		probe, _ := lab.Spawn(newID(), ringlab.Memory)
		var perr error
		for a := 0; a < 3; a++ {
			if perr = probe.Join(lab.Live()[0]); perr == nil {
				break
			}
		}
		if perr != nil {
			key, what = "join-probe-refused", fmt.Sprintf("a new node could not join afterwards: %v", perr)
		}
	}
	if key != "" {
		states := map[string]string{}
		for _, m := range lab.All() {
			states[fmt.Sprint(m.ID)] = fmt.Sprint(m.Node.VerifStateHistory())
		}
		res.Violations = append(res.Violations, batch.Viol{Key: c.cell() + ":" + key, What: fmt.Sprintf("[%s, occurrence %d, ring %v, subject %d, successor %d, predecessor %d] %s", c.cell(), c.Nth, ids, subject.ID, succID, predID, what),
			Witness: map[string]any{"case": c, "ring": ids, "subject": subject.ID, "successor": succID, "predecessor": predID, "outcome": outcome, "lifecycles": states, "lost": lost}})
	}
	res.Sig = fmt.Sprintf("%s/nth%d/n%d/%s", c.cell(), c.Nth, c.N, strings.Join(outcome, ","))
	res.Sample = map[string]any{"cell": c.cell(), "nth": c.Nth, "ring": ids, "subject": subject.ID, "outcome": outcome, "verdict": key}
	return res
}

func inRange(lo, x, hi uint64) bool { return chord.Between(lo, x, hi, true) }

func main() {
	child.Register("cases", runCases)
	child.Main()
	r := ev.Start("C07", "fault_enumeration")
	r.SetRule("the table {join into a populated 3-5 node ring: RequestToJoin, FinishJoin->predecessor, FinishJoin->successor, Import} + {leave of a populated node: RequestToLeave, FinishLeave->predecessor, FinishLeave->successor, Import} x {fail before delivery (transport error), lose response after delivery (deadline exceeded)} x {first, second occurrence} is enumerated completely, each cell on several seeded rings; distinct+non-trivial = (cell, occurrence, ring size, outcome sequence) for cases in which the fault fired")
	r.Assume("faults are injected by the lab's identity-by-ID proxies between real LocalNodes (a lost response over the real RPC would cost the 10 s ChordRPCTimeout each); a lost response looks like context.DeadlineExceeded to the caller, a failed delivery like a transport error")
	r.SetExhaustive(true)
	rng := r.Rand("cases")
	reps := r.Pick(2, 12)
	table := []struct{ sc, rpc string }{
		{"join", "RequestToJoin"}, {"join", "FinishJoin.pred"}, {"join", "FinishJoin.succ"}, {"join", "Import"},
		{"leave", "RequestToLeave"}, {"leave", "FinishLeave.pred"}, {"leave", "FinishLeave.succ"}, {"leave", "Import"},
	}
	var cases []fcase
	i := 0
	for rep := 0; rep < reps; rep++ {
		for _, t := range table {
			for _, mode := range []string{"fail-before", "lose-response"} {
				for _, nth := range []int{1, 2} {
					c := fcase{Name: fmt.Sprintf("fault-%d", i), Seed: rng.Int63(), N: 3 + rng.Intn(3), Scenario: t.sc, RPC: t.rpc, Mode: mode, Nth: nth}
					i++
					if r.WantCase(c.Name) {
						cases = append(cases, c)
					}
				}
			}
		}
	}
	par := runtime.NumCPU()
	nb := par * 2
	if nb > len(cases) {
		nb = len(cases)
	}
	batches := make([][]fcase, nb)
	for i, c := range cases {
		batches[i%nb] = append(batches[i%nb], c)
	}
	var args []any
	for _, b := range batches {
		if len(b) > 0 {
			args = append(args, b)
		}
	}
	batch.Run(r, "cases", args, par, 15*time.Minute, func(inflight, head string) string { return "crash:" + head })
	r.Finish()
}
