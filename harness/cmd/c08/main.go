// C08 — a join request is answered with success or a retryable error in every
// node state. Neighbour-pointer states are constructed on live rings of real
// LocalNodes (through the API, the chord hooks and VerifClearPredecessor) and a
// real Join is issued; it must return nil, a retryable error, or the duplicate-id
// error for an equal id; the process must not crash; afterwards every node must
// be back to serving.
package main

import (
	"context"
	"encoding/json"
	"errors"
	"fmt"
	"math/rand"
	"runtime"
	"strings"
	"sync"
	"sync/atomic"
	"time"

	"verifharness/lab/batch"
	"verifharness/lab/child"
	"verifharness/lab/ev"
	"verifharness/lab/ringlab"

	"go.miragespace.co/specter/spec/chord"
)

const M = ringlab.M

var scenarios = []string{"nil-pred-at-lock", "nil-pred-before", "pred-self", "dup-id", "adjacent-id", "succ-transferring", "succ-leaving", "leave-then-join-race", "stale-dead-pred", "succ-left-stale-route", "pred-ping-error", "route-one-join-behind"}

type jcase struct {
	Name     string `json:"name"`
	Seed     int64  `json:"seed"`
	N        int    `json:"n"`
	NetV     bool   `json:"netv"`
	Scenario string `json:"scenario"`
}

func runCases(raw json.RawMessage) (any, error) {
	var cases []jcase
	if err := json.Unmarshal(raw, &cases); err != nil {
		return nil, err
	}
	rep := &batch.Report{}
	prog := batch.OpenProgress()
	for _, c := range cases {
		prog.Begin(c.Name, c)
		res := runCase(c, rep)
		prog.Done(res)
		rep.Add(res)
	}
	return rep, nil
}

func runCase(c jcase, rep *batch.Report) batch.CaseResult {
	res := batch.CaseResult{Name: c.Name}
	mode := ringlab.Direct
	if c.NetV {
		mode = ringlab.NetV
	}
	lab := ringlab.New(ringlab.Options{Mode: mode, Seed: c.Seed})
	defer lab.Close()
	lab.Faults = &ringlab.FaultPlan{}
	rng := rand.New(rand.NewSource(c.Seed))
	used := map[uint64]bool{}
	newID := func() uint64 {
		for {
			id := rng.Uint64() % M
			if !used[id] {
				used[id] = true
				return id
			}
		}
	}
	n := c.N
	if c.Scenario == "pred-self" {
		n = 1
	}
	var members []*ringlab.Member
	for i := 0; i < n; i++ {
		m, err := lab.Spawn(newID(), ringlab.Memory)
		if err != nil {
			res.Inconclusive = err.Error()
			return res
		}
		if i == 0 {
			m.Create()
		} else {
			var jerr error
			for a := 0; a < 5; a++ {
				if jerr = m.Join(members[rng.Intn(len(members))]); jerr == nil {
					break
				}
				time.Sleep(10 * time.Millisecond)
			}
			if jerr != nil {
				lab.StopAll()
				res.Inconclusive = "setup join: " + jerr.Error()
				return res
			}
		}
		members = append(members, m)
	}
	defer lab.StopAll()
	if cv := lab.WaitConverged(int64(6*n+20), time.Minute, false); !cv.Converged {
		res.Inconclusive = "setup ring did not stabilise: " + cv.Diff
		return res
	}
	ids := []uint64{}
	for _, m := range members {
		ids = append(ids, m.ID)
	}
	sorted := sortU(append([]uint64{}, ids...))
	// some data so that joins transfer keys
	for i := 0; i < 12; i++ {
		_ = members[0].Node.Put(context.Background(), []byte(fmt.Sprintf("c08-%d", i)), []byte("v"))
	}

	// pick the joiner id
	jid := newID()
	succID := ringlab.OwnerOf(sorted, jid)
	switch c.Scenario {
	case "dup-id":
		jid = ids[rng.Intn(len(ids))]
	case "adjacent-id":
		b := ids[rng.Intn(len(ids))]
		for _, d := range []uint64{1, M - 1, 2, M - 2} {
			if !used[(b+d)%M] {
				jid = (b + d) % M
				break
			}
		}
		succID = ringlab.OwnerOf(sorted, jid)
	}
	succ := lab.Member(succID)
	joiner, err := spawnMaybeDup(lab, jid)
	if err != nil {
		res.Inconclusive = err.Error()
		return res
	}
	via := members[rng.Intn(len(members))]
	stateSeen := ""
	var windowHit atomic.Bool
	var bg sync.WaitGroup
	release := make(chan struct{})
	var once sync.Once
	rel := func() { once.Do(func() { close(release) }) }
	defer rel()

	switch c.Scenario {
	case "nil-pred-at-lock":
		var done atomic.Bool
		lab.On("rtj.locked", func(_ string, node uint64) {
			if node == succID && done.CompareAndSwap(false, true) {
				succ.Node.VerifClearPredecessor()
				windowHit.Store(true)
			}
		})
	case "nil-pred-before":
		succ.Node.VerifClearPredecessor()
		windowHit.Store(true)
	case "succ-transferring":
		// another joiner J1 holds succ in Transferring while our joiner asks
		j1id := newID()
		for ringlab.OwnerOf(sorted, j1id) != succID {
			j1id = newID()
		}
		j1, _ := lab.Spawn(j1id, ringlab.Memory)
		lab.On("join.finish.succ", func(_ string, node uint64) {
			if node == j1.ID {
				windowHit.Store(true)
				stateSeen = succ.State().String()
				select {
				case <-release:
				case <-time.After(20 * time.Second):
				}
			}
		})
		bg.Add(1)
		go func() { defer bg.Done(); _ = j1.Join(via) }()
		waitFor(func() bool { return windowHit.Load() }, 10*time.Second)
		go func() { time.Sleep(time.Duration(5+rng.Intn(20)) * time.Millisecond); rel() }()
	case "succ-leaving":
		if n < 2 {
			break
		}
		lab.On("leave.locked", func(_ string, node uint64) {
			if node == succID {
				windowHit.Store(true)
				stateSeen = succ.State().String()
				select {
				case <-release:
				case <-time.After(20 * time.Second):
				}
			}
		})
		bg.Add(1)
		go func() { defer bg.Done(); succ.Leave() }()
		waitFor(func() bool { return windowHit.Load() }, 10*time.Second)
		go func() { time.Sleep(time.Duration(5+rng.Intn(20)) * time.Millisecond); rel() }()
		if via == succ && n > 1 {
			for via == succ {
				via = members[rng.Intn(len(members))]
			}
		}
	case "leave-then-join-race":
		if n < 3 {
			break
		}
		// the predecessor of succ leaves while we join: succ's predecessor pointer goes stale / nil
		e := ringlab.ExpectFor(sorted, succID)
		p := lab.Member(e.Pred)
		bg.Add(1)
		go func() { defer bg.Done(); p.Leave() }()
		time.Sleep(time.Duration(rng.Intn(4000)) * time.Microsecond)
		windowHit.Store(true)
		for via == p {
			via = members[rng.Intn(len(members))]
		}
	case "stale-dead-pred":
		if n < 3 {
			break
		}
		// the predecessor of succ has left and succ still names it: periodic tasks are parked, so neither
		// checkPredecessor drops the pointer nor a Notify replaces it while the request is served
		e := ringlab.ExpectFor(sorted, succID)
		p := lab.Member(e.Pred)
		if !lab.FreezePeriodic(20 * time.Second) {
			res.Inconclusive = "periodic tasks could not be parked within 20 s"
			return res
		}
		p.Leave()
		if vp := succ.Node.VerifPointers(); p.State() == chord.Left && vp.Predecessor != nil && *vp.Predecessor == p.ID {
			windowHit.Store(true)
			stateSeen = fmt.Sprintf("successor %s, its predecessor pointer names %d which is %s", succ.State(), p.ID, p.State())
		}
		if c.Seed%2 == 0 {
			via = succ // asked directly: no other node stands between the joiner and the answer
		} else {
			for via == p {
				via = members[rng.Intn(len(members))]
			}
		}
		go func() { time.Sleep(time.Duration(5+rng.Intn(20)) * time.Millisecond); lab.Unfreeze() }()
	case "route-one-join-behind":
		if n < 2 || !c.NetV {
			break
		}
		// another node X has just joined between the joiner and its successor N, and the advisory that
		// tells N's old predecessor P about X was lost (periodic tasks parked, so P has not found out by
		// itself): asked through P, the request is routed to N, whose predecessor X is closer than the joiner
		if !lab.FreezePeriodic(20 * time.Second) {
			res.Inconclusive = "periodic tasks could not be parked within 20 s"
			return res
		}
		pid, ok := succ.Node.VerifPredecessorID()
		d := (succID + M - jid) % M
		if ok && pid != succID && d >= 2 {
			xid := (jid + 1 + rng.Uint64()%(d-1)) % M
			if !used[xid] {
				used[xid] = true
				lab.Faults.Add(&ringlab.Fault{Method: "FinishJoin", Target: pid, Nth: 1, Mode: ringlab.FailBefore})
				if x, err := lab.Spawn(xid, ringlab.Memory); err == nil && x.Join(succ) == nil {
					members = append(members, x)
					ids = append(ids, xid)
					ps, _ := lab.Member(pid).Node.VerifSuccessorID()
					np, _ := succ.Node.VerifPredecessorID()
					if ps == succID && np == xid {
						windowHit.Store(true)
						stateSeen = fmt.Sprintf("%d joined in front of %d; %d still has %d as its successor", xid, succID, pid, succID)
						via = lab.Member(pid)
					}
					succID, succ = xid, x
				}
			}
		}
		go func() { time.Sleep(time.Duration(5+rng.Intn(20)) * time.Millisecond); lab.Unfreeze() }()
	case "pred-ping-error":
		if n < 2 || !c.NetV {
			break
		}
		// the successor's predecessor is alive but the one ping RequestToJoin sends to it ends with a
		// transport error (periodic tasks parked, so that ping is the next one): not a chord error
		if !lab.FreezePeriodic(20 * time.Second) {
			res.Inconclusive = "periodic tasks could not be parked within 20 s"
			return res
		}
		if pid, ok := succ.Node.VerifPredecessorID(); ok && pid != succID {
			f := &ringlab.Fault{Method: "Ping", Target: pid, Nth: 1, Mode: ringlab.FailBefore}
			lab.Faults.Add(f)
			windowHit.Store(true)
			stateSeen = fmt.Sprintf("the next ping to %d (predecessor of %d) fails with a transport error", pid, succID)
			via = succ
			if rng.Intn(2) == 0 {
				via = members[rng.Intn(len(members))]
			}
		}
		go func() { time.Sleep(time.Duration(5+rng.Intn(20)) * time.Millisecond); lab.Unfreeze() }()
	case "succ-left-stale-route":
		if n < 3 {
			break
		}
		// the joiner's successor-to-be has left for good, but the member the joiner contacts still
		// routes to it (periodic tasks parked: nobody has repaired its pointers): the request is
		// forwarded to a node that is gone
		if !lab.FreezePeriodic(20 * time.Second) {
			res.Inconclusive = "periodic tasks could not be parked within 20 s"
			return res
		}
		succ.Leave()
		if succ.State() == chord.Left {
			for _, m := range members {
				if m == succ || !m.IsMember() {
					continue
				}
				if f, err := m.Node.FindSuccessor(jid); err == nil && f != nil && f.ID() == succID {
					via = m
					windowHit.Store(true)
					stateSeen = fmt.Sprintf("member %d still routes %d to %d, which is %s", m.ID, jid, succID, succ.State())
					break
				}
			}
		}
		if !windowHit.Load() {
			for via == succ {
				via = members[rng.Intn(len(members))]
			}
		}
		go func() { time.Sleep(time.Duration(5+rng.Intn(20)) * time.Millisecond); lab.Unfreeze() }()
	default:
		windowHit.Store(true)
	}

	// the join request must be answered. It normally takes milliseconds (at most a few retries a
	// stabilize interval apart); if it has not returned after 45 s the goroutine dump decides: a Join
	// blocked acquiring a lock inside the repository's chord package will never be answered.
	jch := make(chan error, 1)
	go func() { jch <- joiner.Join(via) }()
	var jerr error
	select {
	case jerr = <-jch:
	case <-time.After(45 * time.Second):
		buf := make([]byte, 4<<20)
		buf = buf[:runtime.Stack(buf, true)]
		stuck := ""
		for _, g := range strings.Split(string(buf), "\n\n") {
			if strings.Contains(g, "chord.(*LocalNode).RequestToJoin") && (strings.Contains(g, "sync.(*RWMutex).") || strings.Contains(g, "sync.(*Mutex).")) && (strings.Contains(g, "[sync.RWMutex.") || strings.Contains(g, "[sync.Mutex.") || strings.Contains(g, "[semacquire")) {
				stuck = g
				break
			}
		}
		lab.Unfreeze()
		rel()
		if stuck == "" {
			res.Inconclusive = "watchdog: the join did not return within 45 s and is not blocked on a lock inside RequestToJoin"
			return res
		}
		if len(stuck) > 3000 {
			stuck = stuck[:3000]
		}
		lab.Abandon() // the wedged node cannot be made to leave either
		res.Violations = append(res.Violations, batch.Viol{Key: "join-request-never-answered:" + c.Scenario, What: fmt.Sprintf("Join of %d via %d (successor %d, scenario %s) was not answered within 45 s: RequestToJoin is blocked acquiring a lock of the node and nothing will release it", jid, via.ID, succID, c.Scenario), Witness: map[string]any{"case": c, "ring": ids, "joiner": jid, "via": via.ID, "blocked_goroutine": stuck}})
		if windowHit.Load() {
			res.Sig = fmt.Sprintf("%s/n%d/netv=%v/%v", c.Scenario, n, c.NetV, "never-answered")
		}
		return res
	}
	lab.Unfreeze()
	rel()
	bg.Wait()
	lab.ClearCallbacks()

	dupExpected := c.Scenario == "dup-id"
	switch {
	case jerr == nil:
		if dupExpected {
			res.Violations = append(res.Violations, batch.Viol{Key: "duplicate-id-joined", What: fmt.Sprintf("a node with id %d equal to a member's id joined the ring", jid), Witness: map[string]any{"case": c, "ring": ids}})
		}
	case chord.ErrorIsRetryable(jerr):
	case errors.Is(jerr, chord.ErrDuplicateJoinerID) && dupExpected:
	case errors.Is(jerr, chord.ErrNodeGone) && via.State() != chord.Active && via.State() != chord.Transferring:
		// the contacted node itself has left in the meantime: not an internal error of a serving node
		rep.Count("join_refused_contacted_node_gone", 1)
	default:
		res.Violations = append(res.Violations, batch.Viol{Key: "non-retryable-join-error:" + c.Scenario, What: fmt.Sprintf("Join of %d via %d (successor %d, scenario %s) returned the non-retryable error %q", jid, via.ID, succID, c.Scenario, jerr), Witness: map[string]any{"case": c, "ring": ids, "joiner": jid, "via": via.ID, "error": jerr.Error()}})
	}
	// everybody back to serving
	live := int64(len(lab.Live()))
	cv := lab.WaitConverged(6*live+20, 2*time.Minute, false)
	if !cv.Converged {
		if cv.Watchdog {
			res.Inconclusive = "watchdog while waiting for the ring to recover: " + cv.Diff
		} else {
			res.Violations = append(res.Violations, batch.Viol{Key: "not-serving-after-join-attempt:" + c.Scenario, What: fmt.Sprintf("after the join attempt (%v) the ring did not return to serving within the round bound: %s", jerr, cv.Diff), Witness: map[string]any{"case": c, "ring": ids, "joiner": jid}})
		}
	} else {
		for _, m := range lab.Live() {
			if m.State() != chord.Active {
				res.Violations = append(res.Violations, batch.Viol{Key: "node-not-active-after-join-attempt:" + c.Scenario, What: fmt.Sprintf("node %d is %s after the join attempt completed", m.ID, m.State()), Witness: map[string]any{"case": c}})
			}
			if _, err := m.Node.Get(context.Background(), []byte("c08-probe")); err != nil && !chord.ErrorIsRetryable(err) {
				res.Violations = append(res.Violations, batch.Viol{Key: "probe-failed-after-join-attempt", What: fmt.Sprintf("KV probe via node %d failed: %v", m.ID, err), Witness: map[string]any{"case": c}})
			}
		}
	}
	rep.Count("joins_ok", b2i(jerr == nil))
	rep.Count("joins_refused_retryable", b2i(jerr != nil && chord.ErrorIsRetryable(jerr)))
	rep.Count("window_hit_"+c.Scenario, b2i(windowHit.Load()))
	rep.Count("rtj_lock_hits", lab.Hits("rtj.locked"))
	if windowHit.Load() {
		res.Sig = fmt.Sprintf("%s/n%d/netv=%v/%v", c.Scenario, n, c.NetV, errClass(jerr))
	}
	res.Sample = map[string]any{"scenario": c.Scenario, "ring": ids, "joiner": jid, "successor": succID, "via": via.ID, "netv": c.NetV, "successor_state_in_window": stateSeen, "join_result": fmt.Sprint(jerr)}
	return res
}

func errClass(err error) string {
	switch {
	case err == nil:
		return "ok"
	case chord.ErrorIsRetryable(err):
		return "retryable"
	}
	return "other"
}

func b2i(b bool) int64 {
	if b {
		return 1
	}
	return 0
}

func waitFor(f func() bool, d time.Duration) {
	dl := time.Now().Add(d)
	for !f() && time.Now().Before(dl) {
		time.Sleep(time.Millisecond)
	}
}

// spawnMaybeDup: the lab indexes members by id; a duplicate-id joiner must not
// replace the member it duplicates, so it gets its own lab-less registration.
func spawnMaybeDup(lab *ringlab.Lab, id uint64) (*ringlab.Member, error) {
	if old := lab.Member(id); old != nil {
		return lab.SpawnShadow(id, ringlab.Memory)
	}
	return lab.Spawn(id, ringlab.Memory)
}

func sortU(a []uint64) []uint64 {
	for i := 1; i < len(a); i++ {
		for j := i; j > 0 && a[j] < a[j-1]; j-- {
			a[j], a[j-1] = a[j-1], a[j]
		}
	}
	return a
}

func main() {
	child.Register("cases", runCases)
	child.Main()
	r := ev.Start("C08", "exploration")
	r.SetRule("a real Join is issued into a live ring of 1..6 real LocalNodes whose contacted successor is in a constructed state: predecessor cleared exactly when the request holds the membership lock (hook rtj.locked) or just before; predecessor == self (one-node ring); joiner id equal / adjacent (+-1,+-2) to a member id; successor held in Transferring by another join (blocked at a hook) or in Leaving by its own leave (blocked at a hook); predecessor of the successor leaving concurrently; predecessor of the successor gone with the pointer still naming it (periodic tasks parked), asked directly or through another member; successor gone for good while the contacted member still routes to it; the request routed through a member whose successor pointer is one join behind (another node has just joined in front of the successor and the advisory to the old predecessor was lost; proxied wiring); predecessor of the successor alive but the one ping the join request sends to it ends with a transport error (proxied wiring); direct and proxied wiring; distinct+non-trivial = (scenario, ring size, wiring, outcome class) for cases whose window was hit")
	r.Assume("an equal joiner id is answered with ErrDuplicateJoinerID (not a valid joiner); ErrNodeGone from a contacted node that has itself left meanwhile is not an internal error of a serving node")
	rng := r.Rand("cases")
	reps := r.Pick(4, 60)
	var cases []jcase
	i := 0
	for rep := 0; rep < reps; rep++ {
		for _, sc := range scenarios {
			for _, netv := range []bool{false, true} {
				c := jcase{Name: fmt.Sprintf("join-%d", i), Seed: rng.Int63(), N: 2 + rng.Intn(5), NetV: netv, Scenario: sc}
				i++
				if r.WantCase(c.Name) {
					cases = append(cases, c)
				}
			}
		}
	}
	par := runtime.NumCPU()
	nb := par * 2
	if nb > len(cases) {
		nb = len(cases)
	}
	batches := make([][]jcase, nb)
	for i, c := range cases {
		batches[i%nb] = append(batches[i%nb], c)
	}
	var args []any
	for _, b := range batches {
		if len(b) > 0 {
			args = append(args, b)
		}
	}
	batch.Run(r, "cases", args, par, 15*time.Minute, func(inflight, head string) string {
		if len(head) > 70 {
			head = head[:70]
		}
		return "crash:" + head
	})
	r.Finish()
}
