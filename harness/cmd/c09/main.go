// C09 — lookups terminate in every reachable node state.
// A node joins a stabilised ring of real LocalNodes; at every hook point of its
// join (first occurrence) the join is blocked and lookups are issued to the joiner
// and to its neighbours from another goroutine. Each lookup must return a node or
// an error within a bounded number of hops. Non-termination shows as a fatal stack
// overflow (child process, small max stack) or as the proxies' hop limit.
package main

import (
	"context"
	"encoding/json"
	"fmt"
	"math/rand"
	"os"
	"runtime"
	"runtime/debug"
	"strings"
	"sync"
	"sync/atomic"
	"time"

	"verifharness/lab/batch"
	"verifharness/lab/child"
	"verifharness/lab/ev"
	"verifharness/lab/ringlab"
)

const M = ringlab.M

var points = []string{"join.requested", "join.neighbours", "stab.read", "stab.done", "fix.done", "join.finish.pred", "join.finish.self", "join.finish.succ",
	// the joiner's neighbours while they take the joiner in (partially repaired fingers)
	"pred:stab.read", "pred:stab.done", "pred:fix.done",
	// the joiner's successor has dropped its predecessor: the join is refused (retryably) and the
	// lookups are issued right after the joiner has given up
	"refused:join.failed"}

type jcase struct {
	Name  string `json:"name"`
	Seed  int64  `json:"seed"`
	N     int    `json:"n"`
	NetV  bool   `json:"netv"`
	Point string `json:"point"`
	Class string `json:"class"` // id layout of ring+joiner
	// NilPred members (not the joiner's successor) have dropped their predecessor pointer before
	// the join, as checkPredecessor does after a neighbour departed; nothing repairs it meanwhile
	NilPred int `json:"nil_pred,omitempty"`
}

func runCases(raw json.RawMessage) (any, error) {
	debug.SetMaxStack(64 << 20)
	var cases []jcase
	if err := json.Unmarshal(raw, &cases); err != nil {
		return nil, err
	}
	rep := &batch.Report{}
	prog := batch.OpenProgress()
	for _, c := range cases {
		prog.Begin(c.Name, c)
		res := runCase(c, rep)
		prog.Done(res)
		rep.Add(res)
	}
	return rep, nil
}

func runCase(c jcase, rep *batch.Report) batch.CaseResult {
	res := batch.CaseResult{Name: c.Name}
	mode := ringlab.Direct
	if c.NetV {
		mode = ringlab.NetV
	}
	// fix-finger runs rarely in the background, so that the finger tables stay as the protocol
	// steps left them while the probes run (the steps themselves repair fingers synchronously)
	stab := 150 * time.Millisecond
	if strings.HasPrefix(c.Point, "refused:") {
		stab = 3 * time.Millisecond // the refused joiner retries with a back-off that starts at this interval
	}
	lab := ringlab.New(ringlab.Options{Mode: mode, Seed: c.Seed, FixFinger: 250 * time.Millisecond, Stabilize: stab, PredecessorCheck: 150 * time.Millisecond})
	defer lab.Close()
	rng := rand.New(rand.NewSource(c.Seed))
	used := map[uint64]bool{}
	base := rng.Uint64() % M
	newID := func() uint64 {
		for {
			var id uint64
			switch c.Class {
			case "adjacent":
				id = (base + uint64(rng.Intn(3*c.N+4))) % M
			case "extremes":
				id = []uint64{0, 1, M - 1, M - 2, rng.Uint64() % M}[rng.Intn(5)]
			default:
				id = rng.Uint64() % M
			}
			if !used[id] {
				used[id] = true
				return id
			}
		}
	}
	var members []*ringlab.Member
	for i := 0; i < c.N; i++ {
		m, err := lab.Spawn(newID(), ringlab.Memory)
		if err != nil {
			res.Inconclusive = err.Error()
			return res
		}
		if i == 0 {
			m.Create()
		} else {
			var jerr error
			for a := 0; a < 5; a++ {
				if jerr = m.Join(members[rng.Intn(len(members))]); jerr == nil {
					break
				}
				time.Sleep(10 * time.Millisecond)
			}
			if jerr != nil {
				lab.StopAll()
				res.Inconclusive = "setup join: " + jerr.Error()
				return res
			}
		}
		members = append(members, m)
	}
	defer lab.StopAll()
	if cv := lab.WaitConverged(int64(6*c.N+20), time.Minute, false); !cv.Converged {
		res.Inconclusive = "setup ring did not stabilise: " + cv.Diff
		return res
	}
	// from here on only the join's own protocol steps change pointers (periodic rounds are parked),
	// so what a probe sees at a hook is exactly what the step left behind
	if !lab.FreezePeriodic(20 * time.Second) {
		res.Inconclusive = "periodic tasks could not be parked within 20 s"
		return res
	}
	joiner, _ := lab.Spawn(newID(), ringlab.Memory)
	ids := []uint64{}
	for _, m := range members {
		ids = append(ids, m.ID)
	}
	lab.SetHopLimit(int64(2*(c.N+1) + 48))
	var hit atomic.Bool
	var probes, errs int64
	var viol []batch.Viol
	var vmu sync.Mutex
	who, hookPoint := "joiner", c.Point
	if i := strings.Index(c.Point, ":"); i > 0 {
		who, hookPoint = c.Point[:i], c.Point[i+1:]
	}
	srt := sortU(append([]uint64{}, ids...))
	succOfJoiner := ringlab.OwnerOf(srt, joiner.ID)
	predOfJoiner := ringlab.ExpectFor(srt, succOfJoiner).Pred
	if who == "refused" {
		lab.Member(succOfJoiner).Node.VerifClearPredecessor()
		rep.Count("joins_into_a_successor_without_predecessor", 1)
	}
	if c.NilPred > 0 {
		var cand []*ringlab.Member
		for _, m := range members {
			if m.ID != succOfJoiner {
				cand = append(cand, m)
			}
		}
		rng.Shuffle(len(cand), func(i, j int) { cand[i], cand[j] = cand[j], cand[i] })
		for i := 0; i < c.NilPred && i < len(cand); i++ {
			cand[i].Node.VerifClearPredecessor()
			rep.Count("members_probed_with_predecessor_dropped", 1)
		}
	}
	var armed, passedSelf atomic.Bool
	lab.On("join.finish.self", func(_ string, node uint64) {
		if node == joiner.ID {
			passedSelf.Store(true)
		}
	})
	if who != "joiner" {
		// neighbours are probed once the joiner has its neighbour pointers and is about to tell them
		lab.On("join.finish.pred", func(_ string, node uint64) {
			if node == joiner.ID {
				armed.Store(true)
			}
		})
	}
	lab.On(hookPoint, func(point string, node uint64) {
		switch who {
		case "joiner", "refused":
			if node != joiner.ID {
				return
			}
		case "pred":
			if node != predOfJoiner || !armed.Load() || !onStack(".FinishJoin(") {
				return // only the round run by the joiner's advisory (not a periodic one racing it)
			}
		case "succ":
			if node != succOfJoiner || !armed.Load() {
				return
			}
		}
		if !hit.CompareAndSwap(false, true) {
			return
		}
		if who == "pred" {
			// is the predecessor in the state the probe is after: successor already the joiner, finger 1 not yet?
			vp := lab.Member(predOfJoiner).Node.VerifPointers()
			stale := len(vp.Successors) > 0 && vp.Successors[0] == joiner.ID && vp.FingersPresent[0] && vp.Fingers[0] != joiner.ID
			if stale {
				rep.Count("pred_probed_with_successor_joiner_and_finger1_old", 1)
			}
			if os.Getenv("VERIF_C09_DEBUG") != "" {
				df, _ := os.OpenFile(os.Getenv("VERIF_C09_DEBUG"), os.O_APPEND|os.O_CREATE|os.O_WRONLY, 0644)
				defer df.Close()
				fmt.Fprintf(df, "C09DEBUG at=%d %s point=%s N=%d pred=%d joiner=%d succ=%d pred.succs=%v finger1=%d stale=%v fingers=%v state=%v\n", time.Now().UnixMicro()%100000000, c.Name, point, c.N, predOfJoiner, joiner.ID, succOfJoiner, vp.Successors, vp.Fingers[0], stale, sortU(uniq(vp.Fingers)), lab.Member(predOfJoiner).Node.VerifState())
			}
		}
		// the join is blocked here while the probes run in other goroutines
		keys := []uint64{0, M - 1, joiner.ID, (joiner.ID + 1) % M, (joiner.ID + M - 1) % M, rng.Uint64() % M, rng.Uint64() % M, rng.Uint64() % M}
		for _, id := range ids {
			keys = append(keys, id, (id+1)%M, (id+M-1)%M)
		}
		// the range the joiner just split: (pred, joiner] and (joiner, succ]
		span := (succOfJoiner + M - joiner.ID) % M
		if span > 2 {
			keys = append(keys, (joiner.ID+span/2)%M, (joiner.ID+1+rng.Uint64()%(span-1))%M)
		}
		span2 := (joiner.ID + M - predOfJoiner) % M
		if span2 > 2 {
			keys = append(keys, (predOfJoiner+span2/2)%M)
		}
		targets := []*ringlab.Member{joiner}
		sorted := append([]uint64{}, ids...)
		e := ringlab.ExpectFor(sortU(sorted), ringlab.OwnerOf(sortU(sorted), joiner.ID))
		targets = append(targets, lab.Member(ringlab.OwnerOf(sortU(sorted), joiner.ID)), lab.Member(e.Pred))
		var wg sync.WaitGroup
		for _, t := range targets {
			for _, k := range keys {
				wg.Add(1)
				go func(t *ringlab.Member, k uint64) {
					defer wg.Done()
					t0 := time.Now()
					f1before := uint64(0)
					if os.Getenv("VERIF_C09_DEBUG") != "" {
						f1before = t.Node.VerifPointers().Fingers[0]
					}
					v, err := t.Node.FindSuccessor(k)
					if os.Getenv("VERIF_C09_DEBUG") != "" && t.ID == predOfJoiner && who == "pred" {
						df, _ := os.OpenFile(os.Getenv("VERIF_C09_DEBUG"), os.O_APPEND|os.O_CREATE|os.O_WRONLY, 0644)
						fmt.Fprintf(df, "C09LOOKUP %s pred=%d key=%d -> %v %v took=%v at=%d f1before=%d finger1now=%d\n", c.Name, t.ID, k, v != nil, err, time.Since(t0), t0.UnixMicro()%100000000, f1before, t.Node.VerifPointers().Fingers[0])
						df.Close()
					}
					atomic.AddInt64(&probes, 1)
					if err != nil {
						atomic.AddInt64(&errs, 1)
						if err == ringlab.ErrHopLimit || err.Error() == ringlab.ErrHopLimit.Error() {
							vmu.Lock()
							viol = append(viol, batch.Viol{Key: "hop-limit-exceeded:" + point, What: fmt.Sprintf("lookup of %d issued to node %d while node %d was at %s of its join did not finish within %d hops", k, t.ID, joiner.ID, point, 2*(c.N+1)+48), Witness: map[string]any{"case": c, "ring": ids, "joiner": joiner.ID, "key": k, "target": t.ID}})
							vmu.Unlock()
						}
					} else if v == nil {
						vmu.Lock()
						viol = append(viol, batch.Viol{Key: "nil-node-without-error:" + point, What: fmt.Sprintf("lookup of %d on node %d at %s returned neither a node nor an error", k, t.ID, point), Witness: map[string]any{"case": c}})
						vmu.Unlock()
					}
				}(t, k)
			}
		}
		done := make(chan struct{})
		go func() { wg.Wait(); close(done) }()
		select {
		case <-done:
		case <-time.After(60 * time.Second):
			// lookups take microseconds; after a minute the goroutine dump decides: a lookup blocked
			// acquiring a lock of a node will never return
			buf := make([]byte, 8<<20)
			buf = buf[:runtime.Stack(buf, true)]
			blocked := ""
			for _, g := range strings.Split(string(buf), "\n\n") {
				if strings.Contains(g, "chord.(*LocalNode).FindSuccessor") && (strings.Contains(g, "sync.(*RWMutex).") || strings.Contains(g, "sync.(*Mutex).")) && (strings.Contains(g, "[sync.RWMutex.") || strings.Contains(g, "[sync.Mutex.") || strings.Contains(g, "[semacquire")) {
					blocked = g
					break
				}
			}
			vmu.Lock()
			if blocked != "" {
				if len(blocked) > 3000 {
					blocked = blocked[:3000]
				}
				viol = append(viol, batch.Viol{Key: "lookup-blocked-for-good:" + point, What: fmt.Sprintf("lookups issued while node %d was at %s of its join did not return within 60 s: FindSuccessor is blocked acquiring a lock of a node and nothing will release it", joiner.ID, point), Witness: map[string]any{"case": c, "ring": ids, "joiner": joiner.ID, "blocked_goroutine": blocked}})
				lab.Abandon()
			} else {
				res.Inconclusive = "watchdog: probes did not return within 60 s at " + point
			}
			vmu.Unlock()
		}
	})
	jch := make(chan error, 1)
	via := members[rng.Intn(len(members))]
	go func() { jch <- joiner.Join(via) }()
	var jerr error
	select {
	case jerr = <-jch:
	case <-time.After(150 * time.Second):
		// the join (a handful of requests, retried a few times) has not come back: a request blocked
		// acquiring a lock of a node will never be answered
		buf := make([]byte, 8<<20)
		buf = buf[:runtime.Stack(buf, true)]
		blocked := ""
		for _, g := range strings.Split(string(buf), "\n\n") {
			if (strings.Contains(g, "chord.(*LocalNode).RequestToJoin") || strings.Contains(g, "chord.(*LocalNode).FindSuccessor")) && (strings.Contains(g, "sync.(*RWMutex).") || strings.Contains(g, "sync.(*Mutex).")) && (strings.Contains(g, "[sync.RWMutex.") || strings.Contains(g, "[sync.Mutex.") || strings.Contains(g, "[semacquire")) {
				blocked = g
				break
			}
		}
		lab.ClearCallbacks()
		if blocked == "" {
			res.Inconclusive = "watchdog: the join did not return within 150 s and no request is blocked on a lock of a node"
			return res
		}
		if len(blocked) > 3000 {
			blocked = blocked[:3000]
		}
		lab.Abandon()
		res.Violations = append(res.Violations, batch.Viol{Key: "request-blocked-for-good:" + c.Point, What: fmt.Sprintf("the join of node %d (point %s) did not return within 150 s: a lookup or join request is blocked acquiring a lock of a node and nothing will release it", joiner.ID, c.Point), Witness: map[string]any{"case": c, "ring": ids, "joiner": joiner.ID, "blocked_goroutine": blocked}})
		res.Sig = fmt.Sprintf("%s/n%d/%s/netv=%v/blocked", c.Point, c.N, c.Class, c.NetV)
		return res
	}
	lab.ClearCallbacks()
	rep.Count("probes", probes)
	rep.Count("probe_errors", errs)
	if hit.Load() {
		rep.Count("hook_hits_"+c.Point, 1)
		res.Sig = fmt.Sprintf("%s/n%d/%s/netv=%v/nilpred=%v", c.Point, c.N, c.Class, c.NetV, c.NilPred > 0)
	} else if jerr == nil {
		res.Inconclusive = "hook point " + c.Point + " was never reached by the joiner"
	}
	res.Violations = viol
	if mh := lab.MaxHops.Load(); mh > 0 {
		rep.Max("proxied_hops_max", mh)
	}
	res.Sample = map[string]any{"point": c.Point, "ring": ids, "joiner": joiner.ID, "netv": c.NetV, "probes": probes, "probe_errors": errs, "join_error": fmt.Sprint(jerr)}
	return res
}

// stress: lookups must keep returning on nodes whose predecessor is being dropped and re-learnt
// (Notify really replaces the pointer) while KV requests run on them.
type scase struct {
	Name string `json:"name"`
	Seed int64  `json:"seed"`
	N    int    `json:"n"`
	NetV bool   `json:"netv"`
}

func blockedInChord() string {
	buf := make([]byte, 16<<20)
	buf = buf[:runtime.Stack(buf, true)]
	for _, g := range strings.Split(string(buf), "\n\n") {
		if strings.Contains(g, "specter/chord.(*LocalNode).") && (strings.Contains(g, "sync.(*RWMutex).") || strings.Contains(g, "sync.(*Mutex).")) && (strings.Contains(g, "[sync.RWMutex.") || strings.Contains(g, "[sync.Mutex.") || strings.Contains(g, "[semacquire")) {
			if len(g) > 3000 {
				g = g[:3000]
			}
			return g
		}
	}
	return ""
}

func runStress(raw json.RawMessage) (any, error) {
	var cases []scase
	if err := json.Unmarshal(raw, &cases); err != nil {
		return nil, err
	}
	rep := &batch.Report{}
	prog := batch.OpenProgress()
	for _, c := range cases {
		prog.Begin(c.Name, c)
		res := runStressCase(c, rep)
		prog.Done(res)
		rep.Add(res)
	}
	return rep, nil
}

func runStressCase(c scase, rep *batch.Report) batch.CaseResult {
	res := batch.CaseResult{Name: c.Name}
	mode := ringlab.Direct
	if c.NetV {
		mode = ringlab.NetV
	}
	lab := ringlab.New(ringlab.Options{Mode: mode, Seed: c.Seed, Stabilize: 2 * time.Millisecond, FixFinger: 5 * time.Millisecond, PredecessorCheck: 7 * time.Millisecond})
	defer lab.Close()
	rng := rand.New(rand.NewSource(c.Seed))
	var members []*ringlab.Member
	used := map[uint64]bool{}
	for i := 0; i < c.N; i++ {
		id := rng.Uint64() % M
		for used[id] {
			id = rng.Uint64() % M
		}
		used[id] = true
		m, err := lab.Spawn(id, ringlab.Memory)
		if err != nil {
			res.Inconclusive = err.Error()
			return res
		}
		if i == 0 {
			m.Create()
		} else {
			var jerr error
			for a := 0; a < 5; a++ {
				if jerr = m.Join(members[rng.Intn(len(members))]); jerr == nil {
					break
				}
				time.Sleep(10 * time.Millisecond)
			}
			if jerr != nil {
				lab.StopAll()
				res.Inconclusive = "setup join: " + jerr.Error()
				return res
			}
		}
		members = append(members, m)
	}
	defer lab.StopAll()
	if cv := lab.WaitConverged(int64(6*c.N+20), time.Minute, false); !cv.Converged {
		res.Inconclusive = "setup ring did not stabilise: " + cv.Diff
		return res
	}
	stop := make(chan struct{})
	var wg sync.WaitGroup
	var kvOps, drops, lookups atomic.Int64
	for g := 0; g < 2*c.N; g++ {
		wg.Add(1)
		go func(seed int64) {
			defer wg.Done()
			r := rand.New(rand.NewSource(seed))
			for {
				select {
				case <-stop:
					return
				default:
				}
				m := members[r.Intn(len(members))]
				k := []byte(fmt.Sprintf("c09-stress-%d", r.Intn(16)))
				if r.Intn(3) == 0 {
					_ = m.Node.Put(context.Background(), k, []byte("v"))
				} else {
					_, _ = m.Node.Get(context.Background(), k)
				}
				kvOps.Add(1)
			}
		}(c.Seed + int64(g)*7919)
	}
	wg.Add(1)
	go func() {
		defer wg.Done()
		r := rand.New(rand.NewSource(c.Seed ^ 0x5eed))
		for {
			select {
			case <-stop:
				return
			case <-time.After(time.Duration(200+r.Intn(1500)) * time.Microsecond):
			}
			// what checkPredecessor does after a failure: the next stabilize round of the real
			// predecessor makes Notify install it again
			members[r.Intn(len(members))].Node.VerifClearPredecessor()
			drops.Add(1)
		}
	}()
	time.Sleep(300 * time.Millisecond) // workload duration only
	close(stop)
	fin := make(chan struct{})
	go func() { wg.Wait(); close(fin) }()
	wedged := ""
	select {
	case <-fin:
	case <-time.After(45 * time.Second):
		wedged = "the KV requests issued during the workload had not returned 45 s after it ended"
	}
	if wedged == "" {
		// every member still answers lookups
		done := make(chan struct{})
		go func() {
			for _, m := range members {
				for k := 0; k < 8; k++ {
					_, _ = m.Node.FindSuccessor(rng.Uint64() % M)
					lookups.Add(1)
				}
			}
			close(done)
		}()
		select {
		case <-done:
		case <-time.After(45 * time.Second):
			wedged = "lookups issued to the members after the workload had not returned after 45 s"
		}
	}
	rep.Count("stress_kv_requests", kvOps.Load())
	rep.Count("stress_predecessor_drops", drops.Load())
	rep.Count("stress_lookups_after_workload", lookups.Load())
	if wedged != "" {
		g := blockedInChord()
		if g == "" {
			res.Inconclusive = "watchdog: " + wedged + ", and no request is blocked on a lock of a node"
			lab.Abandon()
			return res
		}
		lab.Abandon()
		res.Violations = append(res.Violations, batch.Viol{Key: "lookup-blocked-for-good:predecessor-relearnt-under-kv-traffic", What: fmt.Sprintf("ring of %d nodes, predecessors dropped and re-learnt while KV requests run: %s; a goroutine is blocked acquiring a lock of a node and nothing will release it", c.N, wedged), Witness: map[string]any{"case": c, "blocked_goroutine": g}})
		res.Sig = fmt.Sprintf("stress/n%d/netv=%v/blocked", c.N, c.NetV)
		return res
	}
	if kvOps.Load() > 0 && drops.Load() > 0 {
		res.Sig = fmt.Sprintf("stress/n%d/netv=%v", c.N, c.NetV)
	}
	return res
}

func sortU(a []uint64) []uint64 {
	for i := 1; i < len(a); i++ {
		for j := i; j > 0 && a[j] < a[j-1]; j-- {
			a[j], a[j-1] = a[j-1], a[j]
		}
	}
	return a
}

func main() {
	child.Register("cases", runCases)
	child.Register("stress", runStress)
	child.Main()
	r := ev.Start("C09", "exploration")
	r.SetRule("a node joins a stabilised ring of 1..8 real LocalNodes (random / adjacent / extreme ids, direct and proxied wiring); at the first occurrence of each of the 8 hook points of its join the join is blocked and 3 x (8+3N) lookups {0, 2^48-1, joiner id +-1, member ids +-1, PRNG ids} are issued concurrently to the joiner, its successor and its predecessor; periodic tasks are parked during the probed join (pointers move only through the join's own steps); in a third of the cases 1-2 other members have dropped their predecessor pointer beforehand (the state checkPredecessor leaves after a departure); distinct+non-trivial = (hook point, ring size, id layout, wiring, dropped predecessors) for cases in which the hook was reached; plus stress executions: rings of 2-5 nodes with 2-3 ms periodic tasks, 2N goroutines issuing Get/Put through random members for 300 ms while members' predecessor pointers are dropped every 0.2-1.7 ms (Notify re-installs them): afterwards every KV request must have returned and every member must answer lookups; a request still blocked on a lock of a node after 45 s is a violation")
	r.Assume("bounded time is restated as bounded hops: 2(N+1)+48 proxied hops, or absence of a stack overflow with a 64 MiB stack limit in direct wiring; the 60 s wall-clock watchdog only yields inconclusive")
	rng := r.Rand("cases")
	reps := r.Pick(3, 40)
	var cases []jcase
	i := 0
	for rep := 0; rep < reps; rep++ {
		for _, p := range points {
			for _, netv := range []bool{false, true} {
				c := jcase{Name: fmt.Sprintf("join-%d", i), Seed: rng.Int63(), N: 1 + rng.Intn(8), NetV: netv, Point: p, Class: []string{"random", "adjacent", "extremes"}[rng.Intn(3)]}
				if c.Class == "extremes" && c.N > 4 {
					c.N = 4
				}
				if c.N >= 3 && i%3 == 1 {
					c.NilPred = 1 + i%2
				}
				i++
				if r.WantCase(c.Name) {
					cases = append(cases, c)
				}
			}
		}
	}
	par := runtime.NumCPU()
	nb := par * 2
	if nb > len(cases) {
		nb = len(cases)
	}
	batches := make([][]jcase, nb)
	for i, c := range cases {
		batches[i%nb] = append(batches[i%nb], c)
	}
	var args []any
	for _, b := range batches {
		if len(b) > 0 {
			args = append(args, b)
		}
	}
	batch.Run(r, "cases", args, par, 10*time.Minute, func(inflight, head string) string {
		if len(head) > 60 {
			head = head[:60]
		}
		return "crash:" + head
	})
	// stress: predecessors dropped and re-learnt under KV traffic
	srng := r.Rand("stress")
	ns := r.Pick(8, 96)
	sb := make([][]scase, min(par, ns))
	for i := 0; i < ns; i++ {
		c := scase{Name: fmt.Sprintf("stress-%d", i), Seed: srng.Int63(), N: 2 + srng.Intn(4), NetV: i%2 == 1}
		if r.WantCase(c.Name) {
			sb[i%len(sb)] = append(sb[i%len(sb)], c)
		}
	}
	var sargs []any
	for _, b := range sb {
		if len(b) > 0 {
			sargs = append(sargs, b)
		}
	}
	if len(sargs) > 0 {
		batch.Run(r, "stress", sargs, par, 10*time.Minute, func(inflight, head string) string {
			if len(head) > 60 {
				head = head[:60]
			}
			return "crash:" + head
		})
	}
	r.Finish()
}

func onStack(frag string) bool {
	buf := make([]byte, 16<<10)
	n := runtime.Stack(buf, false)
	return strings.Contains(string(buf[:n]), frag)
}

func uniq(a []uint64) []uint64 {
	m := map[uint64]bool{}
	var o []uint64
	for _, x := range a {
		if !m[x] {
			m[x] = true
			o = append(o, x)
		}
	}
	return o
}
