// C10 — ring-wide key listing returns exactly the stored keys.
// Stable rings of real LocalNodes (memory / AOF / SQLite) are filled through the
// DHT API with simple values, prefix children and leases (including removals);
// ListKeys(prefix) from every node is compared, as a multiset of (key, kind),
// with the model.
package main

import (
	"context"
	"encoding/json"
	"fmt"
	"math/rand"
	"runtime"
	"sort"
	"strings"
	"time"

	"verifharness/lab/batch"
	"verifharness/lab/child"
	"verifharness/lab/ev"
	"verifharness/lab/ringlab"

	"go.miragespace.co/specter/spec/chord"
	"go.miragespace.co/specter/spec/protocol"
)

const M = ringlab.M

type lcase struct {
	Name    string `json:"name"`
	Seed    int64  `json:"seed"`
	N       int    `json:"n"`
	NetV    bool   `json:"netv"`
	Backend int    `json:"backend"`
	Keys    int    `json:"keys"`
	Ops     int    `json:"ops"`
}

func runCases(raw json.RawMessage) (any, error) {
	var cases []lcase
	if err := json.Unmarshal(raw, &cases); err != nil {
		return nil, err
	}
	rep := &batch.Report{}
	prog := batch.OpenProgress()
	for _, c := range cases {
		prog.Begin(c.Name, c)
		res := runCase(c, rep)
		prog.Done(res)
		rep.Add(res)
	}
	return rep, nil
}

type kstate struct {
	value    string
	children map[string]bool
	token    uint64
}

func retry(f func() error) error {
	var err error
	for a := 0; a < 200; a++ {
		if err = f(); err == nil || !chord.ErrorIsRetryable(err) {
			return err
		}
		time.Sleep(2 * time.Millisecond)
	}
	return err
}

func runCase(c lcase, rep *batch.Report) batch.CaseResult {
	res := batch.CaseResult{Name: c.Name}
	mode := ringlab.Direct
	if c.NetV {
		mode = ringlab.NetV
	}
	lab := ringlab.New(ringlab.Options{Mode: mode, Seed: c.Seed, ScratchDir: child.InChildDir()})
	defer lab.Close()
	rng := rand.New(rand.NewSource(c.Seed))
	used := map[uint64]bool{}
	var members []*ringlab.Member
	for i := 0; i < c.N; i++ {
		id := rng.Uint64() % M
		for used[id] {
			id = rng.Uint64() % M
		}
		used[id] = true
		m, err := lab.Spawn(id, ringlab.Backend(c.Backend))
		if err != nil {
			res.Inconclusive = "spawn: " + err.Error()
			return res
		}
		if i == 0 {
			m.Create()
		} else {
			var jerr error
			for a := 0; a < 5; a++ {
				if jerr = m.Join(members[rng.Intn(len(members))]); jerr == nil {
					break
				}
				time.Sleep(10 * time.Millisecond)
			}
			if jerr != nil {
				lab.StopAll()
				res.Inconclusive = "setup join: " + jerr.Error()
				return res
			}
		}
		members = append(members, m)
	}
	defer lab.StopAll()
	if cv := lab.WaitConverged(int64(6*c.N+20), time.Minute, true); !cv.Converged {
		res.Inconclusive = "setup ring did not stabilise: " + cv.Diff
		return res
	}
	// key alphabet with shared prefixes and keys that are prefixes of each other
	stems := []string{"a", "ab", "abc", "abd", "b", "b/", "b/x", "b/xy", "zz", "a/1", "a/12", "é", "éa", "a\xff", "a\xff\xff", "\xff",
		// upper / lower case twins and characters that are wildcards or escapes in pattern languages (SQL LIKE / GLOB, regexp, shell)
		"A", "Ab", "AB", "B/x", "a_", "a%", "_", "%", "a_c", "a%c", "a*", "a?c", "a.c", "a\\", "a'", "a\x00b", "[ab]"}
	keys := []string{}
	for len(keys) < c.Keys {
		k := stems[rng.Intn(len(stems))]
		if rng.Intn(3) == 0 {
			k += fmt.Sprintf("%d", rng.Intn(4))
		}
		dup := false
		for _, x := range keys {
			if x == k {
				dup = true
			}
		}
		if !dup {
			keys = append(keys, k)
		}
	}
	model := map[string]*kstate{}
	for _, k := range keys {
		model[k] = &kstate{children: map[string]bool{}}
	}
	ctx := context.Background()
	opsLog := []string{}
	for i := 0; i < c.Ops; i++ {
		k := keys[rng.Intn(len(keys))]
		st := model[k]
		n := members[rng.Intn(len(members))].Node
		var err error
		switch rng.Intn(8) {
		case 0, 1:
			v := fmt.Sprintf("v%d", i)
			err = retry(func() error { return n.Put(ctx, []byte(k), []byte(v)) })
			if err == nil {
				st.value = v
			}
			opsLog = append(opsLog, fmt.Sprintf("Put(%q)", k))
		case 2:
			err = retry(func() error { return n.Delete(ctx, []byte(k)) })
			if err == nil {
				st.value = ""
			}
			opsLog = append(opsLog, fmt.Sprintf("Delete(%q)", k))
		case 3, 4:
			ch := fmt.Sprintf("c%d", rng.Intn(3))
			err = retry(func() error { return n.PrefixAppend(ctx, []byte(k), []byte(ch)) })
			if err == chord.ErrKVPrefixConflict {
				err = nil
			}
			if err == nil {
				st.children[ch] = true
			}
			opsLog = append(opsLog, fmt.Sprintf("Append(%q,%s)", k, ch))
		case 5:
			ch := fmt.Sprintf("c%d", rng.Intn(3))
			err = retry(func() error { return n.PrefixRemove(ctx, []byte(k), []byte(ch)) })
			if err == nil {
				delete(st.children, ch)
			}
			opsLog = append(opsLog, fmt.Sprintf("Remove(%q,%s)", k, ch))
		case 6:
			if st.token == 0 {
				var tok uint64
				err = retry(func() error { var e error; tok, e = n.Acquire(ctx, []byte(k), time.Hour); return e })
				if err == nil {
					st.token = tok
				}
				opsLog = append(opsLog, fmt.Sprintf("Acquire(%q)", k))
			}
		case 7:
			if st.token != 0 {
				err = retry(func() error { return n.Release(ctx, []byte(k), st.token) })
				if err == nil {
					st.token = 0
				}
				opsLog = append(opsLog, fmt.Sprintf("Release(%q)", k))
			}
		}
		if err != nil {
			res.Inconclusive = fmt.Sprintf("content setup op failed: %v", err)
			return res
		}
	}
	want := func(prefix string) []string {
		out := []string{}
		for k, st := range model {
			if !strings.HasPrefix(k, prefix) {
				continue
			}
			if st.value != "" {
				out = append(out, k+"|SIMPLE")
			}
			if len(st.children) > 0 {
				out = append(out, k+"|PREFIX")
			}
			if st.token != 0 {
				out = append(out, k+"|LEASE")
			}
		}
		sort.Strings(out)
		return out
	}
	prefixes := []string{"", "a", "ab", "abc", "b", "b/", "b/x", "z", "zz", "zzz", "é", "q", "a/1", "A", "B/", "a_", "a%", "_", "%", "a.", "a*", "a?", "a\x00", "[ab]", "a\\"}
	sigs := map[string]bool{}
	lists := 0
	for _, m := range members {
		for _, p := range prefixes {
			var got []*protocol.KeyComposite
			err := retry(func() error { var e error; got, e = m.Node.ListKeys(ctx, []byte(p)); return e })
			lists++
			if err != nil {
				res.Violations = append(res.Violations, batch.Viol{Key: "listkeys-error", What: fmt.Sprintf("ListKeys(%q) from node %d on a stable %d-node ring failed: %v", p, m.ID, c.N, err), Witness: map[string]any{"case": c}})
				continue
			}
			g := []string{}
			for _, kc := range got {
				g = append(g, string(kc.GetKey())+"|"+kc.GetType().String())
			}
			sort.Strings(g)
			w := want(p)
			kinds := map[string]bool{}
			for _, x := range w {
				kinds[x[strings.LastIndex(x, "|")+1:]] = true
			}
			sigs[fmt.Sprintf("n%d/be%d/p%q/%d/%v", c.N, c.Backend, p, min(len(w), 5), len(kinds))] = true
			if strings.Join(g, ",") != strings.Join(w, ",") {
				key := "listing-differs"
				gs, ws := map[string]int{}, map[string]int{}
				for _, x := range g {
					gs[x]++
				}
				for _, x := range w {
					ws[x]++
				}
				for x, n := range gs {
					if n > 1 {
						key = "duplicate-entry"
					}
					if ws[x] == 0 && key != "duplicate-entry" {
						key = "extra-entry"
					}
				}
				if key == "listing-differs" {
					key = "missing-entry"
				}
				res.Violations = append(res.Violations, batch.Viol{Key: key, What: fmt.Sprintf("ListKeys(%q) from node %d (%s, %d nodes) = %v, stored keys with that prefix are %v", p, m.ID, ringlab.Backend(c.Backend), c.N, g, w), Witness: map[string]any{"case": c, "got": g, "want": w, "ops": opsLog}})
				if len(res.Violations) > 5 {
					break
				}
			}
		}
	}
	rep.Count("listings_compared", int64(lists))
	rep.Count("backend_"+ringlab.Backend(c.Backend).String(), 1)
	for s := range sigs {
		res.Sigs = append(res.Sigs, s)
	}
	sort.Strings(res.Sigs)
	res.Sig = fmt.Sprintf("n%d/be%d/k%d/netv=%v", c.N, c.Backend, c.Keys, c.NetV)
	res.Sample = map[string]any{"nodes": c.N, "backend": ringlab.Backend(c.Backend).String(), "keys": keys, "expected_all": want(""), "ops_head": opsLog[:min(8, len(opsLog))]}
	return res
}

func main() {
	child.Register("cases", runCases)
	child.Main()
	r := ev.Start("C10", "exploration")
	r.SetRule("stable rings of 1..8 real LocalNodes (memory/AOF/SQLite, direct and proxied wiring) filled through the DHT API by seeded Put/Delete/PrefixAppend/PrefixRemove/Acquire(1h)/Release sequences over key alphabets with shared prefixes, keys that are prefixes of each other, non-ASCII keys, upper/lower-case twins and keys containing _ % * ? . [ ] \\ ' and NUL; ListKeys for 25 prefixes (incl. empty, non-matching, other-case twins of stored keys and prefixes made of pattern-language wildcards / escapes) from EVERY node vs the model multiset of (key, kind); distinct+non-trivial = (ring size, backend, prefix, expected size bucket, number of kinds present)")
	r.Assume("empty simple values are never written (whether a key holding only an empty value is listed differs between backends and is not specified)")
	rng := r.Rand("cases")
	n := r.Pick(60, 600)
	var cases []lcase
	for i := 0; i < n; i++ {
		c := lcase{Name: fmt.Sprintf("store-%d", i), Seed: rng.Int63(), N: 1 + rng.Intn(8), NetV: i%2 == 0, Backend: i % 3, Keys: 3 + rng.Intn(10), Ops: 20 + rng.Intn(60)}
		if c.Backend != 0 && c.N > 5 {
			c.N = 1 + rng.Intn(5)
		}
		if r.WantCase(c.Name) {
			cases = append(cases, c)
		}
	}
	par := runtime.NumCPU()
	nb := par * 2
	if nb > len(cases) {
		nb = len(cases)
	}
	batches := make([][]lcase, nb)
	for i, c := range cases {
		batches[i%nb] = append(batches[i%nb], c)
	}
	var args []any
	for _, b := range batches {
		if len(b) > 0 {
			args = append(args, b)
		}
	}
	batch.Run(r, "cases", args, par, 15*time.Minute, func(inflight, head string) string { return "crash:" + head })
	r.Finish()
}
