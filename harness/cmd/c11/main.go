// C11 — identifier arithmetic implements the 2^48 ring exactly.
// Oracle: math/big modular arithmetic; inputs: boundary-biased sampling.
package main

import (
	"fmt"
	"math/big"
	"math/rand"

	"verifharness/lab/ev"

	"go.miragespace.co/specter/spec/chord"
)

const M = uint64(1) << 48

var bigM = new(big.Int).SetUint64(M)

// refBetween: target in the open circular interval (low, high) of Z/2^48, or
// target == high when inclusive. low == high denotes the full circle minus low.
func refBetween(low, target, high uint64, inclusive bool) bool {
	if inclusive && target == high {
		return true
	}
	// distance walking clockwise from low
	dt := (target + M - low) % M
	dh := (high + M - low) % M
	if dh == 0 { // full circle: everything except low itself
		return dt != 0
	}
	return dt > 0 && dt < dh
}

func refModSum(x, y uint64) uint64 {
	s := new(big.Int).Add(new(big.Int).SetUint64(x), new(big.Int).SetUint64(y))
	return s.Mod(s, bigM).Uint64()
}

func relation(a, b uint64) byte {
	switch {
	case a < b:
		return '<'
	case a == b:
		return '='
	}
	return '>'
}

func main() {
	r := ev.Start("C11", "exploration")
	r.SetRule("Between: (low,target,high,inclusive) drawn from boundary values {0,1,2,2^47-1,2^47,2^48-2,2^48-1} and PRNG values, non-trivial+distinct by (order pattern of low/target/high, inclusive, expected result); ModuloSum: operands from {0,1,2^48-1,2^48,2^48+1,2^63,2^64-1,...} and PRNG, distinct by (overflow class of x+y, class of x, class of y); Hash: random byte strings, distinct by length bucket")
	r.Assume("'all x,y' is sampled, not enumerated: boundary-biased sampling of the uint64 domain")
	rng := r.Rand("c11")
	bounds := []uint64{0, 1, 2, M/2 - 1, M / 2, M/2 + 1, M - 3, M - 2, M - 1}
	pick := func() uint64 {
		switch rng.Intn(4) {
		case 0:
			return bounds[rng.Intn(len(bounds))]
		case 1:
			b := bounds[rng.Intn(len(bounds))]
			return (b + uint64(rng.Intn(5)) + M - 2) % M
		default:
			return rng.Uint64() % M
		}
	}
	nBetween := r.Pick(200000, 20000000)
	// all triples over the boundary set first (exhaustive over that small set)
	for _, lo := range bounds {
		for _, t := range bounds {
			for _, hi := range bounds {
				for _, inc := range []bool{false, true} {
					checkBetween(r, lo, t, hi, inc)
				}
			}
		}
	}
	for i := 0; i < nBetween; i++ {
		lo, t, hi := pick(), pick(), pick()
		switch rng.Intn(6) {
		case 0:
			hi = lo
		case 1:
			t = hi
		case 2:
			t = lo
		case 3:
			t = (hi + 1) % M
		}
		checkBetween(r, lo, t, hi, rng.Intn(2) == 0)
	}
	// ModuloSum over uint64
	big64 := []uint64{0, 1, M - 1, M, M + 1, 2*M - 1, 1 << 62, 1<<63 - 1, 1 << 63, 1<<63 + 1, ^uint64(0) - 1, ^uint64(0), ^uint64(0) - M, ^uint64(0) - M + 1}
	pick64 := func() uint64 {
		switch rng.Intn(3) {
		case 0:
			return big64[rng.Intn(len(big64))]
		case 1:
			return big64[rng.Intn(len(big64))] + uint64(rng.Intn(7)) - 3
		}
		return rng.Uint64()
	}
	for _, x := range big64 {
		for _, y := range big64 {
			checkSum(r, x, y)
		}
	}
	nSum := r.Pick(200000, 20000000)
	for i := 0; i < nSum; i++ {
		checkSum(r, pick64(), pick64())
	}
	// Hash range
	nHash := r.Pick(50000, 2000000)
	for i := 0; i < nHash; i++ {
		b := make([]byte, rng.Intn(64))
		rng.Read(b)
		h := chord.Hash(b)
		r.Case(fmt.Sprintf("hash/len%d", len(b)/8))
		if h >= M {
			r.Violation("hash-out-of-range", "", fmt.Sprintf("Hash(%x)=%d >= 2^48", b, h), map[string]any{"input": b, "hash": h})
		}
	}
	// Random() stays in the identifier space, too
	for i := 0; i < 10000; i++ {
		if v := chord.Random(); v >= M {
			r.Violation("random-out-of-range", "", fmt.Sprintf("Random()=%d", v), nil)
		}
	}
	_ = rand.Int
	r.Finish()
}

var sampled int

func checkBetween(r *ev.Run, lo, t, hi uint64, inc bool) {
	want := refBetween(lo, t, hi, inc)
	got := chord.Between(lo, t, hi, inc)
	r.Case(fmt.Sprintf("btw/%c%c%c/%v/%v", relation(lo, t), relation(t, hi), relation(lo, hi), inc, want))
	if sampled < 4 && lo > hi && want {
		sampled++
		r.Sample(map[string]any{"fn": "Between", "low": lo, "target": t, "high": hi, "inclusive": inc, "result": got})
	}
	if got != want {
		r.Violation("between", "", fmt.Sprintf("Between(%d,%d,%d,%v)=%v, modular arithmetic says %v", lo, t, hi, inc, got, want),
			map[string]any{"low": lo, "target": t, "high": hi, "inclusive": inc, "got": got, "want": want})
	}
}

var sampledSum int

func cls(x uint64) string {
	switch {
	case x < M:
		return "in"
	case x < 1<<63:
		return "mid"
	}
	return "hi"
}

func checkSum(r *ev.Run, x, y uint64) {
	want := refModSum(x, y)
	got := chord.ModuloSum(x, y)
	ovf := "no"
	if x+y < x {
		ovf = "u64ovf"
	} else if x+y >= M {
		ovf = "wrap"
	}
	r.Case("sum/" + ovf + "/" + cls(x) + "/" + cls(y))
	if sampledSum < 2 && ovf == "u64ovf" {
		sampledSum++
		r.Sample(map[string]any{"fn": "ModuloSum", "x": x, "y": y, "result": got})
	}
	if got != want {
		r.Violation("modulosum", "", fmt.Sprintf("ModuloSum(%d,%d)=%d, want %d", x, y, got, want), map[string]any{"x": x, "y": y, "got": got, "want": want})
	}
}
