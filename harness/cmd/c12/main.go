// C12 — successor lists are well-formed.
// Exhaustive enumeration at small bounds of the real MakeSuccListByID /
// MakeSuccListByAddress; the oracle is written from the property statement:
// starts with the node, no duplicate id (address), candidates' relative order kept,
// nil entries skipped, never longer than maxLen — and nothing else is dropped.
package main

import (
	"fmt"
	"runtime"
	"strings"
	"sync"

	"verifharness/lab/ev"

	"go.miragespace.co/specter/spec/chord"
	"go.miragespace.co/specter/spec/protocol"
)

type fake struct {
	chord.VNode // nil: any other method call would panic (none is expected)
	ident       *protocol.Node
	name        string
}

func (f *fake) ID() uint64               { return f.ident.GetId() }
func (f *fake) Identity() *protocol.Node { return f.ident }

func mk(name string, id uint64, addr string) *fake {
	return &fake{ident: &protocol.Node{Id: id, Address: addr}, name: name}
}

type variant struct {
	name string
	fn   func(chord.VNode, []chord.VNode, int) []chord.VNode
	key  func(*fake) string
}

type outcome struct {
	sig     string
	bad     string // violation key, "" if fine
	what    string
	witness map[string]any
}

func names(l []chord.VNode) []string {
	out := make([]string, len(l))
	for i, v := range l {
		if v == nil {
			out[i] = "nil"
		} else if f, ok := v.(*fake); ok && f != nil {
			out[i] = f.name
		} else {
			out[i] = fmt.Sprintf("?%T", v)
		}
	}
	return out
}

// check runs one case against the real function and judges the returned slice.
func check(v variant, imm *fake, cands []chord.VNode, maxLen int) outcome {
	in := append([]chord.VNode(nil), cands...) // the function must not need to modify its input
	got := v.fn(imm, in, maxLen)

	// what the statement allows to be dropped: nil, a key already present, or no room left
	nils, dups := 0, 0
	seen := map[string]bool{v.key(imm): true}
	wantKeys := []string{v.key(imm)}
	truncated := false
	for _, c := range cands {
		if c == nil {
			nils++
			continue
		}
		k := v.key(c.(*fake))
		if seen[k] {
			dups++
			continue
		}
		seen[k] = true
		if len(wantKeys) < maxLen {
			wantKeys = append(wantKeys, k)
		} else {
			truncated = true
		}
	}
	o := outcome{}
	if nils > 0 || dups > 0 || truncated {
		o.sig = fmt.Sprintf("%s/max%d/len%d/nil%v/dup%v/trunc%v", v.name, maxLen, len(wantKeys), nils > 0, dups > 0, truncated)
	}
	fail := func(key, what string) outcome {
		o.bad = v.name + ":" + key
		o.what = fmt.Sprintf("%s(immediate=%s, candidates=%v, maxLen=%d) = %v: %s", v.name, imm.name, names(cands), maxLen, names(got), what)
		o.witness = map[string]any{"variant": v.name, "immediate": imm.name, "candidates": names(cands), "maxLen": maxLen, "got": names(got)}
		return o
	}
	for i := range in {
		if in[i] != cands[i] {
			return fail("input-modified", "the candidate slice was modified")
		}
	}
	if len(got) == 0 || got[0] != chord.VNode(imm) {
		return fail("first-not-immediate", "the list does not start with the node itself")
	}
	if len(got) > maxLen {
		return fail("too-long", fmt.Sprintf("length %d exceeds maxLen %d", len(got), maxLen))
	}
	have := map[string]bool{}
	for i, g := range got {
		if g == nil {
			return fail("nil-entry", fmt.Sprintf("entry %d is nil", i))
		}
		f, ok := g.(*fake)
		if !ok || f == nil {
			return fail("foreign-entry", fmt.Sprintf("entry %d is not one of the inputs", i))
		}
		if have[v.key(f)] {
			return fail("duplicate", fmt.Sprintf("entry %d repeats %s", i, v.key(f)))
		}
		have[v.key(f)] = true
	}
	// relative order: got[1:] is a subsequence (by object identity) of the candidates
	j := 0
	for _, g := range got[1:] {
		for j < len(cands) && cands[j] != g {
			j++
		}
		if j == len(cands) {
			return fail("order", "entries after the first are not a subsequence of the candidates")
		}
		j++
	}
	// nothing but nil / duplicate / overflow entries is skipped
	if len(got) != len(wantKeys) {
		return fail("dropped-candidate", fmt.Sprintf("length %d, but %d entries are admissible", len(got), len(wantKeys)))
	}
	for i, g := range got {
		if k := v.key(g.(*fake)); k != wantKeys[i] {
			return fail("order", fmt.Sprintf("entry %d has key %s, first-seen order gives %s", i, k, wantKeys[i]))
		}
	}
	return o
}

func main() {
	r := ev.Start("C12", "exploration")
	r.SetExhaustive(true)
	maxCand := r.Pick(6, 8)
	r.SetRule(fmt.Sprintf("every candidate list of length 0..%d over the alphabet {nil, a(id1,addrA), b(id2,addrA), c(id2,addrB), d(id3,addrB)} x every immediate in {a,b,c,d,e(id4,addrC)} x maxLen 1..6 x {ByID, ByAddress} x 4 embeddings of the symbolic ids / addresses into concrete ones (small ids; ids agreeing in their low 32 / low 16 bits or in all but the top bit; extreme ids 0, 2^48-1, 2^47; addresses that are prefixes or case variants of each other, empty and blank); a case is non-trivial when a nil or duplicate is skipped or the list is truncated; distinct by (variant, maxLen, expected length, nil skipped, duplicate skipped, truncated)", maxCand))

	// the symbolic alphabet is embedded into concrete ids / addresses in several ways: small ids;
	// ids that agree in their low 32 bits, in their low 16 bits, or everywhere but the top bit; the
	// extreme ids; addresses that are prefixes / case variants of each other
	type embedding struct {
		alphabet   []chord.VNode
		immediates []*fake
	}
	var embs []embedding
	for _, em := range []struct {
		ids   [4]uint64
		addrs [3]string
	}{
		{[4]uint64{1, 2, 3, 4}, [3]string{"A", "B", "C"}},
		{[4]uint64{7, 7 + 1<<32, 7 + 1<<33, 7 + 1<<47}, [3]string{"10.0.0.1:443", "10.0.0.1:4430", "10.0.0.10:443"}},
		{[4]uint64{0, 1<<48 - 1, 1 << 47, 1 << 16}, [3]string{"gw.example", "GW.example", "gw.example."}},
		{[4]uint64{0x1234, 0x11234, 0xffff00001234, 0x800000001234}, [3]string{"", " ", "a"}},
	} {
		a := mk("a", em.ids[0], em.addrs[0])
		b := mk("b", em.ids[1], em.addrs[0])
		c := mk("c", em.ids[1], em.addrs[1])
		d := mk("d", em.ids[2], em.addrs[1])
		e := mk("e", em.ids[3], em.addrs[2])
		embs = append(embs, embedding{[]chord.VNode{nil, a, b, c, d}, []*fake{a, b, c, d, e}})
	}
	alphabet := embs[0].alphabet
	variants := []variant{
		{"MakeSuccListByID", chord.MakeSuccListByID, func(f *fake) string { return fmt.Sprint(f.ident.GetId()) }},
		{"MakeSuccListByAddress", chord.MakeSuccListByAddress, func(f *fake) string { return f.ident.GetAddress() }},
	}

	// work items: (length, first symbol) so that the enumeration spreads over the cores
	type item struct{ n, first int }
	var items []item
	items = append(items, item{0, 0})
	for n := 1; n <= maxCand; n++ {
		for f := range alphabet {
			items = append(items, item{n, f})
		}
	}
	ch := make(chan item, len(items))
	for _, it := range items {
		ch <- it
	}
	close(ch)

	var wg sync.WaitGroup
	var mu sync.Mutex
	sigs := map[string]int{}
	total := 0
	lists := 0
	sampled := map[string]int{}
	for w := 0; w < runtime.GOMAXPROCS(0); w++ {
		wg.Add(1)
		go func() {
			defer wg.Done()
			lsig := map[string]int{}
			ltotal, llists := 0, 0
			for it := range ch {
				idx := make([]int, it.n)
				cands := make([]chord.VNode, it.n)
				if it.n > 0 {
					idx[0] = it.first
				}
				for {
					llists++
					for _, em := range embs {
						for i, x := range idx {
							cands[i] = em.alphabet[x]
						}
						for _, v := range variants {
							for _, imm := range em.immediates {
								for maxLen := 1; maxLen <= 6; maxLen++ {
									o := check(v, imm, cands, maxLen)
									ltotal++
									if o.sig != "" {
										lsig[o.sig]++
									}
									if o.bad != "" {
										r.Violation(o.bad, "", o.what, o.witness)
									}
									if it.n == 5 && maxLen == 3 && o.bad == "" && strings.Contains(o.sig, "len3/niltrue/duptrue") {
										mu.Lock()
										if sampled[v.name+imm.name] == 0 && len(sampled) < 6 && idx[0] != idx[1] {
											sampled[v.name+imm.name]++
											r.Sample(map[string]any{"fn": v.name, "immediate": imm.name, "candidates": names(cands), "maxLen": maxLen, "result": names(v.fn(imm, cands, maxLen))})
										}
										mu.Unlock()
									}
								}
							}
						}
					}
					// next list with the same first symbol
					p := it.n - 1
					for p >= 1 {
						idx[p]++
						if idx[p] < len(alphabet) {
							break
						}
						idx[p] = 0
						p--
					}
					if p < 1 {
						break
					}
				}
			}
			mu.Lock()
			for k, n := range lsig {
				sigs[k] += n
			}
			total += ltotal
			lists += llists
			mu.Unlock()
		}()
	}
	wg.Wait()
	nontrivial := 0
	for k, n := range sigs {
		r.Distinct(k)
		nontrivial += n
	}
	// evaluations are counted in bulk (one r.Case per case would only add lock traffic)
	r.Count("cases_nontrivial", int64(nontrivial))
	r.Count("candidate_lists", int64(lists))
	for i := 0; i < total; i++ {
		r.Case("")
	}
	r.Extra("bounds", map[string]any{"candidate_len_max": maxCand, "alphabet": []string{"nil", "a(1,A)", "b(2,A)", "c(2,B)", "d(3,B)"}, "immediates": []string{"a", "b", "c", "d", "e(4,C)"}, "maxLen": "1..6"})
	r.Assume("maxLen >= 1 (the property quantifies over 1..6); VNode identity is its ID() (ByID) or Identity().Address (ByAddress)")
	r.Finish()
}
