// C13 — node lifecycle transitions are atomic and follow the recorded history.
// Many goroutines race Transition(from,to) and Set on the real state machine
// (build tag verif exposes it) from a start barrier; the oracle runs at the
// quiescent point of every round. Built with -race: any report with a frame
// in chord/node_state.go is a violation.
package main

import (
	"fmt"
	"math/rand"
	"sort"
	"sync"

	"verifharness/lab/ev"
	"verifharness/lab/racelog"

	rchord "go.miragespace.co/specter/chord"
	"go.miragespace.co/specter/spec/chord"
)

var states = []chord.State{chord.Inactive, chord.Joining, chord.Active, chord.Transferring, chord.Leaving, chord.Left}

type attempt struct {
	set      bool
	from, to chord.State
	ok       bool
	ret      chord.State
}

func main() {
	r := ev.Start("C13", "exploration")
	r.SetRule("rounds on the real lifecycle state machine: (A) G=2..32 goroutines attempt Transition(cur,x) from the same known state at a barrier, some from a wrong state; (B) free-for-all mixes of Transition and Set; oracle at each quiescent point; distinct+non-trivial = (round kind, G, number of distinct targets, number of wrong-state attempts, winner index bucket)")
	r.Assume("History may lag the packed word while an update is in flight; it is only compared at quiescent points")
	rng := r.Rand("c13")
	rounds := r.Pick(3000, 200000)
	for i := 0; i < rounds; i++ {
		name := fmt.Sprintf("round-%d", i)
		if !r.WantCase(name) {
			continue
		}
		if i%3 == 2 {
			freeForAll(r, rng, name)
		} else {
			sameState(r, rng, name)
		}
	}
	if racelog.Enabled() {
		reps := racelog.Collect("/chord.")
		r.Count("race_reports_in_chord", int64(len(reps)))
		for _, rep := range reps {
			if rep.InRepo {
				r.Violation("data-race:"+rep.Key, "", "race detector report in the lifecycle state machine", map[string]any{"report": rep.Excerpt, "count": rep.Count})
			}
		}
		r.Extra("race_detector", "enabled")
	} else {
		r.Extra("race_detector", "off in this tier/build")
	}
	r.Finish()
}

func sameState(r *ev.Run, rng *rand.Rand, name string) {
	start := states[rng.Intn(len(states))]
	ns := rchord.NewVerifNodeState(start)
	// advance a few steps first so the index is not always 0
	pre := rng.Intn(5)
	cur := start
	for i := 0; i < pre; i++ {
		nx := states[rng.Intn(len(states))]
		if _, ok := ns.Transition(cur, nx); !ok {
			r.Violation("sequential-transition-refused", name, fmt.Sprintf("uncontended Transition(%s,%s) failed", cur, nx), nil)
			return
		}
		cur = nx
	}
	g := 2 + rng.Intn(31)
	atts := make([]attempt, g)
	wrong := 0
	targets := map[chord.State]bool{}
	// targets and wrong "from" states are drawn from disjoint sets that exclude cur, so that after
	// the first success no other attempt can legitimately match the new state
	others := []chord.State{}
	for _, s := range states {
		if s != cur {
			others = append(others, s)
		}
	}
	rng.Shuffle(len(others), func(i, j int) { others[i], others[j] = others[j], others[i] })
	nt := 1 + rng.Intn(3)
	tset, fset := others[:nt], others[nt:]
	for i := range atts {
		atts[i] = attempt{from: cur, to: tset[rng.Intn(len(tset))]}
		if rng.Intn(5) == 0 {
			atts[i].from = fset[rng.Intn(len(fset))]
			atts[i].to = states[rng.Intn(len(states))]
			wrong++
		} else {
			targets[atts[i].to] = true
		}
	}
	var wg sync.WaitGroup
	startCh := make(chan struct{})
	for i := range atts {
		wg.Add(1)
		go func(a *attempt) {
			defer wg.Done()
			<-startCh
			a.ret, a.ok = ns.Transition(a.from, a.to)
		}(&atts[i])
	}
	close(startCh)
	wg.Wait()
	wins := 0
	winner := -1
	for i, a := range atts {
		if a.ok {
			wins++
			winner = i
			if a.from != cur {
				r.Violation("transition-from-wrong-state-succeeded", name, fmt.Sprintf("state was %s, Transition(%s,%s) succeeded", cur, a.from, a.to), map[string]any{"attempts": fmt.Sprint(atts)})
			}
			if a.ret != a.to {
				r.Violation("transition-returned-wrong-state", name, fmt.Sprintf("successful Transition(%s,%s) returned %s", a.from, a.to, a.ret), nil)
			}
		}
	}
	valid := g - wrong
	h := ns.History()
	want := 1
	if valid == 0 {
		want = 0
	}
	r.Case(fmt.Sprintf("same/g%d/t%d/w%d/win%d", g/4, len(targets), min(wrong, 3), winner*4/g))
	if wins != want {
		r.Violation("not-exactly-one-winner", name, fmt.Sprintf("%d goroutines raced Transition from %s (%d from the right state): %d succeeded", g, cur, valid, wins), map[string]any{"attempts": fmt.Sprint(atts), "history": fmt.Sprint(h)})
		return
	}
	if len(h) != pre+1+want {
		r.Violation("history-length", name, fmt.Sprintf("%d successful transitions in total but history has %d entries: %v", pre+want, len(h), h), nil)
		return
	}
	final := cur
	if want == 1 {
		final = atts[winner].to
		if h[len(h)-1] != final || h[len(h)-2] != cur {
			r.Violation("history-does-not-record-the-winner", name, fmt.Sprintf("winner %s->%s, history tail %v", cur, final, h[max(0, len(h)-3):]), nil)
		}
	}
	if got := ns.Get(); got != final {
		r.Violation("get-differs-from-last-recorded", name, fmt.Sprintf("Get()=%s, last recorded %s (history %v)", got, h[len(h)-1], h), nil)
	}
	for _, a := range atts {
		if !a.ok && a.ret != cur && a.ret != final {
			r.Violation("failed-transition-reported-impossible-state", name, fmt.Sprintf("failed Transition returned current state %s, but the state was only ever %s or %s", a.ret, cur, final), nil)
		}
	}
	if winner >= 0 && r.Evaluations() < 4 {
		r.Sample(map[string]any{"kind": "same-state", "from": cur.String(), "goroutines": g, "wrong_state_attempts": wrong, "winner_target": final.String(), "history": fmt.Sprint(h)})
	}
}

func freeForAll(r *ev.Run, rng *rand.Rand, name string) {
	start := states[rng.Intn(len(states))]
	ns := rchord.NewVerifNodeState(start)
	g := 2 + rng.Intn(15)
	per := 1 + rng.Intn(20)
	all := make([][]attempt, g)
	sets := 0
	for i := range all {
		all[i] = make([]attempt, per)
		for j := range all[i] {
			a := attempt{from: states[rng.Intn(len(states))], to: states[rng.Intn(len(states))]}
			if rng.Intn(4) == 0 {
				a.set = true
				sets++
			}
			all[i][j] = a
		}
	}
	var wg sync.WaitGroup
	startCh := make(chan struct{})
	for i := range all {
		wg.Add(1)
		go func(as []attempt) {
			defer wg.Done()
			<-startCh
			for k := range as {
				if as[k].set {
					ns.Set(as[k].to)
					as[k].ok = true
				} else {
					as[k].ret, as[k].ok = ns.Transition(as[k].from, as[k].to)
				}
			}
		}(all[i])
	}
	close(startCh)
	wg.Wait()
	h := ns.History()
	// multiset of recorded edges
	edges := map[[2]chord.State]int{}
	for i := 1; i < len(h); i++ {
		edges[[2]chord.State{h[i-1], h[i]}]++
	}
	succ := 0
	setTargets := map[chord.State]int{}
	for _, as := range all {
		for _, a := range as {
			if !a.ok {
				continue
			}
			succ++
			if a.set {
				setTargets[a.to]++
				continue
			}
			k := [2]chord.State{a.from, a.to}
			edges[k]--
			if edges[k] < 0 {
				r.Violation("successful-transition-not-in-history", name, fmt.Sprintf("Transition(%s,%s) succeeded more often than the history %v contains that edge", a.from, a.to, h), nil)
				return
			}
		}
	}
	r.Case(fmt.Sprintf("free/g%d/per%d/sets%d/len%d", g/4, per/5, min(sets, 4), min(len(h)/8, 6)))
	if succ != len(h)-1 {
		r.Violation("history-length", name, fmt.Sprintf("%d successful transitions/sets but history has %d entries", succ, len(h)), map[string]any{"history": fmt.Sprint(h)})
		return
	}
	// the remaining edges must be explained by the Sets (target only)
	for k, n := range edges {
		for ; n > 0; n-- {
			setTargets[k[1]]--
			if setTargets[k[1]] < 0 {
				r.Violation("history-edge-without-cause", name, fmt.Sprintf("history %v contains an edge to %s that no successful Transition or Set produced", h, k[1]), nil)
				return
			}
		}
	}
	if got := ns.Get(); got != h[len(h)-1] {
		r.Violation("get-differs-from-last-recorded", name, fmt.Sprintf("Get()=%s, last recorded %s", got, h[len(h)-1]), nil)
	}
	if r.Evaluations()%997 == 0 {
		hs := []string{}
		for _, s := range h {
			hs = append(hs, s.String())
		}
		if len(hs) > 12 {
			hs = hs[:12]
		}
		r.Sample(map[string]any{"kind": "free-for-all", "goroutines": g, "ops_each": per, "sets": sets, "history_len": len(h), "history_head": hs})
	}
	_ = sort.Ints
}
