// C14 — chord errors keep their identity and retryability across RPC.
//
// Real path, two wirings:
//
//	server:    scripted chord.VNode -> chord.Server (chord/server_rpc.go) -> twirp servers
//	           -> http.Server on an H2 acceptor -> StreamRouter over an in-memory transport
//	           -> rpc.DynamicChordClient -> chord.RemoteNode (chord/remote.go)     [all 21 RPC methods]
//	localnode: real LocalNode (Create()d single-node ring) with a KV backend that
//	           returns the scripted error -> AttachRouter (production hooks) -> pipe
//	           transport -> DynamicChordClient -> RemoteNode                       [the 12 KV methods]
//
// Oracle (from the statement): the caller recognises the same error
// (errors.Is(callerErr, sentinel)) and ErrorIsRetryable(callerErr) ==
// ErrorIsRetryable(originErr); unknown errors arrive as errors, are not retryable and
// are not mistaken for a defined error.
package main

import (
	"context"
	"errors"
	"fmt"
	"math/rand"
	"net"
	"net/http"
	"sort"
	"strings"
	"sync"
	"sync/atomic"
	"time"
	_ "unsafe" // go:linkname

	"verifharness/lab/ev"

	chordimpl "go.miragespace.co/specter/chord"
	"go.miragespace.co/specter/kv/memory"
	"go.miragespace.co/specter/spec/chord"
	"go.miragespace.co/specter/spec/mocks"
	"go.miragespace.co/specter/spec/protocol"
	"go.miragespace.co/specter/spec/rpc"
	"go.miragespace.co/specter/spec/transport"
	"go.miragespace.co/specter/util/acceptor"

	"github.com/go-chi/chi/v5"
	"go.uber.org/zap"
)

// The registry of defined errors is unexported; it is read at run time so that an
// error added to spec/chord/errors.go is covered without touching this worker.
//
//go:linkname errorStrMap go.miragespace.co/specter/spec/chord.errorStrMap
var errorStrMap map[string]error

// names for the keys; an error that is registered but not listed here still gets
// tested, under a name derived from its message.
var exported = map[error]string{
	chord.ErrJoinInvalidState:     "ErrJoinInvalidState",
	chord.ErrJoinTransferFailure:  "ErrJoinTransferFailure",
	chord.ErrJoinInvalidSuccessor: "ErrJoinInvalidSuccessor",
	chord.ErrLeaveInvalidState:    "ErrLeaveInvalidState",
	chord.ErrLeaveTransferFailure: "ErrLeaveTransferFailure",
	chord.ErrKVStaleOwnership:     "ErrKVStaleOwnership",
	chord.ErrKVPendingTransfer:    "ErrKVPendingTransfer",
	chord.ErrNodeGone:             "ErrNodeGone",
	chord.ErrNodeNotStarted:       "ErrNodeNotStarted",
	chord.ErrNodeNoSuccessor:      "ErrNodeNoSuccessor",
	chord.ErrNodeNil:              "ErrNodeNil",
	chord.ErrDuplicateJoinerID:    "ErrDuplicateJoinerID",
	chord.ErrKVSimpleConflict:     "ErrKVSimpleConflict",
	chord.ErrKVPrefixConflict:     "ErrKVPrefixConflict",
	chord.ErrKVLeaseConflict:      "ErrKVLeaseConflict",
	chord.ErrKVLeaseExpired:       "ErrKVLeaseExpired",
	chord.ErrKVLeaseInvalidTTL:    "ErrKVLeaseInvalidTTL",
	chord.ErrKVHashFnChanged:      "ErrKVHashFnChanged",
}

type defined struct {
	name string
	err  error
}

func definedErrors() []defined {
	var out []defined
	seen := map[error]bool{}
	for msg, e := range errorStrMap {
		if seen[e] {
			continue
		}
		seen[e] = true
		if e == context.DeadlineExceeded {
			continue // covered by the explicit "deadline" forms (which know how to tell it from the caller's own timeout)
		}
		n, ok := exported[e]
		if !ok {
			n = "unlisted:" + slug(msg)
		}
		out = append(out, defined{n, e})
	}
	sort.Slice(out, func(i, j int) bool { return out[i].name < out[j].name })
	return out
}

func slug(s string) string {
	s = strings.Map(func(r rune) rune {
		if r >= 'a' && r <= 'z' || r >= 'A' && r <= 'Z' || r >= '0' && r <= '9' {
			return r
		}
		return '-'
	}, s)
	if len(s) > 40 {
		s = s[:40]
	}
	return s
}

// ---- scripted origin ----

type script struct {
	mu    sync.Mutex
	err   error
	calls int
}

func (s *script) next() error {
	s.mu.Lock()
	defer s.mu.Unlock()
	s.calls++
	return s.err
}

func (s *script) set(err error) {
	s.mu.Lock()
	s.err = err
	s.calls = 0
	s.mu.Unlock()
}

func (s *script) count() int { s.mu.Lock(); defer s.mu.Unlock(); return s.calls }

// scriptedNode is the "node" behind chord.Server.
type scriptedNode struct {
	ident *protocol.Node
	s     *script
}

var _ chord.VNode = (*scriptedNode)(nil)

func (n *scriptedNode) ID() uint64               { return n.ident.GetId() }
func (n *scriptedNode) Identity() *protocol.Node { return n.ident }
func (n *scriptedNode) Ping() error              { return n.s.next() }
func (n *scriptedNode) Notify(chord.VNode) error { return n.s.next() }
func (n *scriptedNode) FindSuccessor(uint64) (chord.VNode, error) {
	if err := n.s.next(); err != nil {
		return nil, err
	}
	return n, nil
}
func (n *scriptedNode) GetSuccessors() ([]chord.VNode, error) {
	if err := n.s.next(); err != nil {
		return nil, err
	}
	return []chord.VNode{n}, nil
}
func (n *scriptedNode) GetPredecessor() (chord.VNode, error) {
	if err := n.s.next(); err != nil {
		return nil, err
	}
	return n, nil
}
func (n *scriptedNode) RequestToJoin(chord.VNode) (chord.VNode, []chord.VNode, error) {
	if err := n.s.next(); err != nil {
		return nil, nil, err
	}
	return n, []chord.VNode{n}, nil
}
func (n *scriptedNode) FinishJoin(bool, bool) error                        { return n.s.next() }
func (n *scriptedNode) RequestToLeave(chord.VNode) error                   { return n.s.next() }
func (n *scriptedNode) FinishLeave(bool, bool) error                       { return n.s.next() }
func (n *scriptedNode) Put(context.Context, []byte, []byte) error          { return n.s.next() }
func (n *scriptedNode) Get(context.Context, []byte) ([]byte, error)        { return nil, n.s.next() }
func (n *scriptedNode) Delete(context.Context, []byte) error               { return n.s.next() }
func (n *scriptedNode) PrefixAppend(context.Context, []byte, []byte) error { return n.s.next() }
func (n *scriptedNode) PrefixList(context.Context, []byte) ([][]byte, error) {
	return nil, n.s.next()
}
func (n *scriptedNode) PrefixContains(context.Context, []byte, []byte) (bool, error) {
	return false, n.s.next()
}
func (n *scriptedNode) PrefixRemove(context.Context, []byte, []byte) error { return n.s.next() }
func (n *scriptedNode) Acquire(context.Context, []byte, time.Duration) (uint64, error) {
	return 1, n.s.next()
}
func (n *scriptedNode) Renew(context.Context, []byte, time.Duration, uint64) (uint64, error) {
	return 2, n.s.next()
}
func (n *scriptedNode) Release(context.Context, []byte, uint64) error { return n.s.next() }
func (n *scriptedNode) Import(context.Context, [][]byte, []*protocol.KVTransfer) error {
	return n.s.next()
}
func (n *scriptedNode) ListKeys(context.Context, []byte) ([]*protocol.KeyComposite, error) {
	return nil, n.s.next()
}

// scriptedKV is the storage backend behind the real LocalNode: every RPC-reachable
// method answers with the scripted result; the local-only methods (Export, RangeKeys,
// ...) are those of the repository's in-memory backend.
type scriptedKV struct {
	*memory.MemoryKV
	s *script
}

func (k *scriptedKV) Put(context.Context, []byte, []byte) error          { return k.s.next() }
func (k *scriptedKV) Get(context.Context, []byte) ([]byte, error)        { return []byte("v"), k.s.next() }
func (k *scriptedKV) Delete(context.Context, []byte) error               { return k.s.next() }
func (k *scriptedKV) PrefixAppend(context.Context, []byte, []byte) error { return k.s.next() }
func (k *scriptedKV) PrefixList(context.Context, []byte) ([][]byte, error) {
	return nil, k.s.next()
}
func (k *scriptedKV) PrefixContains(context.Context, []byte, []byte) (bool, error) {
	return true, k.s.next()
}
func (k *scriptedKV) PrefixRemove(context.Context, []byte, []byte) error { return k.s.next() }
func (k *scriptedKV) Acquire(context.Context, []byte, time.Duration) (uint64, error) {
	return 1, k.s.next()
}
func (k *scriptedKV) Renew(context.Context, []byte, time.Duration, uint64) (uint64, error) {
	return 2, k.s.next()
}
func (k *scriptedKV) Release(context.Context, []byte, uint64) error { return k.s.next() }
func (k *scriptedKV) Import(context.Context, [][]byte, []*protocol.KVTransfer) error {
	return k.s.next()
}
func (k *scriptedKV) ListKeys(context.Context, []byte) ([]*protocol.KeyComposite, error) {
	return nil, k.s.next()
}

// ---- the calls a remote caller can make ----

type method struct {
	name string
	kv   bool
	call func(ctx context.Context, c chord.VNode, other chord.VNode) error
}

var uniq atomic.Int64

var methods = []method{
	{"Ping", false, func(_ context.Context, c, _ chord.VNode) error { return c.Ping() }},
	{"Notify", false, func(_ context.Context, c, o chord.VNode) error { return c.Notify(o) }},
	{"FindSuccessor", false, func(_ context.Context, c, _ chord.VNode) error { _, err := c.FindSuccessor(42); return err }},
	{"GetSuccessors", false, func(_ context.Context, c, _ chord.VNode) error { _, err := c.GetSuccessors(); return err }},
	{"GetPredecessor", false, func(_ context.Context, c, _ chord.VNode) error { _, err := c.GetPredecessor(); return err }},
	{"RequestToJoin", false, func(_ context.Context, c, o chord.VNode) error { _, _, err := c.RequestToJoin(o); return err }},
	{"FinishJoin", false, func(_ context.Context, c, _ chord.VNode) error { return c.FinishJoin(true, true) }},
	{"RequestToLeave", false, func(_ context.Context, c, o chord.VNode) error { return c.RequestToLeave(o) }},
	{"FinishLeave", false, func(_ context.Context, c, _ chord.VNode) error { return c.FinishLeave(true, true) }},
	{"Put", true, func(ctx context.Context, c, _ chord.VNode) error { return c.Put(ctx, []byte("k"), []byte("v")) }},
	{"Get", true, func(ctx context.Context, c, _ chord.VNode) error { _, err := c.Get(ctx, []byte("k")); return err }},
	{"Delete", true, func(ctx context.Context, c, _ chord.VNode) error { return c.Delete(ctx, []byte("k")) }},
	{"PrefixAppend", true, func(ctx context.Context, c, _ chord.VNode) error {
		return c.PrefixAppend(ctx, []byte("p"), []byte(fmt.Sprint("c", uniq.Add(1))))
	}},
	{"PrefixList", true, func(ctx context.Context, c, _ chord.VNode) error {
		_, err := c.PrefixList(ctx, []byte("p"))
		return err
	}},
	{"PrefixContains", true, func(ctx context.Context, c, _ chord.VNode) error {
		_, err := c.PrefixContains(ctx, []byte("p"), []byte("c"))
		return err
	}},
	{"PrefixRemove", true, func(ctx context.Context, c, _ chord.VNode) error {
		return c.PrefixRemove(ctx, []byte("p"), []byte("c"))
	}},
	{"Acquire", true, func(ctx context.Context, c, _ chord.VNode) error {
		_, err := c.Acquire(ctx, []byte(fmt.Sprint("lease", uniq.Add(1))), time.Minute)
		return err
	}},
	{"Renew", true, func(ctx context.Context, c, _ chord.VNode) error {
		_, err := c.Renew(ctx, []byte("lease-r"), time.Minute, 1)
		return err
	}},
	{"Release", true, func(ctx context.Context, c, _ chord.VNode) error { return c.Release(ctx, []byte("lease-r"), 1) }},
	{"Import", true, func(ctx context.Context, c, _ chord.VNode) error {
		return c.Import(ctx, [][]byte{[]byte("i")}, []*protocol.KVTransfer{{SimpleValue: []byte("v")}})
	}},
	{"ListKeys", true, func(ctx context.Context, c, _ chord.VNode) error { _, err := c.ListKeys(ctx, []byte("")); return err }},
}

// ---- what a node may return ----

type form struct {
	class    string // plain | wrapped | deadline | arbitrary
	name     string
	key      string // violation key
	origin   error
	sentinel error // the defined error the caller must recognise (nil for arbitrary)
}

type wiring struct {
	name   string
	caller chord.VNode
	script *script
	kvOnly bool
}

func main() {
	r := ev.Start("C14", "exploration")
	r.SetRule("one RPC per (wiring, RPC method, error form); forms = every error registered in spec/chord (read from the package's registry at run time) returned as is and %w-wrapped (1 and 2 levels, errors.Join), context.DeadlineExceeded as is and wrapped, arbitrary errors (seeded texts, texts embedding a defined message); distinct by (wiring, method, form class, retryable at origin); the nil-error call per method is the trivial case")
	rng := r.Rand("c14")
	logger := zap.NewNop()
	ctx, cancel := context.WithCancel(context.Background())
	defer cancel()

	defs := definedErrors()
	if len(defs) == 0 {
		r.Inconclusive("the error registry of spec/chord is empty or unreachable")
		r.Finish()
	}
	unlisted := 0
	for _, d := range defs {
		if strings.HasPrefix(d.name, "unlisted:") {
			unlisted++
		}
	}
	for e, n := range exported {
		found := false
		for _, d := range defs {
			if d.err == e {
				found = true
			}
		}
		if !found {
			r.Inconclusive("exported error " + n + " is not in the registry read from the package")
		}
	}
	r.Extra("defined_errors", len(defs))
	r.Extra("defined_errors_not_in_worker_table", unlisted)

	wirings := []wiring{serverWiring(ctx, logger), localNodeWiring(ctx, logger, r)}
	other := &scriptedNode{ident: &protocol.Node{Id: 777, Address: "127.0.0.1:7777"}, s: &script{}}

	rounds := r.Pick(1, 12)
	var rpcs, retried int64
	sampled := map[string]bool{}
	deviating := map[string]int{}
	for round := 0; round < rounds; round++ {
		forms := buildForms(defs, rng, round)
		for _, w := range wirings {
			for _, m := range methods {
				if w.kvOnly && !m.kv {
					continue
				}
				// trivial: no error at the origin, none at the caller
				caseName := fmt.Sprintf("%s/%s/ok/%d", w.name, m.name, round)
				if r.WantCase(caseName) {
					w.script.set(nil)
					err := m.call(ctx, w.caller, other)
					rpcs++
					r.Case("")
					if err != nil && !clientSideTimeout(err) {
						r.Violation("ok:"+m.name, caseName, fmt.Sprintf("%s over %s: origin returned no error, caller got %v", m.name, w.name, err), nil)
					}
				}
				for _, f := range forms {
					caseName := fmt.Sprintf("%s/%s/%s/%s/%d", w.name, m.name, f.class, f.name, round)
					if !r.WantCase(caseName) {
						continue
					}
					var got error
					reached := false
					for attempt := 0; attempt < 3; attempt++ {
						w.script.set(f.origin)
						got = m.call(ctx, w.caller, other)
						rpcs++
						reached = w.script.count() > 0
						// the caller's own RPC deadline (10 s / 3 s) expiring on a loaded
						// machine says nothing about error mapping: run the case again
						if f.class != "deadline" && got != nil && clientSideTimeout(got) {
							retried++
							continue
						}
						break
					}
					if !reached {
						r.Inconclusive(fmt.Sprintf("%s: the scripted origin was never invoked (caller error: %v)", caseName, got))
						continue
					}
					if f.class != "deadline" && got != nil && clientSideTimeout(got) {
						r.Inconclusive(caseName + ": caller-side RPC deadline expired three times")
						continue
					}
					originRetry := chord.ErrorIsRetryable(f.origin)
					r.Case(fmt.Sprintf("%s/%s/%s/%v", w.name, m.name, f.class, originRetry))
					var bad []string
					if got == nil {
						bad = append(bad, "the caller received no error at all")
					} else {
						if f.sentinel != nil && !errors.Is(got, f.sentinel) {
							bad = append(bad, fmt.Sprintf("errors.Is(callerErr, %s) is false", f.name))
						}
						if cr := chord.ErrorIsRetryable(got); cr != originRetry {
							bad = append(bad, fmt.Sprintf("retryable at origin=%v, at caller=%v", originRetry, cr))
						}
						if f.sentinel == nil {
							for _, d := range defs {
								if errors.Is(got, d.err) {
									bad = append(bad, "unknown error recognised by the caller as "+d.name)
								}
							}
						}
					}
					sk := w.name + f.class
					if !sampled[sk] && (m.name == "RequestToJoin" || m.name == "Put") && len(sampled) < 8 {
						sampled[sk] = true
						r.Sample(map[string]any{"wiring": w.name, "method": m.name, "form": f.class + ":" + f.name, "origin_error": f.origin.Error(), "origin_retryable": originRetry,
							"caller_error": fmt.Sprint(got), "caller_type": fmt.Sprintf("%T", got), "caller_retryable": chord.ErrorIsRetryable(got), "ok": len(bad) == 0})
					}
					if len(bad) > 0 {
						deviating[f.key]++
						r.Violation(f.key, caseName,
							fmt.Sprintf("%s over %s, origin returned %q (%s): %s; caller got %T %q", m.name, w.name, f.origin.Error(), f.class, strings.Join(bad, "; "), got, fmt.Sprint(got)),
							map[string]any{"wiring": w.name, "method": m.name, "class": f.class, "error": f.name, "origin": f.origin.Error(), "origin_retryable": originRetry, "caller": fmt.Sprint(got), "caller_type": fmt.Sprintf("%T", got), "failed": bad})
					}
				}
			}
		}
	}
	r.Count("rpcs", rpcs)
	if len(deviating) > 0 {
		r.Extra("deviating_keys", deviating)
	}
	r.Count("cases_rerun_after_caller_timeout", retried)
	r.Assume("an arbitrary error whose text equals a defined error's message exactly is not generated (message-based mapping cannot tell them apart by design)")
	r.Assume("origin retryability is chord.ErrorIsRetryable evaluated on the origin's error value")
	r.Finish()
}

// clientSideTimeout: the caller's own context expired (the twirp client wraps ctx.Err()).
func clientSideTimeout(err error) bool {
	return errors.Is(err, context.DeadlineExceeded) || errors.Is(err, context.Canceled)
}

func randText(rng *rand.Rand) string {
	words := []string{"disk", "quota", "exceeded", "connection", "reset", "kv", "chord", "node", "lease", "retry", "temporary", "failure", "EOF", "ünïcode", "timeout:"}
	n := 1 + rng.Intn(5)
	p := make([]string, n)
	for i := range p {
		p[i] = words[rng.Intn(len(words))]
	}
	return strings.Join(p, " ")
}

func buildForms(defs []defined, rng *rand.Rand, round int) []form {
	var forms []form
	for _, d := range defs {
		forms = append(forms, form{"plain", d.name, "plain:" + d.name, d.err, d.err})
		var w error
		switch (round + rng.Intn(2)) % 4 {
		case 0:
			w = fmt.Errorf("%s: %w", randText(rng), d.err)
		case 1:
			w = fmt.Errorf("outer %d: %w", rng.Intn(100), fmt.Errorf("%s: %w", randText(rng), d.err))
		case 2:
			w = errors.Join(errors.New(randText(rng)), d.err)
		default:
			w = fmt.Errorf("%w (%s)", d.err, randText(rng))
		}
		forms = append(forms, form{"wrapped", d.name, "wrapped:" + d.name, w, d.err})
	}
	forms = append(forms,
		form{"deadline", "DeadlineExceeded", "deadline", context.DeadlineExceeded, context.DeadlineExceeded},
		form{"deadline", "wrapped-DeadlineExceeded", "wrapped:deadline", fmt.Errorf("forwarding to successor: %w", context.DeadlineExceeded), context.DeadlineExceeded},
	)
	// arbitrary errors: never retryable, never recognised as a defined error
	forms = append(forms,
		form{"arbitrary", "text", "arbitrary:text", errors.New(randText(rng) + fmt.Sprint(" #", rng.Intn(1000))), nil},
		form{"arbitrary", "embeds-retryable-message", "arbitrary:embeds-retryable-message", fmt.Errorf("backend said: %v", chord.ErrKVStaleOwnership), nil},
		form{"arbitrary", "embeds-message-suffix", "arbitrary:embeds-message-suffix", fmt.Errorf("%v, or so", chord.ErrJoinInvalidState), nil},
		form{"arbitrary", "net-error", "arbitrary:net-error", &net.OpError{Op: "read", Net: "tcp", Err: errors.New("connection reset by peer")}, nil},
		form{"arbitrary", "empty-ish", "arbitrary:empty-ish", errors.New(" "), nil},
	)
	return forms
}

// serverWiring: scripted VNode behind the real chord.Server, twirp servers mounted
// as LocalNode does it, reached through StreamRouter + H2 acceptor over a loop-back
// in-memory transport.
func serverWiring(ctx context.Context, logger *zap.Logger) wiring {
	s := &script{}
	peer := &protocol.Node{Id: 1234, Address: "127.0.0.1:1234"}
	node := &scriptedNode{ident: peer, s: s}
	srvImpl := &chordimpl.Server{
		LocalNode: node,
		Factory: func(n *protocol.Node) (chord.VNode, error) {
			return &scriptedNode{ident: n, s: &script{}}, nil
		},
	}
	nsTwirp := protocol.NewVNodeServiceServer(srvImpl)
	ksTwirp := protocol.NewKVServiceServer(srvImpl)
	h := chi.NewRouter()
	h.Mount(nsTwirp.PathPrefix(), rpc.ExtractContext(nsTwirp))
	h.Mount(ksTwirp.PathPrefix(), rpc.ExtractContext(ksTwirp))

	tp := mocks.SelfTransport()
	srv := &http.Server{BaseContext: func(net.Listener) context.Context { return ctx }, Handler: h}
	acc := acceptor.NewH2Acceptor(nil)
	go srv.Serve(acc)
	router := transport.NewStreamRouter(logger, tp, nil)
	go router.Accept(ctx)
	router.HandleChord(protocol.Stream_RPC, peer, func(d *transport.StreamDelegate) { acc.Handle(d) })

	client := rpc.DynamicChordClient(rpc.DisablePooling(ctx), tp)
	caller, err := chordimpl.NewRemoteNode(ctx, logger, client, peer)
	if err != nil {
		panic(err)
	}
	return wiring{name: "server", caller: caller, script: s}
}

// localNodeWiring: the production wiring of a real node (AttachRouter with its
// twirp hooks), single-node ring, storage backend scripted.
func localNodeWiring(ctx context.Context, logger *zap.Logger, r *ev.Run) wiring {
	s := &script{}
	t1, t2 := mocks.PipeTransport()
	client1 := rpc.DynamicChordClient(rpc.DisablePooling(ctx), t1)
	ident := &protocol.Node{Id: chord.Hash([]byte("c14-node")), Address: "127.0.0.1:4321"}
	node := chordimpl.NewLocalNode(chordimpl.NodeConfig{
		BaseLogger:               logger,
		Identity:                 ident,
		KVProvider:               &scriptedKV{MemoryKV: memory.WithHashFn(chord.Hash), s: s},
		FixFingerInterval:        time.Hour,
		StabilizeInterval:        time.Hour,
		PredecessorCheckInterval: time.Hour,
		ChordClient:              client1,
		NodesRTT:                 new(mocks.Measurement),
	})
	router := transport.NewStreamRouter(logger, t1, nil)
	node.AttachRouter(ctx, router)
	go router.Accept(ctx)
	if err := node.Create(); err != nil {
		r.Inconclusive("LocalNode.Create: " + err.Error())
		r.Finish()
	}
	client2 := rpc.DynamicChordClient(rpc.DisablePooling(ctx), t2)
	caller, err := chordimpl.NewRemoteNode(ctx, logger, client2, ident)
	if err != nil {
		panic(err)
	}
	return wiring{name: "localnode", caller: caller, script: s, kvOnly: true}
}
