// C15 — the retrying KV client retries only retryable failures, boundedly.
// Every result sequence over {ok, retryable, non-retryable} of length attempts+1 is
// scripted into a call-counting VNode behind the real chord.WrapRetryKV, for each of
// the 11 wrapped methods. Oracle from the statement: the underlying call is issued
// again only after a retryable error, at most `attempts` times, and the wrapper
// returns the first success or the last error.
package main

import (
	"bytes"
	"context"
	"errors"
	"fmt"
	"math/rand"
	"strings"
	"sync"
	"sync/atomic"
	"time"

	"verifharness/lab/ev"
	"verifharness/lab/racelog"

	"go.miragespace.co/specter/spec/chord"
	"go.miragespace.co/specter/spec/protocol"
)

type result struct {
	class byte  // 'O' ok, 'R' retryable, 'N' non-retryable
	err   error // nil for ok
}

// scripted counts calls and answers call i with script[i]; calls beyond the
// script are answered with errOverrun (non-retryable) and still counted.
type scripted struct {
	chord.VNode // nil: unexpected methods panic
	mu          sync.Mutex
	script      []result
	calls       int
	methods     []string
}

// concNode: Get(key) fails retryably fails[key] times, then answers "ok-<key>".
type concNode struct {
	chord.VNode
	mu    sync.Mutex
	fails map[string]int
	tries map[string]int
}

func (c *concNode) Get(_ context.Context, k []byte) ([]byte, error) {
	c.mu.Lock()
	defer c.mu.Unlock()
	c.tries[string(k)]++
	if c.tries[string(k)] <= c.fails[string(k)] {
		return nil, chord.ErrKVStaleOwnership
	}
	return []byte("ok-" + string(k)), nil
}

var errOverrun = errors.New("c15: called more often than scripted")

func (s *scripted) next(method string) (int, error) {
	s.mu.Lock()
	defer s.mu.Unlock()
	i := s.calls
	s.calls++
	s.methods = append(s.methods, method)
	if i >= len(s.script) {
		return i, errOverrun
	}
	return i, s.script[i].err
}

func val(i int) []byte { return []byte(fmt.Sprintf("value-of-call-%d", i)) }

func (s *scripted) Put(context.Context, []byte, []byte) error { _, e := s.next("Put"); return e }
func (s *scripted) Get(context.Context, []byte) ([]byte, error) {
	i, e := s.next("Get")
	if e != nil {
		return nil, e
	}
	return val(i), nil
}
func (s *scripted) Delete(context.Context, []byte) error { _, e := s.next("Delete"); return e }
func (s *scripted) PrefixAppend(context.Context, []byte, []byte) error {
	_, e := s.next("PrefixAppend")
	return e
}
func (s *scripted) PrefixList(context.Context, []byte) ([][]byte, error) {
	i, e := s.next("PrefixList")
	if e != nil {
		return nil, e
	}
	return [][]byte{val(i)}, nil
}
func (s *scripted) PrefixContains(context.Context, []byte, []byte) (bool, error) {
	_, e := s.next("PrefixContains")
	if e != nil {
		return false, e
	}
	return true, nil
}
func (s *scripted) PrefixRemove(context.Context, []byte, []byte) error {
	_, e := s.next("PrefixRemove")
	return e
}
func (s *scripted) Acquire(context.Context, []byte, time.Duration) (uint64, error) {
	i, e := s.next("Acquire")
	if e != nil {
		return 0, e
	}
	return uint64(1000 + i), nil
}
func (s *scripted) Renew(context.Context, []byte, time.Duration, uint64) (uint64, error) {
	i, e := s.next("Renew")
	if e != nil {
		return 0, e
	}
	return uint64(2000 + i), nil
}
func (s *scripted) Release(context.Context, []byte, uint64) error {
	_, e := s.next("Release")
	return e
}
func (s *scripted) ListKeys(context.Context, []byte) ([]*protocol.KeyComposite, error) {
	i, e := s.next("ListKeys")
	if e != nil {
		return nil, e
	}
	return []*protocol.KeyComposite{{Key: val(i)}}, nil
}

// one wrapped method: invoke it, report the error and whether the value is the one
// produced by underlying call number `call`.
type method struct {
	name string
	run  func(ctx context.Context, n chord.VNode) (valueOfCall int, err error)
}

const noValue = -1 // method has no result value (or returned the zero value)
const badValue = -2

func fromVal(b []byte) int {
	var i int
	if _, err := fmt.Sscanf(string(b), "value-of-call-%d", &i); err != nil || !bytes.Equal(b, val(i)) {
		return badValue
	}
	return i
}

var methods = []method{
	{"Put", func(ctx context.Context, n chord.VNode) (int, error) {
		return noValue, n.Put(ctx, []byte("k"), []byte("v"))
	}},
	{"Get", func(ctx context.Context, n chord.VNode) (int, error) {
		v, err := n.Get(ctx, []byte("k"))
		if v == nil {
			return noValue, err
		}
		return fromVal(v), err
	}},
	{"Delete", func(ctx context.Context, n chord.VNode) (int, error) { return noValue, n.Delete(ctx, []byte("k")) }},
	{"PrefixAppend", func(ctx context.Context, n chord.VNode) (int, error) {
		return noValue, n.PrefixAppend(ctx, []byte("p"), []byte("c"))
	}},
	{"PrefixList", func(ctx context.Context, n chord.VNode) (int, error) {
		v, err := n.PrefixList(ctx, []byte("p"))
		if v == nil {
			return noValue, err
		}
		if len(v) != 1 {
			return badValue, err
		}
		return fromVal(v[0]), err
	}},
	{"PrefixContains", func(ctx context.Context, n chord.VNode) (int, error) {
		v, err := n.PrefixContains(ctx, []byte("p"), []byte("c"))
		if (err == nil) != v { // the scripted node answers true exactly on success
			return badValue, err
		}
		return noValue, err
	}},
	{"PrefixRemove", func(ctx context.Context, n chord.VNode) (int, error) {
		return noValue, n.PrefixRemove(ctx, []byte("p"), []byte("c"))
	}},
	{"Acquire", func(ctx context.Context, n chord.VNode) (int, error) {
		v, err := n.Acquire(ctx, []byte("l"), time.Minute)
		if v == 0 {
			return noValue, err
		}
		return int(v) - 1000, err
	}},
	{"Renew", func(ctx context.Context, n chord.VNode) (int, error) {
		v, err := n.Renew(ctx, []byte("l"), time.Minute, 5)
		if v == 0 {
			return noValue, err
		}
		return int(v) - 2000, err
	}},
	{"Release", func(ctx context.Context, n chord.VNode) (int, error) { return noValue, n.Release(ctx, []byte("l"), 5) }},
	{"ListKeys", func(ctx context.Context, n chord.VNode) (int, error) {
		v, err := n.ListKeys(ctx, []byte("p"))
		if v == nil {
			return noValue, err
		}
		if len(v) != 1 {
			return badValue, err
		}
		return fromVal(v[0].GetKey()), err
	}},
}

var hasValue = map[string]bool{"Get": true, "PrefixList": true, "Acquire": true, "Renew": true, "ListKeys": true}

type caseT struct {
	name     string
	method   method
	attempts int
	seq      string
	script   []result
}

type verdict struct {
	c     caseT
	calls int
	seen  []string
	val   int
	err   error
	done  bool
}

func mkErr(rng *rand.Rand, class byte, pos int) error {
	retryable := []error{chord.ErrKVStaleOwnership, chord.ErrKVPendingTransfer, chord.ErrJoinInvalidState, chord.ErrLeaveTransferFailure, context.DeadlineExceeded}
	fatal := []error{chord.ErrKVSimpleConflict, chord.ErrKVPrefixConflict, chord.ErrKVLeaseConflict, chord.ErrKVLeaseExpired, chord.ErrNodeGone, errors.New("disk on fire"), context.Canceled}
	var base error
	if class == 'R' {
		base = retryable[rng.Intn(len(retryable))]
	} else {
		base = fatal[rng.Intn(len(fatal))]
	}
	if rng.Intn(2) == 0 {
		return base // the sentinel itself
	}
	return fmt.Errorf("call %d (%d): %w", pos, rng.Intn(1<<30), base) // unique, class kept through %w
}

func main() {
	r := ev.Start("C15", "exploration")
	r.SetExhaustive(true)
	maxAttempts := r.Pick(3, 5)
	reps := r.Pick(1, 3)
	r.SetRule(fmt.Sprintf("every sequence over {O ok, R retryable, N non-retryable} of length attempts+1 for attempts 1..%d x each of the 11 methods wrapped by WrapRetryKV (x%d seeded choices of the concrete errors: sentinels or unique %%w-wrappers, incl. context.DeadlineExceeded as retryable); non-trivial when the first result is not ok; distinct by (method, attempts, sequence); plus one wrapper shared by 16 goroutines, half of them calling with cancelled contexts: every call with a healthy context returns the first success after its own 0-3 retryable failures", maxAttempts, reps))
	rng := r.Rand("c15")

	var cases []caseT
	for rep := 0; rep < reps; rep++ {
		for _, m := range methods {
			for a := 1; a <= maxAttempts; a++ {
				n := a + 1
				total := 1
				for i := 0; i < n; i++ {
					total *= 3
				}
				for code := 0; code < total; code++ {
					seq := make([]byte, n)
					x := code
					sc := make([]result, n)
					for i := 0; i < n; i++ {
						cl := "ORN"[x%3]
						x /= 3
						seq[i] = cl
						sc[i].class = cl
						if cl != 'O' {
							sc[i].err = mkErr(rng, cl, i)
						}
					}
					cases = append(cases, caseT{name: fmt.Sprintf("%s/a%d/%s/%d", m.name, a, seq, rep), method: m, attempts: a, seq: string(seq), script: sc})
				}
			}
		}
	}

	// run: retry-go sleeps (interval * 2^n + up to 100 ms of jitter) between attempts,
	// so the cases run concurrently; nothing is decided by elapsed time.
	results := make([]verdict, len(cases))
	sem := make(chan struct{}, 512)
	var wg sync.WaitGroup
	var mu sync.Mutex
	for i, c := range cases {
		if !r.WantCase(c.name) {
			continue
		}
		wg.Add(1)
		sem <- struct{}{}
		go func(i int, c caseT) {
			defer wg.Done()
			defer func() { <-sem }()
			node := &scripted{script: c.script}
			w := chord.WrapRetryKV(node, time.Microsecond, uint(c.attempts))
			v, err := c.method.run(context.Background(), w)
			node.mu.Lock()
			calls, seen := node.calls, append([]string(nil), node.methods...)
			node.mu.Unlock()
			mu.Lock()
			results[i] = verdict{c: c, calls: calls, seen: seen, val: v, err: err, done: true}
			mu.Unlock()
		}(i, c)
	}
	fin := make(chan struct{})
	go func() { wg.Wait(); close(fin) }()
	select {
	case <-fin:
	case <-time.After(10 * time.Minute):
		r.Inconclusive("watchdog: retry cases still running after 10 minutes")
		r.Finish()
	}

	var totalCalls, retries int64
	sampled := 0
	for _, v := range results {
		if !v.done {
			continue
		}
		c := v.c
		// oracle
		k := -1
		for i := 0; i < c.attempts; i++ {
			if c.script[i].class != 'R' {
				k = i
				break
			}
		}
		wantCalls := c.attempts
		decisive := c.attempts - 1
		if k >= 0 {
			wantCalls = k + 1
			decisive = k
		}
		want := c.script[decisive]
		sig := ""
		if c.seq[0] != 'O' {
			sig = fmt.Sprintf("%s/a%d/%s", c.method.name, c.attempts, c.seq)
		}
		r.Case(sig)
		totalCalls += int64(v.calls)
		retries += int64(v.calls - 1)
		if sampled < 5 && c.attempts == 3 && c.method.name == "Get" && strings.HasPrefix(c.seq, []string{"RRO", "RNO", "RRR", "RON", "NOO"}[sampled]) {
			sampled++
			r.Sample(map[string]any{"method": c.method.name, "attempts": c.attempts, "scripted_results": c.seq, "underlying_calls": v.calls, "returned_error": fmt.Sprint(v.err), "returned_value_of_call": v.val})
		}
		var bad []string
		key := ""
		flag := func(k, s string) {
			if key == "" {
				key = k
			}
			bad = append(bad, s)
		}
		for _, m := range v.seen {
			if m != c.method.name {
				flag("wrong-method", "underlying method "+m+" was called")
			}
		}
		if v.calls > c.attempts {
			flag("too-many-attempts", fmt.Sprintf("%d underlying calls with attempts=%d", v.calls, c.attempts))
		}
		if v.calls != wantCalls {
			switch {
			case v.calls > wantCalls && k >= 0 && c.script[k].class == 'N':
				flag("retried-non-retryable", fmt.Sprintf("%d calls, a non-retryable error at call %d must end it", v.calls, k+1))
			case v.calls > wantCalls && k >= 0:
				flag("called-after-success", fmt.Sprintf("%d calls, call %d succeeded", v.calls, k+1))
			case v.calls < wantCalls:
				flag("gave-up-early", fmt.Sprintf("%d calls, expected %d (retryable errors, attempts left)", v.calls, wantCalls))
			default:
				flag("too-many-attempts", fmt.Sprintf("%d calls, expected %d", v.calls, wantCalls))
			}
		}
		if want.class == 'O' {
			if v.err != nil {
				flag("success-not-returned", fmt.Sprintf("call %d succeeded but the wrapper returned error %v", decisive+1, v.err))
			} else if hasValue[c.method.name] && v.val != decisive {
				flag("wrong-value", fmt.Sprintf("returned the value of call %d, the first success is call %d", v.val+1, decisive+1))
			} else if v.val == badValue {
				flag("wrong-value", "returned value is not the one produced by the underlying call")
			}
		} else {
			if v.err == nil {
				flag("error-swallowed", fmt.Sprintf("the deciding result (call %d) is an error but the wrapper returned success", decisive+1))
			} else {
				if !errors.Is(v.err, want.err) {
					flag("wrong-error", fmt.Sprintf("returned %q, the last error is %q", v.err, want.err))
				}
				// must not be (or contain) an error of another attempt
				for j, s := range c.script {
					if j == decisive || s.err == nil || errors.Is(want.err, s.err) || errors.Is(s.err, want.err) {
						continue
					}
					if errors.Is(v.err, s.err) {
						flag("wrong-error", fmt.Sprintf("returned error %q matches the error of call %d, not only the last one", v.err, j+1))
					}
				}
				if v.val != noValue {
					flag("value-with-error", "a value was returned together with an error")
				}
			}
		}
		if len(bad) > 0 {
			errs := make([]string, len(c.script))
			for i, s := range c.script {
				errs[i] = fmt.Sprint(s.err)
			}
			r.Violation(c.method.name+":"+key, c.name, fmt.Sprintf("%s attempts=%d results=%s: %s", c.method.name, c.attempts, c.seq, strings.Join(bad, "; ")),
				map[string]any{"method": c.method.name, "attempts": c.attempts, "sequence": c.seq, "scripted_errors": errs, "calls": v.calls, "returned_error": fmt.Sprint(v.err), "returned_value_of_call": v.val, "failed": bad})
		}
	}
	r.Count("underlying_calls", totalCalls)

	// ---- one wrapper shared by concurrent callers with different contexts (the server shares one
	// wrapped node between all its RPC handlers): every call with a healthy context still returns the
	// first success after its own retryable failures, whatever happens to the contexts of the others
	{
		cn := &concNode{fails: map[string]int{}, tries: map[string]int{}}
		w := chord.WrapRetryKV(cn, 20*time.Microsecond, 6)
		G, per := 16, r.Pick(150, 1500)
		var cwg sync.WaitGroup
		var badMu sync.Mutex
		var firstBad string
		var nbad, nHealthy, nCancelled atomic.Int64
		for g := 0; g < G; g++ {
			cwg.Add(1)
			go func(g int) {
				defer cwg.Done()
				grng := r.Rand(fmt.Sprintf("concurrent-%d", g))
				for i := 0; i < per; i++ {
					key := fmt.Sprintf("g%d-%d", g, i)
					cn.mu.Lock()
					cn.fails[key] = grng.Intn(4)
					cn.mu.Unlock()
					ctx := context.Background()
					healthy := g%2 == 0
					if !healthy {
						c2, cancel := context.WithCancel(ctx)
						cancel()
						ctx = c2
					}
					v, err := w.Get(ctx, []byte(key))
					if !healthy {
						nCancelled.Add(1)
						continue
					}
					nHealthy.Add(1)
					if err != nil || string(v) != "ok-"+key {
						nbad.Add(1)
						badMu.Lock()
						if firstBad == "" {
							cn.mu.Lock()
							firstBad = fmt.Sprintf("Get(%s) with a healthy context over a node that fails retryably %d time(s) and then succeeds returned (%q, %v) after %d underlying call(s), while other goroutines used the same wrapper with cancelled contexts", key, cn.fails[key], v, err, cn.tries[key])
							cn.mu.Unlock()
						}
						badMu.Unlock()
					}
				}
			}(g)
		}
		cwg.Wait()
		if racelog.Enabled() {
			n := 0
			for _, rp := range racelog.Collect("/spec/chord") {
				if !rp.InRepo {
					continue
				}
				n++
				r.Violation("race/spec/chord/retry", "concurrent", fmt.Sprintf("data race reported %d times with frames in spec/chord while one retrying wrapper was shared by concurrent callers: %s", rp.Count, rp.Key), map[string]any{"frames": rp.Frames, "report": rp.Excerpt})
			}
			r.Count("race_reports_in_spec_chord", int64(n))
		}
		r.Count("concurrent_calls_with_a_healthy_context", nHealthy.Load())
		r.Count("concurrent_calls_with_a_cancelled_context", nCancelled.Load())
		r.Case("concurrent/shared-wrapper/healthy-and-cancelled-contexts")
		if nbad.Load() > 0 {
			r.Violation("concurrent:healthy-call-not-first-success", "concurrent", fmt.Sprintf("%d of %d calls: %s", nbad.Load(), nHealthy.Load(), firstBad), nil)
		}
	}
	r.Count("retries", retries)
	r.Extra("bounds", map[string]any{"attempts": fmt.Sprintf("1..%d", maxAttempts), "methods": len(methods), "sequence_length": "attempts+1"})
	r.Assume("attempts >= 1 (0 means 'retry for ever' in retry-go and is outside the property); the context is never cancelled")
	r.Finish()
}
