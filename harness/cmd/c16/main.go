// C16 — every storage backend implements the KV contract.
// One generated operation sequence is run on memory, AOF and SQLite; every
// return value is compared with a reference model of the contract after each
// operation, and the whole store is audited at the middle and the end.
package main

import (
	"fmt"
	"os"
	"runtime"
	"strings"
	"sync"

	"verifharness/lab/ev"
	"verifharness/lab/kvlab"

	"go.miragespace.co/specter/spec/chord"
)

type hashMode struct {
	name string
	fn   chord.HashFn
}

var hashModes = []hashMode{
	{"deg", kvlab.DegenerateHash},
	{"real", kvlab.RealHash},
}

// diffClass turns a model diff into a short stable class for violation keys.
func diffClass(d string) string {
	switch {
	case strings.HasPrefix(d, "returned "):
		return "error"
	case strings.Contains(d, "unexpected"):
		return "unexpected-entry"
	case strings.Contains(d, "missing"):
		return "missing-entry"
	case strings.Contains(d, "reported"):
		return "duplicate-entry"
	case strings.Contains(d, "lease token"), strings.Contains(d, "token is"):
		return "token"
	case strings.Contains(d, "children"):
		return "children"
	}
	return "value"
}

func main() {
	r := ev.Start("C16", "exploration")
	r.SetRule("a sequence = 60 PRNG operations over 9 keys / 5 children / small+random values (Put Get Delete PrefixAppend/Contains/List/Remove ListKeys RangeKeys Import Export RemoveKeys, long-TTL Acquire/Renew/Release with current/stale/forged tokens), run identically on memory, AOF and SQLite under a degenerate hash (len mod 3: forced collisions) or the real hash; a case = one executed operation judged against the model; distinct+non-trivial by (backend, hash mode, operation, outcome class e.g. conflict/hit/miss/overlap/wrap); plus two whole-store audits per sequence")
	r.Assume("'every sequence' is sampled: seeded random sequences over small alphabets")
	r.Assume("lease part is timeless: TTLs >= 1h and imported tokens in the year 2100 never expire within a run")
	r.Assume("contract-silent cases are not judged: listing of a key whose simple value is present-but-empty; Import onto existing data with an empty value / zero token (kept or cleared, adopted from the backend); Release(0) on a free lease (not generated)")
	if err := kvlab.InitSQLite(); err != nil {
		r.Inconclusive("sqlite initialize: " + err.Error())
		r.Finish()
	}
	nSeq := r.Pick(200, 5000)
	const seqLen = 60

	type job struct{ idx int }
	jobs := make(chan job)
	var wg sync.WaitGroup
	var sampleMu sync.Mutex
	sampled := 0
	sampledKinds := map[string]bool{}
	interesting := map[string]bool{"conflict": true, "ambiguous": true, "rejected-stale": true, "rejected-forged": true, "removed=2": true}
	workers := runtime.GOMAXPROCS(0)
	if workers > 16 {
		workers = 16
	}
	var opsRun, audits, ambiguous int64
	var cmu sync.Mutex
	for w := 0; w < workers; w++ {
		wg.Add(1)
		go func() {
			defer wg.Done()
			for j := range jobs {
				caseName := fmt.Sprintf("seq-%d", j.idx)
				hm := hashModes[j.idx%len(hashModes)]
				g := kvlab.NewGen(r.Rand(caseName))
				g.ImportLeases = true
				g.EmptyBatches = true
				if j.idx%4 == 3 {
					g.BulkMax = 513 // Import / Export / RemoveKeys of whole key ranges (batching seams)
				}
				g.HashPoints = []uint64{0, kvlab.HashSpace - 1}
				for _, k := range g.Keys {
					g.HashPoints = append(g.HashPoints, hm.fn(k))
				}
				ops := g.Sequence(seqLen)
				r.Count("operations_with_a_bulk_key_set(15..513 keys)", int64(g.BulkOps))
				for _, be := range kvlab.Backends {
					st, err := kvlab.Open(be, "", hm.fn)
					if err != nil {
						r.Inconclusive(fmt.Sprintf("%s: cannot open %s store: %v", caseName, be, err))
						continue
					}
					m := kvlab.NewModel(hm.fn)
					var trace []string
					failed := false
					audit := func(at string) {
						snap, diffs := kvlab.Observe(st.KV, m.Universe(), true, m.OptionalEmpty())
						if d := snap.Diff(m.Snapshot(true)); d != "" {
							diffs = append(diffs, d)
						}
						cmu.Lock()
						audits++
						cmu.Unlock()
						if len(diffs) > 0 {
							failed = true
							r.Violation(be+"/audit/"+diffClass(diffs[0]), caseName,
								fmt.Sprintf("%s (%s hash) whole-store audit %s: %s", be, hm.name, at, strings.Join(diffs, "; ")),
								map[string]any{"backend": be, "hash": hm.name, "history": trace, "diffs": diffs})
						}
					}
					for i, op := range ops {
						ex := kvlab.RunOp(st.KV, m, op)
						trace = append(trace, fmt.Sprintf("%d %s -> err=%q", i, ex.Op, kvlab.ErrClass(ex.Res.Err)))
						sig := ""
						if ex.Step.Outcome != "" {
							sig = be + "/" + hm.name + "/" + string(op.Kind) + "/" + ex.Step.Outcome
						}
						r.Case(sig)
						cmu.Lock()
						opsRun++
						if len(ex.Step.Ambiguous) > 0 {
							ambiguous++
						}
						cmu.Unlock()
						if interesting[ex.Step.Outcome] || strings.HasPrefix(ex.Step.Outcome, "wrap,n=2") {
							sampleMu.Lock()
							sk := be + string(op.Kind) + ex.Step.Outcome
							if sampled < 6 && !sampledKinds[string(op.Kind)+ex.Step.Outcome] && !sampledKinds[sk] {
								sampled++
								sampledKinds[string(op.Kind)+ex.Step.Outcome] = true
								r.Sample(map[string]any{"case": caseName, "backend": be, "hash": hm.name, "op_index": i, "op": ex.Op.String(), "returned_error": kvlab.ErrClass(ex.Res.Err), "returned_list": fmt.Sprintf("%q", ex.Res.List), "model_outcome": ex.Step.Outcome})
							}
							sampleMu.Unlock()
						}
						if len(ex.Step.Diffs) > 0 {
							failed = true
							r.Violation(be+"/"+string(op.Kind)+"/"+diffClass(ex.Step.Diffs[0]), caseName,
								fmt.Sprintf("%s (%s hash) op %d %s: %s", be, hm.name, i, ex.Op, strings.Join(ex.Step.Diffs, "; ")),
								map[string]any{"backend": be, "hash": hm.name, "history": trace, "diffs": ex.Step.Diffs})
							break
						}
						if i == seqLen/2 {
							audit("after op " + fmt.Sprint(i))
							if failed {
								break
							}
						}
					}
					if !failed {
						audit("at the end")
					}
					st.Destroy()
				}
			}
		}()
	}
	for i := 0; i < nSeq; i++ {
		if r.WantCase(fmt.Sprintf("seq-%d", i)) {
			jobs <- job{i}
		}
	}
	close(jobs)
	wg.Wait()
	r.Count("operations_executed", opsRun)
	r.Count("whole_store_audits", audits)
	r.Count("imports_with_contract_silent_outcome", ambiguous)
	r.Count("sequences", int64(nSeq))
	_ = os.Stderr
	r.Finish()
}
