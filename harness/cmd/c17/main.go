// C17 — key-range transfer primitives are exact.
// Random stores with chosen (colliding, boundary) hashes; RangeKeys over every
// pair of boundary points; Export -> Import into an empty store of every
// backend; RemoveKeys of a subset. Oracle: the kvlab reference model.
package main

import (
	"fmt"
	"runtime"
	"sort"
	"strings"
	"sync"
	"sync/atomic"
	"time"

	"verifharness/lab/ev"
	"verifharness/lab/kvlab"
)

func diffClass(d string) string {
	switch {
	case strings.Contains(d, "unexpected"), strings.Contains(d, "want absent"):
		return "extra"
	case strings.Contains(d, "missing"):
		return "missing"
	case strings.Contains(d, "reported"):
		return "duplicate"
	case strings.HasPrefix(d, "returned "), strings.HasPrefix(d, "Export: "), strings.HasPrefix(d, "RangeKeys(0,0): "), strings.HasPrefix(d, "ListKeys(nil): "), strings.HasPrefix(d, "Get("), strings.HasPrefix(d, "PrefixList("):
		return "error"
	case strings.Contains(d, "lease"), strings.Contains(d, "Lease"):
		return "lease-token"
	case strings.Contains(d, "children"), strings.Contains(d, "Children"):
		return "children"
	}
	return "value"
}

type caseCtx struct {
	r     *ev.Run
	name  string
	trace []string
}

func (c *caseCtx) violate(key, what string, diffs []string) {
	c.r.Violation(key, c.name, what+": "+strings.Join(diffs, "; "), map[string]any{"history": c.trace, "diffs": diffs})
}

var samples, xferSamples atomic.Int64

func runCase(r *ev.Run, idx int, counters *[5]atomic.Int64) {
	name := fmt.Sprintf("store-%d", idx)
	rng := r.Rand(name)
	c := &caseCtx{r: r, name: name}
	src := kvlab.Backends[idx%3]

	// hash table: boundary values, adjacent values, collisions (12..20 keys on 8 slots)
	x := rng.Uint64() % kvlab.HashSpace
	table := []uint64{0, 1, kvlab.HashSpace - 1, kvlab.HashSpace - 2, kvlab.HashSpace / 2, x, (x + 1) % kvlab.HashSpace, rng.Uint64() % kvlab.HashSpace}
	hash := kvlab.TableHash(table)
	nKeys := 12 + rng.Intn(9)
	seen := map[string]bool{}
	var keys [][]byte
	for len(keys) < nKeys {
		k := make([]byte, 1+rng.Intn(4))
		rng.Read(k)
		if !seen[string(k)] {
			seen[string(k)] = true
			keys = append(keys, k)
		}
	}

	st, err := kvlab.Open(src, "", hash)
	if err != nil {
		r.Inconclusive(fmt.Sprintf("%s: open %s: %v", name, src, err))
		return
	}
	defer st.Destroy()
	m := kvlab.NewModel(hash)

	step := func(kvs *kvlab.Store, mm *kvlab.Model, op kvlab.Op, tag string) (kvlab.Executed, bool) {
		ex := kvlab.RunOp(kvs.KV, mm, op)
		c.trace = append(c.trace, fmt.Sprintf("[%s] %s -> err=%q", tag, ex.Op, kvlab.ErrClass(ex.Res.Err)))
		if len(c.trace) > 400 {
			c.trace = c.trace[len(c.trace)-400:]
		}
		if len(ex.Step.Diffs) > 0 {
			c.violate(kvs.Kind+"/"+string(op.Kind)+"/"+diffClass(ex.Step.Diffs[0]), fmt.Sprintf("%s %s", tag, ex.Op), ex.Step.Diffs)
			return ex, false
		}
		return ex, true
	}

	// ---- populate: real Acquire tokens first, then puts/appends/removes/imports with arbitrary tokens
	for _, k := range keys {
		if rng.Intn(5) == 0 {
			if _, ok := step(st, m, kvlab.Op{Kind: kvlab.OpAcquire, Key: k, TTL: time.Hour}, "populate "+src); !ok {
				return
			}
		}
	}
	g := kvlab.NewGen(rng)
	g.Keys = keys
	g.Weights = map[kvlab.OpKind]int{kvlab.OpPut: 10, kvlab.OpDelete: 2, kvlab.OpPrefixAppend: 12, kvlab.OpPrefixRemove: 2, kvlab.OpImport: 4}
	g.ImportLeases = true
	g.LeaseTokens = []uint64{1, 2, 1 << 62, 1<<63 - 1, kvlab.FarFuture, uint64(1700000000) * 1_000_000_000, rng.Uint64() >> 1}
	if idx%4 == 3 {
		g.BulkMax = 513 // the source also received whole key ranges: the hand-over below moves hundreds of keys
	}
	for i := 20 + rng.Intn(40); i > 0; i-- {
		if _, ok := step(st, m, g.Next(), "populate "+src); !ok {
			return
		}
	}

	// ---- (a) RangeKeys over every pair of boundary points
	pts := map[uint64]bool{}
	for _, v := range table {
		pts[v] = true
		pts[(v+1)%kvlab.HashSpace] = true
		pts[(v+kvlab.HashSpace-1)%kvlab.HashSpace] = true
	}
	pts[rng.Uint64()%kvlab.HashSpace] = true
	var pl []uint64
	for p := range pts {
		pl = append(pl, p)
	}
	sort.Slice(pl, func(i, j int) bool { return pl[i] < pl[j] })
	used := map[uint64]bool{}
	for _, k := range keys {
		used[hash(k)] = true
	}
	rel := func(p uint64) string {
		if used[p] {
			return "on"
		}
		return "off"
	}
	rangeOn := func(kvs *kvlab.Store, mm *kvlab.Model, tag string, every int) bool {
		n := 0
		for _, lo := range pl {
			for _, hi := range pl {
				n++
				if every > 1 && (n+idx)%every != 0 {
					continue
				}
				ex := kvlab.RunOp(kvs.KV, mm, kvlab.Op{Kind: kvlab.OpRangeKeys, Low: lo, High: hi})
				counters[0].Add(1)
				cls := "norm"
				if lo == hi {
					cls = "full"
				} else if lo > hi {
					cls = "wrap"
				}
				sz := len(ex.Res.List)
				if sz > 2 {
					sz = 2
				}
				r.Case(fmt.Sprintf("range/%s/%s/lo-%s/hi-%s/n%d", kvs.Kind, cls, rel(lo), rel(hi), sz))
				if len(ex.Res.List) > 0 && lo > hi && used[hi] && samples.Add(1) <= 2 {
					r.Sample(map[string]any{"case": name, "backend": kvs.Kind, "op": ex.Op.String(), "returned_keys": fmt.Sprintf("%x", ex.Res.List), "note": "wrap-around range whose upper bound equals a key hash"})
				}
				if len(ex.Step.Diffs) > 0 {
					c.trace = append(c.trace, fmt.Sprintf("[%s] %s", tag, ex.Op))
					c.violate(kvs.Kind+"/RangeKeys/"+cls+"/"+diffClass(ex.Step.Diffs[0]), fmt.Sprintf("%s %s (low %s a key hash, high %s a key hash)", tag, ex.Op, rel(lo), rel(hi)), ex.Step.Diffs)
					return false
				}
			}
		}
		return true
	}
	if !rangeOn(st, m, "source "+src, 1) {
		return
	}

	// ---- (b) Export -> Import into an empty store of every backend
	expKeys := append([][]byte{}, keys...)
	rng.Shuffle(len(expKeys), func(i, j int) { expKeys[i], expKeys[j] = expKeys[j], expKeys[i] })
	expKeys = expKeys[:1+rng.Intn(len(expKeys))]
	if g.BulkOps > 0 {
		var bulk []string
		for k := range m.Snapshot(true) {
			if strings.HasPrefix(k, "bulk/") {
				bulk = append(bulk, k)
			}
		}
		sort.Strings(bulk)
		for _, k := range bulk {
			expKeys = append(expKeys, []byte(k))
		}
		counters[4].Add(int64(len(bulk)))
	}
	ex, ok := step(st, m, kvlab.Op{Kind: kvlab.OpExport, Keys: expKeys}, "export "+src)
	if !ok {
		return
	}
	counters[1].Add(1)
	want := kvlab.Snapshot{}
	full := m.Snapshot(true)
	hasS, hasC, hasL := false, false, false
	for _, k := range expKeys {
		if v, ok := full[string(k)]; ok {
			want[string(k)] = v
			hasS = hasS || v.Simple != ""
			hasC = hasC || len(v.Children) > 0
			hasL = hasL || v.Lease != 0
		}
	}
	content := fmt.Sprintf("s%vc%vl%v", hasS, hasC, hasL)
	for _, dst := range kvlab.Backends {
		tgt, err := kvlab.Open(dst, "", hash)
		if err != nil {
			r.Inconclusive(fmt.Sprintf("%s: open %s: %v", name, dst, err))
			return
		}
		tm := kvlab.NewModel(hash)
		tag := fmt.Sprintf("transfer %s->%s", src, dst)
		good := func() bool {
			if _, ok := step(tgt, tm, kvlab.Op{Kind: kvlab.OpImport, Keys: expKeys, Vals: ex.Res.Vals}, tag); !ok {
				return false
			}
			counters[2].Add(1)
			snap, diffs := kvlab.Observe(tgt.KV, tm.Universe(), true, tm.OptionalEmpty())
			if d := snap.Diff(want); d != "" {
				diffs = append(diffs, d)
			}
			r.Case(fmt.Sprintf("xfer/%s->%s/%s", src, dst, content))
			if len(want) > 2 && hasL && hasC && xferSamples.Add(1) <= 3 {
				r.Sample(map[string]any{"case": name, "transfer": src + "->" + dst, "keys_exported": len(expKeys), "keys_with_data": len(want), "target_state_equals_source": len(diffs) == 0})
			}
			if len(diffs) > 0 {
				c.violate(fmt.Sprintf("transfer/%s->%s/%s", src, dst, diffClass(diffs[0])), tag+": target differs from the exported source state", diffs)
				return false
			}
			// ranges on the target (every 7th pair)
			if !rangeOn(tgt, tm, "target "+dst, 7) {
				return false
			}
			// ---- (c) RemoveKeys(subset) on the target
			sub := append([][]byte{}, expKeys...)
			rng2 := r.Rand(name + "/rm/" + dst)
			rng2.Shuffle(len(sub), func(i, j int) { sub[i], sub[j] = sub[j], sub[i] })
			sub = sub[:rng2.Intn(len(sub)+1)]
			if rng2.Intn(3) == 0 {
				sub = append(sub, []byte("never-stored"))
			}
			if _, ok := step(tgt, tm, kvlab.Op{Kind: kvlab.OpRemoveKeys, Keys: sub}, "remove "+dst); !ok {
				return false
			}
			counters[3].Add(1)
			snap, diffs = kvlab.Observe(tgt.KV, tm.Universe(), true, tm.OptionalEmpty())
			if d := snap.Diff(tm.Snapshot(true)); d != "" {
				diffs = append(diffs, d)
			}
			cls := "some"
			if len(sub) == 0 {
				cls = "none"
			} else if len(sub) >= len(expKeys) {
				cls = "all"
			}
			r.Case(fmt.Sprintf("remove/%s/%s/%s", dst, cls, content))
			if len(diffs) > 0 {
				c.violate("removekeys/"+dst+"/"+diffClass(diffs[0]), fmt.Sprintf("%s after RemoveKeys(%x)", dst, sub), diffs)
				return false
			}
			return true
		}()
		tgt.Destroy()
		if !good {
			return
		}
	}
	// RemoveKeys on the populated source too (has the Acquire-granted tokens)
	sub := append([][]byte{}, keys...)
	rng.Shuffle(len(sub), func(i, j int) { sub[i], sub[j] = sub[j], sub[i] })
	sub = sub[:rng.Intn(len(sub)+1)]
	if _, ok := step(st, m, kvlab.Op{Kind: kvlab.OpRemoveKeys, Keys: sub}, "remove "+src); !ok {
		return
	}
	counters[3].Add(1)
	snap, diffs := kvlab.Observe(st.KV, m.Universe(), true, m.OptionalEmpty())
	if d := snap.Diff(m.Snapshot(true)); d != "" {
		diffs = append(diffs, d)
	}
	r.Case(fmt.Sprintf("remove-src/%s/%d", src, min(len(sub), 3)))
	if len(diffs) > 0 {
		c.violate("removekeys/"+src+"/"+diffClass(diffs[0]), fmt.Sprintf("%s after RemoveKeys(%x)", src, sub), diffs)
	}
}

func main() {
	r := ev.Start("C17", "exploration")
	r.SetRule("a store = 12-20 random keys hashed through a table {0,1,2^48-1,2^48-2,2^47,x,x+1,y} (collisions and boundary hashes), populated by 20-60 PRNG Put/Delete/PrefixAppend/PrefixRemove/Import ops (+Acquire) with arbitrary lease tokens; cases: RangeKeys for every (low,high) over the table values and their +-1 neighbours (distinct by backend, norm/wrap/full, whether low/high equal a key hash, result size class), Export->Import into an empty store for each of the 3x3 backend pairs (distinct by pair and kinds of content), RemoveKeys(random subset) (distinct by backend, subset class, content)")
	r.Assume("stores and subsets are sampled; the range bounds are exhaustive over the boundary set of each store")
	r.Assume("hashes are < 2^48 and lease tokens < 2^63 (documented domain: chord.Hash, positive UnixNano)")
	r.Assume("listing of keys whose only content is an empty simple value is not judged (backends legitimately differ)")
	if err := kvlab.InitSQLite(); err != nil {
		r.Inconclusive("sqlite initialize: " + err.Error())
		r.Finish()
	}
	n := r.Pick(90, 1500)
	var counters [5]atomic.Int64
	jobs := make(chan int)
	var wg sync.WaitGroup
	workers := min(runtime.GOMAXPROCS(0), 16)
	for w := 0; w < workers; w++ {
		wg.Add(1)
		go func() {
			defer wg.Done()
			for i := range jobs {
				runCase(r, i, &counters)
			}
		}()
	}
	for i := 0; i < n; i++ {
		if r.WantCase(fmt.Sprintf("store-%d", i)) {
			jobs <- i
		}
	}
	close(jobs)
	wg.Wait()
	r.Count("stores", int64(n))
	r.Count("rangekeys_queries", counters[0].Load())
	r.Count("exports", counters[1].Load())
	r.Count("imports_into_empty_store", counters[2].Load())
	r.Count("removekeys_calls", counters[3].Load())
	r.Count("bulk_family_keys_handed_over", counters[4].Load())
	r.Finish()
}
