// C18 — storage backends are safe under concurrent use.
// G goroutines issue random operations on a few fresh keys of one real backend
// from a start barrier; every call/return is stamped with a logical clock
// (atomic counter) and each (key, keyspace) history is checked for
// linearizability with porcupine against a sequential model of the contract.
// Counted monitors: the same child appended by all goroutines at once succeeds
// exactly once; a free lease acquired by all at once is granted exactly once.
// Built with -race: any report with a frame in kv/ is a violation.
package main

import (
	"context"
	"errors"
	"fmt"
	"math/rand"
	"regexp"
	"runtime"
	"sort"
	"strings"
	"sync"
	"sync/atomic"
	"time"

	"verifharness/lab/ev"
	"verifharness/lab/kvlab"
	"verifharness/lab/racelog"

	"github.com/anishathalye/porcupine"
	"go.miragespace.co/specter/spec/chord"
)

// ---- recorded operations --------------------------------------------------------

type in struct {
	Space string // simple | prefix | lease
	Op    string
	Arg   string // value / child
	Tok   uint64
}

type out struct {
	Err string // "" | documented error class
	Val string
	Tok uint64
}

func (i in) String() string {
	switch i.Space {
	case "lease":
		return fmt.Sprintf("%s(%d)", i.Op, i.Tok)
	}
	return fmt.Sprintf("%s(%q)", i.Op, i.Arg)
}

type rec struct {
	Key       string
	In        in
	Out       out
	Call, Ret int64
	G         int
}

var clock atomic.Int64

// ---- sequential models (from spec/chord/kv.go) -----------------------------------------

func setStr(m map[string]bool) string {
	l := make([]string, 0, len(m))
	for k := range m {
		l = append(l, fmt.Sprintf("%q", k))
	}
	sort.Strings(l)
	return strings.Join(l, ",")
}

func parseSet(s string) map[string]bool {
	m := map[string]bool{}
	if s == "" {
		return m
	}
	for _, q := range strings.Split(s, ",") {
		var c string
		fmt.Sscanf(q, "%q", &c)
		m[c] = true
	}
	return m
}

var simpleModel = porcupine.Model{
	Init: func() interface{} { return "" },
	Step: func(st, input, output interface{}) (bool, interface{}) {
		s, i, o := st.(string), input.(in), output.(out)
		switch i.Op {
		case "put":
			if o.Err == "simple-conflict" {
				return true, s // rejected write: no effect
			}
			return o.Err == "", i.Arg
		case "delete":
			if o.Err == "simple-conflict" {
				return true, s
			}
			return o.Err == "", ""
		case "get":
			return o.Err == "" && o.Val == s, s
		}
		return false, s
	},
	DescribeOperation: func(i, o interface{}) string { return fmt.Sprintf("%v -> %+v", i, o) },
}

var prefixModel = porcupine.Model{
	Init: func() interface{} { return "" },
	Step: func(st, input, output interface{}) (bool, interface{}) {
		s, i, o := st.(string), input.(in), output.(out)
		set := parseSet(s)
		switch i.Op {
		case "append":
			if set[i.Arg] {
				return o.Err == "prefix-conflict", s
			}
			set[i.Arg] = true
			return o.Err == "", setStr(set)
		case "remove":
			delete(set, i.Arg)
			return o.Err == "", setStr(set)
		case "contains":
			return o.Err == "" && (o.Val == "true") == set[i.Arg], s
		case "list":
			return o.Err == "" && o.Val == s, s
		}
		return false, s
	},
	DescribeOperation: func(i, o interface{}) string { return fmt.Sprintf("%v -> %+v", i, o) },
}

// timeless lease: every TTL is one hour, nothing expires within a round
var leaseModel = porcupine.Model{
	Init: func() interface{} { return uint64(0) },
	Step: func(st, input, output interface{}) (bool, interface{}) {
		s, i, o := st.(uint64), input.(in), output.(out)
		switch i.Op {
		case "acquire":
			if s != 0 {
				return o.Err == "lease-conflict", s
			}
			return o.Err == "" && o.Tok != 0, o.Tok
		case "renew":
			if s != 0 && i.Tok == s {
				return o.Err == "" && o.Tok != 0, o.Tok
			}
			return o.Err == "lease-expired", s
		case "release":
			if s != 0 && i.Tok == s {
				return o.Err == "", uint64(0)
			}
			return o.Err == "lease-expired", s
		case "read":
			return o.Err == "" && o.Tok == s, s
		}
		return false, s
	},
	DescribeOperation: func(i, o interface{}) string { return fmt.Sprintf("%v -> %+v", i, o) },
}

var models = map[string]porcupine.Model{"simple": simpleModel, "prefix": prefixModel, "lease": leaseModel}

// ---- executing one recorded operation -----------------------------------------------------

func listStr(l [][]byte) string {
	m := map[string]bool{}
	dup := false
	for _, c := range l {
		if m[string(c)] {
			dup = true
		}
		m[string(c)] = true
	}
	s := setStr(m)
	if dup {
		s += ",<duplicate>"
	}
	return s
}

func do(kv chord.KVProvider, g int, key string, i in) rec {
	ctx := context.Background()
	k := []byte(key)
	r := rec{Key: key, In: i, G: g}
	var err error
	r.Call = clock.Add(1)
	switch i.Space + "/" + i.Op {
	case "simple/put":
		err = kv.Put(ctx, k, []byte(i.Arg))
	case "simple/delete":
		err = kv.Delete(ctx, k)
	case "simple/get":
		var v []byte
		v, err = kv.Get(ctx, k)
		r.Out.Val = string(v)
	case "prefix/append":
		err = kv.PrefixAppend(ctx, k, []byte(i.Arg))
	case "prefix/remove":
		err = kv.PrefixRemove(ctx, k, []byte(i.Arg))
	case "prefix/contains":
		var b bool
		b, err = kv.PrefixContains(ctx, k, []byte(i.Arg))
		r.Out.Val = fmt.Sprint(b)
	case "prefix/list":
		var l [][]byte
		l, err = kv.PrefixList(ctx, k)
		r.Out.Val = listStr(l)
	case "lease/acquire":
		r.Out.Tok, err = kv.Acquire(ctx, k, time.Hour)
	case "lease/renew":
		r.Out.Tok, err = kv.Renew(ctx, k, time.Hour, i.Tok)
	case "lease/release":
		err = kv.Release(ctx, k, i.Tok)
	}
	r.Ret = clock.Add(1)
	r.Out.Err = kvlab.ErrClass(err)
	if err != nil {
		r.Out.Tok = 0
	}
	return r
}

// ---- one round ----------------------------------------------------------------------------

type stats struct {
	ops, partitions, overlaps, conflicts, races, appendRaces, leaseRaces, expiredRaces, listAnomalies atomic.Int64
}

var st stats
var sampled atomic.Int64

func transient(e string) bool {
	e = strings.ToLower(e)
	for _, w := range []string{"locked", "busy", "timeout", "deadline", "canceled", "interrupt"} {
		if strings.Contains(e, w) {
			return true
		}
	}
	return false
}

// listSnapshotAnomaly classifies a prefix history that porcupine rejected.
// "yes": (a) the history without the PrefixList calls that overlap a mutation
// (a listing that overlaps no append/remove cannot be torn and stays in) is
// linearizable, and (b) every removed listing is element-wise plausible: each
// returned child was successfully appended by a call invoked before the
// listing returned, no child is returned twice, and each child that is missing
// although a successful append of it had returned before the listing started
// has a remove invoked before the listing returned. Then the only thing wrong
// is that a listing is not an atomic snapshot (elements visited at different
// instants). "no": anything else. "unknown": the checker timed out.
func listSnapshotAnomaly(h []rec) (string, string) {
	var rest, lists []rec
	for _, x := range h {
		torn := false
		if x.In.Op == "list" {
			for _, y := range h {
				if (y.In.Op == "append" || y.In.Op == "remove") && x.Call < y.Ret && y.Call < x.Ret {
					torn = true
					break
				}
			}
		}
		if torn {
			lists = append(lists, x)
		} else {
			rest = append(rest, x)
		}
	}
	if len(lists) == 0 {
		return "no", ""
	}
	ops := make([]porcupine.Operation, len(rest))
	for i, x := range rest {
		ops[i] = porcupine.Operation{ClientId: x.G, Input: x.In, Output: x.Out, Call: x.Call, Return: x.Ret}
	}
	switch porcupine.CheckOperationsTimeout(prefixModel, ops, 60*time.Second) {
	case porcupine.Unknown:
		return "unknown", ""
	case porcupine.Illegal:
		return "no", ""
	}
	var expl []string
	for _, l := range lists {
		if l.Out.Err != "" || strings.Contains(l.Out.Val, "<duplicate>") {
			return "no", ""
		}
		got := parseSet(l.Out.Val)
		for c := range got {
			ok := false
			for _, y := range h {
				if y.In.Op == "append" && y.In.Arg == c && y.Out.Err == "" && y.Call < l.Ret {
					ok = true
				}
			}
			if !ok {
				return "no", ""
			}
		}
		for _, y := range h {
			if y.In.Op != "append" || y.Out.Err != "" || y.Ret >= l.Call || got[y.In.Arg] {
				continue
			}
			removed := false
			for _, z := range h {
				if z.In.Op == "remove" && z.In.Arg == y.In.Arg && z.Call < l.Ret {
					removed = true
				}
			}
			if !removed {
				return "no", ""
			}
		}
		expl = append(expl, fmt.Sprintf("[%d,%d] list -> {%s}", l.Call, l.Ret, l.Out.Val))
	}
	return "yes", strings.Join(expl, ", ")
}

func runRound(r *ev.Run, be string, kv chord.KVProvider, name string, rng *rand.Rand) {
	G := []int{4, 8, 12, 16}[rng.Intn(4)]
	kind := rng.Intn(6) // 0: all append the same child, 1: all acquire the same free lease, else mixed
	keys := []string{name + "/k1", name + "/k2"}
	children := []string{"x", "y", ""}
	L := 3 + rng.Intn(5)
	if kind == 0 || kind == 1 {
		L = 1 // a pure race: nothing else may release the lease / remove the child meanwhile
	}
	seeds := make([]int64, G)
	for g := range seeds {
		seeds[g] = rng.Int63()
	}
	var lastTok [2]atomic.Uint64 // last token granted on each key, visible to every goroutine (stale/foreign tokens)
	recs := make([][]rec, G)
	var start, done sync.WaitGroup
	start.Add(1)
	for g := 0; g < G; g++ {
		done.Add(1)
		go func(g int) {
			defer done.Done()
			grng := rand.New(rand.NewSource(seeds[g]))
			var mine [2]uint64
			start.Wait()
			for n := 0; n < L; n++ {
				ki := grng.Intn(len(keys))
				var i in
				switch {
				case kind == 0 && n == 0:
					ki, i = 0, in{Space: "prefix", Op: "append", Arg: "raced"}
				case kind == 1 && n == 0:
					ki, i = 0, in{Space: "lease", Op: "acquire"}
				default:
					switch grng.Intn(12) {
					case 0, 1, 2:
						i = in{Space: "simple", Op: "put", Arg: fmt.Sprintf("g%d-%d", g, n)}
					case 3:
						i = in{Space: "simple", Op: "delete"}
					case 4:
						i = in{Space: "simple", Op: "get"}
					case 5, 6:
						i = in{Space: "prefix", Op: "append", Arg: children[grng.Intn(len(children))]}
					case 7:
						i = in{Space: "prefix", Op: "remove", Arg: children[grng.Intn(len(children))]}
					case 8:
						if grng.Intn(2) == 0 {
							i = in{Space: "prefix", Op: "contains", Arg: children[grng.Intn(len(children))]}
						} else {
							i = in{Space: "prefix", Op: "list"}
						}
					case 9:
						i = in{Space: "lease", Op: "acquire"}
					case 10:
						tok := mine[ki]
						if tok == 0 || grng.Intn(3) == 0 {
							tok = lastTok[ki].Load() // possibly somebody else's or a stale one
						}
						if tok == 0 {
							tok = 12345
						}
						i = in{Space: "lease", Op: "release", Tok: tok}
					case 11:
						tok := mine[ki]
						if tok == 0 || grng.Intn(3) == 0 {
							tok = lastTok[ki].Load()
						}
						if tok == 0 {
							tok = 12345
						}
						i = in{Space: "lease", Op: "renew", Tok: tok}
					}
				}
				rc := do(kv, g, keys[ki], i)
				if i.Space == "lease" && rc.Out.Err == "" {
					switch i.Op {
					case "acquire", "renew":
						mine[ki] = rc.Out.Tok
						lastTok[ki].Store(rc.Out.Tok)
					case "release":
						if mine[ki] == i.Tok {
							mine[ki] = 0
						}
					}
				}
				recs[g] = append(recs[g], rc)
			}
		}(g)
	}
	start.Done()
	done.Wait()
	// quiescent final reads: part of every history
	var all []rec
	for _, l := range recs {
		all = append(all, l...)
	}
	for _, k := range keys {
		c := clock.Add(1)
		exp, err := kv.Export(context.Background(), [][]byte{[]byte(k)})
		t := clock.Add(1)
		e := kvlab.ErrClass(err)
		var v, l string
		var tok uint64
		if err == nil && len(exp) == 1 && exp[0] != nil {
			v, l, tok = string(exp[0].GetSimpleValue()), listStr(exp[0].GetPrefixChildren()), exp[0].GetLeaseToken()
		} else if err == nil {
			e = "other: Export returned no value"
		}
		all = append(all,
			rec{Key: k, In: in{Space: "simple", Op: "get"}, Out: out{Err: e, Val: v}, Call: c, Ret: t, G: G},
			rec{Key: k, In: in{Space: "prefix", Op: "list"}, Out: out{Err: e, Val: l}, Call: c, Ret: t, G: G},
			rec{Key: k, In: in{Space: "lease", Op: "read"}, Out: out{Err: e, Tok: tok}, Call: c, Ret: t, G: G})
	}
	st.ops.Add(int64(len(all)))

	// unexpected errors decide before any model does
	for _, x := range all {
		if strings.HasPrefix(x.Out.Err, "other: ") {
			if transient(x.Out.Err) {
				r.Inconclusive(fmt.Sprintf("%s %s: %v on %q returned %s (load-dependent, not judged)", be, name, x.In, x.Key, x.Out.Err))
			} else {
				r.Case("")
				r.Violation("unexpected-error/"+be+"/"+x.In.Space+"-"+x.In.Op, name, fmt.Sprintf("%s: %v on %q under %d concurrent goroutines returned an undocumented error: %s", be, x.In, x.Key, G, x.Out.Err), x)
			}
			return
		}
	}
	// counted monitors
	if kind == 0 || kind == 1 {
		okN, otherN := 0, 0
		wantErr := map[int]string{0: "prefix-conflict", 1: "lease-conflict"}[kind]
		for g := 0; g < G; g++ {
			switch recs[g][0].Out.Err {
			case "":
				okN++
			case wantErr:
			default:
				otherN++
			}
		}
		what := map[int]string{0: "append-same-child", 1: "acquire-free-lease"}[kind]
		if kind == 0 {
			st.appendRaces.Add(1)
		} else {
			st.leaseRaces.Add(1)
		}
		r.Case(fmt.Sprintf("%s/%s/g%d", be, what, G))
		if okN != 1 || otherN != 0 {
			var outs []string
			for g := 0; g < G; g++ {
				outs = append(outs, fmt.Sprintf("g%d:%+v", g, recs[g][0].Out))
			}
			r.Violation("exactly-once/"+be+"/"+what, name, fmt.Sprintf("%s: %d goroutines issued the same %s at once: %d succeeded (want exactly 1), %d returned something other than %s", be, G, what, okN, otherN, wantErr), outs)
		}
	}
	// linearizability per (key, keyspace)
	parts := map[string][]rec{}
	for _, x := range all {
		parts[x.Key+"|"+x.In.Space] = append(parts[x.Key+"|"+x.In.Space], x)
	}
	pk := make([]string, 0, len(parts))
	for k := range parts {
		pk = append(pk, k)
	}
	sort.Strings(pk)
	for _, p := range pk {
		h := parts[p]
		space := h[0].In.Space
		ops := make([]porcupine.Operation, len(h))
		overlap, conf := 0, false
		for i, x := range h {
			ops[i] = porcupine.Operation{ClientId: x.G, Input: x.In, Output: x.Out, Call: x.Call, Return: x.Ret}
			if x.Out.Err != "" {
				conf = true
				st.conflicts.Add(1)
			}
			for _, y := range h[:i] {
				if x.Call < y.Ret && y.Call < x.Ret {
					overlap++
				}
			}
		}
		st.partitions.Add(1)
		st.overlaps.Add(int64(overlap))
		oc := "sequential"
		if overlap > 0 {
			oc = "overlapping"
		}
		if overlap > 8 {
			oc = "contended"
		}
		sig := ""
		if len(h) > 1 {
			sig = fmt.Sprintf("%s/%s/%s/rejects=%v/n%d", be, space, oc, conf, min(len(h)/4, 3))
		}
		r.Case(sig)
		res, info := porcupine.CheckOperationsVerbose(models[space], ops, 60*time.Second)
		_ = info
		switch res {
		case porcupine.Unknown:
			r.Inconclusive(fmt.Sprintf("%s %s %s: linearizability checker timed out on %d operations", be, name, p, len(ops)))
		case porcupine.Illegal:
			sort.Slice(h, func(i, j int) bool { return h[i].Call < h[j].Call })
			var lines []string
			for _, x := range h {
				lines = append(lines, fmt.Sprintf("[%d,%d] g%d %v -> %+v", x.Call, x.Ret, x.G, x.In, x.Out))
			}
			key, why := "not-linearizable/"+be+"/"+space, ""
			if space == "prefix" && be != kvlab.SQLite {
				// memory (and AOF on top of it) list by iterating a live set: classify the
				// anomaly that only a non-atomic iteration explains under its own key
				switch snap, expl := listSnapshotAnomaly(h); {
				case snap == "unknown":
					r.Inconclusive(fmt.Sprintf("%s %s: checker timed out while classifying a non-linearizable prefix history", be, name))
				case snap == "yes":
					key += ":list-snapshot-not-atomic"
					why = " [without the PrefixList calls that overlap a mutation the history is linearizable, and each of those listings is element-wise explainable: " + expl + "]"
					st.listAnomalies.Add(1)
				}
			}
			r.Violation(key, name, fmt.Sprintf("%s: history of key %q (%s keyspace, %d ops from %d goroutines) is not linearizable%s: %s", be, h[0].Key, space, len(h), G, why, strings.Join(lines, " ; ")), lines)
		case porcupine.Ok:
			if overlap > 4 && conf && sampled.Add(1) <= 4 {
				sort.Slice(h, func(i, j int) bool { return h[i].Call < h[j].Call })
				var lines []string
				for _, x := range h {
					lines = append(lines, fmt.Sprintf("[%d,%d] g%d %v -> %+v", x.Call, x.Ret, x.G, x.In, x.Out))
				}
				r.Sample(map[string]any{"backend": be, "round": name, "keyspace": space, "goroutines": G, "overlapping_pairs": overlap, "linearizable": true, "history": lines})
			}
		}
	}
}

var kvFrame = regexp.MustCompile(`(?m)^  (go\.miragespace\.co/specter/kv/\S+)\(\)$`)

// raceKey names a report by the innermost kv/ function of each of its stacks
// (racelog's own key stops at the first parenthesis of a method name).
func raceKey(rp racelog.Report) string {
	seen := map[string]bool{}
	var fns []string
	for _, sec := range strings.Split(rp.Excerpt, "\n\n") {
		if m := kvFrame.FindStringSubmatch(sec); m != nil && !seen[m[1]] {
			seen[m[1]] = true
			fns = append(fns, strings.TrimPrefix(m[1], "go.miragespace.co/specter/"))
		}
		if len(fns) == 2 {
			break
		}
	}
	if len(fns) == 0 {
		return rp.Key
	}
	sort.Strings(fns)
	return strings.Join(fns, " <-> ")
}

func main() {
	r := ev.Start("C18", "exploration")
	r.SetRule("a round = 4/8/12/16 goroutines released from a barrier, each issuing 3-7 PRNG operations (Put of unique values, Delete, Get, PrefixAppend/Remove/Contains/List over 3 children, Acquire/Renew/Release with own, foreign and stale tokens, TTL 1h) on 2 fresh keys of one real backend; 1/6 of the rounds start with all goroutines appending the same child, 1/6 with all acquiring the same free lease (exactly-once monitors); after the join the three keyspaces of both keys are read; plus 400 (thorough 4000) 'expired lease acquired by all at once' races per backend (1 s leases left to run out for 1.15 s of real time, then 2-16 goroutines acquire each from a barrier: exactly one wins). A case = one (key, keyspace) history checked by porcupine (call/return stamped by an atomic logical clock) or one exactly-once monitor; distinct+non-trivial by (backend, keyspace, overlap class measured from the stamps, whether documented rejections occurred, size class)")
	r.Assume("schedules are whatever the Go scheduler produces under load (barrier start, GOMAXPROCS goroutines); no schedule is forced")
	r.Assume("lease part is timeless (TTL 1h); sequential models written from spec/chord/kv.go: a Put/Delete rejected with ErrKVSimpleConflict has no effect")
	race := racelog.Enabled()
	backends := kvlab.Backends
	if err := kvlab.InitSQLite(); err != nil {
		r.Inconclusive("sqlite initialize: " + err.Error())
		r.Finish()
	}
	rounds := r.Pick(400, 6000)
	if race {
		rounds = r.Pick(300, 10000)
	}
	r.Extra("race_detector", race)
	var wg sync.WaitGroup
	for _, be := range backends {
		// two stores per backend run rounds in parallel (each round has its own keys)
		for w := 0; w < 2; w++ {
			wg.Add(1)
			go func(be string, w int) {
				defer wg.Done()
				// a fresh store every 100 rounds keeps the AOF log short (every rejected
				// append rewrites and fsyncs the whole segment) without changing what is checked
				var s *kvlab.Store
				defer func() {
					if s != nil {
						s.Destroy()
					}
				}()
				n := 0
				for i := w; i < rounds; i += 2 {
					name := fmt.Sprintf("%s-round-%d", be, i)
					if !r.WantCase(name) {
						continue
					}
					if s == nil || n%100 == 0 {
						if s != nil {
							s.Destroy()
						}
						var err error
						if s, err = kvlab.Open(be, "", kvlab.RealHash); err != nil {
							s = nil
							r.Inconclusive(fmt.Sprintf("open %s: %v", be, err))
							return
						}
					}
					n++
					runRound(r, be, s.KV, name, r.Rand(name))
				}
			}(be, w)
		}
	}
	wg.Wait()
	// an EXPIRED lease acquired by all at once: a previous holder took the lease for the minimum
	// TTL (1 s) and went away; after it has certainly run out (the goroutines sleep 1.15 s of real
	// time — sleeping longer than asked only makes it more expired) G goroutines leave a barrier
	// and acquire it: exactly one may win. All leases of a backend run out during the same wait.
	nExp := r.Pick(400, 4000)
	for _, be := range backends {
		s, err := kvlab.Open(be, "", kvlab.RealHash)
		if err != nil {
			r.Inconclusive(fmt.Sprintf("open %s: %v", be, err))
			continue
		}
		ctx := context.Background()
		var names []string
		for i := 0; i < nExp; i++ {
			name := fmt.Sprintf("%s-expired-lease-%d", be, i)
			if !r.WantCase(name) {
				continue
			}
			if _, err := s.KV.Acquire(ctx, []byte(name), time.Second); err != nil {
				r.Inconclusive(name + ": the previous holder could not acquire the fresh lease: " + err.Error())
				continue
			}
			names = append(names, name)
		}
		time.Sleep(1150 * time.Millisecond)
		for _, name := range names {
			rng := r.Rand(name)
			key := []byte(name)
			G := []int{2, 4, 8, 16}[rng.Intn(4)]
			errs := make([]error, G)
			var start, done sync.WaitGroup
			start.Add(1)
			for g := 0; g < G; g++ {
				done.Add(1)
				go func(g int) {
					defer done.Done()
					start.Wait()
					_, errs[g] = s.KV.Acquire(ctx, key, time.Hour)
				}(g)
			}
			start.Done()
			done.Wait()
			okN, otherN := 0, 0
			var outs []string
			for g, e := range errs {
				switch {
				case e == nil:
					okN++
				case errors.Is(e, chord.ErrKVLeaseConflict):
				default:
					otherN++
				}
				outs = append(outs, fmt.Sprintf("g%d:%v", g, e))
			}
			st.expiredRaces.Add(1)
			r.Case(fmt.Sprintf("%s/acquire-expired-lease/g%d", be, G))
			if okN != 1 || otherN != 0 {
				r.Violation("exactly-once/"+be+"/acquire-expired-lease", name, fmt.Sprintf("%s: %d goroutines acquired the same EXPIRED lease at once: %d succeeded (want exactly 1), %d returned something other than a lease conflict", be, G, okN, otherN), outs)
			}
		}
		s.Destroy()
	}
	r.Count("rounds_expired_lease_acquired_by_all", st.expiredRaces.Load())
	r.Count("operations_recorded", st.ops.Load())
	r.Count("histories_checked", st.partitions.Load())
	r.Count("overlapping_operation_pairs", st.overlaps.Load())
	r.Count("documented_rejections_observed", st.conflicts.Load())
	r.Count("prefix_histories_explained_by_non_atomic_listing", st.listAnomalies.Load())
	r.Count("rounds_same_child_appended_by_all", st.appendRaces.Load())
	r.Count("rounds_free_lease_acquired_by_all", st.leaseRaces.Load())
	if st.overlaps.Load() == 0 {
		r.Inconclusive("no two operations ever overlapped: nothing concurrent was observed")
	}
	if race {
		reps := racelog.Collect("/kv/")
		n := 0
		for _, rp := range reps {
			if !rp.InRepo {
				continue
			}
			n++
			r.Violation("race/"+raceKey(rp), "", fmt.Sprintf("data race reported %d times with frames in kv/: %s", rp.Count, rp.Key), map[string]any{"frames": rp.Frames, "report": rp.Excerpt})
		}
		r.Count("race_reports_in_kv", int64(n))
		r.Count("race_reports_total", int64(len(reps)))
	}
	_ = runtime.NumCPU
	r.Finish()
}
