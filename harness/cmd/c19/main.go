// C19 — leases are exclusive and tokens are honoured only while current
// (single-store part: memory, AOF, SQLite; the ring part is driven by the lead
// with the same kvlab.LeaseOracle).
// Primary clock: virtual (the overlay makes the lease code read VerifNow); the
// worker first proves that the virtual clock is effective and falls back to
// real time per backend if it is not.
package main

import (
	"fmt"
	"os"
	"strings"
	"sync"
	"sync/atomic"
	"time"

	"verifharness/lab/ev"
	"verifharness/lab/kvlab"

	"go.miragespace.co/specter/kv/memory"
	"go.miragespace.co/specter/kv/sqlite3"
)

var (
	nCalls, nDontCare, nScen atomic.Int64
	sampleMu                 sync.Mutex
	sampledClass             = map[string]bool{}
)

func got(e kvlab.LeaseEvent) string {
	c := kvlab.ErrClass(e.Err)
	if c == "" {
		return "success"
	}
	if strings.HasPrefix(c, "other: ") {
		return "undocumented-error"
	}
	return c
}

// runScenario returns false if a violation was reported.
func runScenario(r *ev.Run, be string, st *kvlab.Store, clock kvlab.Clock, o *kvlab.LeaseOracle, name string, steps int) {
	rng := r.Rand(name)
	var trace []string
	mode := "virtual"
	if !clock.Virtual() {
		mode = "real"
	}
	kvlab.LeaseScenario(st.KV, clock, o, rng, name, steps, func(e kvlab.LeaseEvent, v kvlab.LeaseVerdict) bool {
		nCalls.Add(1)
		trace = append(trace, fmt.Sprintf("t=%d [%s] %s", e.Call, v.Before, e))
		if len(trace) > 80 {
			trace = trace[len(trace)-80:]
		}
		sig := ""
		if v.Class != "" {
			sig = be + "/" + mode + "/" + v.Class + "/" + got(e)
			if strings.Contains(v.Class, "at-expiry") {
				nDontCare.Add(1)
			}
		}
		r.Case(sig)
		if len(v.Diffs) > 0 {
			r.Violation(be+"/"+v.Class+"/"+got(e), name, fmt.Sprintf("%s (%s clock) %s: %s", be, mode, e, strings.Join(v.Diffs, "; ")),
				map[string]any{"backend": be, "clock": mode, "history": trace, "diffs": v.Diffs})
			return false
		}
		interesting := strings.Contains(v.Class, "held-expired") || strings.Contains(v.Class, "other-token") || strings.Contains(v.Class, "current-expired") || strings.Contains(v.Class, "ttl-below")
		if interesting {
			sampleMu.Lock()
			if !sampledClass[v.Class] && len(sampledClass) < 6 {
				sampledClass[v.Class] = true
				r.Sample(map[string]any{"backend": be, "clock": mode, "scenario": name, "situation": v.Class, "call": e.String(), "last_calls": append([]string{}, trace[max(0, len(trace)-4):]...)})
			}
			sampleMu.Unlock()
		}
		return true
	})
	nScen.Add(1)
}

func main() {
	r := ev.Start("C19", "exploration")
	r.SetRule("a scenario = one fresh lease on one real backend driven through 40 PRNG calls by 2-4 logical holders: Acquire/Renew with TTL 1s,2s,3s,1.5s or an invalid one (0, -1s, 1ns, 999ms, 999999999ns), Renew/Release with the holder's own token, a stale one, another holder's, a forged one; between calls virtual time moves by 0, 1ns, <1s, 1-4s, or exactly to expiry-1ns / expiry / expiry+1ns of the current grant. A case = one call judged by the interval oracle; distinct+non-trivial by (backend, clock, state of the lease: free / held-unexpired / held-expired / at-expiry, which token was presented, result)")
	r.Assume("single-store histories are sequential (concurrent acquisition: C18); the ring/churn part drives the same oracle through a ring of real LocalNodes (memory backend) with joins and leaves between calls, so tokens move by transfer")
	r.Assume("not judged because the statement is silent and backends differ: a call made exactly at the expiry instant, sub-second truncation of a TTL >= 1s (the window [call+floor(ttl), return+ttl] is don't-care), Release(0) on a free lease (not generated)")
	vc := kvlab.NewVirtualClock()
	forceReal := os.Getenv("VERIF_C19_REAL") == "1"
	if !forceReal {
		memory.VerifNow = vc.Time
		sqlite3.VerifNow = vc.Time
	}
	if err := kvlab.InitSQLite(); err != nil {
		r.Inconclusive("sqlite initialize: " + err.Error())
		r.Finish()
	}
	clockMode := map[string]string{}
	var realWG sync.WaitGroup
	for _, be := range kvlab.Backends {
		st, err := kvlab.Open(be, "", kvlab.RealHash)
		if err != nil {
			r.Inconclusive(fmt.Sprintf("open %s: %v", be, err))
			continue
		}
		// ---- prove that the virtual clock drives this backend's lease code:
		// a 1 s lease must be re-acquirable after 2 s of virtual time, without sleeping
		p1 := kvlab.LeaseCall(st.KV, vc, "acquire", "clock-probe", time.Second, 0)
		vc.Advance(2 * time.Second)
		p2 := kvlab.LeaseCall(st.KV, vc, "acquire", "clock-probe", time.Second, 0)
		effective := p1.Err == nil && p2.Err == nil
		if effective {
			clockMode[be] = "virtual"
			o := kvlab.NewLeaseOracle(0)
			n := r.Pick(300, 20000)
			for i := 0; i < n; i++ {
				name := fmt.Sprintf("%s-lease-%d", be, i)
				if r.WantCase(name) {
					runScenario(r, be, st, vc, o, name, 40)
				}
			}
			st.Destroy()
			continue
		}
		// ---- fallback: real time, scenarios in parallel on distinct leases of one store
		clockMode[be] = "real"
		fmt.Fprintf(os.Stderr, "C19: virtual clock not effective for %s (probe: %v / %v); falling back to real time\n", be, p1, p2)
		o := kvlab.NewLeaseOracle(20 * time.Millisecond)
		n := r.Pick(48, 600)
		sem := make(chan struct{}, 64)
		realWG.Add(1)
		go func(be string, st *kvlab.Store) {
			defer realWG.Done()
			defer st.Destroy()
			var wg sync.WaitGroup
			for i := 0; i < n; i++ {
				name := fmt.Sprintf("%s-lease-%d", be, i)
				if !r.WantCase(name) {
					continue
				}
				wg.Add(1)
				sem <- struct{}{}
				go func() {
					defer wg.Done()
					defer func() { <-sem }()
					runScenario(r, be, st, kvlab.RealClock{}, o, name, 10)
				}()
			}
			wg.Wait()
		}(be, st)
	}
	realWG.Wait()
	if clockMode["memory"] == "virtual" {
		ringPart(r, vc)
		clockMode["ring(memory nodes)"] = "virtual"
	} else {
		r.Assume("the ring/churn part needs the virtual clock in the memory backend and was skipped")
	}
	r.Extra("clock_per_backend", clockMode)
	r.Count("scenarios", nScen.Load())
	r.Count("lease_calls_judged", nCalls.Load())
	r.Count("calls_at_the_expiry_instant_not_judged_strictly", nDontCare.Load())
	for be, m := range clockMode {
		if m == "real" {
			r.Assume("backend " + be + ": the virtual clock was not effective (lease code obtains time another way); judged in real time with TTL 1-2 s, calls placed >= 400 ms away from the expiry window, 20 ms margin")
		}
	}
	r.Finish()
}
