package main

import (
	"context"
	"fmt"
	"math/rand"
	"strings"
	"time"

	"verifharness/lab/ev"
	"verifharness/lab/kvlab"
	"verifharness/lab/ringlab"

	"go.miragespace.co/specter/spec/chord"
)

// ringLeaseKV routes every lease call through a random live node of a ring of real
// LocalNodes (proxied wiring) and retries retryable failures; between calls the
// driver joins and leaves nodes, so lease tokens move between stores by transfer.
type ringLeaseKV struct {
	lab     *ringlab.Lab
	rng     *rand.Rand
	retries int64
	// transport: a call failed in the transport of the real RPC path (time-out on a saturated
	// machine): whether it took effect is unknown, the rest of the scenario is not judged
	transport string
}

func (k *ringLeaseKV) note(err error) {
	if err != nil && (strings.Contains(err.Error(), "failed to do request") || strings.Contains(err.Error(), "context deadline exceeded")) {
		k.transport = err.Error()
	}
}

func (k *ringLeaseKV) node() *ringlab.Member {
	live := k.lab.Live()
	return live[k.rng.Intn(len(live))]
}

func (k *ringLeaseKV) Acquire(ctx context.Context, lease []byte, ttl time.Duration) (tok uint64, err error) {
	for a := 0; a < 300; a++ {
		if tok, err = k.node().Node.Acquire(ctx, lease, ttl); err == nil || !chord.ErrorIsRetryable(err) {
			k.note(err)
			return
		}
		k.retries++
		time.Sleep(time.Millisecond)
	}
	return
}
func (k *ringLeaseKV) Renew(ctx context.Context, lease []byte, ttl time.Duration, prev uint64) (tok uint64, err error) {
	for a := 0; a < 300; a++ {
		if tok, err = k.node().Node.Renew(ctx, lease, ttl, prev); err == nil || !chord.ErrorIsRetryable(err) {
			k.note(err)
			return
		}
		k.retries++
		time.Sleep(time.Millisecond)
	}
	return
}
func (k *ringLeaseKV) Release(ctx context.Context, lease []byte, token uint64) (err error) {
	for a := 0; a < 300; a++ {
		if err = k.node().Node.Release(ctx, lease, token); err == nil || !chord.ErrorIsRetryable(err) {
			k.note(err)
			return
		}
		k.retries++
		time.Sleep(time.Millisecond)
	}
	return
}

// ringPart: the "through the DHT with churn" half of C19 (virtual clock only: the
// ring's nodes use the memory backend whose lease code reads the same clock).
func ringPart(r *ev.Run, vc *kvlab.VirtualClock) {
	nRings := r.Pick(6, 60)
	for ri := 0; ri < nRings; ri++ {
		name := fmt.Sprintf("ring-lease-%d", ri)
		if !r.WantCase(name) {
			continue
		}
		rng := r.Rand(name)
		mode := ringlab.NetV
		if ri%3 == 2 {
			// the real RPC path: a call that enters through a node that is not the owner travels as
			// chord.RemoteNode -> twirp -> the owner's RPC server, TTL and tokens on the wire
			mode = ringlab.RealRPC
		}
		lab := ringlab.New(ringlab.Options{Mode: mode, Seed: rng.Int63()})
		used := map[uint64]bool{}
		newID := func() uint64 {
			for {
				id := rng.Uint64() % ringlab.M
				if !used[id] {
					used[id] = true
					return id
				}
			}
		}
		first, _ := lab.Spawn(newID(), ringlab.Memory)
		first.Create()
		setupOK := true
		for i := 1; i < 2+rng.Intn(3); i++ {
			m, _ := lab.Spawn(newID(), ringlab.Memory)
			if err := m.Join(lab.Live()[0]); err != nil {
				setupOK = false
			}
		}
		if cv := lab.WaitConverged(60, time.Minute, false); !cv.Converged || !setupOK {
			lab.StopAll()
			lab.Close()
			r.Inconclusive(name + ": ring setup did not stabilise")
			continue
		}
		kv := &ringLeaseKV{lab: lab, rng: rng}
		o := kvlab.NewLeaseOracle(0)
		churn, transfers := 0, 0
		var trace []string
		for li := 0; li < 3; li++ {
			lease := fmt.Sprintf("%s/l%d", name, li)
			stop := false
			kvlab.LeaseScenario(kv, vc, o, rng, lease, 30, func(e kvlab.LeaseEvent, v kvlab.LeaseVerdict) bool {
				if kv.transport != "" {
					r.Inconclusive(name + ": transport error over the real RPC path, rest of the scenario not judged: " + kv.transport)
					stop = true
					return false
				}
				nCalls.Add(1)
				trace = append(trace, fmt.Sprintf("t=%d [%s] %s", e.Call, v.Before, e))
				if len(trace) > 60 {
					trace = trace[len(trace)-60:]
				}
				sig := ""
				if v.Class != "" {
					sig = "ring/virtual/" + map[bool]string{false: "proxied", true: "rpc"}[mode == ringlab.RealRPC] + "/" + v.Class + "/" + got(e)
				}
				r.Case(sig)
				if len(v.Diffs) > 0 {
					ids := []uint64{}
					for _, m := range lab.Live() {
						ids = append(ids, m.ID)
					}
					r.Violation("ring/"+v.Class+"/"+got(e), name, fmt.Sprintf("through a ring of %d nodes after %d membership changes: %s: %s", len(ids), churn, e, strings.Join(v.Diffs, "; ")),
						map[string]any{"ring": ids, "history": trace, "diffs": v.Diffs, "membership_changes": churn})
					stop = true
					return false
				}
				// membership change between calls: the lease (token = expiry) moves by transfer
				if rng.Intn(3) == 0 {
					live := lab.Live()
					before := lab.Hits("xfer.up.imported") + lab.Hits("xfer.down.imported")
					if len(live) > 1 && (rng.Intn(2) == 0 || len(live) >= 6) {
						live[rng.Intn(len(live))].Leave()
					} else {
						m, _ := lab.Spawn(newID(), ringlab.Memory)
						_ = m.Join(live[rng.Intn(len(live))])
					}
					churn++
					if cv := lab.WaitConverged(int64(6*len(lab.Live())+20), time.Minute, false); !cv.Converged {
						r.Inconclusive(name + ": ring did not converge after a membership change: " + cv.Diff)
						stop = true
						return false
					}
					if lab.Hits("xfer.up.imported")+lab.Hits("xfer.down.imported") > before {
						transfers++
					}
				}
				return true
			})
			if stop {
				break
			}
		}
		r.Count("ring_membership_changes", int64(churn))
		r.Count("ring_key_transfers_observed", int64(transfers))
		r.Count("ring_retryable_errors_retried", kv.retries)
		nScen.Add(1)
		lab.StopAll()
		lab.Close()
	}
}
