// C20 — the append-only-log store recovers from a process crash at any point.
//
// A child applies a seeded mutation history to the real aof.DiskKV under strace;
// lab/crashimg rebuilds the data directory as it was after every state-changing
// system call; every such image is reopened with aof.New. Oracle (from the
// property statement): reopen succeeds and the recovered simple values and prefix
// children equal the model after a prefix of the issued mutations that contains
// every acknowledged one; rejected mutations are no-ops.
package main

import (
	"context"
	"encoding/hex"
	"encoding/json"
	"errors"
	"fmt"
	"math/rand"
	"os"
	"path/filepath"
	"sort"
	"strconv"
	"strings"
	"sync"
	"time"

	"verifharness/lab/child"
	"verifharness/lab/crashimg"
	"verifharness/lab/ev"

	"go.miragespace.co/specter/kv/aof"
	"go.miragespace.co/specter/spec/chord"
	"go.miragespace.co/specter/spec/protocol"

	"go.uber.org/zap"
)

// ------------------------------------------------------------------ histories

type xfer struct {
	Simple   string   `json:"s,omitempty"`
	Children []string `json:"c,omitempty"`
	Lease    uint64   `json:"l,omitempty"`
}

type mut struct {
	Op   string   `json:"op"` // put del append remove import removekeys restart
	Key  string   `json:"k,omitempty"`
	Val  string   `json:"v,omitempty"`
	Big  int      `json:"big,omitempty"` // value = Big pseudo-random bytes derived from Val
	Keys []string `json:"ks,omitempty"`
	Vals []xfer   `json:"vs,omitempty"`
}

func (m mut) value() []byte {
	if m.Big == 0 {
		return []byte(m.Val)
	}
	b := make([]byte, m.Big)
	var s int64
	for _, c := range m.Val {
		s = s*131 + int64(c)
	}
	rand.New(rand.NewSource(s)).Read(b)
	return b
}

func (m mut) short() string {
	switch m.Op {
	case "put":
		if m.Big > 0 {
			return fmt.Sprintf("put %s <%dB>", m.Key, m.Big)
		}
		return fmt.Sprintf("put %s=%q", m.Key, m.Val)
	case "del":
		return "del " + m.Key
	case "append":
		return fmt.Sprintf("append %s+%s", m.Key, m.Val)
	case "remove":
		return fmt.Sprintf("remove %s-%s", m.Key, m.Val)
	case "import":
		b, _ := json.Marshal(m.Vals)
		return fmt.Sprintf("import %v %s", m.Keys, b)
	case "removekeys":
		return fmt.Sprintf("removekeys %v", m.Keys)
	}
	return m.Op
}

var keys = []string{"k0", "k1", "k2", "k3", "k4", "k5"}
var kids = []string{"c0", "c1", "c2", "c3"}

// model: the state the KV contract prescribes (spec/chord/kv.go).
type entry struct {
	simple []byte
	kids   map[string]bool
}
type model map[string]*entry

func (m model) get(k string) *entry {
	e := m[k]
	if e == nil {
		e = &entry{kids: map[string]bool{}}
		m[k] = e
	}
	return e
}

// apply returns false when the mutation must be rejected (and has no effect).
func (m model) apply(x mut) bool {
	switch x.Op {
	case "put":
		m.get(x.Key).simple = x.value()
	case "del":
		m.get(x.Key).simple = nil
	case "append":
		e := m.get(x.Key)
		if e.kids[x.Val] {
			return false
		}
		e.kids[x.Val] = true
	case "remove":
		delete(m.get(x.Key).kids, x.Val)
	case "import":
		for i, k := range x.Keys {
			e := m.get(k)
			e.simple = []byte(x.Vals[i].Simple)
			for _, c := range x.Vals[i].Children {
				e.kids[c] = true
			}
		}
	case "removekeys":
		for _, k := range x.Keys {
			delete(m, k)
		}
	}
	return true
}

func (m model) canon() string {
	var sb strings.Builder
	for _, k := range keys {
		e := m[k]
		sb.WriteString(k)
		sb.WriteByte('=')
		if e != nil {
			sb.WriteString(valStr(e.simple))
			cs := make([]string, 0, len(e.kids))
			for c := range e.kids {
				cs = append(cs, c)
			}
			sort.Strings(cs)
			sb.WriteString("|" + strings.Join(cs, ","))
		} else {
			sb.WriteString("|")
		}
		sb.WriteByte(';')
	}
	return sb.String()
}

func valStr(b []byte) string {
	if len(b) > 64 {
		return fmt.Sprintf("<%dB:%x>", len(b), fnv(b))
	}
	return strconv.Quote(string(b))[1 : len(strconv.Quote(string(b)))-1]
}

func fnv(b []byte) uint64 {
	h := uint64(14695981039346656037)
	for _, c := range b {
		h ^= uint64(c)
		h *= 1099511628211
	}
	return h
}

// observe reads the same projection through the real store.
func observe(kv chord.KVProvider) (string, []string, error) {
	ctx := context.Background()
	var sb strings.Builder
	for _, k := range keys {
		v, err := kv.Get(ctx, []byte(k))
		if err != nil {
			return "", nil, fmt.Errorf("Get(%s): %w", k, err)
		}
		cs, err := kv.PrefixList(ctx, []byte(k))
		if err != nil {
			return "", nil, fmt.Errorf("PrefixList(%s): %w", k, err)
		}
		ss := make([]string, len(cs))
		for i := range cs {
			ss[i] = string(cs[i])
		}
		sort.Strings(ss)
		sb.WriteString(k + "=" + valStr(v) + "|" + strings.Join(ss, ",") + ";")
	}
	// keys the history never used must not appear
	var ghosts []string
	lk, err := kv.ListKeys(ctx, nil)
	if err != nil {
		return "", nil, fmt.Errorf("ListKeys: %w", err)
	}
	known := map[string]bool{}
	for _, k := range keys {
		known[k] = true
	}
	for _, c := range lk {
		if !known[string(c.GetKey())] {
			ghosts = append(ghosts, string(c.GetKey()))
		}
	}
	return sb.String(), ghosts, nil
}

func genHistory(rng *rand.Rand, n int, big bool) []mut {
	h := make([]mut, 0, n)
	m := model{}
	existingChild := func() (string, string, bool) {
		var cand [][2]string
		for _, k := range keys {
			if e := m[k]; e != nil {
				for c := range e.kids {
					cand = append(cand, [2]string{k, c})
				}
			}
		}
		if len(cand) == 0 {
			return "", "", false
		}
		sort.Slice(cand, func(i, j int) bool { return cand[i][0]+cand[i][1] < cand[j][0]+cand[j][1] })
		p := cand[rng.Intn(len(cand))]
		return p[0], p[1], true
	}
	rk := func() string { return keys[rng.Intn(len(keys))] }
	rc := func() string { return kids[rng.Intn(len(kids))] }
	val := func(i int) string {
		if rng.Intn(12) == 0 {
			return ""
		}
		return fmt.Sprintf("v%d-%s", i, strings.Repeat("x", rng.Intn(40)))
	}
	restarts := 0
	for i := 0; len(h) < n; i++ {
		var x mut
		switch p := rng.Intn(100); {
		case p < 22:
			x = mut{Op: "put", Key: rk(), Val: val(i)}
			if big {
				x.Big = 200_000 + rng.Intn(200_000)
			}
		case p < 30:
			x = mut{Op: "del", Key: rk()}
		case p < 62:
			x = mut{Op: "append", Key: rk(), Val: rc()}
			if k, c, ok := existingChild(); ok && rng.Intn(100) < 55 {
				x.Key, x.Val = k, c // deliberate conflict
			}
		case p < 72:
			x = mut{Op: "remove", Key: rk(), Val: rc()}
			if k, c, ok := existingChild(); ok && rng.Intn(2) == 0 {
				x.Key, x.Val = k, c
			}
		case p < 84:
			x = mut{Op: "import"}
			cnt := 1 + rng.Intn(3)
			for j := 0; j < cnt; j++ {
				k := rk()
				if j > 0 && rng.Intn(4) == 0 {
					k = x.Keys[0] // the same key twice in one import
				}
				v := xfer{}
				if rng.Intn(3) > 0 {
					v.Simple = val(i)
				}
				for c := rng.Intn(3); c > 0; c-- {
					v.Children = append(v.Children, rc())
				}
				if rng.Intn(3) == 0 {
					v.Lease = uint64(rng.Int63())
				}
				x.Keys = append(x.Keys, k)
				x.Vals = append(x.Vals, v)
			}
		case p < 92:
			x = mut{Op: "removekeys"}
			for c := 1 + rng.Intn(2); c > 0; c-- {
				x.Keys = append(x.Keys, rk())
			}
		default:
			if restarts >= 2 || len(h) == 0 {
				continue
			}
			restarts++
			x = mut{Op: "restart"}
		}
		m.apply(x)
		h = append(h, x)
	}
	return h
}

// ----------------------------------------------------------------------- child

type childArgs struct {
	History []mut `json:"history"`
}

type childOut struct {
	Acks  []string         `json:"acks"`
	Live  []string         `json:"live"`
	Hooks map[string]int64 `json:"hooks"`
	Fatal string           `json:"fatal,omitempty"`
}

func newKV(dir string) (*aof.DiskKV, error) {
	return aof.New(aof.Config{
		Logger:        zap.NewNop(),
		HasnFn:        chord.Hash,
		DataDir:       dir,
		FlushInterval: time.Millisecond,
	})
}

func applyMut(kv *aof.DiskKV, x mut) error {
	ctx := context.Background()
	bs := func(ss []string) [][]byte {
		o := make([][]byte, len(ss))
		for i := range ss {
			o[i] = []byte(ss[i])
		}
		return o
	}
	switch x.Op {
	case "put":
		return kv.Put(ctx, []byte(x.Key), x.value())
	case "del":
		return kv.Delete(ctx, []byte(x.Key))
	case "append":
		return kv.PrefixAppend(ctx, []byte(x.Key), []byte(x.Val))
	case "remove":
		return kv.PrefixRemove(ctx, []byte(x.Key), []byte(x.Val))
	case "import":
		vals := make([]*protocol.KVTransfer, len(x.Vals))
		for i, v := range x.Vals {
			vals[i] = &protocol.KVTransfer{SimpleValue: []byte(v.Simple), PrefixChildren: bs(v.Children), LeaseToken: v.Lease}
		}
		return kv.Import(ctx, bs(x.Keys), vals)
	case "removekeys":
		return kv.RemoveKeys(ctx, bs(x.Keys))
	}
	return fmt.Errorf("unknown op %q", x.Op)
}

func runChild(raw json.RawMessage) (any, error) {
	var a childArgs
	if err := json.Unmarshal(raw, &a); err != nil {
		return nil, err
	}
	dir := child.InChildDir()
	data := filepath.Join(dir, "data")
	mf, err := os.OpenFile(filepath.Join(dir, "markers"), os.O_CREATE|os.O_WRONLY|os.O_APPEND, 0o644)
	if err != nil {
		return nil, err
	}
	mark := func(s string) {
		if _, err := mf.Write([]byte(s + "\n")); err != nil { // one write(2) per marker
			fmt.Fprintf(os.Stderr, "marker write: %v\n", err)
			os.Exit(96)
		}
	}
	var hmu sync.Mutex
	out := childOut{Hooks: map[string]int64{}}
	aof.VerifSetHook(func(p string) { hmu.Lock(); out.Hooks[p]++; hmu.Unlock() })
	kv, err := newKV(data)
	if err != nil {
		return nil, fmt.Errorf("initial New: %w", err)
	}
	go kv.Start()
	for i, x := range a.History {
		mark(fmt.Sprintf("ISSUE %d", i))
		res := "ok"
		if x.Op == "restart" {
			kv.Stop()
			kv, err = newKV(data)
			if err != nil {
				out.Fatal = fmt.Sprintf("clean reopen at step %d failed: %v", i, err)
				mark(fmt.Sprintf("ACK %d error", i))
				return out, nil
			}
			go kv.Start()
		} else if err := applyMut(kv, x); err != nil {
			if errors.Is(err, chord.ErrKVPrefixConflict) {
				res = "rejected"
			} else {
				res = "error " + err.Error()
			}
		}
		mark(fmt.Sprintf("ACK %d %s", i, res))
		out.Acks = append(out.Acks, res)
		live, _, err := observe(kv)
		if err != nil {
			return nil, err
		}
		out.Live = append(out.Live, live)
	}
	kv.Stop()
	return out, nil
}

// ---------------------------------------------------------------------- parent

type historyResult struct {
	images int
}

var reopenSem = make(chan struct{}, 16)

var sigMu sync.Mutex
var sigCount = map[string]int{}

func classifyErr(err error) string {
	s := err.Error()
	switch {
	case errors.Is(err, chord.ErrKVPrefixConflict):
		return "prefix-conflict"
	case strings.Contains(s, "checksum"):
		return "checksum"
	case strings.Contains(s, "log corrupt"):
		return "log-corrupt"
	case strings.Contains(s, "deserializing"):
		return "deserialize"
	case strings.Contains(s, "error opening log"):
		return "open-log"
	case strings.Contains(s, "error reading log"):
		return "read-log"
	}
	return "other"
}

func fileClass(p string) string {
	b := filepath.Base(p)
	switch {
	case strings.HasSuffix(b, ".END.TEMP"):
		return "end-temp"
	case strings.HasSuffix(b, ".END"):
		return "end"
	case strings.HasSuffix(b, ".START.TEMP"):
		return "start-temp"
	case strings.HasSuffix(b, ".START"):
		return "start"
	case len(b) == 20:
		if strings.TrimLeft(b, "0") == "1" {
			return "seg1"
		}
		return "segN"
	}
	return b
}

type reopenOutcome struct {
	err    error
	panicv any
	state  string
	ghosts []string
	err2   error // second open (after more mutations and a clean stop)
	state2 string
}

func reopen(dir string) (o reopenOutcome) {
	reopenSem <- struct{}{}
	defer func() { <-reopenSem }()
	defer func() {
		if v := recover(); v != nil {
			o.panicv = v
		}
	}()
	kv, err := newKV(dir)
	if err != nil {
		o.err = err
		return
	}
	go kv.Start()
	o.state, o.ghosts, o.err = observe(kv)
	if o.err != nil {
		kv.Stop()
		return
	}
	// life goes on after the recovery: two more mutations (net effect: none), a clean stop and
	// another open. A log that was only just readable must stay readable once it has grown.
	ctx := context.Background()
	// first, mutations that carry an EMPTY value (encoded with the field absent): a Put of "" on every
	// key that holds no value changes nothing — unless replay decodes it on top of what an earlier
	// entry left in its scratch space. Then a put+delete of another key (net effect: none).
	for _, k := range keys {
		if v, gerr := kv.Get(ctx, []byte(k)); gerr == nil && len(v) == 0 {
			if perr := kv.Put(ctx, []byte(k), []byte{}); perr != nil {
				kv.Stop()
				o.err2 = fmt.Errorf("mutations after recovery failed: Put(%s, empty): %v", k, perr)
				return
			}
		}
	}
	e1 := kv.Put(ctx, []byte("c20-after-recovery"), []byte("x"))
	e2 := kv.Delete(ctx, []byte("c20-after-recovery"))
	kv.Stop()
	if e1 != nil || e2 != nil {
		o.err2 = fmt.Errorf("mutations after recovery failed: %v / %v", e1, e2)
		return
	}
	kv2, err := newKV(dir)
	if err != nil {
		o.err2 = err
		return
	}
	go kv2.Start()
	defer kv2.Stop()
	st2, _, err := observe(kv2)
	if err != nil {
		o.err2 = err
		return
	}
	o.state2 = st2
	return
}

func imageWitness(fs *crashimg.FS) map[string]any {
	files := map[string]string{}
	for _, p := range fs.Paths() {
		b, _ := fs.File(p)
		if len(b) <= 2048 {
			files[p] = hex.EncodeToString(b)
		} else {
			files[p] = fmt.Sprintf("<%d bytes>", len(b))
		}
	}
	return map[string]any{"listing": fs.Describe(), "files_hex": files}
}

func runHistory(r *ev.Run, hi int, hist []mut, onlyK int) {
	caseBase := fmt.Sprintf("h%d", hi)
	logPath := filepath.Join(child.WorkDir(), fmt.Sprintf("c20-%s.strace", caseBase))
	if os.Getenv("C20_KEEP") == "" {
		defer os.Remove(logPath)
	}
	res := child.Run("c20run", childArgs{History: hist}, child.Opt{Wrap: crashimg.Wrap(logPath), Timeout: 5 * time.Minute})
	if os.Getenv("C20_KEEP") == "" {
		defer res.Cleanup()
	}
	if res.TimedOut {
		r.Inconclusive(caseBase + ": traced child hit the watchdog")
		return
	}
	if res.Died || res.Err != "" {
		if crashed, repo, head, ex := child.Crash(res.LogPath); crashed && repo {
			r.Violation("child-crash", caseBase, "the store crashed while applying the history: "+head, map[string]any{"excerpt": ex, "history": hist})
			return
		}
		lb, _ := os.ReadFile(res.LogPath)
		r.Inconclusive(fmt.Sprintf("%s: traced child failed: %s %s", caseBase, res.Err, tail(string(lb), 300)))
		return
	}
	var out childOut
	if err := res.Decode(&out); err != nil {
		r.Inconclusive(caseBase + ": " + err.Error())
		return
	}
	if out.Fatal != "" {
		r.Violation("clean-reopen-fails", caseBase, out.Fatal, map[string]any{"history": hist})
		return
	}
	// model states after every prefix
	m := model{}
	states := []string{m.canon()}
	rejected := make([]bool, len(hist))
	for i, x := range hist {
		rejected[i] = !m.apply(x)
		states = append(states, m.canon())
	}
	// The acknowledgements must be the ones the model predicts: images from the first
	// differing step on are not judged (the reference is off there, or something that
	// is not this property is broken). A differing live read-back is reported as
	// inconclusive but does not stop the image checks.
	ackBad, liveBad := len(hist), len(hist)
	for i := range hist {
		want := "ok"
		if rejected[i] {
			want = "rejected"
		}
		if ackBad == len(hist) && (i >= len(out.Acks) || out.Acks[i] != want) {
			ackBad = i
			got := "<missing>"
			if i < len(out.Acks) {
				got = out.Acks[i]
			}
			r.Inconclusive(fmt.Sprintf("%s: step %d (%s) was acknowledged %q, the reference model says %q; later crash images are not judged", caseBase, i, hist[i].short(), got, want))
		}
		if liveBad == len(hist) && i < len(out.Live) && out.Live[i] != states[i+1] {
			liveBad = i
			r.Inconclusive(fmt.Sprintf("%s: live store disagrees with the reference model after step %d (%s): live %s model %s", caseBase, i, hist[i].short(), out.Live[i], states[i+1]))
		}
	}
	tr, err := crashimg.Parse(logPath, filepath.Join(res.Dir, "data"), filepath.Join(res.Dir, "markers"))
	if err != nil {
		r.Inconclusive(caseBase + ": cannot reconstruct crash images: " + err.Error())
		return
	}
	if want := 2 * len(out.Acks); len(tr.Markers) != want {
		r.Inconclusive(fmt.Sprintf("%s: %d marker lines in the trace, expected %d", caseBase, len(tr.Markers), want))
		return
	}
	// the final image must be what the child left on disk: validates the replay itself
	if err := compareWithDisk(tr, filepath.Join(res.Dir, "data")); err != nil {
		r.Inconclusive(caseBase + ": replayed final image differs from the directory the child left: " + err.Error())
		return
	}
	r.Count("histories", 1)
	r.Count("mutations", int64(len(hist)))
	r.Count("file_ops", int64(len(tr.Ops)))
	r.Count("fsyncs_seen", int64(len(tr.Syncs)))
	for k, v := range out.Hooks {
		r.Count("hook_"+k, v)
	}
	imgRoot := filepath.Join(child.WorkDir(), "img-"+caseBase)
	defer os.RemoveAll(imgRoot)
	var wg sync.WaitGroup
	err = tr.Walk(func(k int, fs *crashimg.FS) error {
		if onlyK >= 0 && k != onlyK {
			return nil
		}
		issued, acked := 0, 0
		for _, mk := range tr.MarkersBefore(k) {
			if strings.HasPrefix(mk.Text, "ISSUE ") {
				issued++
			} else if strings.HasPrefix(mk.Text, "ACK ") {
				acked++
			}
		}
		if issued < acked || issued > acked+1 {
			return fmt.Errorf("marker stream out of order at image %d (issued %d acked %d)", k, issued, acked)
		}
		if issued > ackBad {
			r.Count("images_not_judged", 1)
			return nil
		}
		dir := filepath.Join(imgRoot, fmt.Sprintf("k%d", k))
		if err := fs.Materialize(dir); err != nil {
			return err
		}
		last := "start"
		if k > 0 {
			o := tr.Ops[k-1]
			last = o.Kind + ":" + fileClass(o.Path)
		}
		inflight := "idle"
		if issued > acked {
			inflight = hist[acked].Op
			if rejected[acked] {
				inflight += "!rej"
			}
		}
		sig := last + "/" + inflight
		var wit map[string]any
		witness := func() map[string]any { return wit }
		{
			lo := k - 6
			if lo < 0 {
				lo = 0
			}
			ops := []string{}
			for i := lo; i < k; i++ {
				ops = append(ops, fmt.Sprintf("%d: %s", i+1, tr.Ops[i]))
			}
			w := map[string]any{
				"history": hi, "image": k, "of": len(tr.Ops), "acked": acked, "issued": issued,
				"ops_before_crash": ops, "image_content": imageWitness(fs),
			}
			if issued > acked {
				w["in_flight"] = hist[acked].short()
				w["in_flight_rejected_by_model"] = rejected[acked]
			}
			hs := []string{}
			for i := 0; i < issued; i++ {
				hs = append(hs, fmt.Sprintf("%d: %s", i, hist[i].short()))
			}
			w["issued_mutations"] = hs
			wit = w
		}
		wg.Add(1)
		go func() {
			defer wg.Done()
			defer os.RemoveAll(dir)
			o := reopen(dir)
			caseName := fmt.Sprintf("%s/k%d", caseBase, k)
			r.Case(sig)
			sigMu.Lock()
			sigCount[sig]++
			sigMu.Unlock()
			r.Count("images", 1)
			if issued > acked {
				r.Count("images_mid_mutation", 1)
			}
			w := witness()
			switch {
			case o.panicv != nil:
				w["panic"] = fmt.Sprint(o.panicv)
				r.Violation("reopen-panics", caseName, fmt.Sprintf("aof.New panicked on crash image %d: %v", k, o.panicv), w)
				return
			case o.err != nil:
				cls := classifyErr(o.err)
				key := "reopen-fails:" + cls
				if cls == "prefix-conflict" && issued > acked && hist[acked].Op == "append" && rejected[acked] {
					key = "reopen-fails:rejected-prefix-append-in-log"
				}
				w["error"] = o.err.Error()
				r.Count("reopen_failed", 1)
				r.Count("violation_"+key, 1)
				r.Violation(key, caseName, fmt.Sprintf("crash after file operation %d/%d (%s, in flight: %s): reopen fails: %v", k, len(tr.Ops), last, inflight, o.err), w)
				return
			}
			r.Count("reopen_ok", 1)
			if o.err2 != nil {
				w["error"] = o.err2.Error()
				r.Violation("second-reopen-fails:"+classifyErr(o.err2), caseName, fmt.Sprintf("crash after file operation %d/%d (%s, in flight: %s): the store reopened, took two more mutations and a clean stop, and then failed to open again: %v", k, len(tr.Ops), last, inflight, o.err2), w)
				return
			}
			if o.state2 != o.state {
				w["recovered"], w["after_second_open"] = o.state, o.state2
				r.Violation("second-reopen-state-differs", caseName, fmt.Sprintf("crash after file operation %d/%d: state after recovery %s, after a further put+delete of another key, clean stop and reopen %s", k, len(tr.Ops), o.state, o.state2), w)
				return
			}
			r.Count("second_reopen_ok", 1)
			r.Sample(map[string]any{"history": hi, "image": k, "last_op": last, "in_flight": inflight, "acked": acked, "recovered": o.state})
			if len(o.ghosts) > 0 {
				w["ghost_keys"] = o.ghosts
				r.Violation("recovered-unknown-keys", caseName, fmt.Sprintf("recovered store lists keys no mutation ever used: %q", o.ghosts), w)
				return
			}
			for j := acked; j <= issued; j++ {
				if o.state == states[j] {
					if j > acked {
						r.Count("recovered_includes_unacked", 1)
					}
					return
				}
			}
			w["recovered"] = o.state
			w["allowed"] = states[acked : issued+1]
			key := "recovered-state:matches-no-prefix"
			for j := 0; j < acked; j++ {
				if o.state == states[j] {
					key = "recovered-state:acked-mutation-lost"
					w["equals_prefix"] = j
					break
				}
			}
			r.Violation(key, caseName, fmt.Sprintf("crash after file operation %d/%d (%s, in flight: %s): recovered state %s is not the model after %d..%d mutations", k, len(tr.Ops), last, inflight, o.state, acked, issued), w)
		}()
		return nil
	})
	wg.Wait()
	if err != nil {
		r.Inconclusive(caseBase + ": " + err.Error())
	}
}

func compareWithDisk(tr *crashimg.Trace, dir string) error {
	fs, err := tr.At(len(tr.Ops))
	if err != nil {
		return err
	}
	seen := map[string]bool{}
	err = filepath.Walk(dir, func(p string, info os.FileInfo, err error) error {
		if err != nil {
			return err
		}
		if info.IsDir() {
			return nil
		}
		rel, _ := filepath.Rel(dir, p)
		seen[rel] = true
		want, ok := fs.File(rel)
		if !ok {
			return fmt.Errorf("file %s exists on disk but not in the replay", rel)
		}
		got, err := os.ReadFile(p)
		if err != nil {
			return err
		}
		if string(got) != string(want) {
			return fmt.Errorf("file %s: %d bytes on disk, %d bytes replayed (content differs)", rel, len(got), len(want))
		}
		return nil
	})
	if err != nil {
		return err
	}
	for _, p := range fs.Paths() {
		if !seen[p] {
			return fmt.Errorf("file %s is in the replay but not on disk", p)
		}
	}
	return nil
}

func tail(s string, n int) string {
	if len(s) > n {
		return s[len(s)-n:]
	}
	return s
}

func main() {
	child.Register("c20run", runChild)
	child.Main()
	r := ev.Start("C20", "fault_enumeration")
	r.SetRule("seeded histories (put/delete/prefix append with ~55% deliberate conflicts/prefix remove/import with overlapping and repeated keys/RemoveKeys/clean restart) run against aof.DiskKV under strace; EVERY state-changing file operation boundary of each run is one crash image, reopened with aof.New; a case is distinct by (kind of the last completed file operation + file class, in-flight mutation type, whether the model rejects it)")
	r.Assume("process-crash model: completed system calls persist, a system call is atomic; power loss (lost page cache, torn sector) is not modelled")
	r.Assume("strace order = causal order for the marker writes and the log writer's system calls (channel-synchronised); the replay of the final image is compared with the directory the child left")
	r.Assume("one sequential client: at most one mutation is in flight at a crash point; crashes during recovery itself are not enumerated")
	r.SetMaxSamples(5)
	nh := r.Pick(24, 300)
	nm := r.Pick(36, 60)
	rng := r.Rand("histories")
	type job struct {
		hi   int
		hist []mut
	}
	var jobs []job
	for i := 0; i < nh; i++ {
		jobs = append(jobs, job{i, genHistory(rng, nm, false)})
	}
	// large values: roll the 2 MB segment so that segment files > 1 take part
	nbig := r.Pick(0, 4)
	for i := 0; i < nbig; i++ {
		jobs = append(jobs, job{nh + i, genHistory(rng, 40, true)})
	}
	onlyH, onlyK := -1, -1
	if r.ReplayCase != "" {
		var h, k int
		if n, _ := fmt.Sscanf(r.ReplayCase, "h%d/k%d", &h, &k); n == 2 {
			onlyH, onlyK = h, k
		} else if n, _ := fmt.Sscanf(r.ReplayCase, "h%d", &h); n == 1 {
			onlyH = h
		}
	}
	sem := make(chan struct{}, 8)
	var wg sync.WaitGroup
	for _, j := range jobs {
		if onlyH >= 0 && j.hi != onlyH {
			continue
		}
		wg.Add(1)
		sem <- struct{}{}
		go func(j job) {
			defer wg.Done()
			defer func() { <-sem }()
			runHistory(r, j.hi, j.hist, onlyK)
		}(j)
	}
	wg.Wait()
	if r.ReplayCase == "" && r.Counter("hook_aof.rolledback") == 0 {
		r.Inconclusive("no rejected mutation was rolled back in any history: the interesting crash window was never produced")
	}
	r.Extra("images_by_signature", sigCount)
	r.Finish()
}
