// C21 — a clean restart of the append-only-log store reproduces its data.
// Generated mutation histories with 1-4 clean stop/reopen cycles; the content
// of every key before the stop must equal the content after the reopen and
// the reference model.
package main

import (
	"fmt"
	"os"
	"runtime"
	"strings"
	"sync"
	"sync/atomic"

	"verifharness/lab/ev"
	"verifharness/lab/kvlab"
)

func diffClass(d string) string {
	switch {
	case strings.Contains(d, "unexpected"), strings.Contains(d, "want absent"):
		return "extra"
	case strings.Contains(d, "missing"):
		return "missing"
	case strings.Contains(d, "reported"):
		return "duplicate"
	case strings.HasPrefix(d, "returned "):
		return "error"
	case strings.Contains(d, "hildren"):
		return "children"
	}
	return "value"
}

var (
	nOps, nReopens, nRejected, nAmbiguous, nSegments, nRollAtSegStart, nLeaseDiff atomic.Int64
	sampled                                                                       atomic.Int64
)

func segmentCount(dir string) int {
	es, err := os.ReadDir(dir)
	if err != nil {
		return 0
	}
	n := 0
	for _, e := range es {
		if len(e.Name()) == 20 {
			n++
		}
	}
	return n
}

func runCase(r *ev.Run, idx int) {
	name := fmt.Sprintf("hist-%d", idx)
	rng := r.Rand(name)
	hash := kvlab.RealHash
	if idx%3 == 0 {
		hash = kvlab.DegenerateHash
	}
	st, err := kvlab.Open(kvlab.AOF, "", hash)
	if err != nil {
		r.Inconclusive(fmt.Sprintf("%s: open: %v", name, err))
		return
	}
	defer st.Destroy()
	m := kvlab.NewModel(hash)
	g := kvlab.NewGen(rng)
	g.Weights = kvlab.MutationWeights()
	g.ImportLeases = true
	g.LeaseTokens = []uint64{1, kvlab.FarFuture, rng.Uint64() >> 1}
	g.EmptyBatches = true
	defer func() { r.Count("mutations_with_a_bulk_key_set(15..300 keys)", int64(g.BulkOps)) }()
	if idx%3 == 1 {
		g.BulkMax = 300 // hand-overs of whole key ranges (one mutation, hundreds of keys)
	}
	// segment pressure: some histories carry values that roll the 2 MB segment
	big := idx%5 == 4 || (!r.Quick() && idx%2 == 1)
	bigLeft := 0
	if big {
		bigLeft = 4 + rng.Intn(6)
	}
	cycles := 1 + rng.Intn(4)
	var trace []string
	feat := map[string]bool{}
	violate := func(key, what string, diffs []string) {
		r.Violation(key, name, what+": "+strings.Join(diffs, "; "), map[string]any{"history": trace, "diffs": diffs})
	}
	for cyc := 1; cyc <= cycles; cyc++ {
		n := 5 + rng.Intn(r.Pick(40, 60))
		if cyc > 1 && rng.Intn(4) == 0 {
			n = 0 // reopen twice in a row
		}
		prevRejected, afterBig, prevRolled := false, false, false
		for i := 0; i < n; i++ {
			op := g.Next()
			if bigLeft > 0 && rng.Intn(6) == 0 {
				bigLeft--
				v := make([]byte, 300_000+rng.Intn(600_000))
				rng.Read(v[:64])
				copy(v[len(v)-64:], v[:64])
				op = kvlab.Op{Kind: kvlab.OpPut, Key: g.Keys[rng.Intn(len(g.Keys))], Val: v}
				afterBig = true
			} else if (i == n-1 || i == 0 || afterBig || rng.Intn(8) == 0) && rng.Intn(2) == 0 {
				afterBig = false
				// force a rejected mutation (duplicate child) at the edges of a cycle and after big puts
				k := g.Keys[rng.Intn(len(g.Keys))]
				c := g.Children[rng.Intn(len(g.Children))]
				ex := kvlab.RunOp(st.KV, m, kvlab.Op{Kind: kvlab.OpPrefixAppend, Key: k, Val: c})
				trace = append(trace, fmt.Sprintf("c%d %s -> %q", cyc, ex.Op, kvlab.ErrClass(ex.Res.Err)))
				nOps.Add(1)
				if len(ex.Step.Diffs) > 0 {
					violate("history/PrefixAppend/"+diffClass(ex.Step.Diffs[0]), fmt.Sprintf("cycle %d %s", cyc, ex.Op), ex.Step.Diffs)
					return
				}
				op = kvlab.Op{Kind: kvlab.OpPrefixAppend, Key: k, Val: c}
			}
			segBefore := segmentCount(st.WALDir())
			ex := kvlab.RunOp(st.KV, m, op)
			nOps.Add(1)
			t := ex.Op.String()
			if len(t) > 120 {
				t = t[:120] + fmt.Sprintf("...(%d bytes)", len(op.Val))
			}
			trace = append(trace, fmt.Sprintf("c%d %s -> %q", cyc, t, kvlab.ErrClass(ex.Res.Err)))
			if len(ex.Step.Diffs) > 0 {
				what := fmt.Sprintf("cycle %d (after %d clean restarts) %s", cyc, cyc-1, t)
				violate(fmt.Sprintf("history/%s/%s", op.Kind, diffClass(ex.Step.Diffs[0])), what, ex.Step.Diffs)
				return
			}
			rejected := ex.Step.Outcome == "conflict"
			if rejected {
				nRejected.Add(1)
				feat["rejected"] = true
				if i == n-1 {
					feat["rejected-last"] = true
				}
				if i == 0 && cyc > 1 {
					feat["rejected-first"] = true
				}
				if prevRejected {
					feat["rejected-twice"] = true
				}
				if prevRolled {
					feat["rejected-at-segment-start"] = true
					nRollAtSegStart.Add(1)
				}
			}
			prevRejected = rejected
			prevRolled = segmentCount(st.WALDir()) > segBefore
			if prevRolled {
				feat["rolled"] = true
			}
			switch {
			case ex.Step.Outcome == "ambiguous" || ex.Step.Outcome == "overlap":
				feat["import-overlap"] = true
				if ex.Step.Outcome == "ambiguous" {
					nAmbiguous.Add(1)
				}
			case op.Kind == kvlab.OpRemoveKeys && ex.Step.Outcome != "removed=0":
				feat["removekeys"] = true
			case op.Kind == kvlab.OpPut && len(op.Val) == 0:
				feat["empty-value"] = true
			}
		}
		// ---- snapshot, clean stop, reopen, snapshot
		before, diffs := kvlab.Observe(st.KV, m.Universe(), true, m.OptionalEmpty())
		if len(diffs) > 0 {
			violate("before-stop/listing/"+diffClass(diffs[0]), fmt.Sprintf("cycle %d: listings inconsistent with content before the stop", cyc), diffs)
			return
		}
		segs := segmentCount(st.WALDir())
		if err := st.Reopen(); err != nil {
			violate("reopen/error", fmt.Sprintf("cycle %d: aof.New after a clean Stop failed", cyc), []string{err.Error()})
			return
		}
		nReopens.Add(1)
		nSegments.Add(int64(segs))
		after, diffs := kvlab.Observe(st.KV, m.Universe(), true, m.OptionalEmpty())
		if len(diffs) > 0 {
			violate("after-reopen/listing/"+diffClass(diffs[0]), fmt.Sprintf("cycle %d: listings inconsistent with content after the reopen", cyc), diffs)
			return
		}
		strip := func(s kvlab.Snapshot) kvlab.Snapshot {
			o := kvlab.Snapshot{}
			for k, v := range s {
				v.Lease = 0
				if v.Simple != "" || len(v.Children) > 0 {
					o[k] = v
				}
			}
			return o
		}
		b, a, mo := strip(before), strip(after), m.Snapshot(false)
		sigSeg := "1seg"
		if segs > 1 {
			sigSeg = "multiseg"
		}
		var fs []string
		for _, f := range []string{"rejected", "rejected-last", "rejected-first", "rejected-twice", "rejected-at-segment-start", "rolled", "import-overlap", "removekeys", "empty-value"} {
			if feat[f] {
				fs = append(fs, f)
			}
		}
		sig := fmt.Sprintf("cyc%d/%s/n%d/%s", cyc, sigSeg, min(len(mo), 3), strings.Join(fs, "+"))
		if n == 0 {
			sig = fmt.Sprintf("cyc%d/%s/back-to-back", cyc, sigSeg)
		}
		r.Case(sig)
		if cyc == cycles && len(mo) > 3 && feat["rejected"] && sampled.Add(1) <= 5 {
			r.Sample(map[string]any{"case": name, "restart_cycles": cycles, "mutations": len(trace), "segments": segs, "keys_with_data": len(mo), "features": fs, "state_after_reopen_equals_before_stop": a.Diff(b) == ""})
		}
		if d := a.Diff(b); d != "" {
			violate("restart/state-differs", fmt.Sprintf("cycle %d: state after the reopen differs from the state before the clean stop (%d segments)", cyc, segs), []string{d})
			return
		}
		if d := a.Diff(mo); d != "" {
			violate("restart/model-differs", fmt.Sprintf("cycle %d: state after the reopen differs from the model", cyc), []string{d})
			return
		}
		// informational only (leases are volatile by design; imported tokens are logged)
		for k, v := range before {
			if after[k].Lease != v.Lease {
				nLeaseDiff.Add(1)
			}
		}
		for f := range feat {
			delete(feat, f)
		}
	}
}

func main() {
	r := ev.Start("C21", "exploration")
	r.SetRule("a history = 1-4 cycles of 5-45 PRNG mutations (Put incl. empty values, Delete, PrefixAppend with forced duplicate appends at the first/last position of a cycle, PrefixRemove, Import with overlapping keys and lease tokens, RemoveKeys) on the real AOF store, every 5th history with 300-900 KB values that roll the 2 MB segment; a case = one clean Stop + aof.New, judged by (content of every key before stop) = (after reopen) = model; distinct+non-trivial by (cycle number, single/multi segment log, size class, features of the cycle: rejected mutation [last/first/twice], segment rolled, overlapping import, RemoveKeys, empty value)")
	r.Assume("histories are sampled; only clean stops (Stop flushes and closes) — crashes are C20/C22")
	r.Assume("lease tokens are not part of the verdict (leases are volatile in this backend); listing of keys holding only an empty value is not judged")
	n := r.Pick(150, 1200)
	jobs := make(chan int)
	var wg sync.WaitGroup
	workers := min(runtime.GOMAXPROCS(0), 12)
	for w := 0; w < workers; w++ {
		wg.Add(1)
		go func() {
			defer wg.Done()
			for i := range jobs {
				runCase(r, i)
			}
		}()
	}
	for i := 0; i < n; i++ {
		if r.WantCase(fmt.Sprintf("hist-%d", i)) {
			jobs <- i
		}
	}
	close(jobs)
	wg.Wait()
	r.Count("histories", int64(n))
	r.Count("mutations_issued", nOps.Load())
	r.Count("mutations_rejected_and_rolled_back", nRejected.Load())
	r.Count("imports_with_contract_silent_outcome", nAmbiguous.Load())
	r.Count("rejected_mutations_first_in_a_new_segment", nRollAtSegStart.Load())
	r.Count("clean_restarts", nReopens.Load())
	r.Count("segment_files_replayed", nSegments.Load())
	r.Count("info_lease_tokens_changed_by_restart", nLeaseDiff.Load())
	r.Finish()
}
