// C22 — the append-only log never opens with data no prefix could produce.
// For logs written by clean seeded histories: every truncation offset of the
// last segment file, zero-filled tails, and in-place corruptions of the last
// entry (every byte) and of earlier entries (seeded). Oracle: aof.New fails, or
// the recovered content equals the model state after some prefix of the
// acknowledged mutations.
package main

import (
	"context"
	"encoding/binary"
	"fmt"
	"os"
	"path/filepath"
	"runtime"
	"sort"
	"strings"
	"sync"
	"sync/atomic"
	"time"

	"verifharness/lab/ev"
	"verifharness/lab/kvlab"

	"go.miragespace.co/specter/kv/aof"
	aofproto "go.miragespace.co/specter/kv/aof/proto"
	"go.miragespace.co/specter/spec/chord"

	"go.uber.org/zap"
)

var (
	nImages, nErrors, nRecovered, nMut, nInfoNonPrefix, nBigEntries atomic.Int64
	sampled                                                         atomic.Int64
	byFault                                                         sync.Map
)

type entryPos struct {
	pos, dataStart, end int // [pos,end) whole record, dataStart = after the length prefix
	dataTag             int // position of the data field's tag (0 if not found)
	hdrEnd, cksStart    int // proto header [dataStart,hdrEnd), checksum field [cksStart,end)
}

// parseSegment splits a tidwall/wal binary segment (uvarint size + data per
// entry) and locates the LogEntry fields (1: version, 2: data, 5: checksum).
func parseSegment(b []byte) ([]entryPos, bool) {
	var out []entryPos
	p := 0
	for p < len(b) {
		size, n := binary.Uvarint(b[p:])
		if n <= 0 || uint64(len(b)-p-n) < size {
			return out, false
		}
		e := entryPos{pos: p, dataStart: p + n, end: p + n + int(size)}
		e.hdrEnd, e.cksStart = e.dataStart, e.end
		q := e.dataStart
		if q < e.end && b[q] == 0x08 {
			_, m := binary.Uvarint(b[q+1 : e.end])
			if m > 0 {
				q += 1 + m
			}
		}
		if q < e.end && b[q] == 0x12 {
			l, m := binary.Uvarint(b[q+1 : e.end])
			if m > 0 && q+1+m+int(l) <= e.end {
				e.dataTag = q
				e.hdrEnd = q + 1 + m
				e.cksStart = q + 1 + m + int(l)
			}
		}
		out = append(out, e)
		p = e.end
	}
	return out, true
}

func posClass(e entryPos, off int) string {
	switch {
	case off < e.dataStart:
		return "lenprefix"
	case off < e.hdrEnd:
		return "header"
	case off < e.cksStart:
		return "payload"
	}
	return "checksum"
}

type fault struct {
	kind string // trunc | zerotail | flip | range-garbage | range-zero | earlier | hidden | merge | garbage-tail
	desc string
	cls  string
	img  []byte
	info bool // outside the judged fault model: counted, never a violation
}

func runCase(r *ev.Run, idx int) {
	name := fmt.Sprintf("hist-%d", idx)
	rng := r.Rand(name)
	var hash chord.HashFn = kvlab.RealHash
	if idx%3 == 0 {
		hash = kvlab.DegenerateHash
	}
	st, err := kvlab.Open(kvlab.AOF, "", hash)
	if err != nil {
		r.Inconclusive(fmt.Sprintf("%s: open: %v", name, err))
		return
	}
	defer st.Destroy()
	m := kvlab.NewModel(hash)
	g := kvlab.NewGen(rng)
	g.Weights = kvlab.MutationWeights()
	g.ImportLeases = true
	g.MaxValue = 24
	g.EmptyBatches = true
	defer func() { r.Count("mutations_with_a_bulk_key_set(15..300 keys)", int64(g.BulkOps)) }()
	if idx%4 == 2 {
		g.BulkMax = 129 // hand-overs of whole key ranges: one acknowledged mutation, many keys
	}
	var trace []string
	states := map[string][2]int{} // fingerprint -> first,last op index
	record := func(i int) {
		fp := m.Snapshot(false).Fingerprint()
		if v, ok := states[fp]; ok {
			states[fp] = [2]int{v[0], i}
		} else {
			states[fp] = [2]int{i, i}
		}
	}
	record(0)
	emptyFP := m.Snapshot(false).Fingerprint()
	opNo := 0
	apply := func(op kvlab.Op) bool {
		ex := kvlab.RunOp(st.KV, m, op)
		opNo++
		nMut.Add(1)
		t := ex.Op.String()
		if len(t) > 100 {
			t = t[:100] + "..."
		}
		trace = append(trace, fmt.Sprintf("%d %s -> %q", opNo, t, kvlab.ErrClass(ex.Res.Err)))
		if len(ex.Step.Diffs) > 0 {
			// a misbehaving live store is C16/C21 territory; without a trusted history C22 cannot judge
			r.Inconclusive(fmt.Sprintf("%s: history op %s deviates from the model (%s); see C16/C21", name, t, strings.Join(ex.Step.Diffs, "; ")))
			return false
		}
		record(opNo)
		return true
	}
	multiSeg := idx%6 == 5
	if multiSeg {
		// fill and roll at least one 2 MB segment, then continue with small entries
		for i := 0; i < 8; i++ {
			es, _ := os.ReadDir(st.WALDir())
			if len(es) >= 2 {
				break
			}
			v := make([]byte, 500_000+rng.Intn(400_000))
			rng.Read(v[:32])
			if !apply(kvlab.Op{Kind: kvlab.OpPut, Key: g.Keys[rng.Intn(len(g.Keys))], Val: v}) {
				return
			}
		}
	}
	n := 12 + rng.Intn(r.Pick(20, 40))
	if idx%8 == 5 {
		n = 150 + rng.Intn(150) // a long unsynced burst: damage far from the tail is still damage
	}
	for i := 0; i < n; i++ {
		if idx%8 == 3 && (i == n/3 || i == 2*n/3) {
			// an entry far larger than any internal block or buffer size (random content throughout, so
			// that damage anywhere in it changes it)
			v := make([]byte, []int{65537, 70000, 131072 + 100, 200000, 3*65536 + 4095, 1<<20 + 17}[rng.Intn(6)])
			rng.Read(v)
			nBigEntries.Add(1)
			if !apply(kvlab.Op{Kind: kvlab.OpPut, Key: g.Keys[rng.Intn(len(g.Keys))], Val: v}) {
				return
			}
		}
		if !apply(g.Next()) {
			return
		}
		if i == n/2 && idx%4 == 1 {
			if err := st.Reopen(); err != nil { // a clean restart in the middle of the history
				r.Inconclusive(fmt.Sprintf("%s: clean reopen failed: %v (see C21)", name, err))
				return
			}
		}
	}
	finalFP := m.Snapshot(false).Fingerprint()
	universe := m.Universe()
	st.Close() // clean stop: flush + close

	es, err := os.ReadDir(st.WALDir())
	if err != nil || len(es) == 0 {
		r.Inconclusive(fmt.Sprintf("%s: no log files: %v", name, err))
		return
	}
	var segs []string
	for _, e := range es {
		if len(e.Name()) == 20 {
			segs = append(segs, e.Name())
		}
	}
	sort.Strings(segs)
	lastPath := filepath.Join(st.WALDir(), segs[len(segs)-1])
	pristine, err := os.ReadFile(lastPath)
	if err != nil {
		r.Inconclusive(fmt.Sprintf("%s: %v", name, err))
		return
	}
	entries, ok := parseSegment(pristine)
	if !ok || len(entries) == 0 {
		// the last segment can legitimately be empty right after a roll
		if len(pristine) != 0 {
			r.Inconclusive(fmt.Sprintf("%s: harness cannot parse the last segment", name))
			return
		}
	}
	segCls := "1seg"
	if len(segs) > 1 {
		segCls = "multiseg"
	}

	// ---- enumerate the fault images
	var faults []fault
	boundary := map[int]bool{0: true}
	for _, e := range entries {
		boundary[e.end] = true
	}
	entryAt := func(off int) entryPos {
		for _, e := range entries {
			if off < e.end {
				return e
			}
		}
		return entryPos{}
	}
	// every offset of the last segment; for a segment made large by bulk hand-overs: every entry
	// boundary and its neighbours plus 1500 (300 when the segment exceeds 64 KiB) PRNG offsets
	offsets := make([]int, 0, len(pristine))
	if len(pristine) <= 4096 {
		for t := 0; t < len(pristine); t++ {
			offsets = append(offsets, t)
		}
	} else {
		pick := map[int]bool{}
		for b := range boundary {
			for _, t := range []int{b - 1, b, b + 1} {
				if t >= 0 && t < len(pristine) {
					pick[t] = true
				}
			}
		}
		np := 1500
		if len(pristine) > 1<<16 {
			np = 300 // a segment holding very large entries: every image costs a replay of them
		}
		for k := 0; k < np; k++ {
			pick[rng.Intn(len(pristine))] = true
		}
		for t := range pick {
			offsets = append(offsets, t)
		}
		sort.Ints(offsets)
	}
	for _, t := range offsets { // truncation offsets
		cls := "boundary"
		if !boundary[t] {
			cls = posClass(entryAt(t), t)
		}
		faults = append(faults, fault{kind: "trunc", desc: fmt.Sprintf("last segment truncated to %d of %d bytes", t, len(pristine)), cls: cls, img: pristine[:t]})
	}
	if len(entries) > 0 {
		last := entries[len(entries)-1]
		for _, t := range offsets { // the tail from any offset reads as zeros (torn write into a preallocated/zeroed tail)
			if t < 1 {
				continue
			}
			img := append([]byte{}, pristine...)
			for i := t; i < len(img); i++ {
				img[i] = 0
			}
			cls := "boundary"
			if !boundary[t] {
				cls = posClass(entryAt(t), t)
			}
			faults = append(faults, fault{kind: "zerotail", desc: fmt.Sprintf("bytes %d..%d zeroed", t, len(pristine)), cls: cls, img: img})
		}
		flipOffs := make([]int, 0, last.end-last.pos)
		if last.end-last.pos <= 4096 {
			for off := last.pos; off < last.end; off++ { // every byte of the last entry
				flipOffs = append(flipOffs, off)
			}
		} else { // a very large last entry: its first and last 64 bytes and 512 PRNG positions
			for k := 0; k < 64; k++ {
				flipOffs = append(flipOffs, last.pos+k, last.end-1-k)
			}
			for k := 0; k < 512; k++ {
				flipOffs = append(flipOffs, last.pos+rng.Intn(last.end-last.pos))
			}
		}
		// damage inside very large entries (of the last segment): sector / page sized ranges near the start,
		// near the end and at PRNG positions turned into zeros or garbage, everything else intact
		nbig := 0
		for _, e := range entries {
			if e.end-e.pos <= 8192 || nbig >= 3 {
				continue
			}
			nbig++
			var offs []int
			for _, d := range []int{64, 4096, 65536 - 1, 65536 + 1} {
				if e.pos+d < e.end-8 {
					offs = append(offs, e.pos+d)
				}
				if e.end-8-d > e.pos+16 {
					offs = append(offs, e.end-8-d)
				}
			}
			for k := 0; k < 24; k++ {
				offs = append(offs, e.pos+16+rng.Intn(e.end-e.pos-32))
			}
			for k, off := range offs {
				l := []int{512, 4096, 1, 37}[k%4]
				if off+l > e.end-8 {
					l = e.end - 8 - off
				}
				if l <= 0 {
					continue
				}
				img := append([]byte{}, pristine...)
				kind := "big-entry-range-garbage"
				if k%2 == 0 {
					kind = "big-entry-range-zero"
					for x := off; x < off+l; x++ {
						img[x] = 0
					}
				} else {
					rng.Read(img[off : off+l])
				}
				where := "last"
				if e.end != last.end {
					where = "earlier"
				}
				faults = append(faults, fault{kind: kind, desc: fmt.Sprintf("%s of bytes [%d,%d) inside the %d-byte %s entry [%d,%d)", kind, off, off+l, e.end-e.pos, where, e.pos, e.end), cls: where + "-" + posClass(e, off), img: img})
			}
		}
		for _, off := range flipOffs {
			for _, mask := range []byte{0x01, 0x80, 0xff, byte(1 + rng.Intn(255))} {
				img := append([]byte{}, pristine...)
				img[off] ^= mask
				faults = append(faults, fault{kind: "flip", desc: fmt.Sprintf("byte %d of the last entry [%d,%d) xor %#02x", off, last.pos, last.end, mask), cls: posClass(last, off), img: img})
			}
		}
		for k := 0; k < 288; k++ { // a contiguous byte range inside ONE entry (last or earlier, later entries intact) -> garbage or zeros
			e := last
			if len(entries) > 1 && k%2 == 1 {
				e = entries[rng.Intn(len(entries)-1)]
			}
			off := e.pos + rng.Intn(e.end-e.pos)
			l := 1 + rng.Intn(min(e.end-off, 24))
			if rng.Intn(4) == 0 {
				l = e.end - off // to the end of the entry
			}
			img := append([]byte{}, pristine...)
			kind := "range-garbage"
			if k%3 == 0 {
				kind = "range-zero"
				for x := off; x < off+l; x++ {
					img[x] = 0
				}
			} else {
				rng.Read(img[off : off+l])
			}
			where := "last"
			if e.end != last.end {
				where = "earlier"
			}
			faults = append(faults, fault{kind: kind, desc: fmt.Sprintf("%s of bytes [%d,%d) inside the %s entry [%d,%d)", kind, off, off+l, where, e.pos, e.end), cls: where + "-" + posClass(e, off), img: img})
		}
		if len(entries) > 1 {
			for k := 0; k < 96; k++ { // an earlier entry of the unsynced tail is damaged, later ones intact
				e := entries[rng.Intn(len(entries)-1)]
				off := e.pos + rng.Intn(e.end-e.pos)
				img := append([]byte{}, pristine...)
				mask := byte(1 + rng.Intn(255))
				img[off] ^= mask
				faults = append(faults, fault{kind: "earlier", desc: fmt.Sprintf("byte %d of entry [%d,%d) (not the last) xor %#02x (%#02x -> %#02x)", off, e.pos, e.end, mask, pristine[off], img[off]), cls: posClass(e, off), img: img})
			}
		}
	}
	if len(entries) > 2 {
		// a non-last entry whose payload and checksum fields are turned into one unknown
		// field (2 bytes: data tag 0x12 -> 0x1a, its length -> rest of the entry)
		for _, ei := range []int{0, len(entries) / 2, len(entries) - 2} {
			e := entries[ei]
			q := e.dataStart
			if e.end-q < 5 || pristine[q] != 0x08 || pristine[q+2] != 0x12 || e.end-(q+4) > 127 {
				continue
			}
			img := append([]byte{}, pristine...)
			img[q+2] = 0x1a
			img[q+3] = byte(e.end - (q + 4))
			faults = append(faults, fault{kind: "hidden", desc: fmt.Sprintf("entry %d of %d [%d,%d): data tag 0x12->0x1a and length byte -> %d (payload+checksum become an unknown field)", ei+1, len(entries), e.pos, e.end, img[q+3]), cls: "header", img: img})
		}
	}
	for ei := 0; ei+1 < len(entries); ei++ { // length prefix of entry k enlarged to swallow entry k+1 (1 byte)
		e, nx := entries[ei], entries[ei+1]
		merged := (e.end - e.dataStart) + (nx.end - nx.pos)
		if e.dataStart-e.pos != 1 || merged > 127 {
			continue
		}
		img := append([]byte{}, pristine...)
		img[e.pos] = byte(merged)
		faults = append(faults, fault{kind: "merge", desc: fmt.Sprintf("length prefix of entry %d of %d: %d -> %d (covers the next entry too)", ei+1, len(entries), pristine[e.pos], merged), cls: "lenprefix", img: img})
	}
	// crafted: an entry that carries its data and checksum fields twice (its own, then those of
	// another entry): a decoder that lets the last occurrence win applies the other mutation in
	// its place, checksum and all
	if len(entries) > 1 {
		for c := 0; c < 3; c++ {
			ki, ji := rng.Intn(len(entries)), rng.Intn(len(entries))
			e, o := entries[ki], entries[ji]
			if ki == ji || e.dataTag == 0 || o.dataTag == 0 {
				continue
			}
			body := append(append([]byte{}, pristine[e.dataStart:e.end]...), pristine[o.dataTag:o.end]...)
			var lp [binary.MaxVarintLen64]byte
			n := binary.PutUvarint(lp[:], uint64(len(body)))
			img := append(append(append(append([]byte{}, pristine[:e.pos]...), lp[:n]...), body...), pristine[e.end:]...)
			faults = append(faults, fault{kind: "repeated-fields", desc: fmt.Sprintf("entry %d of %d carries, after its own fields, the data and checksum fields of entry %d", ki+1, len(entries), ji+1), cls: "payload", img: img})
		}
	}
	for k := 0; k < 32; k++ { // informational only: garbage after the last complete entry
		gb := make([]byte, 1+rng.Intn(40))
		rng.Read(gb)
		faults = append(faults, fault{kind: "garbage-tail", desc: fmt.Sprintf("%d garbage bytes appended", len(gb)), cls: "tail", img: append(append([]byte{}, pristine...), gb...), info: true})
	}

	cfg := aof.Config{Logger: zap.NewNop(), HasnFn: hash, DataDir: st.Dir, FlushInterval: time.Hour}
	for fi, f := range faults {
		if err := os.WriteFile(lastPath, f.img, 0o640); err != nil {
			r.Inconclusive(fmt.Sprintf("%s: write image: %v", name, err))
			return
		}
		nImages.Add(1)
		if c, _ := byFault.LoadOrStore(f.kind, new(atomic.Int64)); true {
			c.(*atomic.Int64).Add(1)
		}
		d, err, pan := openImage(cfg)
		if pan != "" && f.info {
			nInfoNonPrefix.Add(1)
			continue
		}
		if pan != "" {
			r.Case("")
			r.Violation("panic-on-reopen/"+f.kind+"/"+f.cls, name, fmt.Sprintf("%s (%s, fault in %s): aof.New panicked: %s", f.desc, segCls, f.cls, pan),
				map[string]any{"fault": f.desc, "fault_index": fi, "panic": pan, "history": trace, "segments": segs})
			continue
		}
		outcome, recFP := "error", ""
		if err == nil {
			snap, diffs := kvlab.Observe(d, universe, false, nil)
			go d.Start()
			d.Stop()
			fp := snap.Fingerprint()
			recFP = fp
			nRecovered.Add(1)
			if _, ok := states[fp]; (!ok || len(diffs) > 0) && f.info {
				nInfoNonPrefix.Add(1)
				continue
			} else if !ok || len(diffs) > 0 {
				what := fmt.Sprintf("%s (%s, fault in %s): aof.New succeeded and the store holds a state that no prefix of the %d acknowledged mutations produces", f.desc, segCls, f.cls, opNo)
				key := "non-prefix-state/" + f.kind + "/" + f.cls
				if len(diffs) > 0 {
					what += " (keys outside the history or listings inconsistent with content: " + strings.Join(diffs, "; ") + ")"
				}
				r.Case("")
				r.Violation(key, name, what, map[string]any{"fault": f.desc, "fault_index": fi, "recovered": snap, "final_model_state": m.Snapshot(false), "history": trace, "segments": segs})
				continue
			}
			switch fp {
			case finalFP:
				outcome = "final"
			case emptyFP:
				outcome = "empty"
			default:
				outcome = "intermediate"
			}
		} else {
			nErrors.Add(1)
		}
		if f.info {
			continue
		}
		r.Case(fmt.Sprintf("%s/%s/%s/%s", f.kind, f.cls, segCls, outcome))
		if outcome == "intermediate" && f.kind == "trunc" && sampled.Add(1) <= 3 {
			v := states[recFP]
			r.Sample(map[string]any{"case": name, "fault": f.desc, "result": "opened", "recovered_state_equals_model_after_mutation": v[1], "of_mutations": opNo})
		} else if outcome == "error" && f.kind == "flip" && f.cls == "payload" && sampled.Add(1) <= 6 {
			r.Sample(map[string]any{"case": name, "fault": f.desc, "result": "aof.New error: " + err.Error()})
		}
	}
	// ---- a rejected append left in the log: the store appends a mutation before it applies it and
	// takes a rejected one (duplicate child) out again; if the power fails in between, the log ends
	// with an intact entry that replay must skip. Such an image is built by repeating, at the tail,
	// the bytes of an earlier PrefixAppend whose child still exists at the end of the history. It
	// must open with the final state; and after life has gone on (Put of an EMPTY value on every key
	// that holds none — a no-op encoded with the value field absent — and a clean stop) it must
	// open with the final state again.
	if len(entries) > 0 {
		final := m.Snapshot(false)
		tried := 0
		for ei := len(entries) - 1; ei >= 0 && tried < 2; ei-- {
			e := entries[ei]
			if e.hdrEnd >= e.cksStart {
				continue
			}
			mu := &aofproto.Mutation{}
			if err := mu.UnmarshalVT(pristine[e.hdrEnd:e.cksStart]); err != nil || mu.GetType() != aofproto.MutationType_PREFIX_APPEND {
				continue
			}
			kv, ok := final[string(mu.GetKey())]
			has := false
			if ok {
				for _, c := range kv.Children {
					if c == string(mu.GetValue()) {
						has = true
					}
				}
			}
			if !has {
				continue
			}
			tried++
			img := append(append([]byte{}, pristine...), pristine[e.pos:e.end]...)
			desc := fmt.Sprintf("the log ends with a rejected PrefixAppend(%q,%q) whose rollback was lost (entry %d of %d repeated at the tail)", mu.GetKey(), mu.GetValue(), ei+1, len(entries))
			if err := os.WriteFile(lastPath, img, 0o640); err != nil {
				break
			}
			nImages.Add(1)
			if c, _ := byFault.LoadOrStore("leftover-rejected", new(atomic.Int64)); true {
				c.(*atomic.Int64).Add(1)
			}
			wit := func(extra map[string]any) map[string]any {
				w := map[string]any{"fault": desc, "final_model_state": final, "history": trace}
				for k, v := range extra {
					w[k] = v
				}
				return w
			}
			d, err, pan := openImage(cfg)
			if pan != "" {
				r.Case("")
				r.Violation("panic-on-reopen/leftover-rejected", name, desc+": aof.New panicked: "+pan, wit(nil))
				continue
			}
			if err != nil {
				// refusing to open is allowed by this property (C20 judges whether it may)
				nErrors.Add(1)
				r.Case("leftover-rejected/" + segCls + "/error")
				continue
			}
			snap, diffs := kvlab.Observe(d, universe, false, nil)
			if snap.Fingerprint() != finalFP || len(diffs) > 0 {
				go d.Start()
				d.Stop()
				r.Case("")
				r.Violation("non-prefix-state/leftover-rejected/first-open", name, desc+": the store opened with a state that is not the final state (the rejected mutation must have no effect)", wit(map[string]any{"recovered": snap, "diffs": diffs}))
				continue
			}
			go d.Start()
			ctx := context.Background()
			var perr error
			for k, v := range final {
				if v.Simple == "" && perr == nil {
					perr = d.Put(ctx, []byte(k), []byte{})
				}
			}
			for _, k := range universe {
				if _, ok := final[string(k)]; !ok && perr == nil {
					perr = d.Put(ctx, k, []byte{})
				}
			}
			d.Stop()
			if perr != nil {
				r.Inconclusive(fmt.Sprintf("%s: %s: Put of an empty value after recovery failed: %v", name, desc, perr))
				continue
			}
			d2, err, pan := openImage(cfg)
			if pan != "" || err != nil {
				r.Case("")
				r.Violation("second-open-fails/leftover-rejected", name, fmt.Sprintf("%s: the store opened, took empty-valued puts and a clean stop, and then did not open again: %v %s", desc, err, pan), wit(nil))
				continue
			}
			snap2, diffs2 := kvlab.Observe(d2, universe, false, nil)
			go d2.Start()
			d2.Stop()
			nRecovered.Add(1)
			if snap2.Fingerprint() != finalFP || len(diffs2) > 0 {
				r.Case("")
				r.Violation("non-prefix-state/leftover-rejected/after-empty-valued-puts", name, desc+": after empty-valued puts (no-ops) and a clean stop the store opened with values that no prefix of the history produces", wit(map[string]any{"recovered": snap2, "diffs": diffs2}))
				continue
			}
			r.Case("leftover-rejected/" + segCls + "/final-twice")
		}
	}
	_ = os.WriteFile(lastPath, pristine, 0o640)
}

// openImage calls aof.New; a panic while replaying is neither an error nor a
// recovered state and is reported as such instead of killing the worker.
func openImage(cfg aof.Config) (d *aof.DiskKV, err error, pan string) {
	defer func() {
		if v := recover(); v != nil {
			buf := make([]byte, 4096)
			buf = buf[:runtime.Stack(buf, false)]
			pan = fmt.Sprintf("%v | %s", v, buf)
		}
	}()
	d, err = aof.New(cfg)
	return
}

func main() {
	r := ev.Start("C22", "fault_enumeration")
	r.SetRule("a history = 12-32 (52 thorough; every 8th: 150-300) PRNG mutations on the real AOF store (every 6th behind >= 2 MB of large values so the log has several segments, every 4th with a clean restart in the middle, every 8th with two puts of 64 KiB+1 .. 1 MiB+17 bytes of random content: sector / page sized ranges inside those very large entries zeroed or turned into garbage), stopped cleanly; fault images of the last segment file: truncation to every offset; the tail zeroed from every offset; every byte of the last entry xor {0x01,0x80,0xff,random}; seeded: 288 contiguous byte ranges inside ONE entry (last, or an earlier one with the later entries intact) replaced by PRNG garbage or zeros, 96 single-byte xors of earlier entries; crafted: 3 entries whose payload+checksum are masked as an unknown field, every entry whose length prefix is enlarged to swallow its successor, 3 entries that carry their data and checksum fields twice (the second pair taken from another entry); and up to 2 'rejected append left at the tail' images (an earlier PrefixAppend whose child still exists repeated at the end), opened, given empty-valued puts and a clean stop, and opened again. A case = one image reopened with aof.New; distinct+non-trivial by (fault kind, where it hits: entry boundary / length prefix / header / payload / checksum, last or earlier entry, single/multi segment, outcome: error / final / intermediate / empty state). 32 garbage tails per history are reopened too but only counted (outside the judged fault model)")
	r.Assume("histories are sampled; per history the truncation offsets and last-entry byte positions are enumerated completely, multi-byte and earlier-entry corruptions are seeded samples")
	r.Assume("a fault is modelled as a change of the bytes of the last segment file only (older segments were synced when the segment was closed)")
	r.Assume("the harness' parser of the tidwall/wal binary framing is used only to classify fault positions, never to decide")
	r.SetExhaustive(false)
	n := r.Pick(24, 240)
	jobs := make(chan int)
	var wg sync.WaitGroup
	workers := min(runtime.GOMAXPROCS(0), 12)
	for w := 0; w < workers; w++ {
		wg.Add(1)
		go func() {
			defer wg.Done()
			for i := range jobs {
				runCase(r, i)
			}
		}()
	}
	for i := 0; i < n; i++ {
		if r.WantCase(fmt.Sprintf("hist-%d", i)) {
			jobs <- i
		}
	}
	close(jobs)
	wg.Wait()
	r.Count("histories", int64(n))
	r.Count("mutations_issued", nMut.Load())
	r.Count("fault_images_reopened", nImages.Load())
	r.Count("entries_larger_than_64KiB_written", nBigEntries.Load())
	r.Count("reopen_failed_with_error", nErrors.Load())
	r.Count("reopen_succeeded_state_checked", nRecovered.Load())
	r.Count("info_unjudged_garbage_tail_images_not_error_or_prefix", nInfoNonPrefix.Load())
	byFault.Range(func(k, v any) bool {
		r.Count("images_"+k.(string), v.(*atomic.Int64).Load())
		return true
	})
	r.Finish()
}
