// C23 — the SQLite store keeps every committed operation across a process kill.
//
// A child process applies a seeded operation history to the real
// sqlite3.SqliteKV, announcing "ISSUE i" before and "ACK i <result>" after each
// operation on its stdout pipe. It is killed with SIGKILL either by itself at the
// k-th hit of an instrumentation point inside withWriteTx (for EVERY k of the
// history and both points) or by the parent at seeded positions of the
// announcement stream. A different process then opens the directory with
// sqlite3.New. Oracle (from the statement): New succeeds; the stored data equal
// the reference model after j operations for some acked <= j <= issued; ListKeys
// and RangeKeys agree with the stored simple values, prefix children and leases
// for every key of the alphabet.
package main

import (
	"context"
	"encoding/json"
	"errors"
	"fmt"
	"math/rand"
	"os"
	"path/filepath"
	"sort"
	"strconv"
	"strings"
	"sync"
	"syscall"
	"time"

	"verifharness/lab/child"
	"verifharness/lab/ev"

	"go.miragespace.co/specter/kv/sqlite3"
	"go.miragespace.co/specter/spec/chord"
	"go.miragespace.co/specter/spec/protocol"

	"go.uber.org/zap"
)

func cacheDir() string {
	d := filepath.Join(ev.Root(), ".cache", "wazero")
	_ = os.MkdirAll(d, 0o755)
	return d
}

var keys = []string{"k0", "k1", "k2", "k3", "k4"}

// bulkKeys: a family of keys moved only by whole-range hand-overs (Import / RemoveKeys with
// hundreds of keys: the sizes at which batching inside the store shows its seams)
var bulkKeys = func() []string {
	out := make([]string, 450)
	for i := range out {
		out[i] = fmt.Sprintf("b%03d", i)
	}
	return out
}()

// allKeys is the universe the recovered store is read back over
var allKeys = append(append([]string{}, keys...), bulkKeys...)
var kids = []string{"c0", "c1", "c2"}

const leaseTTL = 30 * time.Minute // nothing expires within a run

var importToken = uint64(time.Date(2200, 1, 1, 0, 0, 0, 0, time.UTC).UnixNano())

// ----------------------------------------------------------------- histories

type xfer struct {
	Simple   string   `json:"s"`
	Children []string `json:"c,omitempty"`
	Lease    uint64   `json:"l,omitempty"`
}

type op struct {
	Op    string   `json:"op"` // put del append remove import removekeys acquire release
	Key   string   `json:"k,omitempty"`
	Val   string   `json:"v,omitempty"`
	Keys  []string `json:"ks,omitempty"`
	Vals  []xfer   `json:"vs,omitempty"`
	Stale bool     `json:"stale,omitempty"` // release with a token that is not the holder's
}

func (o op) short() string {
	switch o.Op {
	case "put":
		return fmt.Sprintf("put %s=%s", o.Key, o.Val)
	case "append", "remove":
		return fmt.Sprintf("%s %s/%s", o.Op, o.Key, o.Val)
	case "import":
		if len(o.Keys) > 8 {
			return fmt.Sprintf("import of %d keys %s..%s", len(o.Keys), o.Keys[0], o.Keys[len(o.Keys)-1])
		}
		b, _ := json.Marshal(o.Vals)
		return fmt.Sprintf("import %v %s", o.Keys, b)
	case "removekeys":
		if len(o.Keys) > 8 {
			return fmt.Sprintf("removekeys of %d keys %s..%s", len(o.Keys), o.Keys[0], o.Keys[len(o.Keys)-1])
		}
		return fmt.Sprintf("removekeys %v", o.Keys)
	case "release":
		if o.Stale {
			return "release(stale) " + o.Key
		}
	}
	return o.Op + " " + o.Key
}

const unknownToken = ^uint64(0)

type entry struct {
	simple string
	kids   map[string]bool
	lease  uint64 // 0 none, unknownToken: held with a token the parent never saw
}

type model map[string]*entry

func (m model) get(k string) *entry {
	e := m[k]
	if e == nil {
		e = &entry{kids: map[string]bool{}}
		m[k] = e
	}
	return e
}

// apply executes o on the model; tok is the token an acquire returned (unknownToken
// if the acknowledgement was never seen). It returns the expected acknowledgement.
func (m model) apply(o op, tok uint64) string {
	switch o.Op {
	case "put":
		m.get(o.Key).simple = o.Val
	case "del":
		m.get(o.Key).simple = ""
	case "append":
		e := m.get(o.Key)
		if e.kids[o.Val] {
			return "rejected:prefix-conflict"
		}
		e.kids[o.Val] = true
	case "remove":
		delete(m.get(o.Key).kids, o.Val)
	case "import":
		for i, k := range o.Keys {
			e := m.get(k)
			e.simple = o.Vals[i].Simple
			for _, c := range o.Vals[i].Children {
				e.kids[c] = true
			}
			if o.Vals[i].Lease != 0 {
				e.lease = o.Vals[i].Lease
			}
		}
	case "removekeys":
		for _, k := range o.Keys {
			delete(m, k)
		}
	case "acquire":
		e := m.get(o.Key)
		if e.lease != 0 {
			return "rejected:lease-conflict"
		}
		e.lease = tok
	case "release":
		e := m.get(o.Key)
		if e.lease == 0 || o.Stale {
			return "rejected:lease-expired"
		}
		e.lease = 0
	}
	return "ok"
}

func (m model) canon() []string {
	out := make([]string, len(allKeys))
	for i, k := range allKeys {
		e := m[k]
		if e == nil {
			e = &entry{}
		}
		cs := []string{}
		for c := range e.kids {
			cs = append(cs, c)
		}
		sort.Strings(cs)
		l := "none"
		if e.lease == unknownToken {
			l = "held"
		} else if e.lease != 0 {
			l = strconv.FormatUint(e.lease, 10)
		}
		out[i] = fmt.Sprintf("%s=%s|%s|%s", k, e.simple, strings.Join(cs, ","), l)
	}
	return out
}

// matches compares a model line with an observed one; "held" matches any token.
func matches(want, got []string) bool {
	for i := range want {
		if want[i] == got[i] {
			continue
		}
		if strings.HasSuffix(want[i], "|held") {
			w := strings.TrimSuffix(want[i], "held")
			if strings.HasPrefix(got[i], w) && !strings.HasSuffix(got[i], "|none") {
				continue
			}
		}
		return false
	}
	return true
}

// bulkOp builds a hand-over sized operation over the first cnt bulk keys starting at from.
func bulkOp(kind string, from, cnt, gen int) op {
	o := op{Op: kind}
	for i := 0; i < cnt; i++ {
		k := bulkKeys[(from+i)%len(bulkKeys)]
		o.Keys = append(o.Keys, k)
		if kind == "import" {
			v := xfer{Simple: fmt.Sprintf("g%d-%s", gen, k)}
			if i%50 == 0 {
				v.Children = []string{kids[i%len(kids)]}
			}
			o.Vals = append(o.Vals, v)
		}
	}
	return o
}

var bulkSizes = []int{199, 200, 201, 250, 399, 400, 401, 450}

func genHistory(rng *rand.Rand, n int, bulk bool) []op {
	m := model{}
	var h []op
	if bulk {
		// early in the history, so that every transaction of these operations is among the kill points
		for _, o := range []op{
			bulkOp("import", 0, bulkSizes[rng.Intn(len(bulkSizes))], 0),
			bulkOp("removekeys", rng.Intn(50), bulkSizes[rng.Intn(len(bulkSizes))], 0),
			bulkOp("import", rng.Intn(100), bulkSizes[rng.Intn(len(bulkSizes))], 1),
			bulkOp("removekeys", 0, len(bulkKeys), 0),
			bulkOp("import", 0, 201+rng.Intn(249), 2),
		} {
			m.apply(o, unknownToken)
			h = append(h, o)
		}
	}
	rk := func() string { return keys[rng.Intn(len(keys))] }
	rc := func() string { return kids[rng.Intn(len(kids))] }
	// prefer operations that have an effect: a key that holds a value / a child that exists
	withValue := func() (string, bool) {
		var c []string
		for _, k := range keys {
			if e := m[k]; e != nil && e.simple != "" {
				c = append(c, k)
			}
		}
		if len(c) == 0 {
			return "", false
		}
		return c[rng.Intn(len(c))], true
	}
	withChild := func() (string, string, bool) {
		var c [][2]string
		for _, k := range keys {
			if e := m[k]; e != nil {
				for _, kid := range kids {
					if e.kids[kid] {
						c = append(c, [2]string{k, kid})
					}
				}
			}
		}
		if len(c) == 0 {
			return "", "", false
		}
		x := c[rng.Intn(len(c))]
		return x[0], x[1], true
	}
	for i := 0; len(h) < n; i++ {
		var o op
		switch p := rng.Intn(100); {
		case p < 18:
			o = op{Op: "put", Key: rk(), Val: fmt.Sprintf("v%d", i)}
		case p < 30:
			o = op{Op: "del", Key: rk()}
			if k, ok := withValue(); ok && rng.Intn(4) > 0 {
				o.Key = k
			}
		case p < 48:
			o = op{Op: "append", Key: rk(), Val: rc()}
			if k, c, ok := withChild(); ok && rng.Intn(3) == 0 {
				o.Key, o.Val = k, c // conflict
			}
		case p < 58:
			o = op{Op: "remove", Key: rk(), Val: rc()}
			if k, c, ok := withChild(); ok && rng.Intn(4) > 0 {
				o.Key, o.Val = k, c
			}
		case p < 72:
			o = op{Op: "import"}
			for c := 1 + rng.Intn(3); c > 0; c-- {
				v := xfer{Simple: fmt.Sprintf("i%d", i)} // never empty (backends differ on empty values)
				for x := rng.Intn(3); x > 0; x-- {
					v.Children = append(v.Children, rc())
				}
				if rng.Intn(3) == 0 {
					v.Lease = importToken + uint64(rng.Intn(1000))
				}
				o.Keys = append(o.Keys, rk())
				o.Vals = append(o.Vals, v)
			}
		case p < 80:
			o = op{Op: "removekeys"}
			for c := 1 + rng.Intn(2); c > 0; c-- {
				o.Keys = append(o.Keys, rk())
			}
		case p < 91:
			o = op{Op: "acquire", Key: rk()}
		default:
			o = op{Op: "release", Key: rk(), Stale: rng.Intn(4) == 0}
			// mostly release something that is held
			for _, k := range keys {
				if e := m[k]; e != nil && e.lease != 0 && rng.Intn(2) == 0 {
					o.Key = k
				}
			}
		}
		m.apply(o, unknownToken)
		h = append(h, o)
	}
	return h
}

// --------------------------------------------------------------- run child

type runArgs struct {
	DataDir string `json:"dir"`
	History []op   `json:"history"`
	Point   string `json:"point,omitempty"` // kill self at the K-th hit of Point
	K       int    `json:"k,omitempty"`
}

func bs(ss []string) [][]byte {
	o := make([][]byte, len(ss))
	for i := range ss {
		o[i] = []byte(ss[i])
	}
	return o
}

func errName(err error) string {
	switch {
	case errors.Is(err, chord.ErrKVPrefixConflict):
		return "rejected:prefix-conflict"
	case errors.Is(err, chord.ErrKVLeaseConflict):
		return "rejected:lease-conflict"
	case errors.Is(err, chord.ErrKVLeaseExpired):
		return "rejected:lease-expired"
	}
	return "error:" + strings.ReplaceAll(err.Error(), "\n", " ")
}

func runChild(raw json.RawMessage) (any, error) {
	var a runArgs
	if err := json.Unmarshal(raw, &a); err != nil {
		return nil, err
	}
	if err := sqlite3.Initialize(cacheDir()); err != nil {
		return nil, err
	}
	say := func(s string) {
		if _, err := os.Stdout.Write([]byte(s + "\n")); err != nil { // one write(2) per line, unbuffered
			os.Exit(95)
		}
	}
	if a.Point != "" {
		var mu sync.Mutex
		hits := 0
		sqlite3.VerifSetHook(func(p string) {
			if p != a.Point {
				return
			}
			mu.Lock()
			hits++
			h := hits
			mu.Unlock()
			if h == a.K {
				say(fmt.Sprintf("KILL %s %d", p, h))
				_ = syscall.Kill(os.Getpid(), syscall.SIGKILL)
				select {}
			}
		})
	}
	kv, err := sqlite3.New(sqlite3.Config{Logger: zap.NewNop(), HashFn: chord.Hash, DataDir: a.DataDir})
	if err != nil {
		return nil, fmt.Errorf("New: %w", err)
	}
	ctx := context.Background()
	tokens := map[string]uint64{}
	say("READY")
	for i, o := range a.History {
		say(fmt.Sprintf("ISSUE %d", i))
		var err error
		extra := ""
		switch o.Op {
		case "put":
			err = kv.Put(ctx, []byte(o.Key), []byte(o.Val))
		case "del":
			err = kv.Delete(ctx, []byte(o.Key))
		case "append":
			err = kv.PrefixAppend(ctx, []byte(o.Key), []byte(o.Val))
		case "remove":
			err = kv.PrefixRemove(ctx, []byte(o.Key), []byte(o.Val))
		case "import":
			vals := make([]*protocol.KVTransfer, len(o.Vals))
			for j, v := range o.Vals {
				vals[j] = &protocol.KVTransfer{SimpleValue: []byte(v.Simple), PrefixChildren: bs(v.Children), LeaseToken: v.Lease}
			}
			err = kv.Import(ctx, bs(o.Keys), vals)
			if err == nil {
				for j, k := range o.Keys {
					if o.Vals[j].Lease != 0 {
						tokens[k] = o.Vals[j].Lease
					}
				}
			}
		case "removekeys":
			err = kv.RemoveKeys(ctx, bs(o.Keys))
			if err == nil {
				for _, k := range o.Keys {
					delete(tokens, k)
				}
			}
		case "acquire":
			var t uint64
			t, err = kv.Acquire(ctx, []byte(o.Key), leaseTTL)
			if err == nil {
				tokens[o.Key] = t
				extra = " " + strconv.FormatUint(t, 10)
			}
		case "release":
			t := tokens[o.Key]
			if o.Stale || t == 0 {
				t = t/2 + 12345
			}
			err = kv.Release(ctx, []byte(o.Key), t)
			if err == nil {
				delete(tokens, o.Key)
			}
		}
		res := "ok" + extra
		if err != nil {
			res = errName(err)
		}
		say(fmt.Sprintf("ACK %d %s", i, res))
	}
	say("DONE")
	// no Close: the process just ends
	return "done", nil
}

// ------------------------------------------------------------ verify child

type verifyArgs struct {
	Dirs []string `json:"dirs"`
}

type verifyOut struct {
	Dir      string   `json:"dir"`
	OpenErr  string   `json:"open_err,omitempty"`
	Panic    string   `json:"panic,omitempty"`
	State    []string `json:"state"`
	Problems []string `json:"problems"`
	Listed   []string `json:"listed"`
	Ranged   []string `json:"ranged"`
}

func verifyOne(dir string) (out verifyOut) {
	out.Dir = dir
	defer func() {
		if v := recover(); v != nil {
			out.Panic = fmt.Sprint(v)
		}
	}()
	kv, err := sqlite3.New(sqlite3.Config{Logger: zap.NewNop(), HashFn: chord.Hash, DataDir: dir})
	if err != nil {
		out.OpenErr = err.Error()
		return
	}
	defer kv.Close()
	ctx := context.Background()
	bad := func(f string, a ...any) { out.Problems = append(out.Problems, fmt.Sprintf(f, a...)) }
	lk, err := kv.ListKeys(ctx, nil)
	if err != nil {
		bad("ListKeys: %v", err)
	}
	listed := map[string]bool{}
	for _, c := range lk {
		s := c.GetType().String() + ":" + string(c.GetKey())
		if listed[s] {
			bad("ListKeys reports %s twice", s)
		}
		listed[s] = true
		out.Listed = append(out.Listed, s)
	}
	sort.Strings(out.Listed)
	rk, err := kv.RangeKeys(ctx, 0, 0)
	if err != nil {
		bad("RangeKeys: %v", err)
	}
	ranged := map[string]bool{}
	for _, k := range rk {
		if ranged[string(k)] {
			bad("RangeKeys reports %s twice", k)
		}
		ranged[string(k)] = true
		out.Ranged = append(out.Ranged, string(k))
	}
	sort.Strings(out.Ranged)
	ex, err := kv.Export(ctx, bs(allKeys))
	if err != nil || len(ex) != len(allKeys) {
		bad("Export: %v", err)
		return
	}
	known := map[string]bool{}
	for i, k := range allKeys {
		known[k] = true
		v, err := kv.Get(ctx, []byte(k))
		if err != nil {
			bad("Get(%s): %v", k, err)
		}
		cs, err := kv.PrefixList(ctx, []byte(k))
		if err != nil {
			bad("PrefixList(%s): %v", k, err)
		}
		ss := []string{}
		for _, c := range cs {
			ss = append(ss, string(c))
			if ok, err := kv.PrefixContains(ctx, []byte(k), c); err != nil || !ok {
				bad("PrefixContains(%s,%s) = %v, %v although PrefixList returns it", k, c, ok, err)
			}
		}
		sort.Strings(ss)
		tok := ex[i].GetLeaseToken()
		l := "none"
		if tok != 0 {
			l = strconv.FormatUint(tok, 10)
		}
		out.State = append(out.State, fmt.Sprintf("%s=%s|%s|%s", k, v, strings.Join(ss, ","), l))
		// the export must tell the same story as the point reads
		if string(ex[i].GetSimpleValue()) != string(v) {
			bad("Export(%s).simple = %q but Get = %q", k, ex[i].GetSimpleValue(), v)
		}
		if len(ex[i].GetPrefixChildren()) != len(cs) {
			bad("Export(%s) has %d children but PrefixList %d", k, len(ex[i].GetPrefixChildren()), len(cs))
		}
		// listings vs stored data
		if want := len(v) > 0; listed["SIMPLE:"+k] != want {
			bad("ListKeys SIMPLE:%s = %v but Get returns %q", k, listed["SIMPLE:"+k], v)
		}
		if want := len(cs) > 0; listed["PREFIX:"+k] != want {
			bad("ListKeys PREFIX:%s = %v but PrefixList returns %v", k, listed["PREFIX:"+k], ss)
		}
		if want := tok != 0; listed["LEASE:"+k] != want {
			bad("ListKeys LEASE:%s = %v but the lease row is %s", k, listed["LEASE:"+k], l)
		}
		if want := len(v) > 0 || len(cs) > 0 || tok != 0; ranged[k] != want {
			bad("RangeKeys lists %s = %v but the key holds value %q children %v lease %s", k, ranged[k], v, ss, l)
		}
	}
	for s := range listed {
		if k := s[strings.Index(s, ":")+1:]; !known[k] {
			bad("ListKeys reports a key nothing ever wrote: %s", s)
		}
	}
	for k := range ranged {
		if !known[k] {
			bad("RangeKeys reports a key nothing ever wrote: %s", k)
		}
	}
	// and the store still takes writes
	if err := kv.Put(ctx, []byte("k0"), []byte("after-reopen")); err != nil {
		bad("Put after reopen: %v", err)
	}
	return
}

func verifyChild(raw json.RawMessage) (any, error) {
	var a verifyArgs
	if err := json.Unmarshal(raw, &a); err != nil {
		return nil, err
	}
	if err := sqlite3.Initialize(cacheDir()); err != nil {
		return nil, err
	}
	var out []verifyOut
	for _, d := range a.Dirs {
		out = append(out, verifyOne(d))
	}
	return out, nil
}

// ------------------------------------------------------------------ parent

type killCase struct {
	name     string
	hi       int
	hist     []op
	point    string // self kill
	k        int
	killLine int           // parent kill after this many ISSUE/ACK lines (0: none)
	delay    time.Duration // extra delay before the parent's kill: spreads the kills over the transaction (coverage only)
	dir      string

	lines    []string
	killedAt string
	signaled bool
	problem  string // harness-level problem: inconclusive
	crash    string
}

func runCase(c *killCase) {
	var mu sync.Mutex
	var proc *os.Process
	n := 0
	killed := false
	res := child.Run("c23run", runArgs{DataDir: c.dir, History: c.hist, Point: c.point, K: c.k}, child.Opt{
		Timeout: 5 * time.Minute,
		Started: func(p *os.Process) { mu.Lock(); proc = p; mu.Unlock() },
		Stdout: func(line string) {
			mu.Lock()
			defer mu.Unlock()
			c.lines = append(c.lines, line)
			if strings.HasPrefix(line, "ISSUE ") || strings.HasPrefix(line, "ACK ") {
				n++
				if c.killLine > 0 && n == c.killLine && !killed && proc != nil {
					killed = true
					c.killedAt = line
					p, d := proc, c.delay
					go func() {
						if d > 0 {
							time.Sleep(d)
						}
						_ = p.Signal(syscall.SIGKILL)
					}()
				}
			}
		},
	})
	defer res.Cleanup()
	c.signaled = res.Signaled
	switch {
	case res.TimedOut:
		c.problem = "child hit the watchdog"
	case res.Signaled:
		// the deliberate kill (or the parent's)
	case res.Died || res.Err != "":
		if crashed, repo, head, _ := child.Crash(res.LogPath); crashed && repo {
			c.crash = head
		} else {
			lb, _ := os.ReadFile(res.LogPath)
			s := string(lb)
			if len(s) > 300 {
				s = s[len(s)-300:]
			}
			c.problem = fmt.Sprintf("child failed: %s %s", res.Err, s)
		}
	}
}

func main() {
	child.Register("c23run", runChild)
	child.Register("c23verify", verifyChild)
	child.Main()
	r := ev.Start("C23", "fault_enumeration")
	r.SetRule("seeded histories (put, delete, prefix append with conflicts, prefix remove, import with overlapping keys and lease tokens, RemoveKeys, in every second history hand-over sized Import/RemoveKeys of 199..450 keys, lease acquire/release incl. stale tokens; no empty values) applied by a child to sqlite3.SqliteKV; the child SIGKILLs itself at the k-th hit of sqlite.tx.begun / sqlite.tx.precommit for EVERY k of the history, and the parent SIGKILLs it at seeded positions of the ISSUE/ACK stream; a different process reopens. A case is distinct by (kill kind, operation in flight, whether the recovered state includes it)")
	r.Assume("process kill only (SIGKILL): the page cache survives; power loss with synchronous=NORMAL is not modelled")
	r.Assume("one sequential client; lease TTLs are 30 min so nothing expires during a run; no empty values are written (backends differ on listing them)")
	r.SetMaxSamples(6)
	if err := sqlite3.Initialize(cacheDir()); err != nil { // warm the compilation cache once
		r.Inconclusive("sqlite3.Initialize: " + err.Error())
		r.Finish()
	}
	nh := r.Pick(3, 14)
	nops := r.Pick(12, 20)
	nparent := r.Pick(8, 16) // parent kills per history
	rng := r.Rand("histories")
	base := filepath.Join(child.WorkDir(), "c23-data")
	_ = os.MkdirAll(base, 0o755)
	var cases []*killCase
	for hi := 0; hi < nh; hi++ {
		hist := genHistory(rng, nops, hi%2 == 1)
		for _, pt := range []string{"sqlite.tx.begun", "sqlite.tx.precommit"} {
			for k := 1; k <= len(hist); k++ {
				cases = append(cases, &killCase{name: fmt.Sprintf("h%d/%s/%d", hi, strings.TrimPrefix(pt, "sqlite.tx."), k), hi: hi, hist: hist, point: pt, k: k})
			}
		}
		for j := 0; j < nparent; j++ {
			delays := []time.Duration{0, 0, 200 * time.Microsecond, 500 * time.Microsecond, time.Millisecond, 2 * time.Millisecond, 5 * time.Millisecond}
			cases = append(cases, &killCase{name: fmt.Sprintf("h%d/parent/%d", hi, j), hi: hi, hist: hist, killLine: 1 + rng.Intn(2*len(hist)), delay: delays[rng.Intn(len(delays))]})
		}
		cases = append(cases, &killCase{name: fmt.Sprintf("h%d/exit-without-close", hi), hi: hi, hist: hist})
	}
	if r.ReplayCase != "" {
		var keep []*killCase
		for _, c := range cases {
			if c.name == r.ReplayCase {
				keep = append(keep, c)
			}
		}
		cases = keep
	}
	for i, c := range cases {
		c.dir = filepath.Join(base, fmt.Sprintf("d%d", i))
	}
	sem := make(chan struct{}, 14)
	var wg sync.WaitGroup
	for _, c := range cases {
		wg.Add(1)
		sem <- struct{}{}
		go func(c *killCase) {
			defer wg.Done()
			defer func() { <-sem }()
			runCase(c)
		}(c)
	}
	wg.Wait()
	// a different process reopens every directory
	verdicts := map[string]verifyOut{}
	var vmu sync.Mutex
	const per = 8
	for i := 0; i < len(cases); i += per {
		j := i + per
		if j > len(cases) {
			j = len(cases)
		}
		var dirs []string
		for _, c := range cases[i:j] {
			dirs = append(dirs, c.dir)
		}
		wg.Add(1)
		sem <- struct{}{}
		go func(dirs []string) {
			defer wg.Done()
			defer func() { <-sem }()
			res := child.Run("c23verify", verifyArgs{Dirs: dirs}, child.Opt{Timeout: 10 * time.Minute})
			defer res.Cleanup()
			var out []verifyOut
			if res.TimedOut || res.Died || res.Err != "" || res.Decode(&out) != nil {
				if crashed, repo, head, ex := child.Crash(res.LogPath); crashed && repo {
					r.Violation("reopen-crashes", "", "reopening after a kill crashed the process: "+head, map[string]any{"excerpt": ex, "dirs": dirs})
					return
				}
				r.Inconclusive("verify child failed: " + res.Err)
				return
			}
			vmu.Lock()
			for _, o := range out {
				verdicts[o.Dir] = o
			}
			vmu.Unlock()
		}(dirs)
	}
	wg.Wait()

	sigCount := map[string]int{}
	for _, c := range cases {
		if c.crash != "" {
			r.Violation("store-crashes", c.name, "the store crashed while applying the history: "+c.crash, map[string]any{"history": c.hist})
			continue
		}
		if c.problem != "" {
			r.Inconclusive(c.name + ": " + c.problem)
			continue
		}
		v, ok := verdicts[c.dir]
		if !ok {
			continue // already reported
		}
		// what the parent saw
		issued, acked := 0, 0
		acks := map[int]string{}
		selfKilled := false
		for _, l := range c.lines {
			var i int
			switch {
			case strings.HasPrefix(l, "ISSUE "):
				issued++
			case strings.HasPrefix(l, "ACK "):
				f := strings.SplitN(l, " ", 3)
				i, _ = strconv.Atoi(f[1])
				acks[i] = f[2]
				acked++
			case strings.HasPrefix(l, "KILL "):
				selfKilled = true
			}
		}
		if len(c.lines) == 0 || c.lines[0] != "READY" {
			r.Inconclusive(c.name + ": the child never reported READY")
			continue
		}
		if issued < acked || issued > acked+1 {
			r.Inconclusive(fmt.Sprintf("%s: announcement stream out of order (issued %d, acked %d)", c.name, issued, acked))
			continue
		}
		if c.point != "" && !selfKilled {
			r.Count("hook_kill_not_reached", 1)
		}
		if c.point != "" && selfKilled {
			r.Count("hook_kills", 1)
		}
		if c.killLine > 0 && c.signaled {
			r.Count("parent_kills", 1)
		}
		// reference model along the acknowledged prefix, then the candidate states
		m := model{}
		mismatch := ""
		for i := 0; i < acked; i++ {
			tok := unknownToken
			got := acks[i]
			if c.hist[i].Op == "acquire" && strings.HasPrefix(got, "ok ") {
				tok, _ = strconv.ParseUint(strings.TrimPrefix(got, "ok "), 10, 64)
				got = "ok"
			}
			if want := m.apply(c.hist[i], tok); want != got {
				mismatch = fmt.Sprintf("step %d (%s) was acknowledged %q, the reference model says %q", i, c.hist[i].short(), got, want)
				break
			}
		}
		if mismatch != "" {
			r.Inconclusive(c.name + ": " + mismatch)
			continue
		}
		allowed := [][]string{m.canon()}
		inflight := "idle"
		if issued > acked {
			inflight = c.hist[acked].Op
			m.apply(c.hist[acked], unknownToken)
			allowed = append(allowed, m.canon())
		}
		kind := "exit"
		switch {
		case c.point != "" && selfKilled:
			kind = strings.TrimPrefix(c.point, "sqlite.tx.")
		case c.point != "":
			kind = "hook-not-reached"
		case c.killLine > 0 && c.signaled:
			kind = "parent"
		}
		wit := map[string]any{"case": c.name, "kill": kind, "killed_at_line": c.killedAt, "issued": issued, "acked": acked, "in_flight": inflight, "recovered": v.State, "listed": v.Listed, "ranged": v.Ranged, "allowed": allowed}
		hs := []string{}
		for i := 0; i < issued; i++ {
			hs = append(hs, fmt.Sprintf("%d: %s -> %s", i, c.hist[i].short(), acks[i]))
		}
		wit["history"] = hs
		switch {
		case v.Panic != "":
			r.Case(kind + "/" + inflight + "/panic")
			r.Violation("reopen-panics", c.name, "sqlite3.New panicked after the kill: "+v.Panic, wit)
			continue
		case v.OpenErr != "":
			r.Case(kind + "/" + inflight + "/reopen-failed")
			r.Violation("reopen-fails:"+kind, c.name, fmt.Sprintf("killed (%s) with %s in flight: reopening fails: %s", kind, inflight, v.OpenErr), wit)
			continue
		}
		which := -1
		for j, a := range allowed {
			if matches(a, v.State) {
				which = j
				break
			}
		}
		outcome := "without-inflight"
		if which == 1 {
			outcome = "with-inflight"
		}
		if len(allowed) == 2 && matches(allowed[0], allowed[1]) {
			outcome = "noop-inflight"
		}
		sig := kind + "/" + inflight + "/" + outcome
		r.Case(sig)
		sigCount[sig]++
		if which < 0 {
			key := "state-not-a-prefix:" + kind
			// an older prefix = an acknowledged operation was lost
			mm := model{}
			for i := 0; i < acked; i++ {
				if matches(mm.canon(), v.State) {
					key = "acked-operation-lost:" + kind
					wit["equals_prefix"] = i
					break
				}
				tok := unknownToken
				if c.hist[i].Op == "acquire" && strings.HasPrefix(acks[i], "ok ") {
					tok, _ = strconv.ParseUint(strings.TrimPrefix(acks[i], "ok "), 10, 64)
				}
				mm.apply(c.hist[i], tok)
			}
			r.Violation(key, c.name, fmt.Sprintf("killed (%s) with %s in flight, %d acknowledged: recovered data %v are not the model after %d..%d operations", kind, inflight, acked, compact(v.State), acked, issued), wit)
			continue
		}
		if len(v.Problems) > 0 {
			wit["problems"] = v.Problems
			r.Violation("listing-inconsistent:"+kind, c.name, fmt.Sprintf("killed (%s) with %s in flight: key listings disagree with the stored data: %s", kind, inflight, strings.Join(v.Problems, "; ")), wit)
			continue
		}
		r.Sample(map[string]any{"case": c.name, "kill": kind, "in_flight": inflight, "acked": acked, "issued": issued, "recovered_includes_in_flight": which == 1, "recovered": compact(v.State)})
	}
	r.Extra("cases_by_signature", sigCount)
	r.Count("cases", int64(len(cases)))
	if r.ReplayCase == "" && r.Counter("hook_kills") == 0 {
		r.Inconclusive("no instrumentation-point kill happened")
	}
	_ = os.RemoveAll(base)
	r.Finish()
}

// compact renders a recovered state for messages: the five ordinary keys in full, the bulk
// family as a count of keys that hold something plus the first and last of them.
func compact(state []string) []string {
	var out []string
	n, first, last := 0, "", ""
	for _, l := range state {
		if !strings.HasPrefix(l, "b") {
			out = append(out, l)
			continue
		}
		if !strings.HasSuffix(l, "=||none") {
			if n == 0 {
				first = l
			}
			last = l
			n++
		}
	}
	return append(out, fmt.Sprintf("bulk family: %d of %d keys present (first %q last %q)", n, len(bulkKeys), first, last))
}
