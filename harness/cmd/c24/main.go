// C24 — opening an existing SQLite database never damages its data.
//
// Every layout of the stated space (subset of the four v1 tables x index idx_hash
// (only with key_trackers) x user_version {0,1,2} x with/without rows, plus "no
// file" and the journal mode the file was left in) is built with the driver the
// store itself uses and opened with the real sqlite3.New. Oracle: New succeeds =>
// every pre-existing row and schema object intact, user_version current, store
// usable and showing the old rows; New fails => the logical dump (schema + rows +
// user_version) is unchanged.
package main

import (
	"context"
	"crypto/sha256"
	"database/sql"
	"encoding/hex"
	"encoding/json"
	"errors"
	"fmt"
	"os"
	"path/filepath"
	"sort"
	"strings"
	"sync"
	"time"

	"verifharness/lab/child"
	"verifharness/lab/ev"

	"go.miragespace.co/specter/kv/sqlite3"
	"go.miragespace.co/specter/spec/chord"

	"go.uber.org/zap"
)

// the wazero compilation cache (/verif/.cache/wazero): without it every process
// spends ~10 s compiling the embedded SQLite
func cacheDir() string {
	d := filepath.Join(ev.Root(), ".cache", "wazero")
	_ = os.MkdirAll(d, 0o755)
	return d
}

var tables = []string{"key_trackers", "simple_entries", "prefix_entries", "lease_entries"}

// the DDL the previous (GORM) implementation produced — what a legacy file contains
var ddl = map[string]string{
	"key_trackers":   "CREATE TABLE `key_trackers` (`key` blob,`hash` integer,`flags` integer,PRIMARY KEY (`key`))",
	"simple_entries": "CREATE TABLE `simple_entries` (`key` blob,`value` blob,PRIMARY KEY (`key`))",
	"prefix_entries": "CREATE TABLE `prefix_entries` (`prefix` blob,`child` blob,PRIMARY KEY (`prefix`,`child`))",
	"lease_entries":  "CREATE TABLE `lease_entries` (`owner` blob,`token` integer,PRIMARY KEY (`owner`))",
}

const ddlIndex = "CREATE INDEX `idx_hash` ON `key_trackers`(`hash` ASC)"

type layout struct {
	ID      int    `json:"id"`
	NoFile  bool   `json:"nofile,omitempty"`
	Tables  int    `json:"tables"` // bitmask over tables[]
	Index   bool   `json:"index"`
	UV      int    `json:"uv"`
	Rows    bool   `json:"rows"`
	Journal string `json:"journal"` // delete | wal
}

func (l layout) name() string {
	if l.NoFile {
		return "nofile"
	}
	var ts []string
	for i, t := range tables {
		if l.Tables&(1<<i) != 0 {
			ts = append(ts, strings.Split(t, "_")[0])
		}
	}
	if len(ts) == 0 {
		ts = []string{"none"}
	}
	s := strings.Join(ts, "+")
	if l.Index {
		s += "+idx"
	}
	s += fmt.Sprintf("/uv%d", l.UV)
	if l.Rows {
		s += "/rows"
	} else {
		s += "/empty"
	}
	return s + "/" + l.Journal
}

func (l layout) class() string {
	switch {
	case l.NoFile:
		return "fresh"
	case l.Tables == 0 && l.UV == 0:
		return "fresh"
	case l.Tables == 15 && l.Index && l.UV == 0:
		return "legacy"
	case l.Tables == 15 && l.Index && l.UV == 1:
		return "migrated"
	case l.UV == 2:
		return "newer"
	}
	return "partial"
}

func allLayouts() []layout {
	var out []layout
	add := func(l layout) { l.ID = len(out); out = append(out, l) }
	add(layout{NoFile: true})
	for _, jm := range []string{"delete", "wal"} {
		for mask := 0; mask < 16; mask++ {
			for _, idx := range []bool{false, true} {
				if idx && mask&1 == 0 {
					continue // the index exists only with its table
				}
				for uv := 0; uv <= 2; uv++ {
					for _, rows := range []bool{false, true} {
						if rows && mask == 0 {
							continue // no table to hold rows
						}
						add(layout{Tables: mask, Index: idx, UV: uv, Rows: rows, Journal: jm})
					}
				}
			}
		}
	}
	return out
}

// --------------------------------------------------------------------- child

type dump struct {
	Exists      bool                `json:"exists"`
	UserVersion int                 `json:"user_version"`
	Schema      []string            `json:"schema"` // "type|name|tbl|sql"
	Rows        map[string][]string `json:"rows"`
	Err         string              `json:"err,omitempty"`
}

func (d dump) canon() string { b, _ := json.Marshal(d); return string(b) }

func takeDump(path string) dump {
	d := dump{Rows: map[string][]string{}}
	if _, err := os.Stat(path); err != nil {
		return d
	}
	d.Exists = true
	db, err := sql.Open("sqlite3", "file:"+path)
	if err != nil {
		d.Err = err.Error()
		return d
	}
	defer db.Close()
	db.SetMaxOpenConns(1)
	if err := db.QueryRow("PRAGMA user_version").Scan(&d.UserVersion); err != nil {
		d.Err = "user_version: " + err.Error()
		return d
	}
	rows, err := db.Query("SELECT type, name, tbl_name, coalesce(sql,'') FROM sqlite_schema ORDER BY type, name")
	if err != nil {
		d.Err = "schema: " + err.Error()
		return d
	}
	var tbls []string
	for rows.Next() {
		var ty, name, tbl, sq string
		if err := rows.Scan(&ty, &name, &tbl, &sq); err != nil {
			d.Err = err.Error()
			rows.Close()
			return d
		}
		d.Schema = append(d.Schema, ty+"|"+name+"|"+tbl+"|"+sq)
		if ty == "table" && !strings.HasPrefix(name, "sqlite_") {
			tbls = append(tbls, name)
		}
	}
	rows.Close()
	for _, t := range tbls {
		rs, err := db.Query("SELECT * FROM `" + t + "`")
		if err != nil {
			d.Err = t + ": " + err.Error()
			return d
		}
		cols, _ := rs.Columns()
		var out []string
		for rs.Next() {
			vals := make([]any, len(cols))
			ptrs := make([]any, len(cols))
			for i := range vals {
				ptrs[i] = &vals[i]
			}
			if err := rs.Scan(ptrs...); err != nil {
				d.Err = err.Error()
				rs.Close()
				return d
			}
			parts := make([]string, len(cols))
			for i, v := range vals {
				switch x := v.(type) {
				case []byte:
					parts[i] = "x" + hex.EncodeToString(x)
				case nil:
					parts[i] = "NULL"
				default:
					parts[i] = fmt.Sprintf("%T:%v", x, x)
				}
			}
			out = append(out, strings.Join(parts, ","))
		}
		rs.Close()
		sort.Strings(out)
		d.Rows[t] = out
	}
	return d
}

// legacy rows: what a store that has been in use holds
var (
	kAlpha, kBeta, kGamma = []byte("alpha"), []byte("beta/dir"), []byte("gamma-lock")
	vAlpha                = []byte("value-of-alpha")
	vBeta                 = []byte{0, 1, 2, 0xff}
	farFuture             = time.Date(2200, 1, 1, 0, 0, 0, 0, time.UTC).UnixNano()
)

func build(l layout, path string) error {
	if l.NoFile {
		return nil
	}
	db, err := sql.Open("sqlite3", "file:"+path)
	if err != nil {
		return err
	}
	defer db.Close()
	db.SetMaxOpenConns(1)
	var mode string
	if err := db.QueryRow("PRAGMA journal_mode=" + l.Journal).Scan(&mode); err != nil {
		return fmt.Errorf("journal_mode: %w", err)
	}
	if !strings.EqualFold(mode, l.Journal) {
		return fmt.Errorf("journal_mode is %s, wanted %s", mode, l.Journal)
	}
	has := func(i int) bool { return l.Tables&(1<<i) != 0 }
	for i, t := range tables {
		if has(i) {
			if _, err := db.Exec(ddl[t]); err != nil {
				return fmt.Errorf("%s: %w", t, err)
			}
		}
	}
	if l.Index {
		if _, err := db.Exec(ddlIndex); err != nil {
			return err
		}
	}
	if l.Rows {
		type ins struct {
			tbl  int
			q    string
			args []any
		}
		h := func(k []byte) int64 { return int64(chord.Hash(k)) }
		for _, x := range []ins{
			{0, "INSERT INTO key_trackers(`key`,`hash`,`flags`) VALUES(?,?,?)", []any{kAlpha, h(kAlpha), 1}},
			{0, "INSERT INTO key_trackers(`key`,`hash`,`flags`) VALUES(?,?,?)", []any{kBeta, h(kBeta), 3}},
			{0, "INSERT INTO key_trackers(`key`,`hash`,`flags`) VALUES(?,?,?)", []any{kGamma, h(kGamma), 4}},
			{1, "INSERT INTO simple_entries(`key`,`value`) VALUES(?,?)", []any{kAlpha, vAlpha}},
			{1, "INSERT INTO simple_entries(`key`,`value`) VALUES(?,?)", []any{kBeta, vBeta}},
			{2, "INSERT INTO prefix_entries(`prefix`,`child`) VALUES(?,?)", []any{kBeta, []byte("child-1")}},
			{2, "INSERT INTO prefix_entries(`prefix`,`child`) VALUES(?,?)", []any{kBeta, []byte("child-2")}},
			{3, "INSERT INTO lease_entries(`owner`,`token`) VALUES(?,?)", []any{kGamma, farFuture}},
		} {
			if has(x.tbl) {
				if _, err := db.Exec(x.q, x.args...); err != nil {
					return fmt.Errorf("insert: %w", err)
				}
			}
		}
	}
	if _, err := db.Exec(fmt.Sprintf("PRAGMA user_version = %d", l.UV)); err != nil {
		return err
	}
	return nil
}

func fileSum(path string) string {
	b, err := os.ReadFile(path)
	if err != nil {
		return "absent"
	}
	h := sha256.Sum256(b)
	return fmt.Sprintf("%d:%s", len(b), hex.EncodeToString(h[:8]))
}

type result struct {
	Layout    layout   `json:"layout"`
	BuildErr  string   `json:"build_err,omitempty"`
	Before    dump     `json:"before"`
	After     dump     `json:"after"`
	OpenErr   string   `json:"open_err,omitempty"`
	SumBefore string   `json:"sum_before"`
	SumAfter  string   `json:"sum_after"`
	Side      []string `json:"side_files"`       // -wal/-shm/-journal present after the open
	Use       []string `json:"use,omitempty"`    // problems found when using the opened store
	Reopen    string   `json:"reopen,omitempty"` // error of the second New
	Panic     string   `json:"panic,omitempty"`
}

func newStore(dataDir string) (*sqlite3.SqliteKV, error) {
	return sqlite3.New(sqlite3.Config{Logger: zap.NewNop(), HashFn: chord.Hash, DataDir: dataDir})
}

func useStore(kv *sqlite3.SqliteKV, l layout) (problems []string) {
	ctx := context.Background()
	bad := func(f string, a ...any) { problems = append(problems, fmt.Sprintf(f, a...)) }
	if l.Rows && l.Tables == 15 {
		if v, err := kv.Get(ctx, kAlpha); err != nil || string(v) != string(vAlpha) {
			bad("Get(alpha) = %q, %v; the file held %q", v, err, vAlpha)
		}
		if v, err := kv.Get(ctx, kBeta); err != nil || string(v) != string(vBeta) {
			bad("Get(beta/dir) = %x, %v; the file held %x", v, err, vBeta)
		}
		cs, err := kv.PrefixList(ctx, kBeta)
		got := []string{}
		for _, c := range cs {
			got = append(got, string(c))
		}
		sort.Strings(got)
		if err != nil || strings.Join(got, ",") != "child-1,child-2" {
			bad("PrefixList(beta/dir) = %v, %v; the file held child-1,child-2", got, err)
		}
		if _, err := kv.Acquire(ctx, kGamma, time.Second); !errors.Is(err, chord.ErrKVLeaseConflict) {
			bad("Acquire(gamma-lock) = %v; the file holds an unexpired lease", err)
		}
		lk, err := kv.ListKeys(ctx, nil)
		seen := map[string]bool{}
		for _, c := range lk {
			seen[c.GetType().String()+":"+string(c.GetKey())] = true
		}
		for _, w := range []string{"SIMPLE:alpha", "SIMPLE:beta/dir", "PREFIX:beta/dir", "LEASE:gamma-lock"} {
			if err != nil || !seen[w] {
				bad("ListKeys lacks %s (%v)", w, err)
			}
		}
	}
	// the store works
	k, v := []byte("c24-new-key"), []byte("c24-new-value")
	if err := kv.Put(ctx, k, v); err != nil {
		bad("Put: %v", err)
	}
	if g, err := kv.Get(ctx, k); err != nil || string(g) != string(v) {
		bad("Get after Put = %q, %v", g, err)
	}
	if err := kv.PrefixAppend(ctx, k, []byte("kid")); err != nil {
		bad("PrefixAppend: %v", err)
	}
	if ok, err := kv.PrefixContains(ctx, k, []byte("kid")); err != nil || !ok {
		bad("PrefixContains after append = %v, %v", ok, err)
	}
	tok, err := kv.Acquire(ctx, []byte("c24-lease"), 2*time.Second)
	if err != nil {
		bad("Acquire: %v", err)
	} else if err := kv.Release(ctx, []byte("c24-lease"), tok); err != nil {
		bad("Release: %v", err)
	}
	rk, err := kv.RangeKeys(ctx, 0, 0)
	found := false
	for _, x := range rk {
		if string(x) == string(k) {
			found = true
		}
	}
	if err != nil || !found {
		bad("RangeKeys(0,0) lacks the key just written (%v)", err)
	}
	return
}

func runOne(l layout, base string) (res result) {
	res.Layout = l
	dataDir := filepath.Join(base, fmt.Sprintf("L%d", l.ID))
	dbDir := filepath.Join(dataDir, "sqlite3")
	path := filepath.Join(dbDir, "db")
	defer os.RemoveAll(dataDir)
	if !l.NoFile {
		if err := os.MkdirAll(dbDir, 0o750); err != nil {
			res.BuildErr = err.Error()
			return
		}
	}
	if err := build(l, path); err != nil {
		res.BuildErr = err.Error()
		return
	}
	res.Before = takeDump(path)
	res.SumBefore = fileSum(path)
	defer func() {
		if v := recover(); v != nil {
			res.Panic = fmt.Sprint(v)
		}
	}()
	kv, err := newStore(dataDir)
	if err != nil {
		res.OpenErr = err.Error()
	} else {
		kv.Close()
	}
	res.SumAfter = fileSum(path)
	for _, sfx := range []string{"-wal", "-shm", "-journal"} {
		if st, err := os.Stat(path + sfx); err == nil {
			res.Side = append(res.Side, fmt.Sprintf("%s:%d", sfx, st.Size()))
		}
	}
	res.After = takeDump(path)
	if err == nil {
		kv2, err2 := newStore(dataDir)
		if err2 != nil {
			res.Reopen = err2.Error()
		} else {
			res.Use = useStore(kv2, l)
			kv2.Close()
		}
	}
	return
}

type batchArgs struct {
	Layouts []layout `json:"layouts"`
}

func runBatch(raw json.RawMessage) (any, error) {
	var a batchArgs
	if err := json.Unmarshal(raw, &a); err != nil {
		return nil, err
	}
	if err := sqlite3.Initialize(cacheDir()); err != nil {
		return nil, fmt.Errorf("sqlite3.Initialize: %w", err)
	}
	var out []result
	for _, l := range a.Layouts {
		out = append(out, runOne(l, child.InChildDir()))
	}
	return out, nil
}

// -------------------------------------------------------------------- parent

func diffDump(a, b dump) []string {
	var d []string
	if a.UserVersion != b.UserVersion {
		d = append(d, fmt.Sprintf("user_version %d -> %d", a.UserVersion, b.UserVersion))
	}
	as, bs := map[string]bool{}, map[string]bool{}
	for _, s := range a.Schema {
		as[s] = true
	}
	for _, s := range b.Schema {
		bs[s] = true
	}
	for _, s := range a.Schema {
		if !bs[s] {
			d = append(d, "schema object gone or altered: "+s)
		}
	}
	for _, s := range b.Schema {
		if !as[s] {
			d = append(d, "schema object added: "+s)
		}
	}
	for t, ra := range a.Rows {
		rb, ok := b.Rows[t]
		if !ok {
			if len(ra) > 0 {
				d = append(d, fmt.Sprintf("table %s with %d rows is gone", t, len(ra)))
			}
			continue
		}
		if strings.Join(ra, ";") != strings.Join(rb, ";") {
			d = append(d, fmt.Sprintf("rows of %s changed: %v -> %v", t, ra, rb))
		}
	}
	for t, rb := range b.Rows {
		if _, ok := a.Rows[t]; !ok && len(rb) > 0 {
			d = append(d, fmt.Sprintf("new table %s has %d rows", t, len(rb)))
		}
	}
	return d
}

// lost: what of a is missing in b (additions are fine after a successful open)
func lost(a, b dump) []string {
	var d []string
	bs := map[string]bool{}
	for _, s := range b.Schema {
		bs[s] = true
	}
	for _, s := range a.Schema {
		if !bs[s] {
			d = append(d, "schema object gone or altered: "+s)
		}
	}
	for t, ra := range a.Rows {
		rb := map[string]bool{}
		for _, r := range b.Rows[t] {
			rb[r] = true
		}
		for _, r := range ra {
			if !rb[r] {
				d = append(d, fmt.Sprintf("row of %s lost or altered: %s", t, r))
			}
		}
		if len(b.Rows[t]) != len(ra) {
			d = append(d, fmt.Sprintf("%s had %d rows, has %d", t, len(ra), len(b.Rows[t])))
		}
	}
	return d
}

func main() {
	child.Register("c24batch", runBatch)
	child.Main()
	r := ev.Start("C24", "exploration")
	r.SetExhaustive(true)
	r.SetRule("every layout of: subset of {key_trackers, simple_entries, prefix_entries, lease_entries} x idx_hash (only with key_trackers) x user_version {0,1,2} x with/without rows (no rows without a table) x journal mode the file was left in {delete, wal}, plus 'no file'; built with database/sql + the ncruces driver the store uses; each layout is one distinct case, opened with sqlite3.New")
	r.Assume("legacy files are reproduced from the frozen GORM DDL and typical rows; other objects a legacy file might contain (extra tables, triggers) are not part of the stated space")
	r.Assume("a refused database is judged by its logical dump (schema, rows, user_version) read through a fresh connection; byte identity is reported only (opening with journal_mode(WAL) may rewrite the header)")
	r.SetMaxSamples(8)
	layouts := allLayouts()
	if r.ReplayCase != "" {
		var keep []layout
		for _, l := range layouts {
			if l.name() == r.ReplayCase {
				keep = append(keep, l)
			}
		}
		layouts = keep
	}
	// warm the compilation cache once, so that the batch children do not all compile
	if err := sqlite3.Initialize(cacheDir()); err != nil {
		r.Inconclusive("sqlite3.Initialize: " + err.Error())
		r.Finish()
	}
	nb := 12
	batches := make([][]layout, nb)
	for i, l := range layouts {
		batches[i%nb] = append(batches[i%nb], l)
	}
	var mu sync.Mutex
	var results []result
	var wg sync.WaitGroup
	for _, b := range batches {
		if len(b) == 0 {
			continue
		}
		wg.Add(1)
		go func(b []layout) {
			defer wg.Done()
			res := child.Run("c24batch", batchArgs{Layouts: b}, child.Opt{Timeout: 10 * time.Minute})
			defer res.Cleanup()
			if res.TimedOut {
				r.Inconclusive("a batch child hit the watchdog")
				return
			}
			if res.Died || res.Err != "" {
				if crashed, repo, head, ex := child.Crash(res.LogPath); crashed && repo {
					r.Violation("open-crashes", "", "opening a database crashed the process: "+head, map[string]any{"excerpt": ex, "layouts": b})
					return
				}
				lb, _ := os.ReadFile(res.LogPath)
				s := string(lb)
				if len(s) > 400 {
					s = s[len(s)-400:]
				}
				r.Inconclusive("batch child failed: " + res.Err + " " + s)
				return
			}
			var out []result
			if err := res.Decode(&out); err != nil {
				r.Inconclusive(err.Error())
				return
			}
			mu.Lock()
			results = append(results, out...)
			mu.Unlock()
		}(b)
	}
	wg.Wait()
	sort.Slice(results, func(i, j int) bool { return results[i].Layout.ID < results[j].Layout.ID })
	// the current schema version = what a database created from nothing ends up with
	current := -1
	var refSchema []string // schema objects of a database the current code creates from nothing
	for _, x := range results {
		if x.Layout.NoFile && x.OpenErr == "" && x.BuildErr == "" {
			current = x.After.UserVersion
			refSchema = normSchema(x.After)
		}
	}
	r.Extra("current_schema", refSchema)
	if current < 0 && r.ReplayCase == "" {
		r.Inconclusive("the 'no file' layout did not open: the current schema version is unknown")
	}
	r.Extra("current_user_version", current)
	outcomes := map[string]int{}
	for _, x := range results {
		l := x.Layout
		name := l.name()
		if x.BuildErr != "" || x.Before.Err != "" || x.After.Err != "" {
			r.Inconclusive(fmt.Sprintf("%s: harness could not build/dump the file: %s %s %s", name, x.BuildErr, x.Before.Err, x.After.Err))
			continue
		}
		r.Case(name)
		wit := map[string]any{"layout": name, "class": l.class(), "before": x.Before, "after": x.After, "open_error": x.OpenErr, "side_files": x.Side, "file_sum_before": x.SumBefore, "file_sum_after": x.SumAfter}
		if x.Panic != "" {
			r.Violation("open-panics", name, "sqlite3.New panicked: "+x.Panic, wit)
			continue
		}
		if x.OpenErr != "" {
			outcomes[l.class()+":refused"]++
			r.Count("refused", 1)
			if x.SumBefore == x.SumAfter {
				r.Count("refused_bytes_identical", 1)
			} else {
				r.Count("refused_bytes_changed", 1)
			}
			if d := diffDump(x.Before, x.After); len(d) > 0 {
				wit["changes"] = d
				key := "refused-but-modified:" + l.class()
				r.Violation(key, name, fmt.Sprintf("New refused the database (%s) but changed it: %s", x.OpenErr, strings.Join(d, "; ")), wit)
			} else {
				r.Sample(map[string]any{"layout": name, "class": l.class(), "outcome": "refused: " + x.OpenErr, "dump_unchanged": true, "bytes_identical": x.SumBefore == x.SumAfter})
			}
			continue
		}
		outcomes[l.class()+":opened"]++
		r.Count("opened", 1)
		if d := lost(x.Before, x.After); len(d) > 0 {
			wit["lost"] = d
			r.Violation("opened-but-data-lost:"+l.class(), name, "New succeeded but pre-existing content is gone: "+strings.Join(d, "; "), wit)
			continue
		}
		if current >= 0 && x.After.UserVersion != current {
			r.Violation("opened-with-stale-version:"+l.class(), name, fmt.Sprintf("New succeeded but user_version is %d, current is %d", x.After.UserVersion, current), wit)
			continue
		}
		if current >= 0 {
			if d := schemaDiff(refSchema, normSchema(x.After)); len(d) > 0 {
				wit["schema_diff"] = d
				wit["current_schema"] = refSchema
				key := "opened-with-schema-not-current:" + l.class()
				if l.UV == current {
					// the file already claimed the current version: nothing was migrated, the claim was trusted
					key = "opened-with-schema-not-current:claimed-current-version"
				}
				r.Violation(key, name, "New succeeded but the schema is not the one the current version defines: "+strings.Join(d, "; "), wit)
				continue
			}
		}
		if x.Reopen != "" {
			wit["reopen_error"] = x.Reopen
			r.Violation("opened-then-unopenable:"+l.class(), name, "New succeeded once, the next New on the same file failed: "+x.Reopen, wit)
			continue
		}
		if len(x.Use) > 0 {
			wit["problems"] = x.Use
			r.Violation("opened-but-unusable:"+l.class(), name, "New succeeded but the store does not serve the file's data: "+strings.Join(x.Use, "; "), wit)
			continue
		}
		if l.Rows || l.NoFile {
			r.Sample(map[string]any{"layout": name, "class": l.class(), "outcome": "opened", "user_version_after": x.After.UserVersion, "rows_before": countRows(x.Before), "rows_after": countRows(x.After)})
		}
	}
	r.Extra("outcomes_by_class", outcomes)
	r.Extra("layouts", len(layouts))
	if r.ReplayCase == "" && len(results) != len(layouts) {
		r.Inconclusive(fmt.Sprintf("only %d of %d layouts were evaluated", len(results), len(layouts)))
	}
	r.Finish()
}

// normSchema: schema objects as "type|name|table|sql" with the SQL text reduced to
// what it declares (case, white space and IF NOT EXISTS do not matter).
func normSchema(d dump) []string {
	var out []string
	for _, e := range d.Schema {
		f := strings.SplitN(e, "|", 4)
		if len(f) != 4 {
			out = append(out, e)
			continue
		}
		sq := strings.ToLower(f[3])
		sq = strings.Join(strings.Fields(sq), "")
		sq = strings.ReplaceAll(sq, "ifnotexists", "")
		out = append(out, f[0]+"|"+f[1]+"|"+f[2]+"|"+sq)
	}
	sort.Strings(out)
	return out
}

// schemaDiff lists what got lacks / has beyond the reference schema.
func schemaDiff(ref, got []string) []string {
	rs, gs := map[string]bool{}, map[string]bool{}
	for _, x := range ref {
		rs[x] = true
	}
	for _, x := range got {
		gs[x] = true
	}
	var d []string
	for _, x := range ref {
		if !gs[x] {
			d = append(d, "missing or different: "+x)
		}
	}
	for _, x := range got {
		if !rs[x] {
			d = append(d, "not in a database created from scratch: "+x)
		}
	}
	return d
}

func countRows(d dump) int {
	n := 0
	for _, r := range d.Rows {
		n += len(r)
	}
	return n
}
