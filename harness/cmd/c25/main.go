// C25 — tunnel control RPCs require a verified, registered client.
//
// Requests go through the real twirp servers that Server.AttachRouter mounts
// (real chi router, rate limiter, body limit, RequestRouted hook) over an
// in-memory transport: every connection is a transport.StreamDelegate fed to
// the server's tunnel transport, with its own remote IP. Methods come from the
// protobuf service descriptors of tunnel.proto and keyless.proto, so a method
// added later is covered without touching this file. The DHT is a real
// one-node chord ring over a recording KV: a refused call must leave no
// mutation in its call log.
package main

import (
	"bytes"
	"context"
	"crypto/ecdsa"
	"crypto/elliptic"
	crand "crypto/rand"
	"crypto/tls"
	"crypto/x509"
	"crypto/x509/pkix"
	"encoding/json"
	"fmt"
	"io"
	"math/big"
	"math/rand"
	"net"
	"net/http"
	"reflect"
	"sort"
	"strings"
	"sync"
	"sync/atomic"
	"time"

	"verifharness/lab/ev"
	"verifharness/lab/tunlab"

	"go.miragespace.co/specter/spec/acme"
	"go.miragespace.co/specter/spec/protocol"
	"go.miragespace.co/specter/spec/transport"
	"go.miragespace.co/specter/spec/tun"

	"google.golang.org/protobuf/encoding/protojson"
	"google.golang.org/protobuf/proto"
	"google.golang.org/protobuf/reflect/protoreflect"
	"google.golang.org/protobuf/reflect/protoregistry"
)

// the only methods the statement exempts
var exempt = map[string]bool{"Ping": true, "RegisterIdentity": true}

type method struct {
	Service string // protocol.TunnelService
	Name    string
	Input   protoreflect.MessageDescriptor
}

func methods() []method {
	var out []method
	for _, fd := range []protoreflect.FileDescriptor{protocol.File_spec_proto_tunnel_proto, protocol.File_spec_proto_keyless_proto} {
		svcs := fd.Services()
		for i := 0; i < svcs.Len(); i++ {
			ms := svcs.Get(i).Methods()
			for j := 0; j < ms.Len(); j++ {
				out = append(out, method{Service: string(svcs.Get(i).FullName()), Name: string(ms.Get(j).Name()), Input: ms.Get(j).Input()})
			}
		}
	}
	return out
}

var addrSeq atomic.Int64

type caller struct {
	Class   string // nocert | badcn | unregistered-v2 | unregistered-v1 | registered | no-delegation
	cert    *x509.Certificate
	claimed *protocol.Node
	client  *tunlab.Client // nil for nocert / badcn
}

type reqRecord struct {
	Case      string           `json:"case"`
	Method    string           `json:"method"`
	Caller    string           `json:"caller"`
	Body      string           `json:"body"`
	Status    int              `json:"http_status"`
	Code      string           `json:"twirp_code,omitempty"`
	Msg       string           `json:"msg,omitempty"`
	Mutations []tunlab.KVEvent `json:"dht_mutations"`
	Reads     int              `json:"dht_reads"`
}

type world struct {
	legacyVictim *tunlab.Client // registered client with a v1 subject (may be nil)
	r            *ev.Run
	lab          *tunlab.Lab
	ca           tls.Certificate
	victim       *tunlab.Client // a registered client whose hostnames the unauthenticated callers aim at
	leaf         *tls.Certificate
	mu           *sync.Mutex
	codes        map[string]int
	served       map[string]bool
	samples      *int
	kv           string // how the storage answers absent keys
}

func main() {
	r := ev.Start("C25", "exploration")
	r.SetRule("every method of every service in tunnel.proto and keyless.proto (from the protobuf descriptors; cross-checked against the Go interfaces protocol.TunnelService / KeylessService) x caller {no certificate (claiming a registered identity), certificate with malformed subject, fresh v2 certificate never registered, fresh v1 certificate never registered, v1 certificate whose token extends a registered v1 token with ':x'} x bodies {empty, effective protobuf, effective JSON, seeded garbage, oversized} x DHT storage answering absent keys with {nil, empty non-nil value} through the real twirp servers; plus every method at handler level without any delegation, plus a registered control caller per method (shows that the effective body does take effect once authenticated). 'Effective' = the request would change or reveal state if only authentication were skipped: the caller's own token prefix already holds the hostname, routes exist, the custom hostname is bound to the caller, the proof of work is valid and fresh, the CNAME answer is right. Distinct = (storage variant, method, caller class, body kind); non-trivial = method is not exempt (Ping, RegisterIdentity).")
	r.Assume("a refusal is any response other than HTTP 200 (the twirp code is recorded: unauthenticated for the listener path, internal for the missing delegation)")
	r.Assume("the per-IP rate limiter is kept out of the way by giving every connection its own remote IP; a 429 would be reported as inconclusive")
	r.Assume("'changes nothing in the DHT' = no mutating call (Put/Delete/PrefixAppend/PrefixRemove/Acquire/Renew/Release/Import/RemoveKeys) reaches the ring's storage between request and response, and the full key dump is identical")
	rng := r.Rand("c25")
	ms := methods()
	// cross-check with the Go interfaces: same method set
	goNames := map[string]bool{}
	for _, t := range []reflect.Type{reflect.TypeOf((*protocol.TunnelService)(nil)).Elem(), reflect.TypeOf((*protocol.KeylessService)(nil)).Elem()} {
		for i := 0; i < t.NumMethod(); i++ {
			goNames[t.Method(i).Name] = true
		}
	}
	descNames := map[string]bool{}
	for _, m := range ms {
		descNames[m.Name] = true
	}
	for n := range goNames {
		if !descNames[n] {
			r.Inconclusive("Go interface method " + n + " is missing from the protobuf descriptors")
		}
	}
	for n := range descNames {
		if !goNames[n] {
			r.Inconclusive("descriptor method " + n + " is missing from the Go service interfaces")
		}
	}
	r.Extra("methods_enumerated", func() []string {
		var s []string
		for _, m := range ms {
			s = append(s, m.Service+"/"+m.Name)
		}
		return s
	}())

	ca := tunlab.NewCA()
	leaf := makeLeaf()
	var mu sync.Mutex
	codes := map[string]int{}
	served := map[string]bool{}
	nSamples := 0
	garbagePerCell := r.Pick(1, 4)
	seeds := make([]int64, len(ms))
	for i := range seeds {
		seeds[i] = rng.Int63()
	}
	// one server (ring, router, twirp) per method, methods in parallel
	// every method runs in two worlds: storage answering absent keys with nil, and
	// with an empty non-nil value (both mean "absent" under the KV contract)
	tunlab.Parallel(2*len(ms), 12, func(j int) {
		i, emptyNonNil := j/2, j%2 == 1
		m := ms[i]
		lab, err := tunlab.NewLab(tunlab.Options{Retry: true, EmptyNonNil: emptyNonNil})
		if err != nil {
			panic(err)
		}
		defer lab.Close()
		lab.Server.MustRegister(context.Background())
		lab.Attach()
		lab.Certs.Fn = func(string) (*tls.Certificate, error) { return leaf, nil }
		w := &world{r: r, lab: lab, ca: ca, leaf: leaf, mu: &mu, codes: codes, served: served, samples: &nSamples, kv: map[bool]string{false: "kv-nil", true: "kv-empty"}[emptyNonNil]}
		w.runMethod(m, rand.New(rand.NewSource(seeds[i]+int64(j%2))), garbagePerCell, r.Pick(1, 6))
	})
	cs := map[string]int{}
	for k, v := range codes {
		cs[k] = v
	}
	r.Extra("refusal_codes", cs)
	var notServed []string
	for _, m := range ms {
		for _, kv := range []string{"kv-nil", "kv-empty"} {
			if !served[kv+"/"+m.Name] {
				notServed = append(notServed, kv+"/"+m.Name)
			}
		}
	}
	sort.Strings(notServed)
	if len(notServed) > 0 {
		r.Inconclusive(fmt.Sprintf("the registered control caller was not served for %v: the 'effective' bodies are not effective", notServed))
	}
	r.Finish()
}

func makeLeaf() *tls.Certificate {
	key, err := ecdsa.GenerateKey(elliptic.P256(), crand.Reader)
	if err != nil {
		panic(err)
	}
	tmpl := x509.Certificate{SerialNumber: big.NewInt(7), Subject: pkix.Name{CommonName: "keyless leaf"}, NotBefore: time.Now().Add(-time.Hour), NotAfter: time.Now().Add(48 * time.Hour),
		KeyUsage: x509.KeyUsageDigitalSignature, DNSNames: []string{"*.example.net"}}
	der, err := x509.CreateCertificate(crand.Reader, &tmpl, &tmpl, &key.PublicKey, key)
	if err != nil {
		panic(err)
	}
	l, _ := x509.ParseCertificate(der)
	return &tls.Certificate{Certificate: [][]byte{der}, PrivateKey: key, Leaf: l}
}

// ---------------------------------------------------------------- transport

func (w *world) do(c *caller, m method, contentType string, body []byte) (int, string, string, error) {
	n := int(addrSeq.Add(1))
	tr := &http.Transport{
		DisableKeepAlives: true,
		DialContext: func(ctx context.Context, _, _ string) (net.Conn, error) {
			mine, theirs := tunlab.Pipe()
			w.lab.Tunnel.Feed(&transport.StreamDelegate{
				Conn:        &tunlab.AddrConn{Conn: theirs, Local: tunlab.SeqAddr(0), Remote: tunlab.SeqAddr(n)},
				Certificate: c.cert,
				Identity:    c.claimed,
				Kind:        protocol.Stream_RPC,
			})
			return mine, nil
		},
	}
	defer tr.CloseIdleConnections()
	hc := &http.Client{Transport: tr, Timeout: 2 * time.Minute}
	req, _ := http.NewRequest("POST", "http://tunnel/twirp/"+m.Service+"/"+m.Name, bytes.NewReader(body))
	req.Header.Set("Content-Type", contentType)
	resp, err := hc.Do(req)
	if err != nil {
		return 0, "", "", err
	}
	defer resp.Body.Close()
	b, _ := io.ReadAll(io.LimitReader(resp.Body, 1<<16))
	var te struct {
		Code string `json:"code"`
		Msg  string `json:"msg"`
	}
	if resp.StatusCode != 200 {
		_ = json.Unmarshal(b, &te)
	}
	return resp.StatusCode, te.Code, te.Msg, nil
}

// ---------------------------------------------------------------- bodies

type hints struct {
	hostname string
	proof    *protocol.ProofOfWork
	servers  []*protocol.Node
}

// populate fills a request by field name / kind so that methods unknown to
// this file still receive a plausible, non-empty body.
func populate(msg protoreflect.Message, h hints, depth int) {
	fds := msg.Descriptor().Fields()
	for i := 0; i < fds.Len(); i++ {
		fd := fds.Get(i)
		name := string(fd.Name())
		switch {
		case fd.IsMap():
		case fd.IsList():
			l := msg.Mutable(fd).List()
			if fd.Kind() == protoreflect.MessageKind {
				if fd.Message().FullName() == "protocol.Node" {
					for _, s := range h.servers {
						l.Append(protoreflect.ValueOfMessage(s.ProtoReflect()))
					}
				} else if depth < 3 {
					e := l.NewElement()
					populate(e.Message(), h, depth+1)
					l.Append(e)
				}
			} else if fd.Kind() == protoreflect.StringKind {
				l.Append(protoreflect.ValueOfString(h.hostname))
			} else if fd.Kind() == protoreflect.BytesKind {
				l.Append(protoreflect.ValueOfBytes(bytes.Repeat([]byte{7}, 32)))
			}
		case fd.Kind() == protoreflect.MessageKind:
			if fd.Message().FullName() == "protocol.ProofOfWork" && h.proof != nil {
				msg.Set(fd, protoreflect.ValueOfMessage(h.proof.ProtoReflect()))
			} else if depth < 3 {
				populate(msg.Mutable(fd).Message(), h, depth+1)
			}
		case fd.Kind() == protoreflect.StringKind:
			if strings.Contains(name, "host") || strings.Contains(name, "name") || strings.Contains(name, "domain") {
				msg.Set(fd, protoreflect.ValueOfString(h.hostname))
			} else {
				msg.Set(fd, protoreflect.ValueOfString("x"))
			}
		case fd.Kind() == protoreflect.BytesKind:
			msg.Set(fd, protoreflect.ValueOfBytes(bytes.Repeat([]byte{0x5a}, 32))) // a SHA-256 sized digest
		case fd.Kind() == protoreflect.EnumKind:
			if fd.Enum().Values().Len() > 1 {
				msg.Set(fd, protoreflect.ValueOfEnum(fd.Enum().Values().Get(1).Number()))
			}
		case fd.Kind() == protoreflect.Uint64Kind || fd.Kind() == protoreflect.Uint32Kind:
			msg.Set(fd, protoreflect.ValueOfUint64(1))
		case fd.Kind() == protoreflect.BoolKind:
			msg.Set(fd, protoreflect.ValueOfBool(true))
		}
	}
}

func newInput(m method) protoreflect.Message {
	mt, err := protoregistry.GlobalTypes.FindMessageByName(m.Input.FullName())
	if err != nil {
		panic(err)
	}
	return mt.New()
}

func hasProof(md protoreflect.MessageDescriptor) bool {
	fds := md.Fields()
	for i := 0; i < fds.Len(); i++ {
		if fds.Get(i).Kind() == protoreflect.MessageKind && fds.Get(i).Message().FullName() == "protocol.ProofOfWork" {
			return true
		}
	}
	return false
}

// ---------------------------------------------------------------- one method

// seed puts into the DHT what makes a request of `owner` effective.
func (w *world) seed(owner *tunlab.Client, tag string) (hGen, hCust, hNew string) {
	ctx := context.Background()
	n := w.lab.Ring.Node
	hGen = fmt.Sprintf("gen-%s-words-here-now", tag)
	hCust = fmt.Sprintf("bound-%s.example.net", tag)
	hNew = fmt.Sprintf("fresh-%s.example.net", tag)
	prefix := []byte(tun.ClientHostnamesPrefix(owner.ClientToken()))
	must(n.PrefixAppend(ctx, prefix, []byte(hGen)))
	must(n.PrefixAppend(ctx, prefix, []byte(hCust)))
	for slot := 1; slot <= 2; slot++ {
		rt := &protocol.TunnelRoute{ClientDestination: owner.Node, ChordDestination: w.lab.Chord.Ident, TunnelDestination: w.lab.Tunnel.Ident, Hostname: hGen}
		b, _ := rt.MarshalVT()
		must(n.Put(ctx, []byte(tun.RoutingKey(hGen, slot)), b))
	}
	must(tun.SaveCustomHostname(ctx, n, hCust, &protocol.CustomHostname{ClientIdentity: owner.Node, ClientToken: owner.ClientToken()}))
	name, content := acme.GenerateCustomRecord(hNew, tunlab.Acme, owner.Token)
	w.lab.Resolver.Set(name, content)
	return
}

func must(err error) {
	if err != nil {
		panic(err)
	}
}

func (w *world) hostFor(m method, hGen, hCust, hNew string) string {
	switch m.Name {
	case "AcmeValidate":
		return hNew
	case "AcmeInstruction", "GetCertificate", "Sign":
		return hCust
	}
	return hGen
}

func (w *world) runMethod(m method, rng *rand.Rand, garbagePerCell, rounds int) {
	ctx := context.Background()
	// the victim: a properly registered client (registered through the real RPC)
	w.victim = tunlab.NewClient(w.ca, "victim", uint64(rng.Int63n(1<<40)), "")
	vc := &caller{Class: "registered", cert: w.victim.Cert, claimed: w.victim.Node, client: w.victim}
	regM := method{Service: "protocol.TunnelService", Name: "RegisterIdentity"}
	if st, code, msg, err := w.do(vc, regM, "application/protobuf", nil); err != nil || st != 200 {
		w.r.Inconclusive(fmt.Sprintf("%s: could not register the control client: %d %s %s %v", m.Name, st, code, msg, err))
		return
	}
	vGen, vCust, vNew := w.seed(w.victim, "victim-"+strings.ToLower(m.Name))
	// a second registered client with a legacy (v1) subject
	w.legacyVictim = tunlab.NewClient(w.ca, "victim-v1", uint64(rng.Int63n(1<<40)), fmt.Sprintf("legacy-registered-%d", rng.Int63()))
	lvc := &caller{Class: "registered", cert: w.legacyVictim.Cert, claimed: w.legacyVictim.Node, client: w.legacyVictim}
	if st, _, _, err := w.do(lvc, regM, "application/protobuf", nil); err != nil || st != 200 {
		w.legacyVictim = nil // registration of legacy subjects is not what is examined here
	} else {
		w.seed(w.legacyVictim, "victimv1-"+strings.ToLower(m.Name))
	}

	type cell struct {
		c                 *caller
		hGen, hCust, hNew string
	}
	mkCells := func(round int) []cell {
		var cells []cell
		// no certificate, claims to be the victim
		cells = append(cells, cell{c: &caller{Class: "nocert", claimed: w.victim.Node}, hGen: vGen, hCust: vCust, hNew: vNew})
		// certificate whose subject is not a specter identity
		bc := tunlab.NewClientWithSubject(w.ca, pkix.Name{CommonName: "CN-without-version-prefix"})
		cells = append(cells, cell{c: &caller{Class: "badcn", cert: bc, claimed: w.victim.Node}, hGen: vGen, hCust: vCust, hNew: vNew})
		// fresh certificates whose token was never registered; their own prefix
		// already holds hostnames (only the registration is missing)
		for _, v := range []string{"v2", "v1"} {
			v1tok := ""
			if v == "v1" {
				v1tok = fmt.Sprintf("never-registered-legacy-%d", rng.Int63())
			}
			cl := tunlab.NewClient(w.ca, "unreg-"+v, uint64(rng.Int63n(1<<40)), v1tok)
			g, c, n := w.seed(cl, fmt.Sprintf("unreg%s-%s-%d", v, strings.ToLower(m.Name), rng.Intn(1e6)))
			claimed := cl.Node
			if round%2 == 1 {
				claimed = w.victim.Node // claims to be the registered client, certificate says otherwise
			}
			cells = append(cells, cell{c: &caller{Class: "unregistered-" + v, cert: cl.Cert, claimed: claimed, client: cl}, hGen: g, hCust: c, hNew: n})
		}
		// a legacy (v1) certificate whose token EXTENDS a registered legacy token with the subject's own
		// separator ("<registered>:x"): a different token, never registered
		if w.legacyVictim != nil {
			cl := tunlab.NewClient(w.ca, "unreg-v1-ext", uint64(rng.Int63n(1<<40)), string(w.legacyVictim.Token)+":x")
			g, c, n := w.seed(cl, fmt.Sprintf("unregv1ext-%s-%d", strings.ToLower(m.Name), rng.Intn(1e6)))
			cells = append(cells, cell{c: &caller{Class: "unregistered-v1", cert: cl.Cert, claimed: cl.Node, client: cl}, hGen: g, hCust: c, hNew: n})
		}
		return cells
	}

	build := func(c cell, kind string, grng *rand.Rand) (string, []byte, *tunlab.Proof) {
		msg := newInput(m)
		var pr *tunlab.Proof
		switch kind {
		case "empty":
			return "application/protobuf", nil, nil
		case "garbage":
			b := make([]byte, 1+grng.Intn(200))
			grng.Read(b)
			return "application/protobuf", b, nil
		case "garbage-json":
			return "application/json", []byte(`{"hostname": [1,2,` + strings.Repeat("x", grng.Intn(50))), nil
		case "oversized":
			return "application/protobuf", bytes.Repeat([]byte{0x0a, 0x7f}, 1200), nil
		}
		h := hints{hostname: w.hostFor(m, c.hGen, c.hCust, c.hNew), servers: []*protocol.Node{w.lab.Tunnel.Ident}}
		if hasProof(m.Input) {
			key := w.victim.Key
			if c.c.client != nil {
				key = c.c.client.Key
			}
			p, err := tunlab.SolveAcme(key, h.hostname)
			must(err)
			pr = &p
			h.proof = p.P
		}
		populate(msg, h, 0)
		if kind == "effective-json" {
			b, err := protojson.Marshal(msg.Interface())
			must(err)
			return "application/json", b, pr
		}
		b, err := proto.Marshal(msg.Interface())
		must(err)
		return "application/protobuf", b, pr
	}

	kinds := []string{"empty", "effective", "effective-json", "oversized"}
	for g := 0; g < garbagePerCell; g++ {
		kinds = append(kinds, "garbage", "garbage-json")
	}
	staleProofs := 0
	var cells []cell
	for round := 0; round < rounds; round++ {
		cells = append(cells, mkCells(round)...)
	}
	for ci, c := range cells {
		for ki, kind := range kinds {
			name := fmt.Sprintf("%s/%s/%s/%s#%d.%d", w.kv, m.Name, c.c.Class, kind, ci, ki)
			if !w.r.WantCase(name) {
				continue
			}
			ct, body, pr := build(c, kind, rng)
			before, _ := w.lab.Ring.KV.Dump()
			mark := w.lab.Ring.KV.Mark()
			st, code, msg, err := w.do(c.c, m, ct, body)
			evs := w.lab.Ring.KV.Since(mark)
			after, _ := w.lab.Ring.KV.Dump()
			rec := reqRecord{Case: name, Method: m.Service + "/" + m.Name, Caller: c.c.Class, Body: kind, Status: st, Code: code, Msg: msg, Mutations: []tunlab.KVEvent{}}
			for _, e := range evs {
				if e.Mut {
					rec.Mutations = append(rec.Mutations, e)
				} else {
					rec.Reads++
				}
			}
			sig := ""
			if !exempt[m.Name] {
				sig = fmt.Sprintf("%s/%s/%s/%s", w.kv, m.Name, c.c.Class, kind)
			}
			w.r.Case(sig)
			if pr != nil && !pr.Fresh() {
				staleProofs++
			}
			if err != nil {
				w.r.Inconclusive(name + ": transport error: " + err.Error())
				continue
			}
			if st == 429 {
				w.r.Inconclusive(name + ": rate limited")
				continue
			}
			w.mu.Lock()
			if !exempt[m.Name] {
				w.codes[fmt.Sprintf("%s/%s:%d/%s", w.kv, c.c.Class, st, code)]++
			}
			if *w.samples < 5 && kind == "effective" && !exempt[m.Name] && (m.Name == "PublishTunnel" || m.Name == "AcmeValidate" || m.Name == "Sign" || m.Name == "ReleaseTunnel" || m.Name == "GenerateHostname") && c.c.Class == "unregistered-v2" {
				*w.samples++
				w.r.Sample(rec)
			}
			w.mu.Unlock()
			if exempt[m.Name] {
				continue
			}
			if st == 200 {
				w.r.Violation(fmt.Sprintf("served/%s/%s", m.Name, c.c.Class), name, fmt.Sprintf("%s answered 200 to a caller of class %s (%s body; %d DHT mutations on the way)", m.Name, c.c.Class, kind, len(rec.Mutations)), rec)
			} else if len(rec.Mutations) > 0 {
				w.r.Violation(fmt.Sprintf("refused-call-mutated-dht/%s/%s", m.Name, c.c.Class), name, fmt.Sprintf("%s by %s was answered %d/%s but the DHT saw %d mutating calls, first %s %s", m.Name, c.c.Class, st, code, len(rec.Mutations), rec.Mutations[0].Op, rec.Mutations[0].Key), rec)
			} else if d := dumpDiff(before, after); d != "" && st != 200 {
				w.r.Violation(fmt.Sprintf("refused-call-changed-dht/%s/%s", m.Name, c.c.Class), name, "DHT content differs after a refused call: "+d, rec)
			}
		}
	}
	w.r.Count("stale_proofs_in_refused_calls", int64(staleProofs))

	// ---- no delegation at all: handler level, bare context
	sv := reflect.ValueOf(w.lab.Server)
	for _, kind := range []string{"empty", "effective"} {
		name := fmt.Sprintf("%s/%s/no-delegation/%s", w.kv, m.Name, kind)
		if !w.r.WantCase(name) {
			continue
		}
		fn := sv.MethodByName(m.Name)
		if !fn.IsValid() {
			w.r.Inconclusive(m.Name + ": *server.Server has no such method")
			break
		}
		msg := newInput(m)
		if kind == "effective" {
			h := hints{hostname: w.hostFor(m, vGen, vCust, vNew), servers: []*protocol.Node{w.lab.Tunnel.Ident}}
			if hasProof(m.Input) {
				p, err := tunlab.SolveAcme(w.victim.Key, h.hostname)
				must(err)
				h.proof = p.P
			}
			populate(msg, h, 0)
		}
		before, _ := w.lab.Ring.KV.Dump()
		mark := w.lab.Ring.KV.Mark()
		out := fn.Call([]reflect.Value{reflect.ValueOf(ctx), reflect.ValueOf(msg.Interface())})
		muts := w.lab.Ring.KV.MutationsSince(mark)
		after, _ := w.lab.Ring.KV.Dump()
		errV := out[1].Interface()
		rec := reqRecord{Case: name, Method: m.Service + "/" + m.Name, Caller: "no-delegation", Body: kind, Mutations: muts}
		if errV != nil {
			rec.Msg = errV.(error).Error()
		}
		sig := ""
		if !exempt[m.Name] {
			sig = fmt.Sprintf("%s/%s/no-delegation/%s", w.kv, m.Name, kind)
		}
		w.r.Case(sig)
		if exempt[m.Name] {
			continue
		}
		if errV == nil {
			w.r.Violation(fmt.Sprintf("served/%s/no-delegation", m.Name), name, m.Name+" served a call that carries no delegation", rec)
		}
		if len(muts) > 0 || dumpDiff(before, after) != "" {
			w.r.Violation(fmt.Sprintf("refused-call-mutated-dht/%s/no-delegation", m.Name), name, fmt.Sprintf("%s without delegation mutated the DHT: %v %s", m.Name, muts, dumpDiff(before, after)), rec)
		}
	}

	// ---- control: the registered client with the effective body is served
	name := fmt.Sprintf("%s/%s/registered/effective", w.kv, m.Name)
	if w.r.WantCase(name) {
		okServed := false
		var last string
		for attempt := 0; attempt < 6 && !okServed; attempt++ {
			c := cell{c: vc, hGen: vGen, hCust: vCust, hNew: vNew}
			ct, body, pr := build(c, "effective", rng)
			mark := w.lab.Ring.KV.Mark()
			st, code, msg, err := w.do(vc, m, ct, body)
			last = fmt.Sprintf("%d %s %s %v", st, code, msg, err)
			if st == 200 {
				okServed = true
				w.r.Count("control_calls_served", 1)
				w.r.Count("control_dht_mutations", int64(len(w.lab.Ring.KV.MutationsSince(mark))))
				break
			}
			if pr == nil || pr.Fresh() {
				break
			}
		}
		w.r.Case(fmt.Sprintf("%s/%s/registered/effective", w.kv, m.Name))
		w.mu.Lock()
		w.served[w.kv+"/"+m.Name] = okServed
		if !okServed {
			w.codes["control-not-served:"+m.Name+":"+last]++
		}
		w.mu.Unlock()
	} else {
		w.mu.Lock()
		w.served[w.kv+"/"+m.Name] = true
		w.mu.Unlock()
	}
}

func dumpDiff(a, b map[string]tunlab.Entry) string {
	var diffs []string
	keys := map[string]bool{}
	for k := range a {
		keys[k] = true
	}
	for k := range b {
		keys[k] = true
	}
	for k := range keys {
		x, y := a[k], b[k]
		if !bytes.Equal(x.Simple, y.Simple) || strings.Join(x.Children, "\x00") != strings.Join(y.Children, "\x00") || x.Lease != y.Lease {
			diffs = append(diffs, k)
		}
	}
	sort.Strings(diffs)
	return strings.Join(diffs, ", ")
}
