// C26 — clients can only publish or remove hostnames they own, and routes
// point to them.
//
// Seeded multi-client histories of GenerateHostname / AcmeValidate (custom
// hostnames) / PublishTunnel / UnpublishTunnel / ReleaseTunnel run against the
// real handlers of tun/server.Server over a real one-node chord ring on a
// recording memory KV. A model of (registrations, custom bindings, routes)
// written from the statement is compared with the *contents of the DHT* after
// every call.
package main

import (
	"bytes"
	"context"
	"crypto/tls"
	"fmt"
	"math/rand"
	"sort"
	"strconv"
	"strings"
	"sync"
	"sync/atomic"
	"time"

	"verifharness/lab/ev"
	"verifharness/lab/tunlab"

	"go.miragespace.co/specter/spec/acme"
	"go.miragespace.co/specter/spec/chord"
	"go.miragespace.co/specter/spec/protocol"
	"go.miragespace.co/specter/spec/tun"
)

type srv struct {
	Name          string
	Tunnel, Chord *protocol.Node
	Known         bool // has a destination record in the DHT
}

type slotState struct {
	known   bool // false: the statement does not pin what the slot holds now
	present bool
	server  string // tunnel address of the server
}

type model struct {
	reg    map[string]int           // hostname -> client index it is registered to
	custom map[string]int           // custom hostname -> client index it is bound to
	routes map[string]*[3]slotState // hostname -> slots
}

type opRecord struct {
	Step     int      `json:"step"`
	Caller   string   `json:"caller"`
	Claimed  string   `json:"claimed_identity,omitempty"`
	Op       string   `json:"op"`
	Hostname string   `json:"hostname,omitempty"`
	Relation string   `json:"relation,omitempty"`
	Servers  []string `json:"servers,omitempty"`
	Result   string   `json:"result"`
}

type history struct {
	Name string     `json:"history"`
	Ops  []opRecord `json:"ops"`
}

func nodeEq(a, b *protocol.Node) bool {
	return a.GetId() == b.GetId() && a.GetAddress() == b.GetAddress() && a.GetRendezvous() == b.GetRendezvous() && a.GetUnknown() == b.GetUnknown()
}

func main() {
	r := ev.Start("C26", "exploration")
	r.SetRule("seeded histories (quick 32 x 60 calls, thorough 600 x 80) by 4 clients (v2 and v1 certificates) over one server with a real one-node ring: generate, validate-custom (real proof of work + scripted CNAME), publish / unpublish / release with own, foreign, never-registered, already-released and garbage hostnames; server lists with 0..5 entries, duplicates by address, nil entries, servers without destination record; delegations whose claimed identity is another client's. After every call the whole DHT content is compared with the model. Distinct = (operation, hostname relation, server-list shape, spoofed flag, result); non-trivial = the call names a hostname that is or was registered to somebody")
	r.Assume("the order in which the distinct requested servers occupy slots 1..k is not judged; what slots k+1..3 hold after a publish with fewer servers than before is not pinned by the statement (the code leaves the old routes there): tracked as unknown until the next unpublish/release")
	r.Assume("what unpublish does to the routes is not stated; it is recorded (counter) and the slots are treated as unknown afterwards")
	r.Assume("a publish by the owner with 1..3 distinct servers that all have destination records must succeed (DESIGN: success iff owner)")
	rng := r.Rand("c26")
	nHist := r.Pick(32, 600)
	nOps := r.Pick(60, 80)
	seeds := make([]int64, nHist)
	for i := range seeds {
		seeds[i] = rng.Int63()
	}
	ca := tunlab.NewCA()
	var mu sync.Mutex
	sampled := 0
	tunlab.Parallel(nHist, 16, func(i int) {
		name := fmt.Sprintf("h%d", i)
		if !r.WantCase(name) {
			return
		}
		h := runHistory(r, ca, name, rand.New(rand.NewSource(seeds[i])), nOps)
		mu.Lock()
		if i < 2 {
			sampled++
			hs := *h
			if len(hs.Ops) > 12 {
				hs.Ops = hs.Ops[:12]
			}
			for k := range hs.Ops {
				if len(hs.Ops[k].Hostname) > 60 {
					hs.Ops[k].Hostname = hs.Ops[k].Hostname[:60] + "..."
				}
			}
			r.Sample(hs)
		}
		mu.Unlock()
	})
	r.Finish()
}

type world struct {
	r       *ev.Run
	name    string
	lab     *tunlab.Lab
	clients []*tunlab.Client
	servers []*srv
	m       *model
	hist    *history
	step    int
	stopped bool
}

func (w *world) viol(key, what string) {
	// a legitimate call that failed only because one of the handler's own 3 s
	// contexts ran out (machine stalled) decides nothing
	if strings.HasSuffix(key, "-refused") && (strings.Contains(what, "context deadline exceeded") || strings.Contains(what, "context canceled")) {
		w.r.Inconclusive(w.name + ": " + what)
		return
	}
	w.r.Violation(key, w.name, fmt.Sprintf("step %d: %s", w.step, what), w.hist)
}

func runHistory(r *ev.Run, caT tls.Certificate, name string, rng *rand.Rand, nOps int) *history {
	lab, err := tunlab.NewLab(tunlab.Options{Retry: true})
	if err != nil {
		panic(err)
	}
	defer lab.Close()
	w := &world{r: r, name: name, lab: lab, hist: &history{Name: name}, m: &model{reg: map[string]int{}, custom: map[string]int{}, routes: map[string]*[3]slotState{}}}
	for i := 0; i < 4; i++ {
		v1 := ""
		if i == 3 {
			v1 = fmt.Sprintf("legacy-token-%d", rng.Int63())
		}
		w.clients = append(w.clients, tunlab.NewClient(caT, fmt.Sprintf("client%d", i), uint64(rng.Int63n(1<<40)), v1))
	}
	ctx := context.Background()
	// the server's own destination record through the real publishDestinations
	lab.Server.MustRegister(ctx)
	w.servers = append(w.servers, &srv{Name: "S0", Tunnel: lab.Tunnel.Ident, Chord: lab.Chord.Ident, Known: true})
	for i := 1; i <= 5; i++ {
		s := &srv{Name: fmt.Sprintf("S%d", i), Known: i <= 4,
			Tunnel: &protocol.Node{Id: uint64(rng.Int63n(1 << 40)), Address: fmt.Sprintf("tun-s%d.example:%d", i, 4000+i)},
			Chord:  &protocol.Node{Id: uint64(rng.Int63n(1 << 40)), Address: fmt.Sprintf("chord-s%d.example:%d", i, 5000+i)}}
		if s.Known {
			b, _ := (&protocol.TunnelDestination{Chord: s.Chord, Tunnel: s.Tunnel}).MarshalVT()
			if err := lab.Ring.Node.Put(ctx, []byte(tun.DestinationByTunnelKey(s.Tunnel)), b); err != nil {
				panic(err)
			}
			if err := lab.Ring.Node.Put(ctx, []byte(tun.DestinationByChordKey(s.Chord)), b); err != nil {
				panic(err)
			}
		}
		w.servers = append(w.servers, s)
	}
	released := []string{}
	customLeft := 2
	for w.step = 0; w.step < nOps && !w.stopped; w.step++ {
		ci := rng.Intn(len(w.clients))
		caller := w.clients[ci]
		var claimed *protocol.Node
		spoof := rng.Intn(5) == 0
		if spoof {
			claimed = w.clients[(ci+1+rng.Intn(3))%4].Node
		}
		cctx := rpcCtx(caller, claimed, w.step)
		rec := opRecord{Step: w.step, Caller: caller.Name}
		if spoof {
			rec.Claimed = claimed.GetAddress()
		}
		before := w.dump()
		x := rng.Intn(100)
		switch {
		case x < 14 || len(w.m.reg) == 0 && x < 60:
			rec.Op = "generate"
			resp, err := lab.Server.GenerateHostname(cctx, &protocol.GenerateHostnameRequest{})
			if err != nil {
				rec.Result = "error: " + err.Error()
				// not part of the statement; without registrations the history is pointless
				w.r.Inconclusive(name + ": GenerateHostname by a verified client failed: " + err.Error())
				w.stopped = true
			} else {
				rec.Result = "ok"
				rec.Hostname = resp.GetHostname()
				if prev, dup := w.m.reg[resp.GetHostname()]; dup && prev != ci {
					w.r.Inconclusive(fmt.Sprintf("%s: generator handed %s to %s although registered to client%d (outside the statement)", name, resp.GetHostname(), caller.Name, prev))
					w.stopped = true
				}
				w.m.reg[resp.GetHostname()] = ci
			}
			w.r.Case(fmt.Sprintf("generate/%v/%v", spoof, err == nil))
		case x < 20 && customLeft > 0:
			customLeft--
			rec.Op = "validate-custom"
			host := fmt.Sprintf("app%d.cust-%s-%d.example.net", rng.Intn(100), name, w.step)
			rec.Hostname = host
			ok, incon := w.validateCustom(caller, ci, cctx, host)
			if incon != "" {
				w.r.Inconclusive(name + ": " + incon)
				w.stopped = true
				break
			}
			rec.Result = fmt.Sprintf("ok=%v", ok)
			w.r.Case(fmt.Sprintf("validate/%v/%v", spoof, ok))
		default:
			// a hostname and its relation to the caller
			host, rel := w.pickHost(rng, ci, released)
			rec.Hostname, rec.Relation = host, rel
			owner := rel == "own"
			y := rng.Intn(100)
			switch {
			case y < 55:
				rec.Op = "publish"
				servers, shape, distinct, allKnown := w.pickServers(rng)
				for _, s := range servers {
					if s == nil {
						rec.Servers = append(rec.Servers, "<nil>")
					} else {
						rec.Servers = append(rec.Servers, s.GetAddress())
					}
				}
				_, err := lab.Server.PublishTunnel(cctx, &protocol.PublishTunnelRequest{Hostname: host, Servers: servers})
				rec.Result = resStr(err)
				w.afterPublish(ci, host, owner, distinct, allKnown, err, before)
				sig := ""
				if rel != "never" && rel != "garbage" {
					sig = fmt.Sprintf("publish/%s/%s/%v/%v", rel, shape, spoof, err == nil)
				}
				w.r.Case(sig)
			case y < 75:
				rec.Op = "unpublish"
				_, err := lab.Server.UnpublishTunnel(cctx, &protocol.UnpublishTunnelRequest{Hostname: host})
				rec.Result = resStr(err)
				w.afterUnpublish(ci, host, owner, err, before)
				sig := ""
				if rel != "never" && rel != "garbage" {
					sig = fmt.Sprintf("unpublish/%s/%v/%v", rel, spoof, err == nil)
				}
				w.r.Case(sig)
			default:
				rec.Op = "release"
				_, err := lab.Server.ReleaseTunnel(cctx, &protocol.ReleaseTunnelRequest{Hostname: host})
				rec.Result = resStr(err)
				w.afterRelease(ci, host, owner, err, before)
				if owner && err == nil {
					released = append(released, host)
				}
				sig := ""
				if rel != "never" && rel != "garbage" {
					sig = fmt.Sprintf("release/%s/%v/%v", rel, spoof, err == nil)
				}
				w.r.Case(sig)
			}
		}
		w.hist.Ops = append(w.hist.Ops, rec)
		if !w.stopped {
			w.compare()
		}
	}
	if !w.stopped {
		w.concurrentPhase(rng)
	}
	return w.hist
}

// concurrentPhase: at the end of a history, for up to six hostnames a client owns, that client's
// PublishTunnel and ReleaseTunnel of the same hostname are issued at the same time, with a seeded
// 0-2 ms stall in front of every lease acquisition (the point where one client's requests
// serialise). Whatever order the two take: once both have returned, a hostname that is no longer
// registered to anybody has no route slots left.
func (w *world) concurrentPhase(rng *rand.Rand) {
	ctx := context.Background()
	type own struct {
		h  string
		ci int
	}
	var owns []own
	for h, ci := range w.m.reg {
		owns = append(owns, own{h, ci})
	}
	sort.Slice(owns, func(i, j int) bool { return owns[i].h < owns[j].h })
	for len(owns) < 6 {
		ci := rng.Intn(len(w.clients))
		resp, err := w.lab.Server.GenerateHostname(rpcCtx(w.clients[ci], nil, 100000+len(owns)), &protocol.GenerateHostnameRequest{})
		if err != nil {
			break
		}
		owns = append(owns, own{resp.GetHostname(), ci})
	}
	if len(owns) > 6 {
		owns = owns[:6]
	}
	delays := make([]time.Duration, 64)
	for i := range delays {
		delays[i] = time.Duration(rng.Intn(2000)) * time.Microsecond
	}
	var nth atomic.Int64
	w.lab.Ring.KV.SetBefore(func(op, key string) { time.Sleep(delays[int(nth.Add(1))%len(delays)]) })
	defer w.lab.Ring.KV.SetBefore(nil)
	for i, o := range owns {
		caller := w.clients[o.ci]
		var perr, rerr error
		var wg sync.WaitGroup
		wg.Add(2)
		go func() {
			defer wg.Done()
			_, perr = w.lab.Server.PublishTunnel(rpcCtx(caller, nil, 200000+2*i), &protocol.PublishTunnelRequest{Hostname: o.h, Servers: []*protocol.Node{{Id: w.servers[0].Tunnel.Id, Address: w.servers[0].Tunnel.Address}, {Id: w.servers[1].Tunnel.Id, Address: w.servers[1].Tunnel.Address}}})
		}()
		go func() {
			defer wg.Done()
			_, rerr = w.lab.Server.ReleaseTunnel(rpcCtx(caller, nil, 200001+2*i), &protocol.ReleaseTunnelRequest{Hostname: o.h})
		}()
		wg.Wait()
		after := w.dump()
		registered := false
		for _, hs := range after.regs {
			for _, h := range hs {
				if h == o.h {
					registered = true
				}
			}
		}
		w.hist.Ops = append(w.hist.Ops, opRecord{Step: w.step + 1 + i, Caller: caller.Name, Op: "publish||release (concurrent)", Hostname: o.h, Result: "publish: " + resStr(perr) + "; release: " + resStr(rerr)})
		w.r.Case(fmt.Sprintf("concurrent/publish||release/pub=%v/rel=%v/registered-after=%v", perr == nil, rerr == nil, registered))
		w.r.Count("concurrent_publish_release_pairs", 1)
		w.r.Count(fmt.Sprintf("concurrent_outcome/publish_ok=%v/release_ok=%v/registered_after=%v/routes_after=%d", perr == nil, rerr == nil, registered, len(after.routes[o.h])), 1)
		if !registered && len(after.routes[o.h]) > 0 {
			w.step += 1 + i
			w.viol("routes-left-for-released-hostname", fmt.Sprintf("%s published and released %q at the same time (publish: %s, release: %s): the hostname is no longer registered to anybody, yet %d route slot(s) still name a client", caller.Name, o.h, resStr(perr), resStr(rerr), len(after.routes[o.h])))
			return
		}
		_ = ctx
	}
}

func resStr(err error) string {
	if err == nil {
		return "ok"
	}
	return "error: " + err.Error()
}

func rpcCtx(c *tunlab.Client, claimed *protocol.Node, n int) context.Context {
	return tunlab.DelegationCtx(context.Background(), c.Delegate(&tunlab.DeadConn{Local: tunlab.SeqAddr(0), Remote: tunlab.SeqAddr(n)}, claimed))
}

func (w *world) pickHost(rng *rand.Rand, ci int, released []string) (string, string) {
	var own, foreign []string
	for h, c := range w.m.reg {
		if c == ci {
			own = append(own, h)
		} else {
			foreign = append(foreign, h)
		}
	}
	sort.Strings(own)
	sort.Strings(foreign)
	x := rng.Intn(100)
	switch {
	case x < 50 && len(own) > 0:
		return own[rng.Intn(len(own))], "own"
	case x < 80 && len(foreign) > 0:
		return foreign[rng.Intn(len(foreign))], "foreign"
	case x < 90 && len(released) > 0:
		h := released[rng.Intn(len(released))]
		if c, ok := w.m.reg[h]; ok { // registered again meanwhile
			if c == ci {
				return h, "own"
			}
			return h, "foreign"
		}
		return h, "released"
	case x < 95:
		return []string{"", "/", "a/1", "../hostnames", "x/../../y", strings.Repeat("z", 300)}[rng.Intn(6)], "garbage"
	}
	return fmt.Sprintf("never-registered-%d", rng.Intn(1000)), "never"
}

// pickServers builds a request server list. distinct = the distinct requested
// servers by address in request order.
func (w *world) pickServers(rng *rand.Rand) (list []*protocol.Node, shape string, distinct []*srv, allKnown bool) {
	n := []int{0, 1, 1, 2, 2, 3, 3, 3, 4, 5}[rng.Intn(10)]
	seen := map[string]bool{}
	allKnown = true
	dup, hasNil := false, false
	for i := 0; i < n; i++ {
		if rng.Intn(10) == 0 {
			list = append(list, nil)
			hasNil = true
			continue
		}
		var s *srv
		if rng.Intn(12) == 0 {
			s = w.servers[5] // no destination record
		} else {
			s = w.servers[rng.Intn(5)]
		}
		nd := &protocol.Node{Id: s.Tunnel.Id, Address: s.Tunnel.Address}
		if rng.Intn(4) == 0 {
			nd.Id = uint64(rng.Int63n(1 << 40)) // same address, different claimed id
		}
		list = append(list, nd)
		if seen[s.Tunnel.Address] {
			dup = true
			continue
		}
		seen[s.Tunnel.Address] = true
		distinct = append(distinct, s)
		if !s.Known {
			allKnown = false
		}
	}
	shape = fmt.Sprintf("d%d", len(distinct))
	if dup {
		shape += "+dup"
	}
	if hasNil {
		shape += "+nil"
	}
	if !allKnown {
		shape += "+norecord"
	}
	return
}

// ---------------------------------------------------------------- DHT content

type content struct {
	regs    map[string][]string                      // client token -> hostnames
	customs map[string]*protocol.CustomHostname      // hostname -> binding
	routes  map[string]map[int]*protocol.TunnelRoute // hostname -> slot -> route
	raw     map[string]tunlab.Entry
	badKeys []string
}

func (w *world) dump() *content {
	d, err := w.lab.Ring.KV.Dump()
	if err != nil {
		panic(err)
	}
	c := &content{regs: map[string][]string{}, customs: map[string]*protocol.CustomHostname{}, routes: map[string]map[int]*protocol.TunnelRoute{}, raw: d}
	for k, e := range d {
		switch {
		case strings.HasPrefix(k, "/tunnel/client/lease/"), strings.HasPrefix(k, "/destination/"), strings.HasPrefix(k, "/tunnel/client/token/"):
		case strings.HasPrefix(k, "/tunnel/client/hostnames/"):
			c.regs[strings.TrimPrefix(k, "/tunnel/client/hostnames/")] = e.Children
			if len(e.Simple) > 0 {
				c.badKeys = append(c.badKeys, k+" (simple value)")
			}
		case strings.HasPrefix(k, "/tunnel/client/custom/"):
			if len(e.Simple) == 0 {
				continue
			}
			b := &protocol.CustomHostname{}
			if err := b.UnmarshalVT(e.Simple); err != nil {
				c.badKeys = append(c.badKeys, k+" (undecodable)")
				continue
			}
			c.customs[strings.TrimPrefix(k, "/tunnel/client/custom/")] = b
		case strings.HasPrefix(k, "/tunnel/bundle/"):
			if len(e.Simple) == 0 {
				continue
			}
			rest := strings.TrimPrefix(k, "/tunnel/bundle/")
			i := strings.LastIndex(rest, "/")
			slot, err := strconv.Atoi(rest[i+1:])
			if i < 0 || err != nil {
				c.badKeys = append(c.badKeys, k)
				continue
			}
			rt := &protocol.TunnelRoute{}
			if err := rt.UnmarshalVT(e.Simple); err != nil {
				c.badKeys = append(c.badKeys, k+" (undecodable)")
				continue
			}
			if c.routes[rest[:i]] == nil {
				c.routes[rest[:i]] = map[int]*protocol.TunnelRoute{}
			}
			c.routes[rest[:i]][slot] = rt
		default:
			c.badKeys = append(c.badKeys, k)
		}
	}
	return c
}

// sameExceptLeases: did a refused call change anything in the DHT?
func changed(before, after *content) string {
	var diffs []string
	keys := map[string]bool{}
	for k := range before.raw {
		keys[k] = true
	}
	for k := range after.raw {
		keys[k] = true
	}
	for k := range keys {
		if strings.HasPrefix(k, "/tunnel/client/lease/") {
			continue
		}
		a, b := before.raw[k], after.raw[k]
		if !bytes.Equal(a.Simple, b.Simple) || strings.Join(a.Children, "\x00") != strings.Join(b.Children, "\x00") {
			diffs = append(diffs, k)
		}
	}
	sort.Strings(diffs)
	return strings.Join(diffs, ", ")
}

func (w *world) afterPublish(ci int, host string, owner bool, distinct []*srv, allKnown bool, err error, before *content) {
	after := w.dump()
	caller := w.clients[ci]
	if !owner {
		if err == nil {
			w.viol("publish-by-non-owner-accepted", fmt.Sprintf("%s published %q, which is not registered to it", caller.Name, host))
		}
		if d := changed(before, after); d != "" {
			w.viol("refused-publish-changed-dht", fmt.Sprintf("%s's publish of %q was refused (%v) but changed %s", caller.Name, host, err, d))
		}
		return
	}
	if err != nil {
		if len(distinct) >= 1 && len(distinct) <= tun.NumRedundantLinks && allKnown {
			w.viol("owner-publish-refused", fmt.Sprintf("%s owns %q and asked for %d distinct servers with records, refused: %v", caller.Name, host, len(distinct), err))
		}
		if d := changed(before, after); d != "" {
			// a failed publish of the owner: the statement does not pin partial effects; resync
			st := w.m.routes[host]
			if st != nil {
				for i := range st {
					st[i].known = false
				}
			}
		}
		return
	}
	// success: slots 1..k hold one route per distinct requested server
	if len(distinct) == 0 {
		w.viol("publish-without-servers-accepted", fmt.Sprintf("publish of %q with no usable server succeeded", host))
		return
	}
	got := after.routes[host]
	k := len(distinct)
	if k > tun.NumRedundantLinks {
		// "at most three": either refuse or store three; accepting is fine only if <= 3 routes name requested servers
		k = tun.NumRedundantLinks
	}
	st := w.m.routes[host]
	if st == nil {
		st = &[3]slotState{{known: true}, {known: true}, {known: true}}
		w.m.routes[host] = st
	}
	usedSrv := map[string]bool{}
	for slot := 1; slot <= k; slot++ {
		rt := got[slot]
		if rt == nil {
			w.viol("publish-slot-empty", fmt.Sprintf("publish of %q with %d distinct servers succeeded, slot %d holds no route", host, len(distinct), slot))
			continue
		}
		if !nodeEq(rt.GetClientDestination(), caller.Node) {
			w.viol("route-names-other-client", fmt.Sprintf("slot %d of %q names client %v, the caller's verified identity is %v", slot, host, rt.GetClientDestination(), caller.Node))
		}
		if rt.GetHostname() != host {
			w.viol("route-hostname", fmt.Sprintf("slot %d of %q carries hostname %q", slot, host, rt.GetHostname()))
		}
		var match *srv
		for _, s := range distinct {
			if s.Known && nodeEq(rt.GetTunnelDestination(), s.Tunnel) && nodeEq(rt.GetChordDestination(), s.Chord) {
				match = s
			}
		}
		if match == nil {
			w.viol("route-names-unrequested-server", fmt.Sprintf("slot %d of %q names server %v/%v, not the destination record of a requested server", slot, host, rt.GetTunnelDestination(), rt.GetChordDestination()))
		} else {
			if usedSrv[match.Name] {
				w.viol("route-server-repeated", fmt.Sprintf("server %s occupies two slots of %q", match.Name, host))
			}
			usedSrv[match.Name] = true
			st[slot-1] = slotState{known: true, present: true, server: match.Tunnel.Address}
		}
	}
	for slot := k + 1; slot <= tun.NumRedundantLinks; slot++ {
		st[slot-1].known = false // not pinned by the statement
	}
}

func (w *world) afterUnpublish(ci int, host string, owner bool, err error, before *content) {
	after := w.dump()
	caller := w.clients[ci]
	if !owner {
		if err == nil {
			w.viol("unpublish-by-non-owner-accepted", fmt.Sprintf("%s unpublished %q, which is not registered to it", caller.Name, host))
		}
		if d := changed(before, after); d != "" {
			w.viol("refused-unpublish-changed-dht", fmt.Sprintf("%s's unpublish of %q was refused (%v) but changed %s", caller.Name, host, err, d))
		}
		return
	}
	if err != nil {
		w.viol("owner-unpublish-refused", fmt.Sprintf("%s owns %q, unpublish refused: %v", caller.Name, host, err))
		return
	}
	if len(after.routes[host]) == 0 {
		w.r.Count("unpublish_left_no_route", 1)
	} else {
		w.r.Count("unpublish_left_routes", 1)
	}
	if st := w.m.routes[host]; st != nil {
		for i := range st {
			st[i].known = false
		}
	}
}

func (w *world) afterRelease(ci int, host string, owner bool, err error, before *content) {
	after := w.dump()
	caller := w.clients[ci]
	if !owner {
		if err == nil {
			w.viol("release-by-non-owner-accepted", fmt.Sprintf("%s released %q, which is not registered to it", caller.Name, host))
		}
		if d := changed(before, after); d != "" {
			w.viol("refused-release-changed-dht", fmt.Sprintf("%s's release of %q was refused (%v) but changed %s", caller.Name, host, err, d))
		}
		return
	}
	if err != nil {
		w.viol("owner-release-refused", fmt.Sprintf("%s owns %q, release refused: %v", caller.Name, host, err))
		return
	}
	if len(after.routes[host]) != 0 {
		w.viol("release-left-routes", fmt.Sprintf("release of %q left routes in slots %v", host, keysOf(after.routes[host])))
	}
	for _, h := range after.regs[string(caller.Token)] {
		if h == host {
			w.viol("release-left-registration", fmt.Sprintf("%q is still registered to %s after release", host, caller.Name))
		}
	}
	if _, ok := after.customs[host]; ok {
		w.viol("release-left-custom-binding", fmt.Sprintf("custom hostname %q is still bound after release", host))
	}
	delete(w.m.reg, host)
	delete(w.m.custom, host)
	w.m.routes[host] = &[3]slotState{{known: true}, {known: true}, {known: true}}
}

func keysOf(m map[int]*protocol.TunnelRoute) []int {
	var out []int
	for k := range m {
		out = append(out, k)
	}
	sort.Ints(out)
	return out
}

// validateCustom binds a custom hostname to the caller through the real
// AcmeValidate (proof of work made just in time, CNAME answer scripted).
func (w *world) validateCustom(caller *tunlab.Client, ci int, cctx context.Context, host string) (bool, string) {
	name, content := acme.GenerateCustomRecord(host, tunlab.Acme, caller.Token)
	w.lab.Resolver.Set(name, content)
	for attempt := 0; attempt < 6; attempt++ {
		p, err := tunlab.SolveAcme(caller.Key, host)
		if err != nil {
			return false, "proof of work generation failed: " + err.Error()
		}
		_, verr := w.lab.Server.AcmeValidate(cctx, &protocol.ValidateRequest{Proof: p.P, Hostname: host})
		if verr == nil {
			w.m.reg[host] = ci
			w.m.custom[host] = ci
			return true, ""
		}
		if p.Fresh() {
			w.viol("custom-validate-failed", fmt.Sprintf("AcmeValidate of %q with a fresh proof and the right CNAME failed: %v", host, verr))
			return false, ""
		}
	}
	return false, "could not get a proof of work to the server inside its acceptance window in 6 attempts (machine too loaded)"
}

// compare checks the whole DHT against the model.
func (w *world) compare() {
	c := w.dump()
	for _, k := range c.badKeys {
		w.viol("unexpected-dht-key", "the DHT holds "+k)
	}
	// registrations
	for ci, cl := range w.clients {
		var want []string
		for h, o := range w.m.reg {
			if o == ci {
				want = append(want, h)
			}
		}
		sort.Strings(want)
		got := append([]string(nil), c.regs[string(cl.Token)]...)
		sort.Strings(got)
		if strings.Join(want, ",") != strings.Join(got, ",") {
			w.viol("registrations-differ", fmt.Sprintf("%s: DHT registrations %v, model %v", cl.Name, got, want))
			w.stopped = true
		}
	}
	for tok := range c.regs {
		found := false
		for _, cl := range w.clients {
			if string(cl.Token) == tok {
				found = true
			}
		}
		if !found && len(c.regs[tok]) > 0 {
			w.viol("registration-for-unknown-token", fmt.Sprintf("hostnames %v registered under token %q, which no client holds", c.regs[tok], tok))
		}
	}
	// custom bindings
	for h, b := range c.customs {
		o, ok := w.m.custom[h]
		if !ok {
			w.viol("unexpected-custom-binding", fmt.Sprintf("custom hostname %q bound to %v", h, b.GetClientIdentity()))
			continue
		}
		if !bytes.Equal(b.GetClientToken().GetToken(), w.clients[o].Token) || !nodeEq(b.GetClientIdentity(), w.clients[o].Node) {
			w.viol("custom-binding-names-other-client", fmt.Sprintf("custom hostname %q bound to %v, model says %s", h, b.GetClientIdentity(), w.clients[o].Name))
		}
	}
	for h := range w.m.custom {
		if _, ok := c.customs[h]; !ok {
			w.viol("custom-binding-lost", fmt.Sprintf("binding of %q disappeared", h))
			w.stopped = true
		}
	}
	// routes: every stored route names the client its hostname is registered to
	for h, slots := range c.routes {
		o, registered := w.m.reg[h]
		for slot, rt := range slots {
			if slot < 1 || slot > tun.NumRedundantLinks {
				w.viol("route-slot-out-of-range", fmt.Sprintf("route stored under slot %d of %q", slot, h))
			}
			if !registered {
				w.viol("route-for-unregistered-hostname", fmt.Sprintf("slot %d of %q holds a route to %v although the hostname is registered to nobody", slot, h, rt.GetClientDestination()))
				continue
			}
			if !nodeEq(rt.GetClientDestination(), w.clients[o].Node) {
				w.viol("route-names-non-owner", fmt.Sprintf("slot %d of %q (registered to %s) names client %v", slot, h, w.clients[o].Name, rt.GetClientDestination()))
			}
		}
	}
	for h, st := range w.m.routes {
		for i, s := range st {
			if !s.known {
				continue
			}
			rt := c.routes[h][i+1]
			if s.present != (rt != nil) {
				w.viol("route-presence-differs", fmt.Sprintf("slot %d of %q: DHT present=%v, model present=%v", i+1, h, rt != nil, s.present))
				st[i].known = false
			} else if rt != nil && rt.GetTunnelDestination().GetAddress() != s.server {
				w.viol("route-server-differs", fmt.Sprintf("slot %d of %q: DHT names %s, model %s", i+1, h, rt.GetTunnelDestination().GetAddress(), s.server))
				st[i].known = false
			}
		}
	}
	_ = chord.Hash
}
