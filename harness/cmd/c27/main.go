// C27 — gateway connections reach only a client published for the hostname.
//
// Server.DialClient (the node under test, "A") is driven with scripted route
// slots and scripted transports. Remote routes lead to *real* tun/server.Server
// instances (B1..B3, mounted on a real transport.StreamRouter, so the real
// handleProxyConn answers the real getConn) or to a scripted misbehaving remote
// end. Fake client ends record the Link frame they receive and echo, so the
// oracle can tell which client the returned connection is attached to.
package main

import (
	"context"
	"errors"
	"fmt"
	"io"
	"math/rand"
	"net"
	"sort"
	"strings"
	"sync"
	"sync/atomic"
	"time"

	"verifharness/lab/ev"
	"verifharness/lab/tunlab"

	"go.miragespace.co/specter/spec/protocol"
	"go.miragespace.co/specter/spec/rpc"
	"go.miragespace.co/specter/spec/transport"
	"go.miragespace.co/specter/spec/tun"
)

type outcome int

const (
	oNone          outcome = iota // slot empty
	oLookupErr                    // slot lookup fails
	oLOk                          // local route, client connected
	oLNoDirect                    // local route, client not connected to this node
	oLErr                         // local route, transport error
	oLDead                        // local route, stream opens but is already dead (link cannot be sent)
	oROk                          // remote route, real remote server, client connected there
	oRNoDirect                    // remote route, real remote server, client not connected there
	oRErr                         // remote route, real remote server, its dial to the client errors
	oRWrong                       // remote route whose tunnel destination is not the server it is sent to
	oRDialErr                     // remote route, dialing the remote node fails
	oRDialNoDirect                // remote route, dialing the remote node reports no-direct
	oRGarbage                     // remote route, remote end answers an undecodable status
	oRClosed                      // remote route, remote end closes without status
	oRSilent                      // remote route, remote end never answers (3 s read deadline in getConn)
)

var oname = map[outcome]string{oNone: "none", oLookupErr: "lookuperr", oLOk: "L.ok", oLNoDirect: "L.nodirect", oLErr: "L.err", oLDead: "L.dead",
	oROk: "R.ok", oRNoDirect: "R.nodirect", oRErr: "R.err", oRWrong: "R.wrongserver", oRDialErr: "R.dialerr", oRDialNoDirect: "R.dialnodirect",
	oRGarbage: "R.garbage", oRClosed: "R.closed", oRSilent: "R.silent"}

func (o outcome) isRoute() bool { return o >= oLOk }
func (o outcome) isLocal() bool { return o >= oLOk && o <= oLDead }
func (o outcome) reach() string {
	switch o {
	case oLOk, oROk:
		return "ok"
	case oLNoDirect, oRNoDirect, oRDialNoDirect:
		return "nodirect"
	case oNone, oLookupErr:
		return "-"
	}
	return "error"
}

type dialEvent struct {
	Server    string `json:"server"`
	Transport string `json:"transport"`
	Peer      string `json:"peer"`
	Kind      string `json:"kind"`
	Result    string `json:"result"`
}

type clientEnd struct {
	server, client string
	expected       bool // the (server, client) pair is in H's routes
	conn           net.Conn
	srvSide        net.Conn
	done           chan struct{}
	mu             sync.Mutex
	link           *protocol.Link
	linkErr        string
}

type caseState struct {
	name   string
	host   string
	slots  [3]outcome
	values map[string]func() ([]byte, error)
	// tunnel dial script: server|clientAddr -> outcome of the dial
	tunnelScript map[string]outcome
	// chord dial script (on A): chord address -> slot
	chordScript map[string]int
	fx          *fixture

	mu      sync.Mutex
	log     []dialEvent
	ends    []*clientEnd
	closers []io.Closer
	viols   [][2]string
	stop    chan struct{}
}

func (c *caseState) viol(key, what string) {
	c.mu.Lock()
	c.viols = append(c.viols, [2]string{key, what})
	c.mu.Unlock()
}

func (c *caseState) event(e dialEvent) {
	c.mu.Lock()
	c.log = append(c.log, e)
	c.mu.Unlock()
}

// newClientEnd opens a stream to a fake client: the client reads one Link
// frame, then echoes everything it reads prefixed by its own name.
func (c *caseState) newClientEnd(server, client string, expected bool) net.Conn {
	s, cl := tunlab.Pipe()
	e := &clientEnd{server: server, client: client, expected: expected, conn: cl, srvSide: s, done: make(chan struct{})}
	c.mu.Lock()
	c.ends = append(c.ends, e)
	c.closers = append(c.closers, s)
	c.mu.Unlock()
	go func() {
		defer close(e.done)
		l := &protocol.Link{}
		if err := rpc.BoundedReceive(cl, l, 4096); err != nil {
			e.mu.Lock()
			e.linkErr = err.Error()
			e.mu.Unlock()
			return
		}
		e.mu.Lock()
		e.link = l
		e.mu.Unlock()
		buf := make([]byte, 512)
		for {
			n, err := cl.Read(buf)
			if n > 0 {
				if _, werr := cl.Write([]byte(server + "|" + client + "|" + string(buf[:n]))); werr != nil {
					return
				}
			}
			if err != nil {
				return
			}
		}
	}()
	return s
}

func (c *caseState) dialTunnel(server string, peer *protocol.Node, kind protocol.Stream_Type) (net.Conn, error) {
	ev := dialEvent{Server: server, Transport: "tunnel", Peer: peer.GetAddress(), Kind: kind.String()}
	o, ok := c.tunnelScript[server+"|"+peer.GetAddress()]
	if kind != protocol.Stream_DIRECT {
		ok = false
	}
	var conn net.Conn
	var err error
	switch {
	case !ok:
		// not a (server, client) pair of H's routes: serve it so that a connection
		// handed over by mistake is observable
		ev.Result = "UNEXPECTED"
		conn = c.newClientEnd(server, peer.GetAddress(), false)
	case o == oLOk || o == oROk:
		ev.Result = "conn"
		conn = c.newClientEnd(server, peer.GetAddress(), true)
	case o == oLNoDirect || o == oRNoDirect:
		ev.Result = "nodirect"
		err = transport.ErrNoDirect
		if len(c.host)%2 == 0 {
			err = fmt.Errorf("dialing client: %w", transport.ErrNoDirect)
		}
	case o == oLDead:
		ev.Result = "dead-conn"
		s, cl := tunlab.Pipe()
		cl.Close()
		c.mu.Lock()
		c.closers = append(c.closers, s)
		c.mu.Unlock()
		conn = s
	default:
		ev.Result = "error"
		err = errors.New("scripted transport failure")
	}
	c.event(ev)
	return conn, err
}

func (c *caseState) dialChord(peer *protocol.Node, kind protocol.Stream_Type) (net.Conn, error) {
	ev := dialEvent{Server: "A", Transport: "chord", Peer: peer.GetAddress(), Kind: kind.String()}
	slot, ok := c.chordScript[peer.GetAddress()]
	if !ok || kind != protocol.Stream_PROXY {
		ev.Result = "UNEXPECTED"
		c.event(ev)
		c.viol("unexpected-chord-dial", fmt.Sprintf("node dialed %s (%s), which is no chord destination of %s's routes", peer.GetAddress(), kind, c.host))
		return nil, errors.New("unexpected dial")
	}
	o := c.slots[slot]
	switch o {
	case oRDialErr:
		ev.Result = "error"
		c.event(ev)
		return nil, errors.New("scripted chord transport failure")
	case oRDialNoDirect:
		ev.Result = "nodirect"
		c.event(ev)
		return nil, transport.ErrNoDirect
	case oROk, oRNoDirect, oRErr, oRWrong:
		// real remote server: its StreamRouter gets the other end
		mine, theirs := tunlab.Pipe()
		c.mu.Lock()
		c.closers = append(c.closers, mine)
		c.mu.Unlock()
		b := c.fx.B[slot]
		b.Chord.Feed(&transport.StreamDelegate{Conn: theirs, Identity: peer, Kind: kind})
		ev.Result = "conn(real remote)"
		c.event(ev)
		return mine, nil
	}
	// scripted remote end
	mine, theirs := tunlab.Pipe()
	c.mu.Lock()
	c.closers = append(c.closers, mine, theirs)
	c.mu.Unlock()
	go func() {
		rt := &protocol.TunnelRoute{}
		if err := rpc.BoundedReceive(theirs, rt, 4096); err != nil {
			return
		}
		switch o {
		case oRGarbage:
			if len(c.host)%2 == 0 {
				theirs.Write([]byte{0, 0, 0, 5, 0x12, 0x7f, 0x01, 0x02, 0x03}) // truncated field
			} else {
				theirs.Write([]byte{0, 0x10, 0, 0}) // announces a 1 MiB status
			}
		case oRClosed:
			theirs.Close()
		case oRSilent:
			<-c.stop
		}
	}()
	ev.Result = "conn(scripted remote)"
	c.event(ev)
	return mine, nil
}

type fixture struct {
	A   *tunlab.Lab
	B   [3]*tunlab.Lab
	cur atomic.Pointer[caseState]
	ca  [3]*protocol.Node // clients
}

func newFixture(w int) *fixture {
	f := &fixture{}
	var err error
	script := &tunlab.ScriptVNode{Ident: &protocol.Node{Id: uint64(100 + w), Address: fmt.Sprintf("chord-a-w%d:1", w)}}
	script.GetFn = func(_ context.Context, key string) ([]byte, error) {
		c := f.cur.Load()
		fn, ok := c.values[key]
		if !ok {
			c.viol("unexpected-key", fmt.Sprintf("lookup of %q read key %q", c.host, key))
			return nil, errors.New("unexpected key")
		}
		return fn()
	}
	f.A, err = tunlab.NewLab(tunlab.Options{Script: script,
		TunnelIdent: &protocol.Node{Id: uint64(200 + w), Address: fmt.Sprintf("tun-a-w%d:2", w)},
		ChordIdent:  script.Ident})
	if err != nil {
		panic(err)
	}
	f.A.Tunnel.DialFn = func(_ context.Context, peer *protocol.Node, kind protocol.Stream_Type) (net.Conn, error) {
		return f.cur.Load().dialTunnel("A", peer, kind)
	}
	f.A.Chord.DialFn = func(_ context.Context, peer *protocol.Node, kind protocol.Stream_Type) (net.Conn, error) {
		return f.cur.Load().dialChord(peer, kind)
	}
	for i := range f.B {
		i := i
		f.B[i], err = tunlab.NewLab(tunlab.Options{Script: &tunlab.ScriptVNode{Ident: &protocol.Node{Id: uint64(1000 + 10*w + i), Address: fmt.Sprintf("chord-b%d-w%d:1", i, w)}},
			TunnelIdent: &protocol.Node{Id: uint64(2000 + 10*w + i), Address: fmt.Sprintf("tun-b%d-w%d:2", i, w)},
			ChordIdent:  &protocol.Node{Id: uint64(1000 + 10*w + i), Address: fmt.Sprintf("chord-b%d-w%d:1", i, w)}})
		if err != nil {
			panic(err)
		}
		f.B[i].Tunnel.DialFn = func(_ context.Context, peer *protocol.Node, kind protocol.Stream_Type) (net.Conn, error) {
			return f.cur.Load().dialTunnel(fmt.Sprintf("B%d", i), peer, kind)
		}
		f.B[i].Attach()
	}
	return f
}

func (f *fixture) close() {
	f.A.Close()
	for _, b := range f.B {
		b.Close()
	}
}

type report struct {
	Case     string      `json:"case"`
	Hostname string      `json:"hostname"`
	Slots    []string    `json:"slots"`
	Same     bool        `json:"same_client_on_all_servers"`
	Err      string      `json:"err,omitempty"`
	Attached string      `json:"returned_conn_attached_to,omitempty"`
	Links    []string    `json:"clients_that_received_link"`
	Dials    []dialEvent `json:"dials"`
	// dials of a second connection to the same hostname (cached routes)
	SecondDials []dialEvent `json:"second_connection_dials,omitempty"`
}

func main() {
	r := ev.Start("C27", "exploration")
	r.SetRule("complete product of per-slot outcomes {empty, lookup error, local route x {client connected, no-direct, transport error, dead stream}, remote route x {client connected, no-direct, remote dial error, wrong server} through a real remote tun/server (real handleProxyConn), remote route x {node dial error, node dial no-direct, undecodable status, closed without status} through a scripted remote} ^ 3 slots = 14^3 = 2744 route sets, each run through the real DialClient with a fresh hostname, followed (when the first connection succeeded and a route through this node exists) by a second connection to the same hostname whose first attempt must again go through this node; plus seeded cases with a remote that never answers (3 s status deadline). Distinct = outcome vector x same-client flag; non-trivial = at least one slot holds a route.")
	r.Assume("'recorded in H's routes' is read as the (client, server) pair of a stored route: a client reached through a server that no route of H names counts as not recorded")
	r.Assume("routes exist, no client reachable: if at least one attempt reported no-direct the outcome must be not-connected (in any order of the failures); when every failure is some other error the statement is not specific (the code falls back to not-found): recorded, not judged")
	r.Assume("a reachable client of H must actually be reached (DialClient may not fail while some route's client accepts the stream)")
	rng := r.Rand("c27")

	base := []outcome{oNone, oLookupErr, oLOk, oLNoDirect, oLErr, oLDead, oROk, oRNoDirect, oRErr, oRWrong, oRDialErr, oRDialNoDirect, oRGarbage, oRClosed}
	type cs struct {
		name  string
		slots [3]outcome
		seed  int64
	}
	var cases []cs
	rounds := r.Pick(1, 6)
	for round := 0; round < rounds; round++ {
		for _, a := range base {
			for _, b := range base {
				for _, c := range base {
					cases = append(cases, cs{fmt.Sprintf("r%d/%s/%s/%s", round, oname[a], oname[b], oname[c]), [3]outcome{a, b, c}, rng.Int63()})
				}
			}
		}
	}
	nSilent := r.Pick(16, 96)
	for i := 0; i < nSilent; i++ {
		s := [3]outcome{base[rng.Intn(len(base))], base[rng.Intn(len(base))], base[rng.Intn(len(base))]}
		s[rng.Intn(3)] = oRSilent
		cases = append(cases, cs{fmt.Sprintf("silent%d/%s/%s/%s", i, oname[s[0]], oname[s[1]], oname[s[2]]), s, rng.Int63()})
	}
	// silent cases first: they wait 3 s each inside the code under test
	sort.SliceStable(cases, func(i, j int) bool {
		return strings.HasPrefix(cases[i].name, "silent") && !strings.HasPrefix(cases[j].name, "silent")
	})

	const workers = 32
	fx := make([]*fixture, workers)
	for w := range fx {
		fx[w] = newFixture(w)
	}
	var mu sync.Mutex
	fallback := map[string]int{}
	sampled := map[string]bool{}
	var nDials, nLinks, nConn int64
	tunlab.ParallelW(len(cases), workers, func(w, i int) {
		c := cases[i]
		if !r.WantCase(c.name) {
			return
		}
		rep, viols, incon, errClass := runCase(fx[w], c.name, c.slots, rand.New(rand.NewSource(c.seed)), i)
		hasRoute := false
		for _, o := range c.slots {
			if o.isRoute() {
				hasRoute = true
			}
		}
		sig := ""
		if hasRoute {
			sig = fmt.Sprintf("%s|%v", strings.Join(rep.Slots, "/"), rep.Same)
		}
		r.Case(sig)
		mu.Lock()
		nDials += int64(len(rep.Dials))
		nLinks += int64(len(rep.Links))
		if rep.Err == "" {
			nConn++
		}
		if errClass != "" {
			fallback[errClass]++
		}
		kind := rep.Attached != ""
		k := fmt.Sprintf("%v/%d", kind, len(rep.Dials))
		if !sampled[k] && len(rep.Dials) >= 2 && len(sampled) < 6 {
			sampled[k] = true
			r.Sample(rep)
		}
		mu.Unlock()
		for _, v := range viols {
			r.Violation(v[0], c.name, v[1], rep)
		}
		if incon != "" {
			r.Inconclusive(c.name + ": " + incon)
		}
	})
	for _, f := range fx {
		f.close()
	}
	r.Count("dial_events", nDials)
	r.Count("links_received_by_clients", nLinks)
	r.Count("connections_returned", nConn)
	r.Extra("outcome_when_routes_exist_and_some_attempt_failed_with_non_nodirect_error", fallback)
	r.Finish()
}

func runCase(f *fixture, name string, slots [3]outcome, rng *rand.Rand, idx int) (report, [][2]string, string, string) {
	host := fmt.Sprintf("h%d-%x.%s", idx, rng.Int63n(1<<30), []string{"example.org", "tunlab-apex.test", "a.b.c.example"}[rng.Intn(3)])
	c := &caseState{name: name, host: host, slots: slots, fx: f, values: map[string]func() ([]byte, error){},
		tunnelScript: map[string]outcome{}, chordScript: map[string]int{}, stop: make(chan struct{})}
	same := rng.Intn(2) == 0
	shared := &protocol.Node{Id: uint64(rng.Int63n(1 << 40)), Address: fmt.Sprintf("v2:%d:shared-%s", rng.Intn(1000), name), Rendezvous: true}
	usedLocalShared := false
	type want struct{ server, client string }
	routePair := map[int]want{}
	for i, o := range slots {
		slot := i + 1
		key := tun.RoutingKey(host, slot)
		switch o {
		case oNone:
			c.values[key] = func() ([]byte, error) { return nil, nil }
			continue
		case oLookupErr:
			c.values[key] = func() ([]byte, error) { return nil, errors.New("scripted lookup failure") }
			continue
		}
		client := &protocol.Node{Id: uint64(rng.Int63n(1 << 40)), Address: fmt.Sprintf("v2:%d:client%d-%s", rng.Intn(1000), slot, name), Rendezvous: true}
		if same && !(o.isLocal() && usedLocalShared) {
			client = shared
			if o.isLocal() {
				usedLocalShared = true
			}
		}
		rt := &protocol.TunnelRoute{ClientDestination: client, Hostname: host}
		switch {
		case o.isLocal():
			rt.TunnelDestination = f.A.Tunnel.Ident
			rt.ChordDestination = f.A.Chord.Ident
			c.tunnelScript["A|"+client.GetAddress()] = o
			routePair[i] = want{"A", client.GetAddress()}
		case o == oROk || o == oRNoDirect || o == oRErr:
			rt.TunnelDestination = f.B[i].Tunnel.Ident
			rt.ChordDestination = f.B[i].Chord.Ident
			c.tunnelScript[fmt.Sprintf("B%d|%s", i, client.GetAddress())] = o
			c.chordScript[rt.ChordDestination.GetAddress()] = i
			routePair[i] = want{fmt.Sprintf("B%d", i), client.GetAddress()}
		case o == oRWrong:
			rt.TunnelDestination = &protocol.Node{Id: 77, Address: fmt.Sprintf("tun-elsewhere-%d:2", slot)}
			rt.ChordDestination = f.B[i].Chord.Ident
			c.chordScript[rt.ChordDestination.GetAddress()] = i
			routePair[i] = want{"elsewhere", client.GetAddress()}
		default:
			rt.TunnelDestination = &protocol.Node{Id: uint64(300 + slot), Address: fmt.Sprintf("tun-fake-%d:2", slot)}
			rt.ChordDestination = &protocol.Node{Id: uint64(400 + slot), Address: fmt.Sprintf("chord-fake-%d-%s:1", slot, name)}
			c.chordScript[rt.ChordDestination.GetAddress()] = i
			routePair[i] = want{"fake", client.GetAddress()}
		}
		b, err := rt.MarshalVT()
		if err != nil {
			panic(err)
		}
		c.values[key] = func() ([]byte, error) { return b, nil }
	}
	f.cur.Store(c)

	link := &protocol.Link{Alpn: []protocol.Link_ALPN{protocol.Link_HTTP, protocol.Link_TCP, protocol.Link_HTTP2}[rng.Intn(3)], Hostname: host, Remote: fmt.Sprintf("203.0.113.%d:%d", rng.Intn(250), 1024+rng.Intn(50000))}
	start := time.Now()
	conn, derr := f.A.Server.DialClient(context.Background(), link)
	elapsed := time.Since(start)
	nSilent := 0
	for _, o := range slots {
		if o == oRSilent {
			nSilent++
		}
	}
	// getConn waits at most 3 s for a remote status; a case without a silent remote
	// finishes in milliseconds. If it took seconds, the machine stalled and a real
	// remote may have missed that deadline: "a reachable client was not reached"
	// then decides nothing.
	stalled := elapsed > time.Duration(nSilent)*3*time.Second+2*time.Second

	rep := report{Case: name, Hostname: host, Same: same}
	for _, o := range slots {
		rep.Slots = append(rep.Slots, oname[o])
	}
	incon := ""
	if derr != nil {
		rep.Err = derr.Error()
	}
	// which client is the returned connection attached to?
	if conn != nil {
		nonce := fmt.Sprintf("ping-%d", rng.Int63())
		conn.SetDeadline(time.Now().Add(60 * time.Second))
		if _, err := conn.Write([]byte(nonce)); err != nil {
			c.viol("returned-conn-unusable", "write on the returned connection failed: "+err.Error())
		} else {
			buf := make([]byte, 1024)
			got := ""
			for !strings.HasSuffix(got, nonce) {
				n, err := conn.Read(buf)
				got += string(buf[:n])
				if err != nil {
					if tun.IsTimeout(err) {
						incon = "no echo on the returned connection within 60 s"
					} else {
						c.viol("returned-conn-unusable", fmt.Sprintf("read on the returned connection: %v (got %q)", err, got))
					}
					break
				}
			}
			if strings.HasSuffix(got, nonce) {
				rep.Attached = strings.TrimSuffix(got, "|"+nonce)
			}
		}
		conn.Close()
	}
	// a second connection for the same hostname on the same server (the routes are cached by now):
	// whatever the first one went through, a route through this node is again the first one tried
	c.mu.Lock()
	n1log, n1ends := len(c.log), len(c.ends)
	c.mu.Unlock()
	hasLocal := false
	for _, o := range slots {
		if o.isLocal() {
			hasLocal = true
		}
	}
	secondDial := conn != nil && nSilent == 0 && hasLocal && incon == ""
	if secondDial {
		link2 := &protocol.Link{Alpn: link.GetAlpn(), Hostname: host, Remote: fmt.Sprintf("203.0.113.%d:%d", rng.Intn(250), 1024+rng.Intn(50000))}
		if conn2, _ := f.A.Server.DialClient(context.Background(), link2); conn2 != nil {
			conn2.Close()
		}
	}
	// end of case: close every server-side end and join the client ends
	close(c.stop)
	c.mu.Lock()
	closers := append([]io.Closer(nil), c.closers...)
	ends := append([]*clientEnd(nil), c.ends...)
	c.mu.Unlock()
	for _, cl := range closers {
		cl.Close()
	}
	for _, e := range ends {
		select {
		case <-e.done:
		case <-time.After(60 * time.Second):
			incon = "a fake client end did not finish within 60 s"
		}
	}
	c.mu.Lock()
	rep.Dials = append([]dialEvent(nil), c.log[:n1log]...)
	second := append([]dialEvent(nil), c.log[n1log:]...)
	c.mu.Unlock()
	if secondDial {
		rep.SecondDials = second
		for _, e := range second {
			if e.Server != "A" {
				continue
			}
			if e.Transport == "chord" {
				c.viol("remote-before-local:second-connection", fmt.Sprintf("slots %v: the first connection went %v; for the second connection to the same hostname a route through another node was tried first: %v", rep.Slots, rep.Dials, second))
			}
			break
		}
	}

	// ---------------- oracle (of the first connection)
	var linked []*clientEnd
	for _, e := range ends[:n1ends] {
		e.mu.Lock()
		l := e.link
		e.mu.Unlock()
		if !e.expected {
			c.viol("wrong-server-dialed", fmt.Sprintf("server %s opened a stream to client %s, a pair that no route of %s names", e.server, e.client, host))
		}
		if l != nil {
			linked = append(linked, e)
			rep.Links = append(rep.Links, e.server+"|"+e.client)
			if l.GetHostname() != host || l.GetAlpn() != link.GetAlpn() || l.GetRemote() != link.GetRemote() {
				c.viol("link-mismatch", fmt.Sprintf("client %s received link %v, the gateway sent %v", e.client, l, link))
			}
		}
	}
	if (conn == nil) == (derr == nil) {
		c.viol("conn-xor-error", fmt.Sprintf("DialClient returned conn=%v err=%v", conn != nil, derr))
	}
	// dial order on A: everything through the local node before anything remote
	seenChord := false
	for _, e := range rep.Dials {
		if e.Server != "A" {
			continue
		}
		if e.Transport == "chord" {
			seenChord = true
		} else if seenChord {
			c.viol("remote-before-local", fmt.Sprintf("a route through another node was tried before the route through this node: %v", rep.Dials))
			break
		}
	}
	nRoute, nOk, nNoDirect, nError, nNone := 0, 0, 0, 0, 0
	localOk := false
	for _, o := range slots {
		if o == oNone {
			nNone++
		}
		if !o.isRoute() {
			continue
		}
		nRoute++
		switch o.reach() {
		case "ok":
			nOk++
			if o.isLocal() {
				localOk = true
			}
		case "nodirect":
			nNoDirect++
		default:
			nError++
		}
	}
	errClass := ""
	if derr == nil && conn != nil {
		if len(linked) != 1 {
			c.viol("links-on-success", fmt.Sprintf("%d clients received a link for one returned connection: %v", len(linked), rep.Links))
		}
		if nOk == 0 {
			c.viol("conn-without-reachable-client", fmt.Sprintf("slots %v: no client is reachable, yet a connection was returned (attached to %q)", rep.Slots, rep.Attached))
		}
		if rep.Attached != "" {
			okPair := false
			for i, p := range routePair {
				if slots[i].reach() == "ok" && p.server+"|"+p.client == rep.Attached {
					okPair = true
					if localOk && !slots[i].isLocal() {
						c.viol("local-reachable-but-remote-used", fmt.Sprintf("slots %v: connection attached to %s although a client is reachable through this node", rep.Slots, rep.Attached))
					}
				}
			}
			if !okPair {
				c.viol("handed-to-unrecorded", fmt.Sprintf("returned connection is attached to %q, which is not a reachable (server, client) pair of %s's routes", rep.Attached, host))
			}
			if len(linked) == 1 && linked[0].server+"|"+linked[0].client != rep.Attached {
				c.viol("link-to-other-client", fmt.Sprintf("link received by %s|%s, connection attached to %s", linked[0].server, linked[0].client, rep.Attached))
			}
		}
	} else if derr != nil {
		if len(linked) != 0 {
			c.viol("link-on-failure", fmt.Sprintf("DialClient failed (%v) but clients %v received a link", derr, rep.Links))
		}
		switch {
		case nOk > 0 && stalled:
			incon = fmt.Sprintf("DialClient took %v (machine stalled?) and failed with %v although a client is reachable", elapsed, derr)
		case nOk > 0:
			c.viol("reachable-not-reached", fmt.Sprintf("slots %v: a client of %s accepts streams, DialClient failed: %v", rep.Slots, host, derr))
		case nNone == 3:
			if !errors.Is(derr, tun.ErrDestinationNotFound) {
				c.viol("no-routes-not-notfound", fmt.Sprintf("no slot holds a route, DialClient reported %v", derr))
			}
		case nRoute > 0 && nNoDirect == nRoute:
			if !errors.Is(derr, tun.ErrTunnelClientNotConnected) {
				c.viol("nodirect-not-notconnected", fmt.Sprintf("slots %v: routes exist and every client is not connected, DialClient reported %v", rep.Slots, derr))
			}
		case nRoute > 0 && nNoDirect >= 1:
			// routes exist, none reachable, at least one of them said "client not
			// connected": the outcome is not-connected wherever that route sits
			errClass = fmt.Sprintf("nodirect=%d,error=%d -> judged not-connected", nNoDirect, nError)
			if !errors.Is(derr, tun.ErrTunnelClientNotConnected) {
				c.viol("mixed-nodirect-not-notconnected", fmt.Sprintf("slots %v: routes exist, no client is reachable and %d of the attempts reported no-direct, DialClient reported %v", rep.Slots, nNoDirect, derr))
			}
		case nRoute > 0:
			switch {
			case errors.Is(derr, tun.ErrDestinationNotFound):
				errClass = fmt.Sprintf("nodirect=%d,error=%d -> not-found", nNoDirect, nError)
			case errors.Is(derr, tun.ErrTunnelClientNotConnected):
				errClass = fmt.Sprintf("nodirect=%d,error=%d -> not-connected", nNoDirect, nError)
			default:
				errClass = fmt.Sprintf("nodirect=%d,error=%d -> other", nNoDirect, nError)
			}
		}
	}
	return rep, c.viols, incon, errClass
}
