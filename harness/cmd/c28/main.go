// C28 — route lookups are classified and cached correctly.
//
// The real route-cache loader (Server.VerifRouteLoad) is run against a scripted
// chord.VNode whose Get answers each of the three route slots of a hostname
// with one of: a route through this node, a route through another node, an
// empty value (nil / zero-length), an error, an undecodable value. The complete
// product of per-slot outcomes is enumerated; the oracle is written from the
// property statement, not from the loader.
package main

import (
	"context"
	"errors"
	"fmt"
	"sort"
	"strings"
	"sync"
	"time"

	"verifharness/lab/ev"
	"verifharness/lab/tunlab"

	"go.miragespace.co/specter/spec/chord"
	"go.miragespace.co/specter/spec/protocol"
	"go.miragespace.co/specter/spec/tun"
)

type outcome int

const (
	oLocal   outcome = iota // decodable route whose tunnel destination is this node
	oRemote                 // decodable route through another node
	oRemote2                // decodable route through a second other node
	oNil                    // Get returns (nil, nil)
	oZero                   // Get returns ([]byte{}, nil)
	oErr                    // Get returns an error
	oGarbage                // Get returns bytes that are not a TunnelRoute
	oTimeout                // Get blocks until the lookup context ends
)

var names = map[outcome]string{oLocal: "local", oRemote: "remote", oRemote2: "remote2", oNil: "nil", oZero: "zero", oErr: "err", oGarbage: "garbage", oTimeout: "timeout"}

func (o outcome) class() string {
	switch o {
	case oLocal, oRemote, oRemote2:
		return "route"
	case oNil, oZero:
		return "empty"
	}
	return "error"
}

type result struct {
	Case     string   `json:"case"`
	Hostname string   `json:"hostname"`
	Slots    []string `json:"slots"`
	Err      string   `json:"err"`
	Routes   []string `json:"routes_tunnel_addr"`
	TTL      string   `json:"ttl"`
	ttl      time.Duration
	class    string // positive | negative | failed | mixed-empty
}

func main() {
	r := ev.Start("C28", "exploration")
	r.SetRule("complete product of per-slot outcomes {route-local, route-remote, route-remote2, empty(nil), empty(zero-length), error, undecodable}^3 = 343 cases for the three route slots of a hostname (superset of the stated 4^3 + undecodable), each run through the real loader with a scripted chord.VNode Get; plus 6 cases with a Get that blocks until the lookup context times out. A case is non-trivial always (every combination exercises the classification); distinct = distinct per-slot outcome vector. The thorough tier repeats the product under more seeded identities/hostnames.")
	r.SetExhaustive(true)
	r.Assume("an undecodable value and a lookup that times out count as an errored slot (the statement names only 'errored')")
	r.Assume("the cache itself (theine TTL enforcement) is trusted; the check observes the TTL the loader hands to it")
	r.Assume("TTL of a result with no route that is neither all-empty nor all-error (e.g. empty+error mix) is not pinned by the statement: recorded, not judged")
	rng := r.Rand("c28")

	base := []outcome{oLocal, oRemote, oRemote2, oNil, oZero, oErr, oGarbage}
	rounds := r.Pick(1, 24)

	var mu sync.Mutex
	var results []result
	ttls := map[string]map[time.Duration]int{}
	var getCalls int64

	for round := 0; round < rounds; round++ {
		self := &protocol.Node{Id: rng.Uint64() % chord.MaxIdentitifer, Address: fmt.Sprintf("tun-self-%d.example:%d", round, 1000+rng.Intn(5000))}
		others := []*protocol.Node{
			{Id: rng.Uint64() % chord.MaxIdentitifer, Address: fmt.Sprintf("tun-other-a-%d.example:%d", round, 1000+rng.Intn(5000))},
			{Id: rng.Uint64() % chord.MaxIdentitifer, Address: fmt.Sprintf("tun-other-b-%d.example:%d", round, 1000+rng.Intn(5000))},
		}
		if round%3 == 1 {
			// another node that shares a prefix / differs only by port from this node
			others[0].Address = self.Address + "0"
		}
		type cs struct {
			name  string
			slots [3]outcome
		}
		var cases []cs
		for _, a := range base {
			for _, b := range base {
				for _, c := range base {
					cases = append(cases, cs{fmt.Sprintf("r%d/%s/%s/%s", round, names[a], names[b], names[c]), [3]outcome{a, b, c}})
				}
			}
		}
		if round == 0 {
			for _, s := range [][3]outcome{{oTimeout, oTimeout, oTimeout}, {oTimeout, oLocal, oNil}, {oNil, oZero, oTimeout}, {oRemote, oTimeout, oLocal}, {oTimeout, oErr, oGarbage}, {oTimeout, oTimeout, oRemote}} {
				cases = append(cases, cs{fmt.Sprintf("r%d/%s/%s/%s", round, names[s[0]], names[s[1]], names[s[2]]), s})
			}
		}
		hostSeeds := make([]string, len(cases))
		for i := range cases {
			hostSeeds[i] = randHost(rng.Int63())
		}
		tunlab.Parallel(len(cases), 32, func(i int) {
			c := cases[i]
			if !r.WantCase(c.name) {
				return
			}
			res, calls, viol := runCase(self, others, hostSeeds[i], c.name, c.slots)
			mu.Lock()
			getCalls += int64(calls)
			results = append(results, res)
			if ttls[res.class] == nil {
				ttls[res.class] = map[time.Duration]int{}
			}
			ttls[res.class][res.ttl]++
			mu.Unlock()
			sig := strings.Join(res.Slots, "/")
			r.Case(sig)
			for _, v := range viol {
				r.Violation(v.key, c.name, v.what, res)
			}
		})
	}

	// TTL ordering, judged over everything observed: every negative / failed TTL
	// must be shorter than every positive TTL.
	sort.Slice(results, func(i, j int) bool { return results[i].Case < results[j].Case })
	minPos := time.Duration(-1)
	for d := range ttls["positive"] {
		if minPos < 0 || d < minPos {
			minPos = d
		}
	}
	if r.ReplayCase == "" {
		if len(ttls["positive"]) == 0 || len(ttls["negative"]) == 0 || len(ttls["failed"]) == 0 {
			r.Inconclusive("a TTL class was never observed")
		}
	}
	for _, res := range results {
		if res.ttl <= 0 {
			r.Violation("ttl-nonpositive/"+res.class, res.Case, fmt.Sprintf("loader returned TTL %v for a %s result", res.ttl, res.class), res)
		}
		if minPos > 0 && (res.class == "negative" || res.class == "failed") && res.ttl >= minPos {
			r.Violation("ttl-order/"+res.class, res.Case, fmt.Sprintf("%s result cached for %v, not shorter than a positive result (%v)", res.class, res.ttl, minPos), res)
		}
	}
	// samples: one of each class
	seen := map[string]bool{}
	for _, res := range results {
		if !seen[res.class] {
			seen[res.class] = true
			r.Sample(res)
		}
	}
	for _, res := range results {
		if res.class == "positive" && len(res.Routes) == 3 && res.Slots[0] != "local" && res.Routes[0] != res.Routes[1] {
			r.Sample(res)
			break
		}
	}
	ttlOut := map[string][]string{}
	for cl, m := range ttls {
		for d, n := range m {
			ttlOut[cl] = append(ttlOut[cl], fmt.Sprintf("%v x%d", d, n))
		}
		sort.Strings(ttlOut[cl])
	}
	r.Extra("ttl_observed_by_class", ttlOut)
	r.Count("scripted_get_calls", getCalls)
	r.Count("loader_runs", int64(len(results)))
	r.Finish()
}

func randHost(seed int64) string {
	alpha := "abcdefghijklmnopqrstuvwxyz0123456789"
	n := 3 + int(seed%9)
	s := seed
	b := make([]byte, n)
	for i := range b {
		s = s*6364136223846793005 + 1442695040888963407
		b[i] = alpha[int(uint64(s)>>33)%len(alpha)]
	}
	switch uint64(seed>>8) % 4 {
	case 0:
		return string(b)
	case 1:
		return string(b) + ".custom-domain.example"
	case 2:
		return strings.ToUpper(string(b[:1])) + string(b[1:]) + "-x"
	}
	return string(b) + "/" + string(b[:2]) // a '/' inside the hostname must not confuse slot keys
}

type viol struct{ key, what string }

func runCase(self *protocol.Node, others []*protocol.Node, host, name string, slots [3]outcome) (result, int, []viol) {
	var violations []viol
	var vmu sync.Mutex
	addViol := func(k, w string) { vmu.Lock(); violations = append(violations, viol{k, w}); vmu.Unlock() }

	chordOf := func(n *protocol.Node) *protocol.Node {
		return &protocol.Node{Id: n.GetId() ^ 0x5555, Address: "chord-of-" + n.GetAddress()}
	}
	// the value stored under each slot
	want := map[int]*protocol.TunnelRoute{}
	values := map[string]func(ctx context.Context) ([]byte, error){}
	for i, o := range slots {
		slot := i + 1
		key := tun.RoutingKey(host, slot)
		mk := func(td *protocol.Node) []byte {
			rt := &protocol.TunnelRoute{
				ClientDestination: &protocol.Node{Id: uint64(1000 + slot), Address: fmt.Sprintf("client-token-%s-%d", name, slot), Rendezvous: true},
				ChordDestination:  chordOf(td),
				TunnelDestination: td,
				Hostname:          host,
			}
			want[slot] = rt
			b, err := rt.MarshalVT()
			if err != nil {
				panic(err)
			}
			return b
		}
		switch o {
		case oLocal:
			b := mk(self)
			values[key] = func(context.Context) ([]byte, error) { return b, nil }
		case oRemote:
			b := mk(others[0])
			values[key] = func(context.Context) ([]byte, error) { return b, nil }
		case oRemote2:
			b := mk(others[1])
			values[key] = func(context.Context) ([]byte, error) { return b, nil }
		case oNil:
			values[key] = func(context.Context) ([]byte, error) { return nil, nil }
		case oZero:
			values[key] = func(context.Context) ([]byte, error) { return []byte{}, nil }
		case oErr:
			values[key] = func(context.Context) ([]byte, error) { return nil, fmt.Errorf("scripted failure of slot %d", slot) }
		case oGarbage:
			// field 1, wire type 2, length 127 but only 3 bytes follow: cannot be decoded
			values[key] = func(context.Context) ([]byte, error) { return []byte{0x0a, 0x7f, 0x01, 0x02, 0x03}, nil }
		case oTimeout:
			values[key] = nil // handled below (needs the context)
		}
	}
	script := &tunlab.ScriptVNode{Ident: &protocol.Node{Id: 1, Address: "chord-self:1"}}
	script.GetFn = func(ctx context.Context, key string) ([]byte, error) {
		f, ok := values[key]
		if !ok {
			addViol("unexpected-key", fmt.Sprintf("loader for %q read key %q, which is not one of its three route slots", host, key))
			return nil, fmt.Errorf("unexpected key")
		}
		if f == nil { // timeout outcome: block until the loader gives up
			select {
			case <-ctx.Done():
				return nil, ctx.Err()
			case <-time.After(2 * time.Minute):
				return nil, fmt.Errorf("harness: lookup context never ended")
			}
		}
		return f(ctx)
	}
	lab, err := tunlab.NewLab(tunlab.Options{TunnelIdent: self, Script: script})
	if err != nil {
		panic(err)
	}
	defer lab.Close()

	routes, lerr, ttl := lab.Server.VerifRouteLoad(context.Background(), host)

	res := result{Case: name, Hostname: host, TTL: ttl.String(), ttl: ttl}
	for _, o := range slots {
		res.Slots = append(res.Slots, names[o])
	}
	if lerr != nil {
		res.Err = lerr.Error()
	}
	for _, rt := range routes {
		res.Routes = append(res.Routes, rt.GetTunnelDestination().GetAddress())
	}

	// ---- oracle, from the statement
	nEmpty, nError, nRoute := 0, 0, 0
	for _, o := range slots {
		switch o.class() {
		case "empty":
			nEmpty++
		case "error":
			nError++
		default:
			nRoute++
		}
	}
	switch {
	case nEmpty == 3:
		res.class = "negative"
		if !errors.Is(lerr, tun.ErrDestinationNotFound) {
			addViol("all-empty-not-notfound", fmt.Sprintf("every slot empty, loader reported err=%v routes=%d", lerr, len(routes)))
		}
		if len(routes) != 0 {
			addViol("all-empty-routes", "routes returned although every slot is empty")
		}
	case nError == 3:
		res.class = "failed"
		if !errors.Is(lerr, tun.ErrLookupFailed) {
			addViol("all-error-not-failed", fmt.Sprintf("every slot errored, loader reported err=%v routes=%d", lerr, len(routes)))
		}
		if len(routes) != 0 {
			addViol("all-error-routes", "routes returned although every slot errored")
		}
	default:
		if nRoute > 0 {
			res.class = "positive"
		} else {
			res.class = "mixed-empty"
		}
		if lerr != nil {
			addViol("mixed-reported-error", fmt.Sprintf("slots %v: loader reported %v instead of the decoded routes", res.Slots, lerr))
		}
		// the decoded routes, as a multiset
		var wantKeys, gotKeys []string
		for _, rt := range want {
			wantKeys = append(wantKeys, routeKey(rt))
		}
		for _, rt := range routes {
			if rt == nil {
				addViol("nil-route", "a nil route is part of the result")
				continue
			}
			gotKeys = append(gotKeys, routeKey(rt))
		}
		sort.Strings(wantKeys)
		sort.Strings(gotKeys)
		if lerr == nil && strings.Join(wantKeys, "|") != strings.Join(gotKeys, "|") {
			addViol("routes-differ", fmt.Sprintf("slots %v: loader returned routes %v, the stored decodable routes are %v", res.Slots, gotKeys, wantKeys))
		}
		// local first
		seenRemote := false
		for _, rt := range routes {
			local := rt.GetTunnelDestination().GetAddress() == self.GetAddress()
			if local && seenRemote {
				addViol("local-not-first", fmt.Sprintf("slots %v: order %v puts a route through another node before one through this node (%s)", res.Slots, res.Routes, self.GetAddress()))
				break
			}
			if !local {
				seenRemote = true
			}
		}
	}
	return res, len(script.Calls()), violations
}

func routeKey(rt *protocol.TunnelRoute) string {
	return fmt.Sprintf("%s@%s via %s/%s", rt.GetClientDestination().GetAddress(), rt.GetHostname(), rt.GetTunnelDestination().GetAddress(), rt.GetChordDestination().GetAddress())
}
