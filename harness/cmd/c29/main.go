// C29 — a custom hostname is bound to one client, only after DNS proof.
//
// Seeded histories of AcmeInstruction / AcmeValidate / ReleaseTunnel by three
// clients against the real handlers over a real one-node chord ring, a scripted
// DNS resolver and proofs of work produced just in time (valid ones and ones
// broken in one respect). A model of the bindings written from the statement
// is compared with the bindings stored in the DHT after every call.
package main

import (
	"bytes"
	"context"
	"crypto/ed25519"
	crand "crypto/rand"
	"crypto/sha256"
	"encoding/hex"
	"errors"
	"fmt"
	"math/rand"
	"sort"
	"strings"
	"sync"
	"time"

	"verifharness/lab/ev"
	"verifharness/lab/tunlab"

	"go.miragespace.co/specter/spec/acme"
	"go.miragespace.co/specter/spec/protocol"
	"go.miragespace.co/specter/spec/tun"

	"golang.org/x/net/idna"
)

// ---- what the statement calls the client's token-specific target, computed
// independently of the code under test (cross-checked against AcmeInstruction)
func challengeName(n string) string { return "_acme-challenge." + n + "." }
func tokenTarget(token []byte) string {
	h := sha256.Sum224(token)
	return hex.EncodeToString(h[:]) + "." + tunlab.Acme + "."
}

type hostCase struct {
	Raw   string // what the request carries
	N     string // normalised form (key of the binding); "" when the request is expected to be refused anyway
	Class string // valid | apex | acme | bare | unjudged
}

type opRecord struct {
	Step     int    `json:"step"`
	Op       string `json:"op"`
	Caller   string `json:"caller"`
	Hostname string `json:"hostname"`
	Class    string `json:"class"`
	Cname    string `json:"cname_answer"`
	Proof    string `json:"proof"`
	BoundTo  string `json:"bound_before"`
	Result   string `json:"result"`
}

type world struct {
	r       *ev.Run
	name    string
	lab     *tunlab.Lab
	clients []*tunlab.Client
	bound   map[string]int
	ops     []opRecord
	step    int
	stale   int
	stopped bool // the model lost track after a violation: end the history
}

func (w *world) viol(key, what string) {
	// a legitimate call that failed only because one of the handler's own 3 s
	// contexts ran out (machine stalled) decides nothing
	if strings.HasSuffix(key, "-refused") && (strings.Contains(what, "context deadline exceeded") || strings.Contains(what, "context canceled")) {
		w.r.Inconclusive(w.name + ": " + what)
		return
	}
	ops := w.ops
	if len(ops) > 16 {
		ops = ops[len(ops)-16:]
	}
	w.r.Violation(key, w.name, fmt.Sprintf("step %d: %s", w.step, what), map[string]any{"history": w.name, "last_ops": ops})
}

func main() {
	r := ev.Start("C29", "exploration")
	r.SetRule("seeded histories (quick 28 x 18 calls, thorough 320 x 18) of AcmeValidate / AcmeInstruction / ReleaseTunnel by three clients over hostnames {valid custom (plain, padded with spaces, IDN), below the apex, the apex itself, below / equal to the ACME zone, two-label bare domains, upper- and mixed-case spellings of the refused classes and of the valid (possibly already bound) names, sent with a fresh valid proof over the spelling as sent and the right CNAME (case-insensitive resolver), public-suffix bare and apex-as-infix names (recorded only)} x CNAME answers {exactly the caller's target, another client's target, caller's target with an extra left label (suffix match), the managed target, resolver error, NXDOMAIN} x proofs {valid, none, wrong subject, expired, expiry far in the future, lower difficulty, unsolved counter, bad signature, signed by another key} x existing binding {none, same client, other client}. Distinct = (op, hostname class, cname answer, proof kind, binding relation, result); non-trivial = the proof is valid (the request gets past the proof check) or the hostname is bound")
	r.Assume("a valid proof is acceptable for >= 9 s after its generation started; verdicts that need the proof to have been valid are only taken while it is younger than 4 s, otherwise the call is repeated with a new proof")
	r.Assume("normalisation removes surrounding white space and maps IDN labels to punycode; the binding is stored under that form")
	r.Assume("'bare domain' is judged only for two-label names; a public-suffix bare name (example.co.uk) and names that merely contain the apex as an infix are recorded, not judged")
	r.Assume("whether a spelling with upper-case letters is accepted at all is not pinned (the pinned tree rejects it); if it is, it is the same hostname as its lower-case form: refused classes stay refused, and the DHT never holds two bindings whose keys differ only in case")
	r.Assume("DESIGN: with a valid proof, an unbound valid hostname and exactly the right CNAME the validation must succeed (bound afterwards iff ...)")
	rng := r.Rand("c29")
	nWorlds := r.Pick(28, 320)
	nOps := 18
	seeds := make([]int64, nWorlds)
	for i := range seeds {
		seeds[i] = rng.Int63()
	}
	ca := tunlab.NewCA()
	var mu sync.Mutex
	var stale int64
	observed := map[string]int{}
	tunlab.Parallel(nWorlds, 16, func(i int) {
		name := fmt.Sprintf("w%d", i)
		if !r.WantCase(name) {
			return
		}
		lab, err := tunlab.NewLab(tunlab.Options{Retry: true})
		if err != nil {
			panic(err)
		}
		defer lab.Close()
		lab.Server.MustRegister(context.Background())
		w := &world{r: r, name: name, lab: lab, bound: map[string]int{}}
		wr := rand.New(rand.NewSource(seeds[i]))
		for k := 0; k < 3; k++ {
			v1 := ""
			if k == 2 {
				v1 = fmt.Sprintf("legacy-%d", wr.Int63())
			}
			id := uint64(wr.Int63n(1 << 40))
			if k == 1 && i%2 == 1 {
				// node ids are random 48-bit numbers, not identities: two clients may share one
				id = w.clients[0].ID
			}
			w.clients = append(w.clients, tunlab.NewClient(ca, fmt.Sprintf("client%d", k), id, v1))
		}
		obs := w.run(wr, i, nOps)
		mu.Lock()
		stale += int64(w.stale)
		for k, v := range obs {
			observed[k] += v
		}
		if i < 2 {
			ops := w.ops
			r.Sample(map[string]any{"history": name, "ops": ops})
		}
		mu.Unlock()
	})
	r.Count("stale_proofs_repeated_or_discounted", stale)
	r.Extra("unjudged_observations", observed)
	r.Finish()
}

func (w *world) hosts(rng *rand.Rand, wi int) []hostCase {
	uni := fmt.Sprintf("bücher%d.kunde%d.example.net", rng.Intn(100), wi)
	idn, err := idna.ToASCII(uni)
	if err != nil {
		panic(err)
	}
	v1 := fmt.Sprintf("app%d.cust%d.example.net", rng.Intn(100), wi)
	v2 := fmt.Sprintf("a.b.c.d%d.w%d.example.org", rng.Intn(100), wi)
	hs := []hostCase{
		{Raw: v1, N: v1, Class: "valid"},
		{Raw: v2, N: v2, Class: "valid"},
		{Raw: "  " + v1 + "\t", N: v1, Class: "valid"},
		{Raw: idn, N: idn, Class: "valid"},
		{Raw: uni, N: idn, Class: "valid"},
		// upper / mixed-case spellings of the valid names: the same DNS name, so the
		// same binding (keyed by the lower-case form) whatever the server makes of them
		{Raw: strings.ToUpper(v1[:1]) + v1[1:], N: v1, Class: "casevariant"},
		{Raw: strings.ToUpper(v1), N: v1, Class: "casevariant"},
		{Raw: strings.Replace(v2, "example", "ExAmPlE", 1), N: v2, Class: "casevariant"},
		{Raw: "foo." + tunlab.Apex, Class: "apex"},
		{Raw: "tunnel." + mixCase(tunlab.Apex), Class: "apex"},
		{Raw: "Foo." + strings.ToUpper(tunlab.Apex[:3]) + tunlab.Apex[3:], Class: "apex"},
		{Raw: "x." + mixCase(tunlab.Acme), Class: "acme"},
		{Raw: "x.ACME" + tunlab.Acme[4:], Class: "acme"},
		{Raw: fmt.Sprintf("Bare%d.Net", wi), Class: "bare"},
		{Raw: fmt.Sprintf("a%d.b.%s", rng.Intn(100), tunlab.Apex), Class: "apex"},
		{Raw: tunlab.Apex, Class: "apex"},
		{Raw: " foo." + tunlab.Apex + " ", Class: "apex"},
		{Raw: "FOO." + strings.ToUpper(tunlab.Apex), Class: "apex"},
		{Raw: "x." + tunlab.Acme, Class: "acme"},
		{Raw: fmt.Sprintf("deep%d.x.%s", rng.Intn(100), tunlab.Acme), Class: "acme"},
		{Raw: tunlab.Acme, Class: "acme"},
		{Raw: "X." + strings.ToUpper(tunlab.Acme), Class: "acme"},
		{Raw: fmt.Sprintf("bare%d.net", wi), Class: "bare"},
		{Raw: fmt.Sprintf("customer%d.org", wi), Class: "bare"},
		{Raw: fmt.Sprintf("BARE%d.NET", wi), Class: "bare"},
		{Raw: fmt.Sprintf("example%d.co.uk", wi), N: fmt.Sprintf("example%d.co.uk", wi), Class: "unjudged"},
		{Raw: fmt.Sprintf("198.51.100.%d", 1+wi%250), N: fmt.Sprintf("198.51.100.%d", 1+wi%250), Class: "unjudged"},
		{Raw: tunlab.Apex + fmt.Sprintf(".evil%d.example.net", wi), N: tunlab.Apex + fmt.Sprintf(".evil%d.example.net", wi), Class: "unjudged"},
	}
	return hs
}

// mixCase upper-cases every second letter.
func mixCase(s string) string {
	b := []byte(s)
	for i := 0; i < len(b); i += 2 {
		if b[i] >= 'a' && b[i] <= 'z' {
			b[i] -= 32
		}
	}
	return string(b)
}

type cnameKind int

const (
	cRight cnameKind = iota
	cOther
	cSuffix
	cManaged
	cError
	cNX
	cPrefix
	cNearMiss
)

var cnameNames = []string{"right", "other-client", "right-as-suffix", "managed", "resolver-error", "nxdomain", "right-as-prefix", "right-one-char-off"}

var proofKinds = []string{"valid", "none", "wrong-subject", "expired", "far-future", "low-difficulty", "unsolved", "bad-signature", "other-key"}

func (w *world) makeProof(kind string, caller *tunlab.Client, subject string, rng *rand.Rand) *tunlab.Proof {
	var p tunlab.Proof
	var err error
	switch kind {
	case "none":
		return nil
	case "valid":
		p, err = tunlab.SolveAcme(caller.Key, subject)
	case "wrong-subject":
		p, err = tunlab.SolveAcme(caller.Key, "other-"+subject)
	case "expired":
		p, err = tunlab.SolveCustom(caller.Key, subject, acme.HashcashDifficulty, time.Now().Add(-5*time.Second))
	case "far-future":
		p, err = tunlab.SolveCustom(caller.Key, subject, acme.HashcashDifficulty, time.Now().Add(time.Hour))
	case "low-difficulty":
		p, err = tunlab.SolveCustom(caller.Key, subject, 10, time.Now().Add(acme.HashcashExpires))
	case "unsolved":
		p, err = tunlab.SolveAcme(caller.Key, subject)
		if err == nil {
			// replace the counter: the stamp no longer has 18 leading zero bits (p = 1 - 2^-18)
			i := strings.LastIndex(p.P.Solution, ":")
			p.P.Solution = p.P.Solution[:i+1] + "AAAAAA"
			if strings.HasSuffix(p.P.Solution, ":AAAAAA") {
				p.P.Signature = ed25519.Sign(caller.Key, []byte(p.P.Solution))
			}
		}
	case "bad-signature":
		p, err = tunlab.SolveAcme(caller.Key, subject)
		if err == nil {
			p.P.Signature[rng.Intn(len(p.P.Signature))] ^= 0x40
		}
	case "other-key":
		p, err = tunlab.SolveAcme(caller.Key, subject)
		if err == nil {
			pub, _, _ := ed25519.GenerateKey(crand.Reader)
			p.P.PubKey = pub
		}
	}
	if err != nil {
		panic(err)
	}
	return &p
}

func (w *world) storedBindings() map[string]*protocol.CustomHostname {
	d, err := w.lab.Ring.KV.Dump()
	if err != nil {
		panic(err)
	}
	out := map[string]*protocol.CustomHostname{}
	for k, e := range d {
		if !strings.HasPrefix(k, "/tunnel/client/custom/") || len(e.Simple) == 0 {
			continue
		}
		b := &protocol.CustomHostname{}
		if err := b.UnmarshalVT(e.Simple); err != nil {
			w.viol("undecodable-binding", "binding under "+k+" cannot be decoded")
			continue
		}
		out[strings.TrimPrefix(k, "/tunnel/client/custom/")] = b
	}
	return out
}

func (w *world) run(rng *rand.Rand, wi, nOps int) map[string]int {
	obs := map[string]int{}
	hs := w.hosts(rng, wi)
	valid := []hostCase{}
	for _, h := range hs {
		if h.Class == "valid" || h.Class == "casevariant" {
			valid = append(valid, h)
		}
	}
	for w.step = 0; w.step < nOps && !w.stopped; w.step++ {
		ci := rng.Intn(len(w.clients))
		caller := w.clients[ci]
		cctx := caller.Ctx(context.Background(), w.step)
		// pick hostname: mostly valid ones so that bindings build up
		var h hostCase
		if rng.Intn(100) < 60 {
			h = valid[rng.Intn(len(valid))]
		} else {
			h = hs[rng.Intn(len(hs))]
		}
		// the string the proof is made for and whose challenge record is scripted:
		// the normalised name; for spellings with upper-case letters the spelling as
		// sent (a server that accepts it at all would look at that string; the
		// scripted resolver is case-insensitive like the DNS)
		subject := h.N
		hasUpper := strings.ToLower(h.Raw) != h.Raw
		if subject == "" || hasUpper {
			subject = strings.TrimSpace(h.Raw)
		}
		boundTo, isBound := w.bound[h.N]
		if h.N == "" {
			isBound = false
		}
		rel := "unbound"
		if isBound && boundTo == ci {
			rel = "same"
		} else if isBound {
			rel = "other"
		}
		x := rng.Intn(100)
		// ---------------- release by the holder now and then
		if isBound && boundTo == ci && x < 12 {
			_, err := w.lab.Server.ReleaseTunnel(cctx, &protocol.ReleaseTunnelRequest{Hostname: h.N})
			rec := opRecord{Step: w.step, Op: "release", Caller: caller.Name, Hostname: h.N, Class: h.Class, BoundTo: caller.Name, Result: res(err)}
			w.ops = append(w.ops, rec)
			if err == nil {
				delete(w.bound, h.N)
			}
			w.r.Case(fmt.Sprintf("release/%v", err == nil))
			w.compare()
			continue
		}
		op := "validate"
		if x >= 85 {
			op = "instruction"
		}
		// CNAME answer
		ck := cnameKind(rng.Intn(len(cnameNames)))
		if rng.Intn(3) == 0 {
			ck = cRight
		}
		other := w.clients[(ci+1+rng.Intn(2))%3]
		name := challengeName(subject)
		switch ck {
		case cRight:
			w.lab.Resolver.Set(name, tokenTarget(caller.Token))
		case cOther:
			w.lab.Resolver.Set(name, tokenTarget(other.Token))
		case cSuffix:
			w.lab.Resolver.Set(name, "x."+tokenTarget(caller.Token))
		case cManaged:
			w.lab.Resolver.Set(name, acme.ManagedDelegation+"."+tunlab.Acme+".")
		case cError:
			w.lab.Resolver.SetErr(name, errors.New("SERVFAIL (scripted)"))
		case cNX:
			w.lab.Resolver.Clear(name)
		case cPrefix:
			// the right target continued into somebody else's zone
			w.lab.Resolver.Set(name, strings.TrimSuffix(tokenTarget(caller.Token), ".")+".elsewhere.example.net.")
		case cNearMiss:
			t := []byte(tokenTarget(caller.Token))
			if t[0] == 'a' {
				t[0] = 'b'
			} else {
				t[0] = 'a'
			}
			w.lab.Resolver.Set(name, string(t))
		}
		pk := proofKinds[0]
		if rng.Intn(100) < 35 {
			pk = proofKinds[1+rng.Intn(len(proofKinds)-1)]
		}
		if hasUpper && rng.Intn(100) < 75 {
			// only the spelling stands between this request and a binding
			pk = "valid"
			ck = cRight
			w.lab.Resolver.Set(name, tokenTarget(caller.Token))
		}
		rec := opRecord{Step: w.step, Op: op, Caller: caller.Name, Hostname: h.Raw, Class: h.Class, Cname: cnameNames[ck], Proof: pk}
		if isBound {
			rec.BoundTo = w.clients[boundTo].Name
		}

		// what must happen
		mustSucceed := h.Class == "valid" && pk == "valid" && (rel == "same" || rel == "unbound" && (ck == cRight || op == "instruction"))
		var err error
		var content string
		var lastProof *tunlab.Proof
		for attempt := 0; ; attempt++ {
			p := w.makeProof(pk, caller, subject, rng)
			lastProof = p
			var pp *protocol.ProofOfWork
			if p != nil {
				pp = p.P
			}
			if op == "validate" {
				_, err = w.lab.Server.AcmeValidate(cctx, &protocol.ValidateRequest{Proof: pp, Hostname: h.Raw})
			} else {
				var resp *protocol.InstructionResponse
				resp, err = w.lab.Server.AcmeInstruction(cctx, &protocol.InstructionRequest{Proof: pp, Hostname: h.Raw})
				content = resp.GetContent()
			}
			if err == nil || !mustSucceed || p.Fresh() {
				break
			}
			// a call that should have succeeded failed with a proof that may have aged out: repeat
			w.stale++
			if attempt >= 5 {
				w.r.Inconclusive(w.name + ": no proof of work reached the server inside its acceptance window in 6 attempts")
				w.ops = append(w.ops, rec)
				return obs
			}
		}
		rec.Result = res(err)
		w.ops = append(w.ops, rec)
		fresh := lastProof == nil || lastProof.Fresh()
		if pk == "valid" && !fresh && err != nil {
			w.stale++
		}

		if op == "validate" && pk == "valid" {
			w.r.Count("validate_with_valid_proof/"+h.Class+"/bound-"+rel, 1)
		}
		sig := ""
		if pk == "valid" || isBound {
			sig = fmt.Sprintf("%s/%s/%s/%s/%s/%v", op, h.Class, cnameNames[ck], pk, rel, err == nil)
		}
		w.r.Case(sig)

		// ---------------- oracle for the call itself
		switch {
		case pk != "valid":
			if err == nil {
				w.viol("served-without-valid-proof/"+pk, fmt.Sprintf("%s of %q with a %s proof was served", op, h.Raw, pk))
			}
		case h.Class == "apex" || h.Class == "acme" || h.Class == "bare":
			if err == nil {
				w.viol("refused-class-served/"+h.Class, fmt.Sprintf("%s of %q (%s domain) was served", op, h.Raw, h.Class))
			}
		case h.Class == "casevariant":
			// whether an upper-case spelling is accepted at all is not pinned; if it
			// is, it is the same hostname as its lower-case form
			obs[fmt.Sprintf("%s of an upper/mixed-case spelling of a valid name, %s -> served=%v", op, rel, err == nil)]++
			if op == "validate" && err == nil {
				switch rel {
				case "other":
					w.viol("rebound-to-other-client", fmt.Sprintf("%q (= %q) is bound to %s; validation by %s succeeded", h.Raw, h.N, w.clients[boundTo].Name, caller.Name))
				case "unbound":
					if ck != cRight {
						w.viol("bound-without-dns-proof/"+cnameNames[ck], fmt.Sprintf("%q became bound to %s although its challenge CNAME is %s", h.Raw, caller.Name, cnameNames[ck]))
					}
					w.bound[h.N] = ci
				}
			}
		case h.Class == "unjudged":
			kind := "public-suffix bare name (x.co.uk)"
			if strings.HasPrefix(h.Raw, "198.") {
				kind = "IPv4 literal"
			} else if strings.HasPrefix(h.Raw, tunlab.Apex) {
				kind = "apex as infix"
			}
			obs[fmt.Sprintf("%s of %s with valid proof, cname %s, %s -> served=%v", op, kind, cnameNames[ck], rel, err == nil)]++
			if op == "validate" && rel == "other" && err == nil {
				w.viol("rebound-to-other-client", fmt.Sprintf("%q is bound to %s; validation by %s succeeded", h.N, w.clients[boundTo].Name, caller.Name))
			}
			if err == nil && op == "validate" && h.N != "" && rel == "unbound" {
				if ck != cRight {
					w.viol("bound-without-dns-proof/"+cnameNames[ck], fmt.Sprintf("%q became bound to %s although its challenge CNAME is %s", h.N, caller.Name, cnameNames[ck]))
				}
				w.bound[h.N] = ci
			}
		case op == "instruction":
			if rel == "other" && err == nil {
				// instructions for a hostname held by somebody else: the statement only speaks about binding
				obs["instruction for a hostname bound to another client served"]++
			}
			if mustSucceed {
				if err != nil {
					w.viol("instruction-refused", fmt.Sprintf("AcmeInstruction for valid %q with a fresh valid proof failed: %v", h.Raw, err))
				} else if content != tokenTarget(caller.Token) {
					w.r.Inconclusive(fmt.Sprintf("%s: AcmeInstruction names target %q, the harness computes %q", w.name, content, tokenTarget(caller.Token)))
				}
			}
		default: // validate, valid hostname, valid proof
			switch rel {
			case "other":
				if err == nil {
					w.viol("rebound-to-other-client", fmt.Sprintf("%q is bound to %s; validation by %s (cname %s) succeeded", h.N, w.clients[boundTo].Name, caller.Name, cnameNames[ck]))
				}
			case "same":
				if err != nil {
					w.viol("revalidation-by-holder-refused", fmt.Sprintf("%q is bound to %s itself, validation failed: %v", h.N, caller.Name, err))
				}
			default:
				if ck == cRight {
					if err != nil {
						w.viol("valid-validation-refused", fmt.Sprintf("unbound %q, fresh valid proof, CNAME = caller's target, validation failed: %v", h.N, err))
					} else {
						w.bound[h.N] = ci
					}
				} else if err == nil {
					w.viol("bound-without-dns-proof/"+cnameNames[ck], fmt.Sprintf("%q became bound to %s although its challenge CNAME is %s", h.N, caller.Name, cnameNames[ck]))
					w.bound[h.N] = ci
				}
			}
		}
		w.compare()
	}
	return obs
}

// compare: the bindings stored in the DHT are exactly the model's.
func (w *world) compare() {
	stored := w.storedBindings()
	var keys []string
	for k := range stored {
		keys = append(keys, k)
	}
	sort.Strings(keys)
	byLower := map[string]string{}
	for _, rawKey := range keys {
		b := stored[rawKey]
		k := strings.ToLower(rawKey)
		if prev, dup := byLower[k]; dup {
			w.viol("case-variants-bound-separately", fmt.Sprintf("the DHT holds two bindings for one hostname: %q -> %v and %q -> %v", prev, stored[prev].GetClientIdentity().GetAddress(), rawKey, b.GetClientIdentity().GetAddress()))
			w.stopped = true
			continue
		}
		byLower[k] = rawKey
		o, ok := w.bound[k]
		if !ok {
			w.viol("binding-appeared", fmt.Sprintf("the DHT binds %q to %v, no successful validation explains it", rawKey, b.GetClientIdentity()))
			w.stopped = true
			continue
		}
		c := w.clients[o]
		if !bytes.Equal(b.GetClientToken().GetToken(), c.Token) || b.GetClientIdentity().GetId() != c.Node.GetId() || b.GetClientIdentity().GetAddress() != c.Node.GetAddress() {
			w.viol("binding-names-other-client", fmt.Sprintf("%q is bound to %v in the DHT, the model says %s", rawKey, b.GetClientIdentity(), c.Name))
			w.stopped = true
		}
	}
	for k, o := range w.bound {
		if _, ok := byLower[k]; !ok {
			w.viol("binding-lost", fmt.Sprintf("binding of %q to %s disappeared", k, w.clients[o].Name))
			delete(w.bound, k)
		}
	}
	_ = tun.NumRedundantLinks
}

func res(err error) string {
	if err == nil {
		return "ok"
	}
	s := err.Error()
	if len(s) > 120 {
		s = s[:120]
	}
	return "error: " + s
}
