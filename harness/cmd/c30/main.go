// C30 — keyless TLS serves only the bound client, with valid inputs.
//
// Part A: GetCertificate / Sign of the real tun/server.Server over a real
// one-node chord ring, custom hostnames bound to clients in the DHT, a scripted
// certificate provider with a generated ECDSA and RSA leaf, proofs of work made
// just in time. Signatures that are returned are verified against the leaf.
// Part B: the TTL the keyless cache loader assigns (VerifKeylessTTL with an
// explicit clock, VerifKeylessLoad with a [before, after] interval).
package main

import (
	"bytes"
	"context"
	"crypto"
	"crypto/ecdsa"
	"crypto/ed25519"
	"crypto/elliptic"
	crand "crypto/rand"
	"crypto/rsa"
	"crypto/tls"
	"crypto/x509"
	"crypto/x509/pkix"
	"errors"
	"fmt"
	"math/big"
	"math/rand"
	"strings"
	"sync"
	"time"

	"verifharness/lab/ev"
	"verifharness/lab/tunlab"

	"go.miragespace.co/specter/spec/acme"
	"go.miragespace.co/specter/spec/protocol"
	"go.miragespace.co/specter/spec/tun"
	"go.miragespace.co/specter/tun/server"
)

const (
	skew    = time.Minute     // the safety skew of the statement (keylessExpirySkew)
	maxKeep = 5 * time.Minute // longest time a certificate is kept (keylessPositiveTTL)
)

type leafKit struct {
	cert *tls.Certificate
	pub  crypto.PublicKey
	kind string
}

func makeLeaf(kind string, notAfter time.Time, withLeaf bool) *leafKit {
	var priv crypto.Signer
	var err error
	switch kind {
	case "ecdsa":
		priv, err = ecdsa.GenerateKey(elliptic.P256(), crand.Reader)
	case "rsa":
		priv, err = rsa.GenerateKey(crand.Reader, 2048)
	}
	if err != nil {
		panic(err)
	}
	return makeLeafWithKey(kind, priv, notAfter, withLeaf)
}

func makeLeafWithKey(kind string, priv crypto.Signer, notAfter time.Time, withLeaf bool) *leafKit {
	nb := time.Now().Add(-24 * time.Hour)
	if !notAfter.After(nb) {
		nb = notAfter.Add(-24 * time.Hour)
	}
	tmpl := x509.Certificate{SerialNumber: big.NewInt(time.Now().UnixNano()), Subject: pkix.Name{CommonName: "keyless " + kind}, NotBefore: nb, NotAfter: notAfter,
		KeyUsage: x509.KeyUsageDigitalSignature, DNSNames: []string{"*.example.net"}}
	der, err := x509.CreateCertificate(crand.Reader, &tmpl, &tmpl, priv.Public(), priv)
	if err != nil {
		panic(err)
	}
	k := &leafKit{cert: &tls.Certificate{Certificate: [][]byte{der, []byte("intermediate-" + kind)}, PrivateKey: priv}, pub: priv.Public(), kind: kind}
	if withLeaf {
		k.cert.Leaf, _ = x509.ParseCertificate(der)
	}
	return k
}

type opRecord struct {
	Step     int    `json:"step"`
	Op       string `json:"op"`
	Caller   string `json:"caller"`
	Hostname string `json:"hostname"`
	Relation string `json:"caller_is"`
	Proof    string `json:"proof"`
	Algo     string `json:"algo,omitempty"`
	Digest   int    `json:"digest_len,omitempty"`
	Result   string `json:"result"`
}

var proofKinds = []string{"valid", "none", "wrong-subject", "expired", "low-difficulty", "bad-signature", "unsolved"}

func makeProof(kind string, key ed25519.PrivateKey, subject string, rng *rand.Rand) *tunlab.Proof {
	var p tunlab.Proof
	var err error
	switch kind {
	case "none":
		return nil
	case "valid":
		p, err = tunlab.SolveAcme(key, subject)
	case "wrong-subject":
		p, err = tunlab.SolveAcme(key, "www."+subject)
	case "expired":
		p, err = tunlab.SolveCustom(key, subject, acme.HashcashDifficulty, time.Now().Add(-5*time.Second))
	case "low-difficulty":
		p, err = tunlab.SolveCustom(key, subject, 12, time.Now().Add(acme.HashcashExpires))
	case "bad-signature":
		p, err = tunlab.SolveAcme(key, subject)
		if err == nil {
			p.P.Signature[rng.Intn(len(p.P.Signature))] ^= 0x01
		}
	case "unsolved":
		p, err = tunlab.SolveAcme(key, subject)
		if err == nil {
			i := strings.LastIndex(p.P.Solution, ":")
			p.P.Solution = p.P.Solution[:i+1] + "AAAAAA"
			p.P.Signature = ed25519.Sign(key, []byte(p.P.Solution))
		}
	}
	if err != nil {
		panic(err)
	}
	return &p
}

type algoCase struct {
	name string
	val  protocol.KeylessSignRequest_HashAlgorithm
	hash crypto.Hash // 0 = unsupported
}

var algos = []algoCase{
	{"SHA256", protocol.KeylessSignRequest_SHA256, crypto.SHA256},
	{"SHA384", protocol.KeylessSignRequest_SHA384, crypto.SHA384},
	{"SHA512", protocol.KeylessSignRequest_SHA512, crypto.SHA512},
	{"UNKNOWN(0)", protocol.KeylessSignRequest_UNKNOWN, 0},
	{"undefined(4)", protocol.KeylessSignRequest_HashAlgorithm(4), 0},
	{"undefined(99)", protocol.KeylessSignRequest_HashAlgorithm(99), 0},
}

func main() {
	r := ev.Start("C30", "exploration")
	r.SetRule("A: seeded calls (quick 24 worlds x 16, thorough 300 x 16) of GetCertificate / Sign by three clients (two may share a node id) on hostnames {bound to client0 with an ECDSA leaf, bound to client1 with an RSA leaf, bound to nobody; plain and space-padded} x proofs {valid, none, wrong subject, expired, low difficulty, bad signature, unsolved} x algorithms {SHA256, SHA384, SHA512, UNKNOWN, two undefined enum values} x digest lengths {exact, -1, +1, 0, length of another supported hash}; distinct = (op, caller relation, proof kind, algorithm, digest-length class, result), non-trivial = at least one of the conditions of the statement is violated by the request or the call is served. B: TTL for certificates with remaining validity from -1 h to +10 min (dense around the skew and the 5 min cap), with and without a parsed Leaf, through VerifKeylessTTL with an explicit clock and through the real loader (VerifKeylessLoad), also behind a provider that answers after 0.2-1.5 s with a certificate close to NotAfter - skew; distinct = (remaining-validity bucket, leaf parsed, path).")
	r.Assume("safety skew = 1 min and cap = 5 min (the constants of keyless_cache.go); a certificate already inside the skew window may be kept for at most 1 s (deliberate floor, pinned by the repository's own test)")
	r.Assume("for the real loader the clock is read inside the call: ttl is judged against NotAfter - skew - (time before the call), which can only be more permissive than the loader's own clock")
	r.Assume("a request that satisfies every condition of the statement must be served (control; a failure with a fresh proof is reported as inconclusive, not as a violation)")
	rng := r.Rand("c30")

	// ---------------------------------------------------------------- part B (cheap, first)
	partB(r, rng)

	// ---------------------------------------------------------------- part A
	nWorlds := r.Pick(24, 300)
	nOps := 16
	seeds := make([]int64, nWorlds)
	for i := range seeds {
		seeds[i] = rng.Int63()
	}
	ca := tunlab.NewCA()
	far := time.Now().Add(90 * 24 * time.Hour)
	ecLeaf := makeLeaf("ecdsa", far, true)
	rsaLeaf := makeLeaf("rsa", far, false)
	var mu sync.Mutex
	var stale, served, refused int64
	tunlab.Parallel(nWorlds, 16, func(i int) {
		name := fmt.Sprintf("w%d", i)
		if !r.WantCase(name) {
			return
		}
		ops, st, sv, rf := runWorld(r, ca, name, i, rand.New(rand.NewSource(seeds[i])), nOps, ecLeaf, rsaLeaf)
		mu.Lock()
		stale += int64(st)
		served += int64(sv)
		refused += int64(rf)
		if i < 2 {
			if len(ops) > 10 {
				ops = ops[:10]
			}
			r.Sample(map[string]any{"world": name, "ops": ops})
		}
		mu.Unlock()
	})
	r.Count("stale_proofs_repeated_or_discounted", stale)
	r.Count("keyless_calls_served", served)
	r.Count("keyless_calls_refused", refused)
	r.Finish()
}

func runWorld(r *ev.Run, ca tls.Certificate, name string, wi int, rng *rand.Rand, nOps int, ecLeaf, rsaLeaf *leafKit) ([]opRecord, int, int, int) {
	lab, err := tunlab.NewLab(tunlab.Options{Retry: true})
	if err != nil {
		panic(err)
	}
	defer lab.Close()
	var clients []*tunlab.Client
	for k := 0; k < 3; k++ {
		id := uint64(rng.Int63n(1 << 40))
		if k == 1 && wi%2 == 1 {
			id = clients[0].ID // node ids are not identities
		}
		v1 := ""
		if k == 2 {
			v1 = fmt.Sprintf("legacy-%d", rng.Int63())
		}
		clients = append(clients, tunlab.NewClient(ca, fmt.Sprintf("client%d", k), id, v1))
	}
	type host struct {
		n     string
		owner int // -1 unbound
		leaf  *leafKit
	}
	hosts := []host{
		{fmt.Sprintf("ec%d.keyless%d.example.net", rng.Intn(100), wi), 0, ecLeaf},
		{fmt.Sprintf("rsa%d.keyless%d.example.net", rng.Intn(100), wi), 1, rsaLeaf},
		{fmt.Sprintf("nobody%d.keyless%d.example.net", rng.Intn(100), wi), -1, ecLeaf},
	}
	ctx := context.Background()
	byName := map[string]*leafKit{}
	for _, h := range hosts {
		byName[h.n] = h.leaf
		if h.owner >= 0 {
			c := clients[h.owner]
			if err := tun.SaveCustomHostname(ctx, lab.Ring.Node, h.n, &protocol.CustomHostname{ClientIdentity: c.Node, ClientToken: c.ClientToken()}); err != nil {
				panic(err)
			}
			if err := lab.Ring.Node.PrefixAppend(ctx, []byte(tun.ClientHostnamesPrefix(c.ClientToken())), []byte(h.n)); err != nil {
				panic(err)
			}
		}
	}
	lab.Certs.Fn = func(sni string) (*tls.Certificate, error) {
		if k, ok := byName[sni]; ok {
			return k.cert, nil
		}
		return nil, errors.New("no certificate for " + sni)
	}
	var ops []opRecord
	stale, served, refused := 0, 0, 0
	viol := func(step int, key, what string) {
		o := ops
		if len(o) > 8 {
			o = o[len(o)-8:]
		}
		r.Violation(key, name, fmt.Sprintf("step %d: %s", step, what), map[string]any{"world": name, "last_ops": o})
	}
	for step := 0; step < nOps; step++ {
		h := hosts[rng.Intn(len(hosts))]
		ci := rng.Intn(3)
		if rng.Intn(3) == 0 && h.owner >= 0 {
			ci = h.owner
		}
		caller := clients[ci]
		rel := "other-client"
		if h.owner == ci {
			rel = "bound-client"
		} else if h.owner < 0 {
			rel = "hostname-unbound"
		}
		raw := h.n
		if rng.Intn(5) == 0 {
			raw = " " + h.n + "  "
		}
		pk := "valid"
		if rng.Intn(100) < 30 {
			pk = proofKinds[1+rng.Intn(len(proofKinds)-1)]
		}
		op := "Sign"
		if rng.Intn(100) < 30 {
			op = "GetCertificate"
		}
		al := algos[0]
		digestLen, dclass := 0, ""
		if op == "Sign" {
			al = algos[rng.Intn(3)]
			if rng.Intn(100) < 30 {
				al = algos[rng.Intn(len(algos))]
			}
			base := 32
			if al.hash != 0 {
				base = al.hash.Size()
			}
			dclass = "exact"
			digestLen = base
			if rng.Intn(100) < 35 {
				switch rng.Intn(5) {
				case 0:
					digestLen, dclass = base-1, "minus1"
				case 1:
					digestLen, dclass = base+1, "plus1"
				case 2:
					digestLen, dclass = 0, "empty"
				case 3:
					digestLen, dclass = map[int]int{32: 48, 48: 64, 64: 32}[base], "other-hash-size"
				case 4:
					digestLen, dclass = base*2, "double"
				}
			}
		}
		digest := make([]byte, digestLen)
		rng.Read(digest)
		allGood := rel == "bound-client" && pk == "valid" && (op == "GetCertificate" || al.hash != 0 && dclass == "exact")
		rec := opRecord{Step: step, Op: op, Caller: caller.Name, Hostname: raw, Relation: rel, Proof: pk}
		if op == "Sign" {
			rec.Algo, rec.Digest = al.name, digestLen
		}
		cctx := caller.Ctx(ctx, step)
		var cerr error
		var chain [][]byte
		var sig []byte
		var last *tunlab.Proof
		for attempt := 0; ; attempt++ {
			p := makeProof(pk, caller.Key, h.n, rng)
			last = p
			var pp *protocol.ProofOfWork
			if p != nil {
				pp = p.P
			}
			if op == "GetCertificate" {
				var resp *protocol.KeylessGetCertificateResponse
				resp, cerr = lab.Server.GetCertificate(cctx, &protocol.KeylessGetCertificateRequest{Proof: pp, Hostname: raw})
				chain = resp.GetCertificates()
			} else {
				var resp *protocol.KeylessSignResponse
				resp, cerr = lab.Server.Sign(cctx, &protocol.KeylessSignRequest{Proof: pp, Hostname: raw, Digest: digest, Algo: al.val})
				sig = resp.GetSignature()
			}
			if cerr == nil || !allGood || p.Fresh() {
				break
			}
			stale++
			if attempt >= 5 {
				r.Inconclusive(name + ": no proof of work reached the server inside its acceptance window in 6 attempts")
				return ops, stale, served, refused
			}
		}
		if cerr == nil {
			rec.Result = "served"
			served++
		} else {
			rec.Result = "error: " + cerr.Error()
			refused++
			if pk == "valid" && last != nil && !last.Fresh() {
				stale++
			}
		}
		ops = append(ops, rec)
		sigCase := ""
		if !allGood || cerr == nil {
			sigCase = fmt.Sprintf("%s/%s/%s/%s/%s/%v", op, rel, pk, rec.Algo, dclass, cerr == nil)
		}
		r.Case(sigCase)

		if cerr == nil {
			switch {
			case rel != "bound-client":
				viol(step, "served-to-"+rel, fmt.Sprintf("%s for %q was served to %s (%s)", op, h.n, caller.Name, rel))
			case pk != "valid":
				viol(step, "served-without-valid-proof/"+pk, fmt.Sprintf("%s for %q served with a %s proof", op, h.n, pk))
			case op == "Sign" && al.hash == 0:
				viol(step, "signed-with-unsupported-hash", fmt.Sprintf("Sign served for algorithm %s", al.name))
			case op == "Sign" && dclass != "exact":
				viol(step, "signed-wrong-digest-length/"+dclass, fmt.Sprintf("Sign with %s served a %d-byte digest", al.name, digestLen))
			}
			// what was returned must be the real thing
			if op == "GetCertificate" {
				if len(chain) != len(h.leaf.cert.Certificate) || !bytes.Equal(chain[0], h.leaf.cert.Certificate[0]) {
					viol(step, "wrong-chain", fmt.Sprintf("GetCertificate for %q returned a chain of %d, not the provider's certificate for that name", h.n, len(chain)))
				}
			} else if rel == "bound-client" && al.hash != 0 && dclass == "exact" {
				ok := false
				switch pub := h.leaf.pub.(type) {
				case *ecdsa.PublicKey:
					ok = ecdsa.VerifyASN1(pub, digest, sig)
				case *rsa.PublicKey:
					ok = rsa.VerifyPKCS1v15(pub, al.hash, digest, sig) == nil
				}
				if !ok {
					viol(step, "signature-invalid/"+h.leaf.kind, fmt.Sprintf("signature returned for %q (%s, %s) does not verify against the certificate's key", h.n, h.leaf.kind, al.name))
				}
			}
		} else if allGood {
			// control: everything the statement asks for is there, proof was fresh
			r.Inconclusive(fmt.Sprintf("%s step %d: %s by the bound client with a fresh valid proof was refused: %v", name, step, op, cerr))
			return ops, stale, served, refused
		}
	}
	return ops, stale, served, refused
}

// ---------------------------------------------------------------- part B

func partB(r *ev.Run, rng *rand.Rand) {
	ecKey, _ := ecdsa.GenerateKey(elliptic.P256(), crand.Reader)
	check := func(path string, remaining time.Duration, parsed bool, ttl time.Duration, budget time.Duration, caseName string) {
		bucket := "expired"
		rem := remaining - skew // validity left after the skew
		switch {
		case rem <= -30*time.Minute:
			bucket = "long-expired"
		case rem <= 0:
			bucket = "inside-skew-or-expired"
		case rem < time.Second:
			bucket = "sub-second"
		case rem < maxKeep-time.Second:
			bucket = "clamped-by-expiry"
		case rem <= maxKeep+time.Second:
			bucket = "at-cap"
		default:
			bucket = "capped"
		}
		r.Case(fmt.Sprintf("ttl/%s/%s/leaf=%v", path, bucket, parsed))
		w := map[string]any{"path": path, "remaining_validity": remaining.String(), "leaf_parsed": parsed, "ttl": ttl.String()}
		if ttl <= 0 {
			r.Violation("ttl-nonpositive", caseName, fmt.Sprintf("ttl %v for remaining validity %v", ttl, remaining), w)
		}
		if ttl > maxKeep {
			r.Violation("ttl-above-cap", caseName, fmt.Sprintf("ttl %v exceeds the 5 min cap (remaining %v)", ttl, remaining), w)
		}
		allowed := budget - skew
		if allowed <= 0 || (path == "real-loader" && allowed < time.Second) {
			// already inside the skew window (or, for the real loader, possibly so by
			// the time it read its clock): the deliberate 1 s floor applies
			allowed = time.Second
		}
		if ttl > allowed {
			r.Violation("kept-past-expiry-minus-skew/"+bucket, caseName, fmt.Sprintf("certificate with %v of validity left is cached for %v: longer than expiry - skew (%v)", remaining, ttl, budget-skew), w)
		}
	}
	// explicit clock
	now := time.Date(2030, 3, 1, 12, 0, 0, 0, time.UTC)
	var rems []time.Duration
	for _, base := range []time.Duration{-time.Hour, -time.Minute, 0, skew, skew + time.Second, skew + maxKeep, 10 * time.Minute} {
		for _, d := range []time.Duration{-time.Second, -time.Millisecond, -1, 0, 1, time.Millisecond, time.Second} {
			rems = append(rems, base+d)
		}
	}
	n := r.Pick(400, 20000)
	for i := 0; i < n; i++ {
		rems = append(rems, -time.Hour+time.Duration(rng.Int63n(int64(70*time.Minute))))
	}
	sampled := 0
	for i, rem := range rems {
		parsed := i%2 == 0
		k := makeLeafWithKey("ecdsa", ecKey, now.Add(rem), parsed)
		// x509 stores NotAfter with second precision: use what the certificate really says
		c, _ := x509.ParseCertificate(k.cert.Certificate[0])
		real := c.NotAfter.Sub(now)
		ttl := server.VerifKeylessTTL(k.cert, now)
		name := fmt.Sprintf("ttl-clock/%d", i)
		check("explicit-clock", real, parsed, ttl, real, name)
		want := []time.Duration{3 * time.Minute, 20 * time.Minute, -5 * time.Minute}
		if sampled < 3 && i >= 49 && real > want[sampled]-2*time.Minute && real < want[sampled]+2*time.Minute {
			sampled++
			r.Sample(map[string]any{"path": "VerifKeylessTTL", "not_after_minus_now": real.String(), "leaf_parsed": parsed, "ttl": ttl.String()})
		}
	}
	// a certificate without any parsable leaf has no known expiry: only the cap applies
	junk := &tls.Certificate{Certificate: [][]byte{[]byte("not der")}}
	for _, c := range []*tls.Certificate{nil, junk, {}} {
		ttl := server.VerifKeylessTTL(c, now)
		r.Case("ttl/explicit-clock/no-leaf")
		if ttl <= 0 || ttl > maxKeep {
			r.Violation("ttl-no-leaf-out-of-range", "ttl-noleaf", fmt.Sprintf("ttl %v for a certificate without parsable leaf", ttl), nil)
		}
	}
	// the real loader
	lab, err := tunlab.NewLab(tunlab.Options{Script: &tunlab.ScriptVNode{Ident: &protocol.Node{Id: 1, Address: "x"}}})
	if err != nil {
		panic(err)
	}
	defer lab.Close()
	ca := tunlab.NewCA()
	caller := tunlab.NewClient(ca, "loader", 9, "")
	m := r.Pick(150, 3000)
	for i := 0; i < m; i++ {
		rem := -10*time.Minute + time.Duration(rng.Int63n(int64(25*time.Minute)))
		if i%5 == 0 {
			rem = skew + time.Duration(rng.Int63n(int64(4*time.Second))) - 2*time.Second
		}
		parsed := i%2 == 0
		k := makeLeafWithKey("ecdsa", ecKey, time.Now().Add(rem), parsed)
		c, _ := x509.ParseCertificate(k.cert.Certificate[0])
		lab.Certs.Fn = func(string) (*tls.Certificate, error) { return k.cert, nil }
		t0 := time.Now()
		cert, lerr, ttl := lab.Server.VerifKeylessLoad(caller.Ctx(context.Background(), i), fmt.Sprintf("h%d.example.net", i))
		if lerr != nil || cert == nil {
			r.Inconclusive(fmt.Sprintf("keyless loader failed: %v", lerr))
			return
		}
		budget := c.NotAfter.Sub(t0)
		check("real-loader", budget, parsed, ttl, budget, fmt.Sprintf("ttl-loader/%d", i))
		if i < 2 {
			r.Sample(map[string]any{"path": "VerifKeylessLoad", "not_after_minus_time_before_call": budget.String(), "leaf_parsed": parsed, "ttl": ttl.String()})
		}
	}
	// a provider that takes its time (on-demand issuance, storage round trips): the cache starts
	// counting the TTL when the loader returns, which is not before the provider has answered
	// (instant tp, read inside the provider right before it returns). So tp + ttl must not lie
	// beyond NotAfter - skew — unless the 1 s floor applies.
	{
		type slow struct {
			cert    *tls.Certificate
			latency time.Duration
			tp      time.Time
		}
		var smu sync.Mutex
		plans := map[string]*slow{}
		lab.Certs.Fn = func(sni string) (*tls.Certificate, error) {
			smu.Lock()
			pl := plans[sni]
			smu.Unlock()
			if pl == nil {
				return nil, errors.New("no plan")
			}
			time.Sleep(pl.latency)
			pl.tp = time.Now()
			return pl.cert, nil
		}
		ns := r.Pick(24, 200)
		var swg sync.WaitGroup
		for i := 0; i < ns; i++ {
			name := fmt.Sprintf("ttl-slow-provider/%d", i)
			if !r.WantCase(name) {
				continue
			}
			lat := time.Duration(200+rng.Intn(1300)) * time.Millisecond
			rem := skew + lat + time.Duration(1200+rng.Intn(3000))*time.Millisecond
			parsed := i%2 == 0
			sni := fmt.Sprintf("slow%d.example.net", i)
			swg.Add(1)
			go func(i int, name, sni string, lat, rem time.Duration, parsed bool) {
				defer swg.Done()
				k := makeLeafWithKey("ecdsa", ecKey, time.Now().Add(rem), parsed)
				c, _ := x509.ParseCertificate(k.cert.Certificate[0])
				pl := &slow{cert: k.cert, latency: lat}
				smu.Lock()
				plans[sni] = pl
				smu.Unlock()
				cert, lerr, ttl := lab.Server.VerifKeylessLoad(caller.Ctx(context.Background(), 10000+i), sni)
				if lerr != nil || cert == nil {
					r.Inconclusive(fmt.Sprintf("%s: keyless loader failed: %v", name, lerr))
					return
				}
				over := pl.tp.Add(ttl).Sub(c.NotAfter.Add(-skew))
				r.Case(fmt.Sprintf("ttl/slow-provider/leaf=%v/floor=%v", parsed, ttl <= time.Second))
				r.Count("loads_through_a_slow_provider", 1)
				if ttl > time.Second && over > 0 {
					r.Violation("kept-past-expiry-minus-skew/slow-provider", name, fmt.Sprintf("the provider answered after %v with a certificate that had %v left until NotAfter - skew; the loader returned ttl %v: counted from the provider's answer the entry outlives NotAfter - skew by %v", lat, c.NotAfter.Add(-skew).Sub(pl.tp), ttl, over),
						map[string]any{"provider_latency": lat.String(), "ttl": ttl.String(), "leaf_parsed": parsed})
				}
			}(i, name, sni, lat, rem, parsed)
		}
		swg.Wait()
	}
	// failed loads are recorded, not judged
	lab.Certs.Fn = func(string) (*tls.Certificate, error) { return nil, errors.New("provider down") }
	_, lerr, ttl := lab.Server.VerifKeylessLoad(caller.Ctx(context.Background(), 1), "down.example.net")
	r.Extra("failed_load", map[string]string{"err": fmt.Sprint(lerr), "ttl": ttl.String()})
}
