// C31 — proof-of-work checks accept exactly the valid proofs.
//
//	(a) hashcash.VerifBits (the bit test of verifier and solver) against a
//	    leading-zero-count reference on hashes built with exactly z zero bits.
//	(b) stamps brute-forced in the worker so that sha256(stamp) has exactly
//	    z in {d-1, d, d+1} leading zero bits -> hashcash.Verify and pow.VerifySolution
//	    accept iff z >= d (everything else valid).
//	(c) one field tampered at a time on an otherwise valid proof -> rejected;
//	    expiry offsets on both sides of "expired" and of the +-2*window bound.
//	(d) proofs produced by the repository's solver -> accepted.
package main

import (
	"crypto/ed25519"
	"crypto/sha256"
	"encoding/base64"
	"fmt"
	"math/rand"
	"runtime"
	"strings"
	"sync"
	"sync/atomic"
	"time"

	"verifharness/lab/ev"

	"go.miragespace.co/specter/spec/pow"
	"go.miragespace.co/specter/spec/protocol"
	"go.miragespace.co/specter/util/hashcash"
)

// leadingZeros is the reference: number of zero bits before the first one bit.
func leadingZeros(h []byte) int {
	n := 0
	for _, b := range h {
		if b == 0 {
			n += 8
			continue
		}
		for m := byte(0x80); m != 0 && b&m == 0; m >>= 1 {
			n++
		}
		return n
	}
	return n
}

func hashWithZeros(rng *rand.Rand, z int) []byte {
	h := make([]byte, 32)
	rng.Read(h)
	for i := 0; i < z && i < 256; i++ {
		h[i/8] &^= 0x80 >> (i % 8)
	}
	if z < 256 {
		h[z/8] |= 0x80 >> (z % 8)
	}
	return h
}

func stamp(d int, exp int64, subject, nonce, alg, solution string) string {
	e := ""
	if exp != 0 {
		e = fmt.Sprint(exp)
	}
	return strings.Join([]string{"H", fmt.Sprint(d), e, subject, nonce, alg, solution}, ":")
}

// mine finds the first counter (ascending, so deterministic) for which the
// stamp hash has exactly z leading zero bits (atLeast=false) or >= z (atLeast=true).
func mine(d int, exp int64, subject, nonce, alg string, z int, atLeast bool) (string, int, int64) {
	prefix := stamp(d, exp, subject, nonce, alg, "")
	buf := make([]byte, 0, len(prefix)+16)
	for c := int64(0); ; c++ {
		buf = append(buf[:0], prefix...)
		buf = appendCounter(buf, c)
		h := sha256.Sum256(buf)
		lz := leadingZeros(h[:])
		if lz == z || (atLeast && lz >= z) {
			return string(buf), lz, c + 1
		}
	}
}

const b64 = "ABCDEFGHIJKLMNOPQRSTUVWXYZabcdefghijklmnopqrstuvwxyz0123456789-_"

func appendCounter(b []byte, c int64) []byte {
	if c == 0 {
		return append(b, 'A')
	}
	for c > 0 {
		b = append(b, b64[c&63])
		c >>= 6
	}
	return b
}

type key struct {
	pub  ed25519.PublicKey
	priv ed25519.PrivateKey
}

func newKey(rng *rand.Rand) key {
	seed := make([]byte, ed25519.SeedSize)
	rng.Read(seed)
	priv := ed25519.NewKeyFromSeed(seed)
	return key{priv.Public().(ed25519.PublicKey), priv}
}

func pkiSubject(pub ed25519.PublicKey) string {
	h := sha256.Sum256(pub)
	return base64.URLEncoding.EncodeToString(h[:])
}

func proof(k key, st string) *protocol.ProofOfWork {
	return &protocol.ProofOfWork{PubKey: k.pub, Signature: ed25519.Sign(k.priv, []byte(st)), Solution: st}
}

const window = 6 * time.Hour    // pow.Parameters.Expires in every case
const margin = 45 * time.Minute // distance of every expiry offset from a boundary: far more than a run lasts

type job struct {
	name   string
	sig    string
	run    func() (accepted bool, detail string, tries int64)
	expect bool
	key    string
	sample map[string]any
}

func main() {
	r := ev.Start("C31", "exploration")
	r.SetRule("(a) VerifBits on hashes with exactly z leading zero bits, z 0..72 and 256, bits 0..64, seeded tails; (b) stamps mined to exactly z in {d-1,d,d+1} zero bits for every difficulty d up to the tier bound, through hashcash.Verify and pow.VerifySolution with PKI-style (key-derived) and fixed subjects; seeded random stamps at d 0..12; (c) one tampered field per case (signature bit, foreign key, re-signed by foreign key, subject, difficulty above/below, algorithm, tag, lengths, empty solution, expiry offsets around 'expired' and around +-2*window); (d) solver output; (e) on a virtual clock (overlay: util/hashcash and spec/pow read a settable clock) stamps verified 2s..1ns before and 1ns..61s after their expiry instant, through hashcash.Verify and pow.VerifySolution. Distinct by (part, d or bits, z relation or tamper kind, expected verdict).")
	rng := r.Rand("c31")
	r.SetMaxSamples(8)
	now := time.Now()

	// ---- (a) bit test ----
	tails := r.Pick(6, 200)
	nBits := 0
	for bits := 0; bits <= 64; bits++ {
		zs := []int{}
		for z := 0; z <= 72; z++ {
			zs = append(zs, z)
		}
		zs = append(zs, 256)
		for _, z := range zs {
			for t := 0; t < tails; t++ {
				h := hashWithZeros(rng, z)
				if leadingZeros(h) != z {
					r.Inconclusive("harness: hashWithZeros is wrong")
				}
				got := hashcash.VerifBits(h, bits)
				want := z >= bits
				rel := "lt"
				if z == bits {
					rel = "eq"
				} else if z > bits {
					rel = "gt"
				}
				r.Case(fmt.Sprintf("bits/%d/%s", bits, rel))
				nBits++
				if got != want {
					r.Violation(fmt.Sprintf("bit-test:bits%d", bits), "", fmt.Sprintf("VerifBits(%x, %d)=%v but the hash has %d leading zero bits", h, bits, got, z), map[string]any{"hash": fmt.Sprintf("%x", h), "bits": bits, "zeros": z})
				}
			}
		}
	}
	r.Count("bit_test_cases", int64(nBits))

	// ---- (b)(c)(d): jobs, run on all cores ----
	var jobs []job
	maxD := r.Pick(20, 24)
	fixedKey := newKey(rng)
	otherKey := newKey(rng)
	pkiParams := func(d int) pow.Parameters {
		return pow.Parameters{Difficulty: d, Expires: window, GetSubject: pkiSubject}
	}
	nonce := func() string {
		b := make([]byte, 12)
		rng.Read(b)
		return base64.RawURLEncoding.EncodeToString(b)
	}
	goodExp := now.Add(window).Unix()

	// (b) exact zero counts around every difficulty
	for d := 0; d <= maxD; d++ {
		for _, z := range []int{d - 1, d, d + 1} {
			if z < 0 {
				continue
			}
			d, z := d, z
			rel := map[int]string{-1: "z=d-1", 0: "z=d", 1: "z=d+1"}[z-d]
			k := newKey(rng)
			nn := nonce()
			hostSubject := fmt.Sprintf("host-%d.example.com", rng.Intn(1000))
			jobs = append(jobs, job{
				name: fmt.Sprintf("exact/d%d/%s/pow", d, rel), sig: fmt.Sprintf("exact/pow/d%d/%s", d, rel), expect: z >= d, key: fmt.Sprintf("threshold:d%d:%s", d, rel),
				run: func() (bool, string, int64) {
					st, lz, tries := mine(d, goodExp, pkiSubject(k.pub), nn, "SHA-256", z, false)
					_, err := pow.VerifySolution(proof(k, st), pkiParams(d))
					return err == nil, fmt.Sprintf("stamp %q zero bits %d: %v", st, lz, err), tries
				},
			})
			nn2 := nonce()
			jobs = append(jobs, job{
				name: fmt.Sprintf("exact/d%d/%s/hashcash", d, rel), sig: fmt.Sprintf("exact/hc/d%d/%s", d, rel), expect: z >= d, key: fmt.Sprintf("threshold:d%d:%s", d, rel),
				run: func() (bool, string, int64) {
					st, lz, tries := mine(d, goodExp, hostSubject, nn2, "SHA-256", z, false)
					hc, err := hashcash.Parse(st)
					if err != nil {
						return false, "parse: " + err.Error(), tries
					}
					if hc.String() != st {
						return false, "harness: stamp is not canonical: " + hc.String(), tries
					}
					err = hc.Verify(hostSubject)
					return err == nil, fmt.Sprintf("stamp %q zero bits %d: %v", st, lz, err), tries
				},
			})
		}
	}

	// (b') seeded random stamps, small difficulties: whatever zero count comes out
	nRandom := r.Pick(20000, 2000000)
	{
		seeds := make([]int64, 16) // fixed: the case list must not depend on the machine
		for i := range seeds {
			seeds[i] = rng.Int63()
		}
		per := nRandom / len(seeds)
		for i, s := range seeds {
			s := s
			jobs = append(jobs, job{name: fmt.Sprintf("random/%d", i), sig: "", expect: true, key: "random-stamp",
				run: func() (bool, string, int64) {
					lr := rand.New(rand.NewSource(s))
					for j := 0; j < per; j++ {
						d := lr.Intn(13)
						st := stamp(d, goodExp, "sub", fmt.Sprint(lr.Int63()), "SHA-256", fmt.Sprint(lr.Int63()))
						h := sha256.Sum256([]byte(st))
						lz := leadingZeros(h[:])
						hc, err := hashcash.Parse(st)
						if err != nil {
							return false, "parse " + st + ": " + err.Error(), int64(j)
						}
						err = hc.Verify("sub")
						if (err == nil) != (lz >= d) {
							return false, fmt.Sprintf("random stamp %q: %d leading zero bits, difficulty %d, Verify says %v", st, lz, d, err), int64(j)
						}
					}
					return true, "", int64(per)
				}})
		}
	}

	// (c) tampering. base: valid proof at difficulty dT with PKI-style subject.
	dT := 10
	type tamper struct {
		name   string
		expect bool
		build  func() (*protocol.ProofOfWork, pow.Parameters)
	}
	valid := func(k key, d int, exp int64, subject, alg string) string {
		st, _, _ := mine(d, exp, subject, nonce(), alg, d, true)
		return st
	}
	at := func(off time.Duration) int64 { return now.Add(off).Unix() }
	tampers := []tamper{
		{"untampered", true, func() (*protocol.ProofOfWork, pow.Parameters) {
			return proof(fixedKey, valid(fixedKey, dT, goodExp, pkiSubject(fixedKey.pub), "SHA-256")), pkiParams(dT)
		}},
		{"signature-bit-flipped", false, func() (*protocol.ProofOfWork, pow.Parameters) {
			p := proof(fixedKey, valid(fixedKey, dT, goodExp, pkiSubject(fixedKey.pub), "SHA-256"))
			p.Signature[rng.Intn(len(p.Signature))] ^= 1 << uint(rng.Intn(8))
			return p, pkiParams(dT)
		}},
		{"solution-changed-after-signing", false, func() (*protocol.ProofOfWork, pow.Parameters) {
			p := proof(fixedKey, valid(fixedKey, dT, goodExp, pkiSubject(fixedKey.pub), "SHA-256"))
			p.Solution = valid(fixedKey, dT, goodExp, pkiSubject(fixedKey.pub), "SHA-256")
			return p, pkiParams(dT)
		}},
		{"foreign-public-key", false, func() (*protocol.ProofOfWork, pow.Parameters) {
			p := proof(fixedKey, valid(fixedKey, dT, goodExp, pkiSubject(fixedKey.pub), "SHA-256"))
			p.PubKey = otherKey.pub
			return p, pkiParams(dT)
		}},
		{"resigned-by-foreign-key", false, func() (*protocol.ProofOfWork, pow.Parameters) {
			// a stolen stamp (subject bound to fixedKey) signed and presented by otherKey
			return proof(otherKey, valid(fixedKey, dT, goodExp, pkiSubject(fixedKey.pub), "SHA-256")), pkiParams(dT)
		}},
		{"wrong-subject", false, func() (*protocol.ProofOfWork, pow.Parameters) {
			return proof(fixedKey, valid(fixedKey, dT, goodExp, "someone-else", "SHA-256")), pkiParams(dT)
		}},
		{"subject-case-changed", false, func() (*protocol.ProofOfWork, pow.Parameters) {
			s := pkiSubject(fixedKey.pub)
			return proof(fixedKey, valid(fixedKey, dT, goodExp, swapCase(s), "SHA-256")), pkiParams(dT)
		}},
		{"difficulty-below-required", false, func() (*protocol.ProofOfWork, pow.Parameters) {
			return proof(fixedKey, valid(fixedKey, dT-1, goodExp, pkiSubject(fixedKey.pub), "SHA-256")), pkiParams(dT)
		}},
		{"difficulty-above-required", false, func() (*protocol.ProofOfWork, pow.Parameters) {
			return proof(fixedKey, valid(fixedKey, dT+1, goodExp, pkiSubject(fixedKey.pub), "SHA-256")), pkiParams(dT)
		}},
		{"difficulty-zero-stamp", false, func() (*protocol.ProofOfWork, pow.Parameters) {
			return proof(fixedKey, valid(fixedKey, 0, goodExp, pkiSubject(fixedKey.pub), "SHA-256")), pkiParams(dT)
		}},
		{"algorithm-sha1", false, func() (*protocol.ProofOfWork, pow.Parameters) {
			return proof(fixedKey, valid(fixedKey, dT, goodExp, pkiSubject(fixedKey.pub), "SHA-1")), pkiParams(dT)
		}},
		{"tag-not-H", false, func() (*protocol.ProofOfWork, pow.Parameters) {
			st := valid(fixedKey, dT, goodExp, pkiSubject(fixedKey.pub), "SHA-256")
			return proof(fixedKey, "X"+st[1:]), pkiParams(dT)
		}},
		{"solution-field-removed", false, func() (*protocol.ProofOfWork, pow.Parameters) {
			st := valid(fixedKey, dT, goodExp, pkiSubject(fixedKey.pub), "SHA-256")
			return proof(fixedKey, st[:strings.LastIndex(st, ":")]), pkiParams(dT)
		}},
		{"empty-solution-string", false, func() (*protocol.ProofOfWork, pow.Parameters) {
			return proof(fixedKey, ""), pkiParams(dT)
		}},
		{"short-public-key", false, func() (*protocol.ProofOfWork, pow.Parameters) {
			p := proof(fixedKey, valid(fixedKey, dT, goodExp, pkiSubject(fixedKey.pub), "SHA-256"))
			p.PubKey = p.PubKey[:31]
			return p, pkiParams(dT)
		}},
		{"short-signature", false, func() (*protocol.ProofOfWork, pow.Parameters) {
			p := proof(fixedKey, valid(fixedKey, dT, goodExp, pkiSubject(fixedKey.pub), "SHA-256"))
			p.Signature = p.Signature[:63]
			return p, pkiParams(dT)
		}},
		{"no-expiry", false, func() (*protocol.ProofOfWork, pow.Parameters) {
			return proof(fixedKey, valid(fixedKey, dT, 0, pkiSubject(fixedKey.pub), "SHA-256")), pkiParams(dT)
		}},
	}
	// expiry offsets: accepted iff 0 < exp-now <= 2*window; every offset keeps `margin` from a boundary
	for _, e := range []struct {
		name string
		off  time.Duration
		ok   bool
	}{
		{"expiry/just-expired", -margin, false},
		{"expiry/expired-long-ago", -2*window - margin, false},
		{"expiry/expired-inside-window", -window, false},
		{"expiry/soon", margin, true},
		{"expiry/at-window", window, true},
		{"expiry/below-twice-window", 2*window - margin, true},
		{"expiry/above-twice-window", 2*window + margin, false},
		{"expiry/far-future", 400 * 24 * time.Hour, false},
		// beyond the range of a time.Duration (about 292 years): differences saturate there
		{"expiry/291-years-ahead", 291 * 365 * 24 * time.Hour, false},
		{"expiry/centuries-ahead/300y", 0, false},
		{"expiry/centuries-ahead/1000y", 0, false},
		{"expiry/centuries-ahead/year-9999", 0, false},
		{"expiry/centuries-behind/300y", 0, false},
	} {
		e := e
		tampers = append(tampers, tamper{e.name, e.ok, func() (*protocol.ProofOfWork, pow.Parameters) {
			exp := at(e.off)
			switch {
			case strings.HasSuffix(e.name, "/300y") && strings.Contains(e.name, "ahead"):
				exp = now.AddDate(300, 0, 0).Unix()
			case strings.HasSuffix(e.name, "/1000y"):
				exp = now.AddDate(1000, 0, 0).Unix()
			case strings.HasSuffix(e.name, "/year-9999"):
				exp = time.Date(9999, 12, 31, 23, 59, 59, 0, time.UTC).Unix()
			case strings.HasSuffix(e.name, "/300y"):
				exp = now.AddDate(-300, 0, 0).Unix()
			}
			return proof(fixedKey, valid(fixedKey, dT, exp, pkiSubject(fixedKey.pub), "SHA-256")), pkiParams(dT)
		}})
	}
	reps := r.Pick(3, 40)
	for rep := 0; rep < reps; rep++ {
		for _, t := range tampers {
			t := t
			// built here (sequentially: they draw from the seeded stream), verified in the pool
			p, params := t.build()
			jobs = append(jobs, job{name: fmt.Sprintf("tamper/%s/%d", t.name, rep), sig: fmt.Sprintf("tamper/%s/%v", t.name, t.expect), expect: t.expect, key: "tamper:" + t.name,
				sample: map[string]any{"case": t.name, "solution": p.GetSolution(), "difficulty_required": params.Difficulty},
				run: func() (bool, string, int64) {
					d, err := pow.VerifySolution(p, params)
					if err == nil && (d == nil || !d.PubKey.Equal(ed25519.PublicKey(p.PubKey)) || d.Subject != pkiSubject(p.PubKey)) {
						return !t.expect, "harness-visible: accepted, but the decoded key/subject are not those of the proof", 0
					}
					return err == nil, fmt.Sprintf("stamp %q: %v", p.GetSolution(), err), 0
				}})
		}
	}

	// (d) the repository's solver
	solverMax := r.Pick(16, 21)
	for d := 1; d <= solverMax; d++ {
		d := d
		k := newKey(rng)
		jobs = append(jobs, job{name: fmt.Sprintf("solver/d%d", d), sig: fmt.Sprintf("solver/d%d", d), expect: true, key: fmt.Sprintf("solver:d%d", d),
			run: func() (bool, string, int64) {
				p, err := pow.GenerateSolution(k.priv, pkiParams(d))
				if err != nil {
					return false, "GenerateSolution: " + err.Error(), 0
				}
				h := sha256.Sum256([]byte(p.GetSolution()))
				if lz := leadingZeros(h[:]); lz < d {
					return false, fmt.Sprintf("solver returned %q with only %d leading zero bits", p.GetSolution(), lz), 0
				}
				_, err = pow.VerifySolution(p, pkiParams(d))
				return err == nil, fmt.Sprintf("solver stamp %q: %v", p.GetSolution(), err), 0
			}})
	}

	type res struct {
		ok     bool
		detail string
		tries  int64
	}
	results := make([]res, len(jobs))
	ch := make(chan int, len(jobs))
	// expensive mining jobs first
	for i := len(jobs) - 1; i >= 0; i-- {
		if strings.HasPrefix(jobs[i].name, "exact/") {
			ch <- i
		}
	}
	for i := range jobs {
		if !strings.HasPrefix(jobs[i].name, "exact/") {
			ch <- i
		}
	}
	close(ch)
	var wg sync.WaitGroup
	for w := 0; w < runtime.GOMAXPROCS(0); w++ {
		wg.Add(1)
		go func() {
			defer wg.Done()
			for i := range ch {
				if !r.WantCase(jobs[i].name) {
					continue
				}
				ok, detail, tries := jobs[i].run()
				results[i] = res{ok, detail, tries}
			}
		}()
	}
	wg.Wait()
	var hashes int64
	sampled := map[string]bool{}
	for i, j := range jobs {
		if !r.WantCase(j.name) {
			continue
		}
		rs := results[i]
		if strings.HasPrefix(j.name, "random/") {
			for k := int64(0); k < rs.tries; k++ {
				r.Case("")
			}
			r.Count("random_stamps", rs.tries)
		} else {
			r.Case(j.sig)
			hashes += rs.tries
		}
		if strings.HasPrefix(rs.detail, "harness:") {
			r.Inconclusive(j.name + ": " + rs.detail)
			continue
		}
		kind := strings.SplitN(j.name, "/", 2)[0]
		if kind == "exact" && strings.Contains(j.name, "/pow") && strings.HasPrefix(j.name, "exact/d12/") || kind == "tamper" && !sampled[j.key] && len(sampled) < 4 && (j.key == "tamper:resigned-by-foreign-key" || strings.HasPrefix(j.key, "tamper:expiry/below") || strings.HasPrefix(j.key, "tamper:expiry/above") || j.key == "tamper:difficulty-above-required") {
			if kind == "tamper" {
				sampled[j.key] = true
			}
			r.Sample(map[string]any{"case": j.name, "expected_accept": j.expect, "accepted": rs.ok, "observed": rs.detail})
		}
		if rs.ok != j.expect {
			what := "rejected a valid proof"
			if rs.ok {
				what = "accepted an invalid proof"
			}
			r.Violation(j.key, j.name, fmt.Sprintf("%s: %s (%s)", j.name, what, rs.detail), map[string]any{"case": j.name, "expected_accept": j.expect, "accepted": rs.ok, "detail": rs.detail, "more": j.sample})
		}
	}
	r.Count("mining_hashes", hashes)

	// (e) the expiry instant itself, on a virtual clock: the overlay makes util/hashcash and
	// spec/pow read VerifNow; sequential, after the pool, so nothing else sees the clock move
	{
		var vnow atomic.Int64 // Unix nanoseconds
		clock := func() time.Time { return time.Unix(0, vnow.Load()).UTC() }
		hashcash.VerifNow, pow.VerifNow = clock, clock
		base := now.Add(time.Hour).Truncate(time.Second)
		// is the virtual clock what the code reads? a stamp expiring at base: valid an hour before, expired an hour after
		probe := proof(fixedKey, valid(fixedKey, dT, base.Unix(), pkiSubject(fixedKey.pub), "SHA-256"))
		vnow.Store(base.Add(-time.Hour).UnixNano())
		_, e1 := pow.VerifySolution(probe, pkiParams(dT))
		vnow.Store(base.Add(time.Hour).UnixNano())
		_, e2 := pow.VerifySolution(probe, pkiParams(dT))
		if e1 != nil || e2 == nil {
			r.Assume(fmt.Sprintf("the virtual clock is not effective (probe: %v / %v): the expiry instant itself is not examined", e1, e2))
		} else {
			offs := []struct {
				name string
				off  time.Duration
				ok   bool
				dc   bool
			}{
				{"2s-before", -2 * time.Second, true, false}, {"1s-before", -time.Second, true, false}, {"1ms-before", -time.Millisecond, true, false}, {"1ns-before", -time.Nanosecond, true, false},
				{"at-the-instant", 0, true, true}, // whether the instant itself still counts is not pinned down by the statement
				{"1ns-after", time.Nanosecond, false, false}, {"1ms-after", time.Millisecond, false, false}, {"150ms-after", 150 * time.Millisecond, false, false}, {"500ms-after", 500 * time.Millisecond, false, false},
				{"999ms-after", 999 * time.Millisecond, false, false}, {"1s-after", time.Second, false, false}, {"1s+1ns-after", time.Second + 1, false, false}, {"2s-after", 2 * time.Second, false, false}, {"61s-after", 61 * time.Second, false, false},
				// the other end of the allowed window: the stamp expires 2*window after the clock
				{"window-edge-1s-inside", -2*window + time.Second, true, false}, {"window-edge-1ns-inside", -2*window + 1, true, false},
				{"window-edge-exact", -2 * window, true, true},
				{"window-edge-1ns-outside", -2*window - 1, false, false}, {"window-edge-1s-outside", -2*window - time.Second, false, false},
			}
			nb := 0
			for rep := 0; rep < r.Pick(4, 40); rep++ {
				T := base.Add(time.Duration(rng.Intn(86400)) * time.Second)
				k := newKey(rng)
				p := proof(k, valid(k, dT, T.Unix(), pkiSubject(k.pub), "SHA-256"))
				hc, perr := hashcash.Parse(p.GetSolution())
				for _, o := range offs {
					name := fmt.Sprintf("expiry-instant/%s/%d", o.name, rep)
					if !r.WantCase(name) {
						continue
					}
					vnow.Store(T.Add(o.off).UnixNano())
					_, err := pow.VerifySolution(p, pkiParams(dT))
					var herr error = perr
					if perr == nil {
						herr = hc.Verify(pkiSubject(k.pub))
					}
					nb++
					for _, lv := range []struct {
						api string
						err error
					}{{"pow.VerifySolution", err}, {"hashcash.Verify", herr}} {
						if strings.HasPrefix(o.name, "window-edge") && lv.api == "hashcash.Verify" {
							continue // the window is a rule of pow.VerifySolution only
						}
						if o.dc {
							r.Case("")
							continue
						}
						r.Case(fmt.Sprintf("expiry-instant/%s/%s/%v", lv.api, o.name, lv.err == nil))
						if (lv.err == nil) != o.ok {
							what := "rejected a proof that has not expired"
							if lv.err == nil {
								what = "accepted an expired proof"
							}
							r.Violation("expiry-instant:"+o.name, name, fmt.Sprintf("%s %s: the stamp expires at %s, the clock reads %s (%s): %v", lv.api, what, T.Format(time.RFC3339), T.Add(o.off).Format(time.RFC3339Nano), o.name, lv.err),
								map[string]any{"stamp": p.GetSolution(), "expires_at": T.Format(time.RFC3339Nano), "clock": T.Add(o.off).Format(time.RFC3339Nano), "api": lv.api, "error": fmt.Sprint(lv.err)})
						}
					}
				}
			}
			r.Count("expiry_instant_probes_on_virtual_clock", int64(nb))
		}
		hashcash.VerifNow, pow.VerifNow = time.Now, time.Now
	}

	// observation only: Difficulty 0 is replaced by 10 inside hashcash.New, so the
	// solver cannot produce a difficulty-0 proof; the property's solver clause is
	// exercised for d >= 1.
	if p, err := pow.GenerateSolution(fixedKey.priv, pkiParams(0)); err == nil {
		_, verr := pow.VerifySolution(p, pkiParams(0))
		r.Extra("observation_solver_difficulty0", fmt.Sprintf("stamp %q verify: %v", p.GetSolution(), verr))
	} else {
		r.Extra("observation_solver_difficulty0", "GenerateSolution: "+err.Error())
	}
	r.Extra("bounds", map[string]any{"exact_zero_counts_up_to_difficulty": maxD, "solver_up_to_difficulty": solverMax, "bit_test_bits": "0..64", "expiry_margin_minutes": margin.Minutes(), "window_hours": window.Hours()})
	r.Assume("the wall clock does not jump by more than 45 minutes during the run (expiry offsets keep that margin from every boundary)")
	r.Assume("stamps are canonical (Parse().String() reproduces them); non-canonical encodings of the difficulty field are not generated")
	r.Finish()
}

func swapCase(s string) string {
	b := []byte(s)
	for i, c := range b {
		if c >= 'a' && c <= 'z' {
			b[i] = c - 32
			return string(b)
		}
		if c >= 'A' && c <= 'Z' {
			b[i] = c + 32
			return string(b)
		}
	}
	return s + "x"
}
