// C32 — client certificates carry a stable identity that only the key holder can renew.
//
// Real pki.Server (RequestCertificate / RenewCertificate) with a CA made by the
// worker; seeded ed25519 keys. Per key: issuance (twice), then the renewal matrix
// {our CA, foreign CA, foreign CA with our CA's name} x {v2, v1 subject} x {own key,
// other key}, validity classes {expired, not yet valid} x the three CAs, corrupted /
// non-client certificates, and a renewal of the renewal.
package main

import (
	"context"
	"crypto/ed25519"
	"crypto/rand"
	"crypto/sha256"
	"crypto/tls"
	"crypto/x509"
	"crypto/x509/pkix"
	"encoding/base64"
	"fmt"
	"math/big"
	mrand "math/rand"
	"runtime"
	"strconv"
	"strings"
	"sync"
	"time"

	"verifharness/lab/ev"

	pkiimpl "go.miragespace.co/specter/pki"
	"go.miragespace.co/specter/spec/chord"
	"go.miragespace.co/specter/spec/pki"
	"go.miragespace.co/specter/spec/protocol"

	"go.uber.org/zap"
)

func makeCA(cn string) tls.Certificate {
	tmpl := &x509.Certificate{
		SerialNumber:          big.NewInt(time.Now().UnixNano()),
		Subject:               pkix.Name{CommonName: cn},
		NotBefore:             time.Now().Add(-time.Hour),
		NotAfter:              time.Now().AddDate(10, 0, 0),
		IsCA:                  true,
		ExtKeyUsage:           []x509.ExtKeyUsage{x509.ExtKeyUsageClientAuth, x509.ExtKeyUsageServerAuth},
		KeyUsage:              x509.KeyUsageDigitalSignature | x509.KeyUsageCertSign,
		BasicConstraintsValid: true,
	}
	pub, priv, err := ed25519.GenerateKey(rand.Reader)
	if err != nil {
		panic(err)
	}
	der, err := x509.CreateCertificate(rand.Reader, tmpl, tmpl, pub, priv)
	if err != nil {
		panic(err)
	}
	return tls.Certificate{Certificate: [][]byte{der}, PrivateKey: priv}
}

type kp struct {
	pub  ed25519.PublicKey
	priv ed25519.PrivateKey
}

func newKey(rng *mrand.Rand) kp {
	seed := make([]byte, ed25519.SeedSize)
	rng.Read(seed)
	priv := ed25519.NewKeyFromSeed(seed)
	return kp{priv.Public().(ed25519.PublicKey), priv}
}

type env struct {
	r       *ev.Run
	server  *pkiimpl.Server
	ourCA   tls.Certificate
	pool    *x509.CertPool
	foreign tls.Certificate // different name
	twin    tls.Certificate // same subject name as ourCA, different key
	logger  *zap.Logger

	mu          sync.Mutex
	tokens      map[string]string // token -> key fingerprint
	sampled     map[string]bool
	expired     int64
	outOfWindow map[string]int
	sem         chan struct{} // bounds the CPU-heavy part (proof of work + RPC)
}

// expiredProof: the 10-second proof-of-work stamp ran out before the server looked at
// it (possible on an overloaded machine) — says nothing about the property.
func expiredProof(err error) bool {
	return err != nil && (strings.Contains(err.Error(), "expired hashcash") || strings.Contains(err.Error(), "expires too far away"))
}

func (e *env) issue(k kp) (*protocol.CertificateResponse, error) {
	var resp *protocol.CertificateResponse
	var err error
	for a := 0; a < 4; a++ {
		var req *protocol.CertificateRequest
		e.sem <- struct{}{}
		req, err = pkiimpl.CreateRequest(k.priv)
		if err != nil {
			return nil, fmt.Errorf("harness: CreateRequest: %w", err)
		}
		resp, err = e.server.RequestCertificate(context.Background(), req)
		<-e.sem
		if !expiredProof(err) {
			return resp, err
		}
		e.mu.Lock()
		e.expired++
		e.mu.Unlock()
	}
	return nil, fmt.Errorf("harness: proof expired four times: %w", err)
}

func (e *env) renew(k kp, der []byte) (*protocol.CertificateResponse, error) {
	var resp *protocol.CertificateResponse
	var err error
	for a := 0; a < 4; a++ {
		var req *protocol.CertificateRenewalRequest
		e.sem <- struct{}{}
		req, err = pkiimpl.CreateRenewalRequest(k.priv, der)
		if err != nil {
			return nil, fmt.Errorf("harness: CreateRenewalRequest: %w", err)
		}
		resp, err = e.server.RenewCertificate(context.Background(), req)
		<-e.sem
		if !expiredProof(err) {
			return resp, err
		}
		e.mu.Lock()
		e.expired++
		e.mu.Unlock()
	}
	return nil, fmt.Errorf("harness: proof expired four times: %w", err)
}

func (e *env) verifyAgainstOurCA(c *x509.Certificate) error {
	_, err := c.Verify(x509.VerifyOptions{Roots: e.pool, KeyUsages: []x509.ExtKeyUsage{x509.ExtKeyUsageClientAuth}})
	return err
}

func keyHashB64(pub ed25519.PublicKey) string {
	h := sha256.Sum256(pub)
	return base64.URLEncoding.EncodeToString(h[:])
}

// checkIssued: the statement's clauses about one issued certificate.
func (e *env) checkIssued(caseName, what string, der []byte, k kp) (*x509.Certificate, *pki.Identity, bool) {
	fail := func(key, msg string) (*x509.Certificate, *pki.Identity, bool) {
		e.r.Violation(key, caseName, what+": "+msg, map[string]any{"case": caseName, "cert_der_b64": base64.StdEncoding.EncodeToString(der), "public_key": fmt.Sprintf("%x", k.pub)})
		return nil, nil, false
	}
	c, err := x509.ParseCertificate(der)
	if err != nil {
		return fail("issued:unparsable", "certificate does not parse: "+err.Error())
	}
	if err := e.verifyAgainstOurCA(c); err != nil {
		return fail("issued:not-from-ca", "certificate does not verify against the client CA: "+err.Error())
	}
	pub, ok := c.PublicKey.(ed25519.PublicKey)
	if !ok || !pub.Equal(k.pub) {
		return fail("issued:wrong-key", "certificate key is not the proof-of-work key")
	}
	cn := c.Subject.CommonName
	parts := strings.Split(cn, ":")
	if len(parts) != 3 || parts[0] != "v2" {
		return fail("issued:subject-format", fmt.Sprintf("common name %q is not v2:<id>:<hash>", cn))
	}
	id, perr := strconv.ParseUint(parts[1], 10, 64)
	if perr != nil || strconv.FormatUint(id, 10) != parts[1] || id >= chord.MaxIdentitifer {
		return fail("issued:subject-id", fmt.Sprintf("common name %q: id is not a canonical decimal ring identifier", cn))
	}
	if parts[2] != keyHashB64(k.pub) {
		return fail("issued:subject-not-bound-to-key", fmt.Sprintf("common name %q: third field is not base64url(sha256(public key)) = %s", cn, keyHashB64(k.pub)))
	}
	ident, err := pki.ExtractCertificateIdentity(c)
	if err != nil {
		return fail("identity:extract", "ExtractCertificateIdentity: "+err.Error())
	}
	if ident.Version != pki.TokenV2 || ident.ID != id || string(ident.Token) != cn {
		return fail("identity:mismatch", fmt.Sprintf("identity {version %s id %d token %q} does not reflect subject %q", ident.Version, ident.ID, ident.Token, cn))
	}
	if n := ident.NodeIdentity(); n.GetId() != id || n.GetAddress() != string(ident.Token) {
		return fail("identity:node", "NodeIdentity does not carry id/token")
	}
	return c, ident, true
}

type cell struct {
	ca      string // our | foreign | twin
	version string // v2 | v1
	ownKey  bool
}

func (e *env) runKey(idx int, k, other kp, rng *mrand.Rand) {
	r := e.r
	name := func(s string) string { return fmt.Sprintf("key%d/%s", idx, s) }
	harnessErr := func(cn string, err error) bool {
		if err != nil && strings.HasPrefix(err.Error(), "harness:") {
			r.Inconclusive(cn + ": " + err.Error())
			return true
		}
		return false
	}

	if r.ReplayCase != "" && !strings.HasPrefix(r.ReplayCase, fmt.Sprintf("key%d/", idx)) {
		return
	}
	// --- issuance, twice for the same key ---
	var certs [2]*x509.Certificate
	var ders [2][]byte
	var idents [2]*pki.Identity
	for i := 0; i < 2; i++ {
		cn := name(fmt.Sprintf("issue%d", i))
		resp, err := e.issue(k)
		if harnessErr(cn, err) {
			return
		}
		r.Case("issue/ok")
		if err != nil {
			r.Violation("issue:rejected", cn, "RequestCertificate with a valid proof failed: "+err.Error(), nil)
			return
		}
		if string(pki.MarshalCertificate(resp.GetCertDer())) != string(resp.GetCertPem()) {
			r.Violation("issued:pem-der-differ", cn, "CertPem is not the PEM form of CertDer", nil)
		}
		c, id, ok := e.checkIssued(cn, "issued certificate", resp.GetCertDer(), k)
		if !ok {
			return
		}
		certs[i], ders[i], idents[i] = c, resp.GetCertDer(), id
		e.mu.Lock()
		fp := fmt.Sprintf("%x", k.pub)
		if prev, dup := e.tokens[string(id.Token)]; dup && prev != fp {
			e.mu.Unlock()
			r.Violation("token:shared-by-two-keys", cn, fmt.Sprintf("token %q was issued to two different keys", id.Token), nil)
			return
		}
		e.tokens[string(id.Token)] = fp
		if !e.sampled["issue"] {
			e.sampled["issue"] = true
			r.Sample(map[string]any{"case": cn, "public_key": fp, "common_name": c.Subject.CommonName, "identity": map[string]any{"id": id.ID, "version": id.Version, "token": string(id.Token)}})
		}
		e.mu.Unlock()
	}
	// token unique to the subject: different subjects <=> different tokens
	if (certs[0].Subject.String() == certs[1].Subject.String()) != (string(idents[0].Token) == string(idents[1].Token)) {
		r.Violation("token:not-unique-to-subject", name("issue1"), fmt.Sprintf("subjects %q / %q but tokens %q / %q", certs[0].Subject, certs[1].Subject, idents[0].Token, idents[1].Token), nil)
	}
	r.Case("issue/twice-same-key")

	// --- renewal matrix (cells run concurrently; certificates are made first, sequentially, from the key's seeded stream) ---
	var wg sync.WaitGroup
	mk := func(ca tls.Certificate, version string, pub ed25519.PublicKey) []byte {
		var sub pkix.Name
		id := rng.Uint64() % chord.MaxIdentitifer
		h := sha256.Sum256(pub)
		if version == "v1" {
			sub = pki.MakeSubjectV1(id, fmt.Sprintf("legacy-token-%d", rng.Intn(1e6)))
		} else {
			sub = pki.MakeSubjectV2(id, h[:])
		}
		der, err := pki.GenerateCertificate(e.logger, ca, pki.IdentityRequest{PublicKey: pub, Subject: sub})
		if err != nil {
			panic(err)
		}
		return der
	}
	for _, ce := range []cell{
		{"our", "v2", true}, {"our", "v2", false}, {"our", "v1", true}, {"our", "v1", false},
		{"foreign", "v2", true}, {"foreign", "v2", false}, {"foreign", "v1", true}, {"foreign", "v1", false},
		{"twin", "v2", true}, {"twin", "v1", false},
		// a client-CA certificate whose v2 subject names the hash of ANOTHER key (hand-issued / migrated):
		// the key that counts is the one the certificate holds, not the one its subject talks about
		{"our-subject-names-other-key", "v2", false}, {"our-subject-names-other-key", "v2", true},
	} {
		cn := name(fmt.Sprintf("renew/%s-ca/%s/own-key=%v", ce.ca, ce.version, ce.ownKey))
		if !r.WantCase(cn) {
			continue
		}
		var der []byte
		switch {
		case ce.ca == "our" && ce.version == "v2":
			der = ders[0] // the certificate the server itself issued
		case ce.ca == "our-subject-names-other-key":
			h := sha256.Sum256(other.pub)
			var gerr error
			der, gerr = pki.GenerateCertificate(e.logger, e.ourCA, pki.IdentityRequest{PublicKey: k.pub, Subject: pki.MakeSubjectV2(rng.Uint64()%chord.MaxIdentitifer, h[:])})
			if gerr != nil {
				panic(gerr)
			}
		case ce.ca == "our":
			der = mk(e.ourCA, "v1", k.pub)
		case ce.ca == "foreign":
			der = mk(e.foreign, ce.version, k.pub)
		default:
			der = mk(e.twin, ce.version, k.pub)
		}
		wg.Add(1)
		go func(ce cell, cn string, der []byte) {
			defer wg.Done()
			signer := k
			if !ce.ownKey {
				signer = other
			}
			resp, err := e.renew(signer, der)
			if harnessErr(cn, err) {
				return
			}
			wantOK := ce.ca == "our" && ce.version == "v2" && ce.ownKey
			r.Case(fmt.Sprintf("renew/%s/%s/own=%v/accepted=%v", ce.ca, ce.version, ce.ownKey, err == nil))
			e.mu.Lock()
			sk := fmt.Sprintf("renew/%s/%s/%v", ce.ca, ce.version, ce.ownKey)
			if !e.sampled[sk] && len(e.sampled) < 6 && (wantOK || ce.ca == "twin" || !ce.ownKey && ce.ca == "our") {
				e.sampled[sk] = true
				r.Sample(map[string]any{"case": cn, "issuer": ce.ca, "subject_version": ce.version, "proof_by_certificate_key": ce.ownKey, "server_error": fmt.Sprint(err)})
			}
			e.mu.Unlock()
			key := fmt.Sprintf("renew:%s-ca:%s:own-key=%v", ce.ca, ce.version, ce.ownKey)
			if ce.ca == "our-subject-names-other-key" && ce.ownKey {
				// the holder of the certificate's key renewing a certificate with an inconsistent subject:
				// not judged either way; if it is renewed, the subject must stay what it was
				if err == nil {
					if nc, perr := x509.ParseCertificate(resp.GetCertDer()); perr == nil {
						if oc, perr := x509.ParseCertificate(der); perr == nil && string(nc.RawSubject) != string(oc.RawSubject) {
							r.Violation("renewed:subject-changed", cn, fmt.Sprintf("subject %q became %q", oc.Subject, nc.Subject), nil)
						}
					}
				}
				return
			}
			if !wantOK {
				if err == nil {
					r.Violation(key+":accepted", cn, fmt.Sprintf("renewal succeeded for a certificate issued by %s CA with a %s subject, proof made with the certificate's own key: %v", ce.ca, ce.version, ce.ownKey), map[string]any{"cert_der_b64": base64.StdEncoding.EncodeToString(der)})
				}
				return
			}
			if err != nil {
				r.Violation(key+":rejected", cn, "renewal of a certificate issued by the client CA, v2 subject, own key failed: "+err.Error(), nil)
				return
			}
			nc, nid, ok := e.checkIssued(cn, "renewed certificate", resp.GetCertDer(), k)
			if !ok {
				return
			}
			if nc.Subject.String() != certs[0].Subject.String() || string(nc.RawSubject) != string(certs[0].RawSubject) {
				r.Violation("renewed:subject-changed", cn, fmt.Sprintf("subject %q became %q", certs[0].Subject, nc.Subject), nil)
			}
			if nid.ID != idents[0].ID || string(nid.Token) != string(idents[0].Token) || nid.Version != idents[0].Version {
				r.Violation("renewed:identity-changed", cn, fmt.Sprintf("identity %+v became %+v", idents[0], nid), nil)
			}
			// the renewed certificate is itself renewable by the same key only
			cn2 := cn + "/again"
			resp2, err := e.renew(k, resp.GetCertDer())
			if harnessErr(cn2, err) {
				return
			}
			r.Case("renew/renewed/own")
			if err != nil {
				r.Violation("renew:renewed-cert:rejected", cn2, "a renewed certificate could not be renewed: "+err.Error(), nil)
			} else if c2, id2, ok := e.checkIssued(cn2, "twice renewed certificate", resp2.GetCertDer(), k); ok {
				if string(c2.RawSubject) != string(certs[0].RawSubject) || string(id2.Token) != string(idents[0].Token) || id2.ID != idents[0].ID {
					r.Violation("renewed:identity-changed", cn2, "identity changed on the second renewal", nil)
				}
			}
			_, err = e.renew(other, resp.GetCertDer())
			if !harnessErr(cn2, err) {
				r.Case("renew/renewed/other")
				if err == nil {
					r.Violation("renew:our-ca:v2:own-key=false:accepted", cn2, "a renewed certificate was renewed with a proof by another key", nil)
				}
			}
		}(ce, cn, der)
	}
	defer wg.Wait()

	// --- subjects that differ only in the spelling of a field (hand-issued / migrated certificates of the
	// client CA): leading zeros in the id, upper-case hex in the hash. Different subjects, different tokens.
	if cn := name("subject-spellings"); r.WantCase(cn) {
		h := sha256.Sum256(k.pub)
		base := pki.MakeSubjectV2(1+rng.Uint64()%1000000, h[:])
		variants := []string{base.CommonName, strings.Replace(base.CommonName, "v2:", "v2:0", 1), strings.Replace(base.CommonName, "v2:", "v2:000", 1)}
		if parts := strings.SplitN(base.CommonName, ":", 3); len(parts) == 3 && strings.ToUpper(parts[2]) != parts[2] {
			variants = append(variants, parts[0]+":"+parts[1]+":"+strings.ToUpper(parts[2]))
		}
		tokens := map[string]string{}
		for _, v := range variants {
			sub := base
			sub.CommonName = v
			der, gerr := pki.GenerateCertificate(e.logger, e.ourCA, pki.IdentityRequest{PublicKey: k.pub, Subject: sub})
			if gerr != nil {
				continue // the CA itself refuses the spelling: nothing to tell apart
			}
			c, perr := x509.ParseCertificate(der)
			if perr != nil {
				continue
			}
			ident, ierr := func() (id *pki.Identity, err error) {
				defer func() {
					if p := recover(); p != nil {
						err = fmt.Errorf("panic: %v", p)
					}
				}()
				return pki.ExtractCertificateIdentity(c)
			}()
			r.Case(fmt.Sprintf("subject-spelling/%d/identity=%v", len(tokens), ierr == nil))
			if ierr != nil {
				continue // no identity for this spelling: nothing shared
			}
			if prev, dup := tokens[string(ident.Token)]; dup && prev != c.Subject.String() {
				r.Violation("token:not-unique-to-subject", cn, fmt.Sprintf("subjects %q and %q (both issued by the client CA) yield the same token %q", prev, c.Subject.String(), ident.Token), nil)
			}
			tokens[string(ident.Token)] = c.Subject.String()
		}
	}

	// --- validity classes: a certificate outside its validity window. The x509 verifier
	// looks at the dates before it looks at the chain, so these are the cases in which a
	// foreign issuer could slip through. A foreign-CA certificate must never be renewed;
	// whether an out-of-window certificate of the client CA is renewable is not pinned by
	// the statement: counted, not judged.
	mkDated := func(ca tls.Certificate, pub ed25519.PublicKey, notBefore, notAfter time.Time) []byte {
		caCert, err := x509.ParseCertificate(ca.Certificate[0])
		if err != nil {
			panic(err)
		}
		h := sha256.Sum256(pub)
		sn := new(big.Int).SetUint64(rng.Uint64())
		tmpl := &x509.Certificate{
			SerialNumber:          sn,
			Subject:               pki.MakeSubjectV2(rng.Uint64()%chord.MaxIdentitifer, h[:]),
			NotBefore:             notBefore,
			NotAfter:              notAfter,
			ExtKeyUsage:           []x509.ExtKeyUsage{x509.ExtKeyUsageClientAuth},
			KeyUsage:              x509.KeyUsageDigitalSignature,
			BasicConstraintsValid: true,
		}
		der, err := x509.CreateCertificate(rand.Reader, tmpl, caCert, pub, ca.PrivateKey)
		if err != nil {
			panic(err)
		}
		return der
	}
	now := time.Now()
	for _, dc := range []struct {
		validity string
		nb, na   time.Time
	}{
		{"expired", now.Add(-48 * time.Hour), now.Add(-24 * time.Hour)},
		{"not-yet-valid", now.Add(24 * time.Hour), now.Add(48 * time.Hour)},
	} {
		for _, can := range []string{"our", "foreign", "twin"} {
			cn := name(fmt.Sprintf("renew/%s-ca/v2/%s/own-key=true", can, dc.validity))
			if !r.WantCase(cn) {
				continue
			}
			ca := map[string]tls.Certificate{"our": e.ourCA, "foreign": e.foreign, "twin": e.twin}[can]
			der := mkDated(ca, k.pub, dc.nb, dc.na)
			wg.Add(1)
			go func(can, validity, cn string, der []byte) {
				defer wg.Done()
				resp, err := e.renew(k, der)
				if harnessErr(cn, err) {
					return
				}
				r.Case(fmt.Sprintf("renew/%s/v2/%s/accepted=%v", can, validity, err == nil))
				if can == "our" {
					// not judged; but if it is renewed, the result must still be a proper certificate of the same subject
					e.mu.Lock()
					e.outOfWindow[fmt.Sprintf("client-ca/%s/renewed=%v", validity, err == nil)]++
					e.mu.Unlock()
					if err == nil {
						if nc, _, ok := e.checkIssued(cn, "certificate renewed from a "+validity+" client-CA certificate", resp.GetCertDer(), k); ok {
							if oc, perr := x509.ParseCertificate(der); perr == nil && string(nc.RawSubject) != string(oc.RawSubject) {
								r.Violation("renewed:subject-changed", cn, fmt.Sprintf("subject %q became %q", oc.Subject, nc.Subject), nil)
							}
						}
					}
					return
				}
				if err == nil {
					r.Violation(fmt.Sprintf("renew:%s-ca:v2:%s:accepted", can, validity), cn,
						fmt.Sprintf("a %s certificate issued by the %s CA (not the client CA) was renewed into a client-CA certificate", validity, can),
						map[string]any{"cert_der_b64": base64.StdEncoding.EncodeToString(der), "renewed_der_b64": base64.StdEncoding.EncodeToString(resp.GetCertDer())})
				}
			}(can, dc.validity, cn, der)
		}
	}

	// --- certificates that are not client certificates of our CA at all ---
	corrupt := append([]byte(nil), ders[1]...)
	// flip one bit inside the subject's id digits (TBS part): signature no longer matches
	if i := strings.Index(string(corrupt), "v2:"); i > 0 {
		corrupt[i+3] ^= 0x01
	}
	for _, o := range []struct {
		name string
		der  []byte
	}{
		{"corrupted-subject", corrupt},
		{"the-ca-certificate-itself", e.ourCA.Certificate[0]},
		{"truncated", ders[1][:len(ders[1])/2]},
	} {
		cn := name("renew/odd/" + o.name)
		if !r.WantCase(cn) {
			continue
		}
		wg.Add(1)
		go func(oname, cn string, der []byte) {
			defer wg.Done()
			_, err := e.renew(k, der)
			if harnessErr(cn, err) {
				return
			}
			r.Case("renew/odd/" + oname)
			if err == nil {
				r.Violation("renew:odd:"+oname+":accepted", cn, "renewal succeeded for "+oname, nil)
			}
		}(o.name, cn, o.der)
	}
}

func main() {
	r := ev.Start("C32", "exploration")
	r.SetRule("per seeded ed25519 key: two issuances, renewal matrix {client CA, foreign CA, foreign CA carrying the client CA's name} x {v2, v1 subject} x {proof by own key, by another key}, a client-CA v2 certificate whose subject names another key's hash (proof by that other key must be refused), renewal of the renewed certificate (own / other key), {expired, not yet valid} v2 certificates of each of the three CAs with a proof by the own key, corrupted / CA / truncated certificates; distinct by (matrix cell, accepted or not)")
	rng := r.Rand("c32")
	logger := zap.NewNop()
	our := makeCA("verif client ca")
	caCert, _ := x509.ParseCertificate(our.Certificate[0])
	pool := x509.NewCertPool()
	pool.AddCert(caCert)
	e := &env{
		r: r, logger: logger, ourCA: our, pool: pool,
		foreign: makeCA("somebody else's ca"), twin: makeCA("verif client ca"),
		server: &pkiimpl.Server{Logger: logger, ClientCA: our},
		tokens: map[string]string{}, sampled: map[string]bool{}, outOfWindow: map[string]int{}, sem: make(chan struct{}, runtime.GOMAXPROCS(0)),
	}
	nKeys := r.Pick(16, 300)
	type item struct {
		idx      int
		k, other kp
		seed     int64
	}
	items := make([]item, nKeys)
	for i := range items {
		items[i] = item{i, newKey(rng), newKey(rng), rng.Int63()}
	}
	var wg sync.WaitGroup
	for _, it := range items {
		wg.Add(1)
		go func(it item) {
			defer wg.Done()
			e.runKey(it.idx, it.k, it.other, mrand.New(mrand.NewSource(it.seed)))
		}(it)
	}
	wg.Wait()
	r.Count("keys", int64(nKeys))
	r.Count("distinct_tokens", int64(len(e.tokens)))
	r.Count("proofs_regenerated_after_expiry", e.expired)
	r.Extra("out_of_window_client_ca_certificates_not_judged", e.outOfWindow)
	r.Extra("pow", map[string]any{"difficulty": pki.HashcashDifficulty, "expires_s": pki.HashcashExpires.Seconds()})
	r.Assume("the client CA private key is held only by the server (certificates with arbitrary subjects signed by the client CA are made by the worker only for the v1 cells)")
	r.Assume("a server answer naming an expired proof-of-work stamp is re-tried with a fresh proof (the stamp lives 10 s); it never decides a case")
	r.Finish()
}
