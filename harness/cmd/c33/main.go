// C33 — hostname normalization and challenge names are canonical.
// Real acme.Normalize / acme.GenerateCustomRecord on generated inputs; the oracle is
// written from the statement: a successful result is a lowercase ASCII name over
// [a-z0-9.-], normalizing it again changes nothing, and the input was neither a
// wildcard, nor an IP address, nor a local name (classified by predicates of the
// worker: '*' present, net/netip parses it, localhost/.localhost/.local).
// Challenge targets: equal iff the client tokens are equal.
package main

import (
	"bytes"
	"fmt"
	"math/rand"
	"net/netip"
	"strings"
	"unicode"

	"verifharness/lab/ev"

	"go.miragespace.co/specter/spec/acme"
)

func stripSpace(s string) string {
	return strings.Map(func(r rune) rune {
		if unicode.IsSpace(r) {
			return -1
		}
		return r
	}, s)
}

func isCanonicalOutput(s string) bool {
	if s == "" {
		return false
	}
	for i := 0; i < len(s); i++ {
		c := s[i]
		if !(c >= 'a' && c <= 'z' || c >= '0' && c <= '9' || c == '-' || c == '.') {
			return false
		}
	}
	return true
}

// ipClass returns "" when s (whitespace removed) is not an IP literal.
func ipClass(s string) string {
	a, err := netip.ParseAddr(stripSpace(s))
	if err != nil {
		return ""
	}
	v := "ipv4"
	if a.Is6() {
		v = "ipv6"
	}
	switch {
	case a.IsLoopback():
		return v + "-loopback"
	case a.IsPrivate() || a.IsLinkLocalUnicast() || a.IsUnspecified():
		return v + "-private"
	}
	return v + "-public"
}

func isLocalName(s string) bool {
	h := strings.ToLower(strings.TrimSuffix(stripSpace(s), "."))
	return h == "localhost" || strings.HasSuffix(h, ".localhost") || strings.HasSuffix(h, ".local")
}

var spaces = []string{" ", "\t", "\n", "\r", " ", " ", "　", " ", "\u0085"}
var uniLabels = []string{"你好", "后缀", "münchen", "MÜNCHEN", "straße", "пример", "παράδειγμα", "例え", "ａｂｃ", "Ünï", "😀", "a​b", "é", "é", "İstanbul", "ǅ", "ß", "ſ", "K"}
var tlds = []string{"com", "net", "org", "io", "dev", "co.uk", "后缀", "xn--p1ai", "COM", "Com"}

func label(rng *rand.Rand) string {
	const al = "abcdefghijklmnopqrstuvwxyz0123456789-"
	n := 1 + rng.Intn(12)
	b := make([]byte, n)
	for i := range b {
		b[i] = al[rng.Intn(len(al))]
	}
	return string(b)
}

func plainName(rng *rand.Rand) string {
	n := 1 + rng.Intn(3)
	p := make([]string, 0, n+1)
	for i := 0; i < n; i++ {
		p = append(p, label(rng))
	}
	p = append(p, tlds[rng.Intn(4)])
	return strings.Join(p, ".")
}

func mutateCase(rng *rand.Rand, s string) string {
	b := []rune(s)
	for i, c := range b {
		if rng.Intn(3) == 0 {
			b[i] = unicode.ToUpper(c)
		}
	}
	return string(b)
}

func sprinkle(rng *rand.Rand, s string) string {
	r := []rune(s)
	k := 1 + rng.Intn(3)
	for i := 0; i < k; i++ {
		p := rng.Intn(len(r) + 1)
		sp := []rune(spaces[rng.Intn(len(spaces))])
		r = append(r[:p], append(sp, r[p:]...)...)
	}
	return string(r)
}

func ipv4(rng *rand.Rand) string {
	switch rng.Intn(6) {
	case 0:
		return fmt.Sprintf("127.%d.%d.%d", rng.Intn(256), rng.Intn(256), rng.Intn(256))
	case 1:
		return fmt.Sprintf("10.%d.%d.%d", rng.Intn(256), rng.Intn(256), rng.Intn(256))
	case 2:
		return fmt.Sprintf("192.168.%d.%d", rng.Intn(256), rng.Intn(256))
	}
	pub := []int{1, 8, 9, 23, 52, 93, 104, 151, 185, 203}
	return fmt.Sprintf("%d.%d.%d.%d", pub[rng.Intn(len(pub))], rng.Intn(256), rng.Intn(256), 1+rng.Intn(254))
}

func ipv6(rng *rand.Rand) string {
	switch rng.Intn(5) {
	case 0:
		return "::1"
	case 1:
		return fmt.Sprintf("fe80::%x", rng.Intn(1<<16))
	case 2:
		return fmt.Sprintf("fd00::%x:%x", rng.Intn(1<<16), rng.Intn(1<<16))
	case 3:
		return fmt.Sprintf("::ffff:%s", ipv4(rng))
	}
	return fmt.Sprintf("2001:db8:%x::%x", rng.Intn(1<<16), rng.Intn(1<<16))
}

type input struct {
	class string
	s     string
}

// compat rewrites s with compatibility forms that UTS#46 / NFKC mappings fold back to ASCII:
// full-width letters, digits and asterisk, ideographic / full-width / half-width full stops,
// superscript and circled digits, mathematical letters, and ignorable characters (soft hyphen,
// zero-width joiner) inserted between runes. A normaliser that maps AFTER it has checked for
// IP literals, local names and wildcards lets exactly such inputs through.
func compat(rng *rand.Rand, s string) string {
	var out []rune
	changed := false
	for _, c := range s {
		x := rng.Intn(6)
		switch {
		case c == '.' && x < 3:
			out = append(out, []rune{'。', '．', '｡'}[rng.Intn(3)])
			changed = true
		case c > ' ' && c < 0x7f && c != '.' && x < 2:
			out = append(out, c+0xFEE0) // full-width form
			changed = true
		case c >= '1' && c <= '3' && x == 2:
			out = append(out, []rune{'¹', '²', '³'}[c-'1'])
			changed = true
		case c >= '1' && c <= '9' && x == 3:
			out = append(out, '①'+(c-'1'))
			changed = true
		case c >= 'a' && c <= 'z' && x == 3:
			out = append(out, 0x1D41A+(c-'a')) // mathematical bold small
			changed = true
		default:
			out = append(out, c)
		}
		if rng.Intn(12) == 0 {
			out = append(out, []rune{0x00AD, 0x200D, 0x200C, 0xFE0F}[rng.Intn(4)])
			changed = true
		}
	}
	if !changed && len(out) > 0 {
		i := rng.Intn(len(out))
		if out[i] > ' ' && out[i] < 0x7f && out[i] != '.' {
			out[i] += 0xFEE0
		} else if out[i] == '.' {
			out[i] = '。'
		}
	}
	return string(out)
}

func gen(rng *rand.Rand) input {
	switch rng.Intn(16) {
	case 14, 15:
		// forbidden (and some allowed) names written with compatibility characters
		var base string
		switch rng.Intn(6) {
		case 0, 1:
			base = ipv4(rng)
		case 2:
			base = []string{"localhost", label(rng) + ".localhost", label(rng) + ".local", "machine.local"}[rng.Intn(4)]
		case 3:
			base = "*." + plainName(rng)
		case 4:
			base = ipv6(rng)
		default:
			base = plainName(rng)
		}
		return input{"compat-forms", compat(rng, base)}
	case 0:
		return input{"plain", plainName(rng)}
	case 1:
		return input{"mixed-case", mutateCase(rng, plainName(rng))}
	case 2:
		return input{"whitespace", sprinkle(rng, plainName(rng))}
	case 3:
		n := plainName(rng)
		switch rng.Intn(4) {
		case 0:
			return input{"wildcard", "*." + n}
		case 1:
			return input{"wildcard", label(rng) + ".*." + n}
		case 2:
			return input{"wildcard", label(rng) + "*" + "." + n}
		}
		return input{"wildcard", sprinkle(rng, "*."+n)}
	case 4:
		s := ipv4(rng)
		if rng.Intn(3) == 0 {
			s = sprinkle(rng, s)
		}
		return input{"ipv4", s}
	case 5:
		s := ipv6(rng)
		switch rng.Intn(4) {
		case 0:
			s = "[" + s + "]"
		case 1:
			s = sprinkle(rng, s)
		case 2:
			s = strings.ToUpper(s)
		}
		return input{"ipv6", s}
	case 6:
		base := []string{"localhost", "LOCALHOST", "LocalHost", label(rng) + ".localhost", label(rng) + ".local", label(rng) + "." + label(rng) + ".local", label(rng) + ".LOCAL", label(rng) + ".local.", "localhost."}[rng.Intn(9)]
		if rng.Intn(3) == 0 {
			base = sprinkle(rng, base)
		}
		return input{"local", base}
	case 7:
		p := []string{}
		for i := 0; i < 1+rng.Intn(2); i++ {
			if rng.Intn(2) == 0 {
				p = append(p, uniLabels[rng.Intn(len(uniLabels))])
			} else {
				p = append(p, label(rng)+uniLabels[rng.Intn(len(uniLabels))])
			}
		}
		p = append(p, tlds[rng.Intn(len(tlds))])
		s := strings.Join(p, ".")
		if rng.Intn(4) == 0 {
			s = sprinkle(rng, s)
		}
		return input{"unicode", s}
	case 8:
		junk := []string{":", "%", "/", "_", "@", "!", "'", "\"", "\\", "(", ")", ",", ";", "=", "+", "~", "`", "\x00", "\x7f", "|"}
		n := []rune(plainName(rng))
		p := rng.Intn(len(n) + 1)
		return input{"punctuation", string(n[:p]) + junk[rng.Intn(len(junk))] + string(n[p:])}
	case 9:
		return input{"dots", []string{"", ".", "..", "." + plainName(rng), plainName(rng) + ".", plainName(rng) + "..", label(rng) + ".." + label(rng), label(rng)}[rng.Intn(8)]}
	case 10:
		// alternate separators and look-alikes
		n := plainName(rng)
		return input{"lookalike-dot", strings.Replace(n, ".", []string{"。", "．", "｡", "․"}[rng.Intn(4)], 1)}
	case 11:
		// output of a previous normalization fed back in (punycode forms)
		return input{"punycode", "xn--" + label(rng) + "." + tlds[rng.Intn(4)]}
	case 12:
		// numeric names that are not IP literals
		return input{"numeric", []string{fmt.Sprintf("%d.%d.%d", rng.Intn(300), rng.Intn(300), rng.Intn(300)), fmt.Sprintf("%d", rng.Uint32()), fmt.Sprintf("0x%x.%d", rng.Intn(256), rng.Intn(256)), ipv4(rng) + ".", ipv4(rng) + ":443", fmt.Sprintf("%d.%d.%d.%d.%s", rng.Intn(256), rng.Intn(256), rng.Intn(256), rng.Intn(256), "in-addr.arpa")}[rng.Intn(6)]}
	}
	// random runes
	n := 1 + rng.Intn(10)
	r := make([]rune, n)
	for i := range r {
		switch rng.Intn(4) {
		case 0:
			r[i] = rune(rng.Intn(128))
		case 1:
			r[i] = rune(0x80 + rng.Intn(0x2000))
		default:
			r[i] = rune("abcxyz019-."[rng.Intn(11)])
		}
	}
	return input{"random-runes", string(r)}
}

func main() {
	r := ev.Start("C33", "exploration")
	r.SetRule("Normalize: seeded inputs of 15 classes (plain, mixed case, embedded unicode whitespace, wildcard labels, IPv4/IPv6 literals incl. bracketed/spaced, local names, IDN labels of several scripts and case forms, ASCII punctuation, dot anomalies, look-alike dots, punycode, numeric non-IP names, random runes, IP literals / local names / wildcards / plain names rewritten with compatibility characters: full-width, ideographic full stops, superscript and circled digits, mathematical letters, ignorable code points); distinct by (class, accepted, output differs from input); GenerateCustomRecord: seeded token pairs (equal, one bit apart, prefix/extension, empty, random) x zone/delegation with and without trailing dot; distinct by pair kind")
	rng := r.Rand("c33")
	n := r.Pick(20000, 1000000)
	accepted := 0
	samples := map[string]bool{}
	for i := 0; i < n; i++ {
		in := gen(rng)
		out, err := acme.Normalize(in.s)
		ok := err == nil
		if ok {
			accepted++
		}
		r.Case(fmt.Sprintf("norm/%s/%v/%v", in.class, ok, ok && out != in.s))
		if !ok {
			if out != "" {
				r.Violation("normalize:output-with-error", "", fmt.Sprintf("Normalize(%q) returned %q together with error %v", in.s, out, err), map[string]any{"input": in.s})
			}
			continue
		}
		if !samples[in.class] && len(samples) < 6 && (out != in.s || in.class == "ipv4") {
			samples[in.class] = true
			r.Sample(map[string]any{"fn": "Normalize", "class": in.class, "input": in.s, "output": out})
		}
		w := map[string]any{"input": in.s, "input_runes": fmt.Sprintf("%+q", in.s), "output": out, "class": in.class}
		if !isCanonicalOutput(out) {
			r.Violation("normalize:output-not-lowercase-dns", "", fmt.Sprintf("Normalize(%q) = %q is not made of a-z 0-9 '-' '.' only", in.s, out), w)
		}
		out2, err2 := acme.Normalize(out)
		if err2 != nil || out2 != out {
			r.Violation("normalize:not-idempotent", "", fmt.Sprintf("Normalize(%q) = %q, but Normalize(%q) = %q, %v", in.s, out, out, out2, err2), w)
		}
		if strings.Contains(in.s, "*") {
			r.Violation("normalize:wildcard-accepted", "", fmt.Sprintf("Normalize(%q) = %q: a wildcard was accepted", in.s, out), w)
		}
		if c := ipClass(in.s); c != "" {
			r.Violation("normalize:ip-accepted:"+c, "", fmt.Sprintf("Normalize(%q) = %q: an IP address (%s) was accepted", in.s, out, c), w)
		}
		if isLocalName(in.s) {
			r.Violation("normalize:local-name-accepted", "", fmt.Sprintf("Normalize(%q) = %q: a local name was accepted", in.s, out), w)
		}
	}
	r.Count("normalize_inputs", int64(n))
	r.Count("normalize_accepted", int64(accepted))

	// challenge record targets
	pairs := r.Pick(10000, 300000)
	sampledPair := false
	for i := 0; i < pairs; i++ {
		a := make([]byte, rng.Intn(48))
		rng.Read(a)
		var b []byte
		kind := ""
		switch rng.Intn(7) {
		case 0:
			kind, b = "equal", append([]byte(nil), a...)
		case 1:
			kind = "one-bit"
			b = append([]byte(nil), a...)
			if len(b) == 0 {
				b = []byte{1}
			} else {
				b[rng.Intn(len(b))] ^= 1 << uint(rng.Intn(8))
			}
		case 2:
			kind, b = "extended-by-zero", append(append([]byte(nil), a...), 0)
		case 3:
			kind, b = "empty-vs-any", nil
		case 4:
			kind = "case-variant"
			a = []byte("Token-" + label(rng))
			b = bytes.ToUpper(a)
		case 5:
			kind = "swapped-halves"
			b = append(append([]byte(nil), a[len(a)/2:]...), a[:len(a)/2]...)
		default:
			kind = "random"
			b = make([]byte, rng.Intn(48))
			rng.Read(b)
		}
		zone := plainName(rng)
		deleg := "acme." + plainName(rng)
		if rng.Intn(2) == 0 {
			zone += "."
		}
		if rng.Intn(2) == 0 {
			deleg += "."
		}
		na, ta := acme.GenerateCustomRecord(zone, deleg, a)
		nb, tb := acme.GenerateCustomRecord(zone, deleg, b)
		same := bytes.Equal(a, b)
		r.Case(fmt.Sprintf("record/%s/%v", kind, same))
		if !sampledPair && kind == "one-bit" {
			sampledPair = true
			r.Sample(map[string]any{"fn": "GenerateCustomRecord", "zone": zone, "delegation": deleg, "token_a": fmt.Sprintf("%x", a), "token_b": fmt.Sprintf("%x", b), "name": na, "target_a": ta, "target_b": tb})
		}
		w := map[string]any{"zone": zone, "delegation": deleg, "token_a": fmt.Sprintf("%x", a), "token_b": fmt.Sprintf("%x", b), "target_a": ta, "target_b": tb}
		if (ta == tb) != same {
			if same {
				r.Violation("record:same-token-different-target", "", fmt.Sprintf("equal tokens gave targets %q and %q", ta, tb), w)
			} else {
				r.Violation("record:distinct-tokens-same-target:"+kind, "", fmt.Sprintf("tokens %x and %x share the target %q", a, b, ta), w)
			}
		}
		if na != nb {
			r.Violation("record:name-depends-on-token", "", fmt.Sprintf("record names %q / %q differ for the same zone", na, nb), w)
		}
	}
	r.Count("record_pairs", int64(pairs))
	r.Assume("'local names' are localhost, *.localhost and *.local (with or without trailing dot, any case); .internal/.home.arpa/single-label names are don't-care")
	r.Assume("an input is an IP address when net/netip parses it after unicode whitespace is removed; numeric names that netip rejects (\"1.2.3\", \"8.8.8.8.\", decimal integers) are don't-care")
	r.Assume("token inequality is byte inequality; a SHA-224 collision would be reported as a violation")
	r.Finish()
}
