// C34 — the gateway maps a request host to the right tunnel name.
//
// Part 1 (function level): (*Gateway).VerifExtractHostname on generated hosts vs a
// reference model written from the property statement, plus the metamorphic
// relation f(h) == f(randomCase(h)).
// Part 2 (end to end): requests with mixed-case SNI/Host through the real TLS /
// QUIC / plain-HTTP listeners of a real gateway; the name handed to
// tun.Server.DialClient is compared with the same model.
package main

import (
	"context"
	"fmt"
	"io"
	"math/rand"
	"net/netip"
	"strings"
	"sync"
	"time"

	"verifharness/lab/ev"
	"verifharness/lab/gwlab"

	"go.miragespace.co/specter/gateway"
	"go.miragespace.co/specter/spec/protocol"
	"go.miragespace.co/specter/spec/rpc"
	"go.miragespace.co/specter/spec/tun"

	"go.uber.org/zap"
)

// ---------- reference model (from the statement, not from the code) ----------

func asciiLower(s string) string {
	b := []byte(s)
	for i, c := range b {
		if c >= 'A' && c <= 'Z' {
			b[i] = c + 32
		}
	}
	return string(b)
}

type verdict struct {
	refuse bool
	name   string // canonical (lower-case) expected name when !refuse
	judged bool   // false: the statement does not pin the exact result (empty labels); only case-insensitivity is judged
	class  string
}

// model: roots are lower-case names of >= 2 labels.
func model(roots []string, host string) verdict {
	if a, err := netip.ParseAddr(host); err == nil && a.Zone() == "" {
		if a.Is4() {
			return verdict{refuse: true, judged: true, class: "ipv4"}
		}
		return verdict{refuse: true, judged: true, class: "ipv6"}
	}
	labels := strings.Split(host, ".")
	for _, l := range labels {
		if l == "" && len(labels) >= 3 {
			// "labels" of a host with empty components are not defined by the statement
			return verdict{judged: false, class: "empty-label"}
		}
	}
	if len(labels) < 3 {
		return verdict{refuse: true, judged: true, class: fmt.Sprintf("labels%d", len(labels))}
	}
	lh := asciiLower(host)
	first := asciiLower(labels[0])
	for _, r := range roots {
		if lh == first+"."+r {
			return verdict{name: first, judged: true, class: "label.root"}
		}
	}
	cls := "other"
	for _, r := range roots {
		if strings.HasSuffix(lh, "."+r) {
			cls = "deep.root"
		} else if lh == r {
			cls = "root-itself"
		} else if strings.HasSuffix(lh, r) {
			cls = "suffix-lookalike"
		}
	}
	return verdict{name: lh, judged: true, class: cls}
}

// rootCaseOnly: the part after the first label equals a configured root only
// after case folding (the known defect class of the pinned tree).
func rootCaseOnly(roots []string, host string) bool {
	i := strings.IndexByte(host, '.')
	if i < 0 {
		return false
	}
	rest := host[i+1:]
	for _, r := range roots {
		if rest != r && asciiLower(rest) == r {
			return true
		}
	}
	return false
}

// ---------- generators ----------

const (
	lowerAl = "abcdefghijklmnopqrstuvwxyz"
	digits  = "0123456789"
)

func randLabel(rng *rand.Rand, min, max int) string {
	n := min + rng.Intn(max-min+1)
	al := lowerAl + strings.ToUpper(lowerAl) + digits + "-"
	b := make([]byte, n)
	for i := range b {
		b[i] = al[rng.Intn(len(al))]
	}
	return string(b)
}

func randLowerLabel(rng *rand.Rand, min, max int) string {
	return asciiLower(randLabel(rng, min, max))
}

func randCase(rng *rand.Rand, s string) string {
	b := []byte(s)
	mode := rng.Intn(4)
	for i, c := range b {
		isL := (c >= 'a' && c <= 'z') || (c >= 'A' && c <= 'Z')
		if !isL {
			continue
		}
		switch mode {
		case 0: // all upper
			b[i] = c &^ 32
		case 1: // all lower
			b[i] = c | 32
		default: // random flips
			if rng.Intn(2) == 0 {
				b[i] = c ^ 32
			}
		}
	}
	return string(b)
}

func casePattern(s string) string {
	hasU, hasL := false, false
	for _, c := range []byte(s) {
		if c >= 'A' && c <= 'Z' {
			hasU = true
		}
		if c >= 'a' && c <= 'z' {
			hasL = true
		}
	}
	switch {
	case hasU && hasL:
		return "mixed"
	case hasU:
		return "upper"
	case hasL:
		return "lower"
	}
	return "nocase"
}

func randRoot(rng *rand.Rand) string {
	n := 2 + rng.Intn(4)
	ls := make([]string, n)
	for i := range ls {
		ls[i] = randLowerLabel(rng, 1, 8)
	}
	return strings.Join(ls, ".")
}

func randIPv4(rng *rand.Rand) string {
	return fmt.Sprintf("%d.%d.%d.%d", rng.Intn(256), rng.Intn(256), rng.Intn(256), rng.Intn(256))
}

func randIPv6(rng *rand.Rand) string {
	var b [16]byte
	rng.Read(b[:])
	switch rng.Intn(7) {
	case 0:
		return "::1"
	case 1:
		return "::ffff:" + randIPv4(rng)
	case 5, 6:
		// mixed notation (RFC 4291 2.2 form 3): hex groups followed by a dotted quad; three dots,
		// yet not an IPv4-mapped address
		pre := []string{"::", "64:ff9b::", "2001:db8::", "fe80::", fmt.Sprintf("2001:db8:%x::", rng.Intn(1<<16)), fmt.Sprintf("%x:%x:%x:%x:%x:%x:", 1+rng.Intn(0xfffe), rng.Intn(1<<16), rng.Intn(1<<16), rng.Intn(1<<16), rng.Intn(1<<16), rng.Intn(1<<16))}[rng.Intn(6)]
		return randCase(rng, pre+randIPv4(rng))
	case 2:
		for i := 2; i < 14; i++ {
			b[i] = 0
		}
	case 3:
		a := netip.AddrFrom16(b)
		return randCase(rng, a.StringExpanded())
	}
	return randCase(rng, netip.AddrFrom16(b).String())
}

func genHost(rng *rand.Rand, roots []string) string {
	var root string
	if len(roots) > 0 {
		root = roots[rng.Intn(len(roots))]
	} else {
		root = randRoot(rng)
	}
	switch rng.Intn(16) {
	case 0, 1, 2, 3: // label.root with some letter-case variation
		h := randLabel(rng, 1, 12) + "." + root
		switch rng.Intn(4) {
		case 0:
			return h
		case 1: // only the root part changes case
			return h[:len(h)-len(root)] + randCase(rng, root)
		default:
			return randCase(rng, h)
		}
	case 4: // deeper than one label below the root
		return randCase(rng, randLabel(rng, 1, 6)+"."+randLabel(rng, 1, 6)+"."+root)
	case 5: // the root itself
		return randCase(rng, root)
	case 6: // shares only a string suffix with the root
		return randCase(rng, randLabel(rng, 1, 6)+"."+randLowerLabel(rng, 1, 3)+root)
	case 7: // unrelated, >= 3 labels
		n := 3 + rng.Intn(4)
		ls := make([]string, n)
		for i := range ls {
			ls[i] = randLabel(rng, 1, 10)
		}
		return strings.Join(ls, ".")
	case 8: // two labels
		return randLabel(rng, 1, 10) + "." + randLabel(rng, 1, 6)
	case 9: // one label / empty
		if rng.Intn(6) == 0 {
			return ""
		}
		return randLabel(rng, 1, 12)
	case 10:
		return randIPv4(rng)
	case 11:
		return randIPv6(rng)
	case 12: // numeric but not an address
		n := 3 + rng.Intn(4)
		if n == 4 {
			n = 5
		}
		ls := make([]string, n)
		for i := range ls {
			ls[i] = fmt.Sprint(rng.Intn(300))
		}
		return strings.Join(ls, ".")
	case 13: // empty labels: leading / trailing / doubled dots
		h := randLabel(rng, 1, 6) + "." + root
		switch rng.Intn(4) {
		case 0:
			return randCase(rng, h) + "."
		case 1:
			return "." + randCase(rng, root)
		case 2:
			return randCase(rng, randLabel(rng, 1, 5)+".."+root)
		}
		return strings.Repeat(".", 2+rng.Intn(3))
	case 14: // root prefixed by a label that is itself like the root's first label
		i := strings.IndexByte(root, '.')
		return randCase(rng, root[:i]+"."+root)
	default: // arbitrary string over the alphabet
		al := lowerAl + strings.ToUpper(lowerAl) + digits + "-" + "...."
		n := rng.Intn(30)
		b := make([]byte, n)
		for i := range b {
			b[i] = al[rng.Intn(len(al))]
		}
		return string(b)
	}
}

// ---------- part 1 ----------

type fnStats struct {
	sampled map[string]bool
}

func newGateway(roots []string) *gateway.Gateway {
	return gateway.New(gateway.GatewayConfig{Logger: zap.NewNop(), RootDomains: roots})
}

func outcome(name string, err error) string {
	if err != nil {
		return "refused"
	}
	return "name=" + name
}

func checkOne(r *ev.Run, st *fnStats, g *gateway.Gateway, roots []string, host string, rng *rand.Rand) {
	v := model(roots, host)
	got, err := g.VerifExtractHostname(host)
	exp := "refuse"
	if !v.judged {
		exp = "unjudged"
	} else if !v.refuse {
		if v.class == "label.root" {
			exp = "label"
		} else {
			exp = "whole"
		}
	}
	known := rootCaseOnly(roots, host)
	sig := fmt.Sprintf("fn/%s/%s/%s/r%d", v.class, casePattern(host), exp, len(roots))
	if known {
		sig += "/rootcase"
	}
	r.Case(sig)
	if !st.sampled[v.class+exp] && len(st.sampled) < 6 && v.judged && len(roots) > 0 {
		st.sampled[v.class+exp] = true
		r.Sample(map[string]any{"roots": roots, "host": host, "class": v.class, "result": outcome(got, err)})
	}
	wit := map[string]any{"roots": roots, "host": host, "got": outcome(got, err)}
	if v.judged {
		bad := ""
		switch {
		case v.refuse && err == nil:
			bad = fmt.Sprintf("host %q (%s) must be refused, resolved to %q", host, v.class, got)
		case !v.refuse && err != nil:
			bad = fmt.Sprintf("host %q (%s) must resolve to %q, was refused: %v", host, v.class, v.name, err)
		case !v.refuse && !strings.EqualFold(got, v.name):
			bad = fmt.Sprintf("host %q (%s) must resolve to %q, resolved to %q (roots %v)", host, v.class, v.name, got, roots)
		}
		if bad != "" {
			key := "model:" + v.class
			if known {
				key = "root-domain-case"
			}
			wit["want"] = v
			r.Violation(key, "fn", bad, wit)
		}
	}
	// metamorphic: a host that differs only in ASCII letter case resolves to the same name
	h2 := randCase(rng, host)
	if h2 == host {
		return
	}
	got2, err2 := g.VerifExtractHostname(h2)
	r.Count("metamorphic_pairs", 1)
	if (err == nil) != (err2 == nil) || (err == nil && got != got2) {
		key := "case-metamorphic:" + v.class
		if known || rootCaseOnly(roots, h2) {
			key = "root-domain-case"
		}
		r.Violation(key, "fn", fmt.Sprintf("hosts differing only in letter case resolve differently: %q -> %s, %q -> %s (roots %v)", host, outcome(got, err), h2, outcome(got2, err2), roots),
			map[string]any{"roots": roots, "host": host, "variant": h2, "got": outcome(got, err), "got_variant": outcome(got2, err2)})
	}
}

func partFn(r *ev.Run) {
	rng := r.Rand("fn")
	st := &fnStats{sampled: map[string]bool{}}
	nLists := r.Pick(40, 400)
	perList := r.Pick(500, 5000)
	fixed := [][]string{{}, {"specter.im"}, {"a.b.c.d.com"}, {"a.b.c.d.com", "x.y.z.net"}, {"specter.im", "im.specter.im", "example.co.uk"}}
	for i := 0; i < nLists; i++ {
		var roots []string
		if i < len(fixed) {
			roots = fixed[i]
		} else {
			n := rng.Intn(4)
			for j := 0; j < n; j++ {
				roots = append(roots, randRoot(rng))
			}
			if n >= 2 && rng.Intn(3) == 0 {
				// a root that is itself "label.otherRoot"
				roots[1] = randLowerLabel(rng, 1, 5) + "." + roots[0]
			}
		}
		g := newGateway(roots)
		// statement examples first
		for _, h := range []string{"abc.specter.im", "abc.SPECTER.IM", "ABC.specter.im", "bleh", "bleh.com", "192.168.1.1", "::1", "specter.im", "a.b.specter.im"} {
			checkOne(r, st, g, roots, h, rng)
		}
		for j := 0; j < perList; j++ {
			checkOne(r, st, g, roots, genHost(rng, roots), rng)
		}
	}
}

// ---------- part 2: end to end ----------

type e2eCase struct {
	id    int
	proto string // h1 h2 h3 tcp-yamux tcp-quic connect
	host  string // SNI and Host
	token string
}

func partE2E(r *ev.Run) {
	rng := r.Rand("e2e")
	roots := []string{"a.b.c.d.com", "x.y.z.net"}
	lab, err := gwlab.New(gwlab.Config{RootDomains: roots, PlainHTTP: true})
	if err != nil {
		r.Inconclusive("e2e: cannot start gateway: " + err.Error())
		return
	}
	defer lab.Close()
	// every dial fails with not-found: only the name handed to DialClient matters here
	protos := []string{"h1", "h2", "h3", "tcp-yamux", "tcp-quic", "connect"}
	n := r.Pick(60, 1200)
	cases := make([]e2eCase, 0, n)
	for i := 0; i < n; i++ {
		tok := fmt.Sprintf("t%dx", i)
		root := roots[rng.Intn(len(roots))]
		var host string
		switch rng.Intn(8) {
		case 0, 1, 2:
			host = randCase(rng, tok+randLabel(rng, 0, 5)) + "." + randCase(rng, root)
		case 3:
			host = randCase(rng, tok) + "." + root
		case 4:
			host = randCase(rng, tok+"."+randLabel(rng, 1, 5)+"."+root) // deeper: whole host
		case 5:
			host = randCase(rng, tok+"."+randLabel(rng, 1, 6)+"."+randLabel(rng, 1, 6)+".org") // unrelated
		case 6:
			host = randCase(rng, tok+"."+randLabel(rng, 1, 6)) // two labels: refused
		default:
			host = strings.ToUpper(tok + "." + root)
		}
		cases = append(cases, e2eCase{id: i, proto: protos[i%len(protos)], host: host, token: tok})
	}
	var wg sync.WaitGroup
	sem := make(chan struct{}, 8)
	type res struct {
		c    e2eCase
		err  error
		note string
	}
	results := make([]res, len(cases))
	for i, c := range cases {
		wg.Add(1)
		sem <- struct{}{}
		go func(i int, c e2eCase) {
			defer wg.Done()
			defer func() { <-sem }()
			var note string
			var err error
			for attempt := 0; attempt < 3; attempt++ {
				note, err = runE2E(lab, c)
				if err == nil {
					break
				}
			}
			results[i] = res{c: c, err: err, note: note}
		}(i, c)
	}
	wg.Wait()
	recs := lab.Server.Records()
	sampled := 0
	for _, rs := range results {
		c := rs.c
		if rs.err != nil {
			r.Inconclusive(fmt.Sprintf("e2e case %d (%s %q): transport error: %v", c.id, c.proto, c.host, rs.err))
			continue
		}
		v := model(roots, c.host)
		var dialed []string
		for _, rec := range recs {
			if rec.Kind == "client" && strings.HasPrefix(asciiLower(rec.Hostname), c.token) {
				// token is a prefix of the first label; tokens are "t<id>x" so t1x never prefixes t12x
				dialed = append(dialed, rec.Hostname)
			}
		}
		known := rootCaseOnly(roots, c.host)
		exp := "refuse"
		if !v.refuse {
			exp = "whole"
			if v.class == "label.root" {
				exp = "label"
			}
		}
		sig := fmt.Sprintf("e2e/%s/%s/%s/%s", c.proto, v.class, casePattern(c.host), exp)
		r.Case(sig)
		r.Count("e2e_requests", 1)
		if sampled < 3 && len(dialed) > 0 && casePattern(c.host) == "mixed" {
			sampled++
			r.Sample(map[string]any{"e2e_proto": c.proto, "sni_and_host": c.host, "dialed_hostname": dialed, "response": rs.note})
		}
		wit := map[string]any{"proto": c.proto, "host": c.host, "dialed": dialed, "response": rs.note, "roots": roots}
		key := "e2e:" + c.proto + ":" + v.class
		if known {
			key = "root-domain-case"
		}
		switch {
		case v.refuse && len(dialed) > 0:
			r.Violation(key, "e2e", fmt.Sprintf("%s request for %q must be refused, gateway dialed tunnel %q", c.proto, c.host, dialed), wit)
		case !v.refuse && len(dialed) == 0:
			r.Violation(key, "e2e", fmt.Sprintf("%s request for %q must dial tunnel %q, nothing was dialed (%s)", c.proto, c.host, v.name, rs.note), wit)
		case !v.refuse:
			for _, d := range dialed {
				if !strings.EqualFold(d, v.name) {
					r.Violation(key, "e2e", fmt.Sprintf("%s request for %q must dial tunnel %q, gateway dialed %q", c.proto, c.host, v.name, d), wit)
					break
				}
			}
		}
	}
}

// runE2E performs the request and waits until the gateway has answered it (the
// answer is produced after DialClient returned, so the record is complete).
func runE2E(lab *gwlab.Lab, c e2eCase) (string, error) {
	ctx, cancel := context.WithTimeout(context.Background(), gwlab.Watchdog)
	defer cancel()
	switch c.proto {
	case "h1", "h2", "h3":
		cl := lab.Client(c.proto, c.host)
		defer gwlab.CloseClient(cl)
		resp, err := cl.Get("https://" + c.host + "/")
		if err != nil {
			return "", err
		}
		defer resp.Body.Close()
		io.Copy(io.Discard, resp.Body)
		return fmt.Sprintf("HTTP %d", resp.StatusCode), nil
	case "tcp-yamux", "tcp-quic":
		var st *gwlab.TCPStream
		var err error
		if c.proto == "tcp-yamux" {
			st, err = lab.OpenTCPYamux(ctx, c.host)
		} else {
			st, err = lab.OpenTCPQuic(ctx, c.host)
		}
		if err != nil {
			return "", err
		}
		defer st.CloseAll()
		st.SetDeadline(time.Now().Add(gwlab.Watchdog))
		status := &protocol.TunnelStatus{}
		if err := rpc.Send(st, status); err != nil {
			return "", err
		}
		if err := rpc.BoundedReceive(st, status, 1024); err != nil {
			return "", err
		}
		return "status " + status.GetStatus().String() + " " + status.GetError(), nil
	case "connect":
		resp, conn, _, err := lab.Connect(ctx, c.host+":1234")
		if err != nil {
			return "", err
		}
		defer conn.Close()
		io.Copy(io.Discard, resp.Body)
		return fmt.Sprintf("HTTP %d", resp.StatusCode), nil
	}
	return "", fmt.Errorf("unknown proto")
}

func main() {
	r := ev.Start("C34", "exploration")
	r.SetMaxSamples(9)
	r.SetRule("function level: per root-domain list (0-3 lower-case roots of >= 2 labels, fixed + PRNG) hosts are generated per class {label.root, deep.root, root-itself, suffix-lookalike, other >=3 labels, 2 labels, 1 label/empty, IPv4, IPv6 incl. v4-mapped and mixed hex/dotted-quad notation, numeric non-address, empty labels, arbitrary string} with letter-case patterns {lower, upper, mixed, root-part-only}; a case is distinct by (class, case pattern of the host, expected outcome label/whole/refuse/unjudged, number of roots, root-part-differs-only-in-case); every host is also paired with a random re-casing (metamorphic). End to end: (protocol h1/h2/h3/tcp-yamux/tcp-quic/connect, class, case pattern, outcome) observed at tun.Server.DialClient of a real gateway")
	r.Assume("configured root domains are lower-case and have at least two labels (a one-label root makes 'label.root' a two-label host, where the statement contradicts itself)")
	r.Assume("hosts with empty labels (leading/trailing/doubled dots) are judged for case-insensitivity only; IPv6 zones and bracketed literals are not generated (the host reaches the mapping after net.SplitHostPort)")
	r.Assume("the canonical letter case of the result is not pinned by the statement: results are compared case-insensitively with the model and exactly between case variants")
	_ = tun.ErrDestinationNotFound
	if r.WantCase("fn") {
		partFn(r)
	}
	if r.WantCase("e2e") {
		partE2E(r)
	}
	r.Finish()
}
