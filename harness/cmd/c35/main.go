// C35 — forwarded HTTP requests carry only gateway-asserted client headers.
//
// Real gateway (gwlab) -> scripted tun.Server -> in-memory pipe -> echo HTTP
// server that returns the request headers it received. Clients connect from
// varying loopback source addresses over HTTP/1.1, h2 and h3 and send seeded
// header sets that try to spoof the forwarding headers.
package main

import (
	"bytes"
	"context"
	"fmt"
	"io"
	"math/rand"
	"net"
	"net/http"
	"sort"
	"strings"
	"sync"

	"verifharness/lab/ev"
	"verifharness/lab/gwlab"

	"go.miragespace.co/specter/spec/protocol"
)

var judged = []string{"X-Forwarded-For", "X-Forwarded-Proto", "X-Forwarded-Host", "True-Client-IP", "X-Real-IP"}
var otherXF = []string{"X-Forwarded-Port", "X-Forwarded-Server", "X-Forwarded-Prefix", "X-Forwarded-Ssl", "X-Forwarded-Scheme", "Forwarded"}

func oddCase(rng *rand.Rand, name string, proto string) string {
	switch rng.Intn(4) {
	case 0:
		return name
	case 1:
		return strings.ToLower(name)
	case 2:
		if proto == "h1" {
			return strings.ToUpper(name)
		}
		return strings.ToLower(name)
	}
	if proto != "h1" {
		return strings.ToLower(name) // h2/h3 field names are lower-case on the wire
	}
	b := []byte(name)
	for i, c := range b {
		if rng.Intn(2) == 0 && c >= 'a' && c <= 'z' {
			b[i] = c - 32
		} else if rng.Intn(2) == 0 && c >= 'A' && c <= 'Z' {
			b[i] = c + 32
		}
	}
	return string(b)
}

func spoofIP(rng *rand.Rand) string {
	switch rng.Intn(6) {
	case 0:
		return fmt.Sprintf("203.0.113.%d", 1+rng.Intn(250))
	case 1:
		return fmt.Sprintf("10.%d.%d.%d", rng.Intn(256), rng.Intn(256), 1+rng.Intn(250))
	case 2:
		return fmt.Sprintf("2001:db8::%x", 1+rng.Intn(65000))
	case 3:
		return "unknown"
	case 4:
		return fmt.Sprintf("198.51.100.%d, 192.0.2.%d", 1+rng.Intn(250), 1+rng.Intn(250))
	}
	return fmt.Sprintf("192.0.2.%d,10.0.0.%d , 172.16.%d.9", 1+rng.Intn(250), 1+rng.Intn(250), rng.Intn(250))
}

func spoofValue(rng *rand.Rand, name string) string {
	switch name {
	case "X-Forwarded-Proto":
		return []string{"http", "ws", "HTTP", "ftp", "http, https"}[rng.Intn(5)]
	case "X-Forwarded-Host":
		return []string{"evil.example", "admin.internal:8080", "localhost", "127.0.0.1:9999", "evil.example, good.example"}[rng.Intn(5)]
	}
	return spoofIP(rng)
}

type reqCase struct {
	id         int
	proto      string
	host       string // SNI and Host (no port)
	hostHdr    string // Host header as sent (may carry a port)
	sni        string // TLS server name when it differs from the requested host (coalesced h2/h3 connection)
	method     string
	path       string
	localIP    string
	header     http.Header         // raw keys
	spoofed    map[string][]string // canonical judged name -> spoofed values
	emptyFirst bool                // some repeated header starts with an empty line
	others     []string
	connTrick  bool
	repeated   bool
}

func genCase(rng *rand.Rand, id int, proto string, hosts []string) reqCase {
	c := reqCase{id: id, proto: proto, header: http.Header{}, spoofed: map[string][]string{}}
	c.host = hosts[rng.Intn(len(hosts))]
	c.hostHdr = c.host
	if (proto == "h2" || proto == "h3") && len(hosts) > 1 && rng.Intn(4) == 0 {
		// browsers reuse an HTTP/2 or HTTP/3 connection for every hostname its certificate covers: the
		// TLS server name is then not the requested host
		for c.sni == "" || c.sni == c.host {
			c.sni = hosts[rng.Intn(len(hosts))]
		}
	}
	if rng.Intn(4) == 0 {
		c.hostHdr = fmt.Sprintf("%s:%d", c.host, []int{443, 80, 8443, 1}[rng.Intn(4)])
	}
	c.method = []string{"GET", "GET", "POST", "PUT", "DELETE"}[rng.Intn(5)]
	c.path = fmt.Sprintf("/p%d/%x", id, rng.Intn(1<<20))
	c.localIP = fmt.Sprintf("127.0.%d.%d", rng.Intn(4), 2+rng.Intn(250))
	c.header.Set("X-Case-Id", fmt.Sprint(id))
	c.header.Set("User-Agent", "c35")
	nSpoof := rng.Intn(len(judged) + 1)
	if rng.Intn(8) == 0 {
		nSpoof = len(judged)
	}
	perm := rng.Perm(len(judged))
	for _, pi := range perm[:nSpoof] {
		name := judged[pi]
		canon := http.CanonicalHeaderKey(name)
		nvals := 1
		if rng.Intn(3) == 0 {
			nvals = 2 + rng.Intn(2)
			c.repeated = true
		}
		// a repeated header whose FIRST line is empty (or blank): code that looks at "the" value of a
		// header sees nothing there, while the later lines still reach whoever reads all of them
		emptyFirst := nvals > 1 && rng.Intn(3) == 0
		fixedKey := oddCase(rng, name, proto)
		for v := 0; v < nvals; v++ {
			key := oddCase(rng, name, proto)
			if emptyFirst {
				key = fixedKey // one spelling, so that the order of the lines is the order of the values
			}
			if emptyFirst && v == 0 {
				c.header[key] = append(c.header[key], []string{"", " "}[rng.Intn(2)])
				c.emptyFirst = true
				continue
			}
			val := spoofValue(rng, name)
			c.header[key] = append(c.header[key], val)
			c.spoofed[canon] = append(c.spoofed[canon], val)
		}
	}
	for _, o := range otherXF {
		if rng.Intn(5) == 0 {
			c.header[oddCase(rng, o, proto)] = []string{"spoofed-" + strings.ToLower(o)}
			c.others = append(c.others, o)
		}
	}
	if proto == "h1" && rng.Intn(4) == 0 {
		// declare forwarding headers hop-by-hop
		c.connTrick = true
		c.header["Connection"] = []string{[]string{"X-Forwarded-For", "X-Forwarded-Host, X-Forwarded-Proto", "keep-alive, X-Forwarded-For, X-Real-IP"}[rng.Intn(3)]}
	}
	return c
}

type result struct {
	status int
	echo   *gwlab.Echoed
	err    error
}

func doRequest(lab *gwlab.Lab, c reqCase) result {
	sni := c.host
	if c.sni != "" {
		sni = c.sni // a coalesced connection: opened for another hostname of the same gateway
	}
	cl := lab.ClientFrom(c.proto, sni, c.localIP)
	defer gwlab.CloseClient(cl)
	var body io.Reader
	if c.method == "POST" || c.method == "PUT" {
		body = bytes.NewReader([]byte("payload"))
	}
	req, err := http.NewRequestWithContext(context.Background(), c.method, "https://"+c.host+c.path, body)
	if err != nil {
		return result{err: err}
	}
	req.Host = c.hostHdr
	for k, v := range c.header {
		req.Header[k] = append([]string(nil), v...)
	}
	resp, err := cl.Do(req)
	if err != nil {
		return result{err: err}
	}
	defer resp.Body.Close()
	b, err := io.ReadAll(resp.Body)
	if err != nil {
		return result{err: err}
	}
	r := result{status: resp.StatusCode}
	if resp.StatusCode == 200 && resp.Header.Get("X-Gwlab-Backend") != "" {
		e, err := gwlab.DecodeEcho(b)
		if err != nil {
			return result{err: fmt.Errorf("echo body: %w", err)}
		}
		r.echo = e
	}
	return r
}

func main() {
	r := ev.Start("C35", "exploration")
	r.SetMaxSamples(6)
	r.SetRule("requests over {h1,h2,h3} x gateway port {443, other} from a random loopback source address 127.0.x.y, Host with/without an explicit port, on h2/h3 a quarter of the requests over a connection opened for another hostname of the gateway (SNI differs from the requested host), methods GET/POST/PUT/DELETE, carrying a seeded subset of spoofed {X-Forwarded-For, X-Forwarded-Proto, X-Forwarded-Host, True-Client-IP, X-Real-IP} (single / repeated lines, also with an empty or blank first line / comma lists / odd header-name casing on h1), other X-Forwarded-* / Forwarded headers, and on h1 a Connection header naming the forwarding headers; a case is distinct by (protocol, port class, set of spoofed judged headers, repeated, explicit Host port, Connection trick)")
	r.Assume("the connecting peer is identified by its loopback source address; spoofed values never equal the values the gateway must assert")
	r.Assume("X-Forwarded-* names other than For/Proto/Host and the RFC 7239 Forwarded header are counted, not judged (the statement names three)")
	r.Assume("Host and SNI are lower-case and equal (HTTP/1.1 requests are routed by SNI in this gateway)")
	rng := r.Rand("c35")
	perProto := r.Pick(60, 2000)
	protos := []string{"h1", "h2", "h3"}
	type portCfg struct {
		name string
		port int
	}
	for _, pc := range []portCfg{{"443", 443}, {"other", 0}} {
		root := "gw.c35.example"
		lab, err := gwlab.New(gwlab.Config{RootDomains: []string{root}, GatewayPort: pc.port})
		if err != nil {
			r.Inconclusive("cannot start gateway: " + err.Error())
			continue
		}
		gwPort := pc.port
		if gwPort == 0 {
			gwPort = lab.UDPPort
		}
		backend := gwlab.NewBackend()
		lab.Server.SetDialClient(func(ctx context.Context, link *protocol.Link) (net.Conn, error) {
			return backend.Dial()
		})
		hosts := []string{}
		for i := 0; i < 6; i++ {
			hosts = append(hosts, fmt.Sprintf("app%d.%s", i, root))
		}
		hosts = append(hosts, "www.customer-one.org", "shop.customer-two.co.uk")
		var cases []reqCase
		id := 0
		for i := 0; i < perProto/2; i++ {
			for _, p := range protos {
				id++
				cases = append(cases, genCase(rng, id, p, hosts))
			}
		}
		results := make([]result, len(cases))
		var wg sync.WaitGroup
		sem := make(chan struct{}, 8)
		for i := range cases {
			wg.Add(1)
			sem <- struct{}{}
			go func(i int) {
				defer wg.Done()
				defer func() { <-sem }()
				for attempt := 0; attempt < 3; attempt++ {
					results[i] = doRequest(lab, cases[i])
					if results[i].err == nil {
						break
					}
				}
			}(i)
		}
		wg.Wait()
		for i, c := range cases {
			judge(r, c, results[i], pc.name, gwPort)
		}
		r.Count("backend_requests", backend.Requests.Load())
		r.Count("client_connections_dialed", int64(lab.Server.Count("client")))
		lab.Close()
		backend.Close()
	}
	r.Finish()
}

var sampled = 0

func judge(r *ev.Run, c reqCase, res result, portName string, gwPort int) {
	caseName := fmt.Sprintf("%s/%s/%d", portName, c.proto, c.id)
	if res.err != nil {
		r.Inconclusive(fmt.Sprintf("%s: transport problem (not judged): %v", caseName, res.err))
		return
	}
	names := []string{}
	for k := range c.spoofed {
		names = append(names, k)
	}
	sort.Strings(names)
	sig := fmt.Sprintf("%s/%s/%s/rep=%v/hp=%v/ct=%v", c.proto, portName, strings.Join(names, "+"), c.repeated, c.hostHdr != c.host, c.connTrick) + fmt.Sprintf("/coalesced=%v", c.sni != "")
	r.Case(sig)
	wit := map[string]any{"proto": c.proto, "gateway_port": gwPort, "peer_ip": c.localIP, "host_header": c.hostHdr, "sent_headers": c.header, "status": res.status}
	if res.echo == nil {
		r.Violation("not-forwarded", caseName, fmt.Sprintf("%s: the request did not reach the tunnel backend (status %d)", caseName, res.status), wit)
		return
	}
	h := http.Header(res.echo.Header)
	wit["received_headers"] = map[string]any{
		"X-Forwarded-For": h.Values("X-Forwarded-For"), "X-Forwarded-Proto": h.Values("X-Forwarded-Proto"), "X-Forwarded-Host": h.Values("X-Forwarded-Host"),
		"True-Client-IP": h.Values("True-Client-IP"), "X-Real-IP": h.Values("X-Real-IP"),
	}
	if sampled < 6 && len(c.spoofed) >= 3 && (sampled%3 == map[string]int{"h1": 0, "h2": 1, "h3": 2}[c.proto]) {
		sampled++
		r.Sample(wit)
	}
	if h.Get("X-Case-Id") != fmt.Sprint(c.id) {
		r.Violation("echo-mismatch", caseName, fmt.Sprintf("%s: the backend saw another request (X-Case-Id %q)", caseName, h.Get("X-Case-Id")), wit)
		return
	}
	viol := func(key, what string) { r.Violation(key, caseName, caseName+": "+what, wit) }
	if v := h.Values("X-Forwarded-For"); len(v) != 1 || v[0] != c.localIP {
		viol("xff", fmt.Sprintf("X-Forwarded-For must be exactly the peer IP %q, backend received %q (client sent %q)", c.localIP, v, c.spoofed["X-Forwarded-For"]))
	}
	if v := h.Values("X-Forwarded-Proto"); len(v) != 1 || v[0] != "https" {
		viol("xfproto", fmt.Sprintf("X-Forwarded-Proto must be https, backend received %q", v))
	}
	wantHost := c.host
	if gwPort != 443 {
		wantHost = fmt.Sprintf("%s:%d", c.host, gwPort)
	}
	if v := h.Values("X-Forwarded-Host"); len(v) != 1 || v[0] != wantHost {
		viol("xfhost", fmt.Sprintf("X-Forwarded-Host must be %q, backend received %q", wantHost, v))
	}
	if v := h.Values("True-Client-IP"); len(v) != 0 {
		viol("true-client-ip", fmt.Sprintf("True-Client-IP passed through: %q", v))
	}
	if v := h.Values("X-Real-IP"); len(v) != 0 {
		viol("x-real-ip", fmt.Sprintf("X-Real-IP passed through: %q", v))
	}
	// no spoofed value may survive in any of the five headers (in any spelling of the name)
	for k, vals := range res.echo.Header {
		ck := http.CanonicalHeaderKey(k)
		isJudged := false
		for _, j := range judged {
			if http.CanonicalHeaderKey(j) == ck {
				isJudged = true
			}
		}
		if isJudged {
			// compare comma-separated tokens; a token equal to what the gateway itself must assert is not a spoof
			legit := map[string]bool{c.localIP: true, "https": true, wantHost: true}
			for _, got := range vals {
				for _, gt := range strings.Split(got, ",") {
					gt = strings.TrimSpace(gt)
					for _, sv := range c.spoofed[ck] {
						for _, st := range strings.Split(sv, ",") {
							if st = strings.TrimSpace(st); st != "" && st == gt && !legit[st] {
								viol("spoofed-value-survived:"+ck, fmt.Sprintf("client-supplied %s value %q reached the backend (%q)", ck, sv, got))
							}
						}
					}
				}
			}
			continue
		}
		if strings.HasPrefix(ck, "X-Forwarded-") || ck == "Forwarded" {
			r.Count("unjudged_passthrough:"+ck, 1)
		}
	}
	if len(c.others) > 0 {
		r.Count("requests_with_other_xforwarded", 1)
	}
}
