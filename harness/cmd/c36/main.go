// C36 — the gateway reports tunnel failures with the right status.
//
// A real gateway (gwlab) whose tun.Server.DialClient is scripted per hostname
// with every dial-error class, bare and %w-wrapped, exercised through every
// protocol path: HTTP proxy over HTTP/1.1, h2 and h3, raw TCP over the TLS
// listener (yamux) and over a QUIC stream, and HTTP CONNECT on the plain
// listener. The table is enumerated completely.
package main

import (
	"bufio"
	"context"
	"errors"
	"fmt"
	"io"
	"net"
	"os"
	"strings"
	"sync"
	"syscall"
	"time"

	"verifharness/lab/ev"
	"verifharness/lab/gwlab"

	"go.miragespace.co/specter/spec/protocol"
	"go.miragespace.co/specter/spec/rpc"
	"go.miragespace.co/specter/spec/transport"
	"go.miragespace.co/specter/spec/tun"
	"go.miragespace.co/specter/util/bufconn"
)

type timeoutErr struct{}

func (timeoutErr) Error() string   { return "scripted i/o timeout" }
func (timeoutErr) Timeout() bool   { return true }
func (timeoutErr) Temporary() bool { return true }

var _ net.Error = timeoutErr{}

// expectation classes for HTTP
const (
	wantNotFound     = 404
	wantUnavailable  = 503
	wantTimeout      = 504
	wantBadGateway   = 502
	wantAnyFailure   = -2 // io.EOF / context.Canceled from the dial: for HTTP the gateway treats them as the caller going away (not judged); raw TCP and CONNECT still owe the caller a failure status
	wantTimeoutOr502 = -1 // %w-wrapped raw net.Error timeouts: the statement's "timeout" vs "other" is not decidable; 504 or 502
)

type errCase struct {
	class    string
	wrap     string
	err      error
	http     int
	noDirect bool // TCP status must be NO_DIRECT (otherwise UNKNOWN_ERROR)
}

func w1(e error) error { return fmt.Errorf("scripted wrapper: %w", e) }
func w2(e error) error { return fmt.Errorf("outer: %w", fmt.Errorf("inner: %w", e)) }

func errorTable() []errCase {
	var t []errCase
	add := func(class string, base error, http int, nd bool) {
		t = append(t,
			errCase{class, "bare", base, http, nd},
			errCase{class, "%w", w1(base), http, nd},
			errCase{class, "%w%w", w2(base), http, nd},
			errCase{class, "join", errors.Join(errors.New("first attempt failed"), base), http, nd},
		)
	}
	add("not-found", tun.ErrDestinationNotFound, wantNotFound, false)
	add("not-connected", tun.ErrTunnelClientNotConnected, wantUnavailable, true)
	add("lookup-failed", tun.ErrLookupFailed, wantBadGateway, false)
	add("deadline-exceeded", context.DeadlineExceeded, wantTimeout, false)
	add("arbitrary", errors.New("scripted arbitrary failure"), wantBadGateway, false)
	add("no-direct", transport.ErrNoDirect, wantBadGateway, true)
	// other failures of the transport towards the client's node: none of them is "the caller went away"
	add("net-closed", net.ErrClosed, wantBadGateway, false)
	add("closed-pipe", io.ErrClosedPipe, wantBadGateway, false)
	add("unexpected-eof", io.ErrUnexpectedEOF, wantBadGateway, false)
	add("conn-reset", syscall.ECONNRESET, wantBadGateway, false)
	add("conn-refused", syscall.ECONNREFUSED, wantBadGateway, false)
	add("broken-pipe", syscall.EPIPE, wantBadGateway, false)
	add("not-exist", os.ErrNotExist, wantBadGateway, false)
	add("eof", io.EOF, wantAnyFailure, false)
	add("canceled", context.Canceled, wantAnyFailure, false)
	// raw net.Error timeouts
	t = append(t,
		errCase{"net-timeout", "bare", timeoutErr{}, wantTimeout, false},
		errCase{"net-timeout", "operror", &net.OpError{Op: "dial", Net: "udp", Err: timeoutErr{}}, wantTimeout, false},
		errCase{"net-timeout", "os-deadline", os.ErrDeadlineExceeded, wantTimeout, false},
		errCase{"net-timeout", "operror-os-deadline", &net.OpError{Op: "read", Net: "udp", Err: os.ErrDeadlineExceeded}, wantTimeout, false},
		errCase{"net-timeout", "%w", w1(timeoutErr{}), wantTimeoutOr502, false},
		errCase{"net-timeout", "%w-operror", w1(&net.OpError{Op: "dial", Net: "udp", Err: timeoutErr{}}), wantTimeoutOr502, false},
		// a net error that is not a timeout is an ordinary failure
		errCase{"net-closed", "operror", &net.OpError{Op: "write", Net: "udp", Err: net.ErrClosed}, wantBadGateway, false},
		errCase{"net-refused", "operror", &net.OpError{Op: "dial", Net: "udp", Err: errors.New("connection refused")}, wantBadGateway, false},
		errCase{"net-refused", "%w-operror", w1(&net.OpError{Op: "dial", Net: "udp", Err: errors.New("connection refused")}), wantBadGateway, false},
	)
	return t
}

// client-end behaviours once a connection exists
type okCase struct {
	name string
	// what the tunnel client end does for raw TCP / CONNECT links
	clientStatus string // "ok" | "no-direct" | "error" | "close"
}

var okCases = []okCase{{"client-ok", "ok"}, {"client-no-direct", "no-direct"}, {"client-error", "error"}, {"client-close", "close"}, {"client-no-direct-no-text", "no-direct-no-text"}, {"client-error-no-text", "error-no-text"}}

var protos = []string{"h1", "h2", "h3", "tcp-yamux", "tcp-quic", "connect"}

type script struct {
	err    error
	ok     *okCase
	dialed chan struct{} // closed when the client end got its connection
}

type world struct {
	lab     *gwlab.Lab
	backend *gwlab.Backend
	mu      sync.Mutex
	scripts map[string]*script // by tunnel name (lower-case label)
	dials   map[string]int
	conns   map[string]int // connections handed out
}

func newWorld(cfg gwlab.Config) (*world, error) {
	lab, err := gwlab.New(cfg)
	if err != nil {
		return nil, err
	}
	w := &world{lab: lab, backend: gwlab.NewBackend(), scripts: map[string]*script{}, dials: map[string]int{}, conns: map[string]int{}}
	lab.Server.SetDialClient(w.dial)
	return w, nil
}

func (w *world) close() { w.lab.Close(); w.backend.Close() }

func (w *world) dial(ctx context.Context, link *protocol.Link) (net.Conn, error) {
	w.mu.Lock()
	sc := w.scripts[link.GetHostname()]
	w.dials[link.GetHostname()]++
	w.mu.Unlock()
	if sc == nil {
		return nil, fmt.Errorf("c36: unscripted hostname %q", link.GetHostname())
	}
	if sc.err != nil {
		return nil, sc.err
	}
	w.mu.Lock()
	w.conns[link.GetHostname()]++
	w.mu.Unlock()
	if link.GetAlpn() == protocol.Link_HTTP {
		return w.backend.Dial()
	}
	c1, c2 := bufconn.BufferedPipe(8192)
	go func() {
		defer c2.Close()
		switch sc.ok.clientStatus {
		case "ok":
			tun.SendStatusProto(c2, nil)
			// echo
			io.Copy(c2, c2)
		case "no-direct":
			tun.SendStatusProto(c2, transport.ErrNoDirect)
		case "error":
			tun.SendStatusProto(c2, errors.New("client could not reach its target"))
		case "no-direct-no-text":
			// the error text of a status frame is optional: the code alone says it is a failure
			rpc.Send(c2, &protocol.TunnelStatus{Status: protocol.TunnelStatusCode_NO_DIRECT})
		case "error-no-text":
			rpc.Send(c2, &protocol.TunnelStatus{Status: protocol.TunnelStatusCode_UNKNOWN_ERROR})
		case "close":
		}
	}()
	return c1, nil
}

type obs struct {
	proto, name string
	httpStatus  int
	backendHit  bool
	gotStatus   bool
	status      protocol.TunnelStatusCode
	statusErr   string
	readErr     string // what ended the read when no status frame arrived
	echoOK      bool
	closedAfter bool
	note        string
}

const payload = "c36-echo-payload"

func (w *world) run(proto, name, host string) (o obs, err error) {
	o.proto, o.name = proto, name
	ctx, cancel := context.WithTimeout(context.Background(), gwlab.Watchdog)
	defer cancel()
	switch proto {
	case "h1", "h2", "h3":
		cl := w.lab.Client(proto, host)
		defer gwlab.CloseClient(cl)
		resp, err := cl.Get("https://" + host + "/probe")
		if err != nil {
			return o, err
		}
		defer resp.Body.Close()
		io.Copy(io.Discard, resp.Body)
		o.httpStatus = resp.StatusCode
		o.backendHit = resp.Header.Get("X-Gwlab-Backend") != ""
	case "tcp-yamux", "tcp-quic":
		var st *gwlab.TCPStream
		if proto == "tcp-yamux" {
			st, err = w.lab.OpenTCPYamux(ctx, host)
		} else {
			st, err = w.lab.OpenTCPQuic(ctx, host)
		}
		if err != nil {
			return o, err
		}
		defer st.CloseAll()
		st.SetDeadline(time.Now().Add(gwlab.Watchdog))
		if err := rpc.Send(st, &protocol.TunnelStatus{}); err != nil {
			return o, err
		}
		status := &protocol.TunnelStatus{}
		if rerr := rpc.BoundedReceive(st, status, 1<<16); rerr != nil {
			if isTimeout(rerr) {
				return o, fmt.Errorf("watchdog while waiting for the status frame: %w", rerr)
			}
			o.readErr = rerr.Error()
			return o, nil
		}
		o.gotStatus, o.status, o.statusErr = true, status.GetStatus(), status.GetError()
		if o.status == protocol.TunnelStatusCode_STATUS_OK {
			if _, err := st.Write([]byte(payload)); err == nil {
				buf := make([]byte, len(payload))
				if _, err := io.ReadFull(st, buf); err == nil && string(buf) == payload {
					o.echoOK = true
				}
			}
			return o, nil
		}
		// after a failure status the stream ends
		var b [1]byte
		n, rerr := st.Read(b[:])
		if n == 0 && rerr != nil && !isTimeout(rerr) {
			o.closedAfter = true
		}
	case "connect":
		resp, conn, br, err := w.lab.Connect(ctx, host+":4321")
		if err != nil {
			return o, err
		}
		defer conn.Close()
		o.httpStatus = resp.StatusCode
		if resp.StatusCode == 200 {
			if _, err := conn.Write([]byte(payload)); err == nil {
				buf := make([]byte, len(payload))
				if _, err := io.ReadFull(br, buf); err == nil && string(buf) == payload {
					o.echoOK = true
				}
			}
		} else {
			b, _ := io.ReadAll(io.LimitReader(resp.Body, 512))
			o.note = strings.TrimSpace(string(b))
		}
	}
	return o, nil
}

func isTimeout(err error) bool {
	var ne net.Error
	return errors.As(err, &ne) && ne.Timeout()
}

var _ = bufio.NewReader

type job struct {
	proto string
	ec    *errCase
	ok    *okCase
	name  string
	host  string
	// unroutable: a server name the gateway cannot map to a tunnel at all (no dial error class is involved)
	unroutable bool
	rep        int
}

func main() {
	r := ev.Start("C36", "exploration")
	r.SetExhaustive(true)
	r.SetMaxSamples(8)
	tbl := errorTable()
	r.SetRule(fmt.Sprintf("complete table: %d dial errors (classes not-found, not-connected, lookup-failed, deadline-exceeded, arbitrary, no-direct, net.ErrClosed, closed pipe, unexpected EOF, ECONNRESET, ECONNREFUSED, EPIPE, os.ErrNotExist, each bare / %%w / %%w%%w / errors.Join; raw net.Error timeouts bare, in *net.OpError, os.ErrDeadlineExceeded, %%w-wrapped; non-timeout *net.OpError) plus 4 behaviours of an existing client connection (status ok+echo, no-direct, error, close without status) x 6 protocol paths (HTTP proxy over h1/h2/h3, raw TCP over TLS+yamux and over a QUIC stream, HTTP CONNECT); a case is distinct by (protocol, error class, wrapping)", len(tbl)))
	r.Assume("context.Canceled and io.EOF are excluded (the caller went away, no status is observable)")
	r.Assume("%w-wrapped raw net.Error timeouts: the statement does not decide between 'timeout' and 'other failure'; 504 or 502 accepted (tun.IsTimeout uses a type assertion)")
	r.Assume("for raw TCP the failure code is NO_DIRECT for not-connected/no-direct dial errors and UNKNOWN_ERROR otherwise (tun.SendStatusProto contract); for CONNECT any non-2xx status is a failure status")

	configs := []gwlab.Config{{RootDomains: []string{"gw.c36.example"}, PlainHTTP: true}}
	reps := 1
	if !r.Quick() {
		configs = append(configs,
			gwlab.Config{RootDomains: []string{"a.b.c.d.com", "x.y.z.net"}, PlainHTTP: true, GatewayPort: 443},
			gwlab.Config{RootDomains: nil, PlainHTTP: true, GatewayPort: 8443},
		)
		reps = 4
	}
	for ci, cfg := range configs {
		w, err := newWorld(cfg)
		if err != nil {
			r.Inconclusive("cannot start gateway: " + err.Error())
			continue
		}
		var jobs []job
		id := 0
		mk := func(proto string, ec *errCase, ok *okCase, rep int) {
			id++
			name := fmt.Sprintf("c%dx%d", id, ci)
			host := name + ".gw.c36.example"
			if len(cfg.RootDomains) > 0 {
				host = name + "." + cfg.RootDomains[id%len(cfg.RootDomains)]
			} else {
				name = host // no root domain: the whole host is the tunnel name
			}
			sc := &script{}
			if ec != nil {
				sc.err = ec.err
			} else {
				sc.ok = ok
			}
			w.scripts[name] = sc
			jobs = append(jobs, job{proto: proto, ec: ec, ok: ok, name: name, host: host, rep: rep})
		}
		for rep := 0; rep < reps; rep++ {
			for _, p := range protos {
				for i := range tbl {
					mk(p, &tbl[i], nil, rep)
				}
				for i := range okCases {
					if i > 0 && (p == "h1" || p == "h2" || p == "h3") {
						break // the HTTP backend has one behaviour: it answers
					}
					mk(p, nil, &okCases[i], rep)
				}
			}
		}
		// names the gateway cannot forward: not under a root domain, a single label (an IP literal cannot
		// be sent as a TLS server name at all: such a connection carries no name and is not a tunnel request)
		for rep := 0; rep < reps; rep++ {
			for _, p := range []string{"tcp-yamux", "tcp-quic", "connect"} {
				for _, h := range []string{fmt.Sprintf("custom%d.com", rep), "localhost", fmt.Sprintf("single%d", rep), fmt.Sprintf("deep.er.custom%d.org", rep)} {
					id++
					jobs = append(jobs, job{proto: p, name: h, host: h, rep: rep, unroutable: true})
				}
			}
		}
		// the table is fixed; the seed only permutes the order in which the 8 workers run it
		r.Rand(fmt.Sprint("order", ci)).Shuffle(len(jobs), func(a, b int) { jobs[a], jobs[b] = jobs[b], jobs[a] })
		results := make([]obs, len(jobs))
		errs := make([]error, len(jobs))
		var wg sync.WaitGroup
		sem := make(chan struct{}, 8)
		for i := range jobs {
			wg.Add(1)
			sem <- struct{}{}
			go func(i int) {
				defer wg.Done()
				defer func() { <-sem }()
				for attempt := 0; attempt < 3; attempt++ {
					results[i], errs[i] = w.run(jobs[i].proto, jobs[i].name, jobs[i].host)
					if errs[i] == nil {
						break
					}
				}
			}(i)
		}
		wg.Wait()
		for i, j := range jobs {
			judge(r, w, j, results[i], errs[i])
		}
		w.close()
	}
	r.Finish()
}

var sampledProto = map[string]bool{}

func judge(r *ev.Run, w *world, j job, o obs, err error) {
	w.mu.Lock()
	dials, conns := w.dials[j.name], w.conns[j.name]
	w.mu.Unlock()
	isHTTP := j.proto == "h1" || j.proto == "h2" || j.proto == "h3"
	isTCP := j.proto == "tcp-yamux" || j.proto == "tcp-quic"
	var cls, wrap string
	if j.unroutable {
		// whatever stops the forwarding (the name check, or a dial for a name nobody registered):
		// the raw TCP / CONNECT caller is told so before the stream ends
		kind := "not-under-a-root-domain"
		switch {
		case !strings.Contains(j.host, "."):
			kind = "single-label"
		case j.host[0] >= '0' && j.host[0] <= '9':
			kind = "ip-literal"
		}
		caseName := fmt.Sprintf("%s/unroutable-name/%s", j.proto, kind)
		if err != nil {
			r.Inconclusive(fmt.Sprintf("%s: transport problem (not judged): %v", caseName, err))
			return
		}
		r.Case(caseName)
		wit := map[string]any{"proto": j.proto, "host": j.host, "dial_calls": dials, "status_frame": o.gotStatus, "status": o.status.String(), "stream_ended_with": o.readErr, "http_status": o.httpStatus}
		switch {
		case isTCP && !o.gotStatus:
			r.Violation("tcp-no-status-before-close:unroutable-name:"+j.proto, caseName, fmt.Sprintf("%s: server name %q cannot be forwarded; the stream ended (%s) before any status frame", caseName, j.host, o.readErr), wit)
		case isTCP && o.status == protocol.TunnelStatusCode_STATUS_OK:
			r.Violation("tcp-success-without-client:unroutable-name", caseName, fmt.Sprintf("%s: server name %q: the caller received STATUS_OK although no client connection exists", caseName, j.host), wit)
		case !isTCP && o.httpStatus < 400:
			r.Violation("connect-no-failure-status:unroutable-name", caseName, fmt.Sprintf("%s: CONNECT %q answered %d, not a failure status", caseName, j.host, o.httpStatus), wit)
		}
		return
	}
	if j.ec != nil {
		cls, wrap = j.ec.class, j.ec.wrap
	} else {
		cls, wrap = j.ok.name, "-"
	}
	caseName := fmt.Sprintf("%s/%s/%s", j.proto, cls, wrap)
	if err != nil {
		r.Inconclusive(fmt.Sprintf("%s: transport problem (not judged): %v", caseName, err))
		return
	}
	r.Case(caseName)
	r.Count("dials_observed", int64(dials))
	wit := map[string]any{"proto": j.proto, "class": cls, "wrap": wrap, "host": j.host, "dial_calls": dials, "client_connections": conns}
	if j.ec != nil {
		wit["dial_error"] = j.ec.err.Error()
	}
	if isTCP {
		wit["status_frame"] = o.gotStatus
		if o.gotStatus {
			wit["status"] = o.status.String()
			wit["status_error"] = o.statusErr
		} else {
			wit["stream_ended_with"] = o.readErr
		}
	} else {
		wit["http_status"] = o.httpStatus
	}
	if !sampledProto[j.proto+fmt.Sprint(j.ec != nil)] && j.rep == 0 && (j.ec == nil || j.ec.wrap == "%w") {
		sampledProto[j.proto+fmt.Sprint(j.ec != nil)] = true
		if j.ec != nil {
			r.Sample(wit)
		}
	}
	viol := func(key, what string) { r.Violation(key, caseName, caseName+": "+what, wit) }
	if dials == 0 {
		viol("not-dialed:"+j.proto, "the gateway never called DialClient for the tunnel name")
		return
	}
	if j.ec != nil {
		ec := j.ec
		switch {
		case isHTTP:
			okStatus := o.httpStatus == ec.http || (ec.http == wantTimeoutOr502 && (o.httpStatus == 504 || o.httpStatus == 502)) || ec.http == wantAnyFailure // HTTP: the gateway treats these as the caller going away and writes nothing (not judged)
			if !okStatus {
				want := fmt.Sprint(ec.http)
				if ec.http == wantTimeoutOr502 {
					want = "504 or 502"
				}
				viol(fmt.Sprintf("http-status:%s:%s", cls, wrap), fmt.Sprintf("dial error %q must yield HTTP %s, got %d", ec.err, want, o.httpStatus))
			}
			if o.backendHit {
				viol("http-backend-reached-on-failure", "a backend answered although DialClient failed")
			}
		case isTCP:
			if !o.gotStatus {
				viol(fmt.Sprintf("tcp-no-status-before-close:%s", j.proto), fmt.Sprintf("dial error %q: the stream ended (%s) before any status frame", ec.err, o.readErr))
				return
			}
			if o.status == protocol.TunnelStatusCode_STATUS_OK {
				viol(fmt.Sprintf("tcp-success-without-client:%s:%s", cls, wrap), fmt.Sprintf("dial error %q: the caller received STATUS_OK although no client connection exists", ec.err))
				return
			}
			want := protocol.TunnelStatusCode_UNKNOWN_ERROR
			if ec.noDirect {
				want = protocol.TunnelStatusCode_NO_DIRECT
			}
			if o.status != want {
				viol(fmt.Sprintf("tcp-status-code:%s:%s", cls, wrap), fmt.Sprintf("dial error %q must be reported as %s, got %s", ec.err, want, o.status))
			}
			if o.closedAfter {
				r.Count("tcp_stream_closed_after_failure_status", 1)
			}
		default: // connect
			if o.httpStatus >= 200 && o.httpStatus < 300 {
				viol(fmt.Sprintf("connect-success-without-client:%s:%s", cls, wrap), fmt.Sprintf("dial error %q: CONNECT answered %d although no client connection exists", ec.err, o.httpStatus))
			} else if o.httpStatus < 400 {
				viol(fmt.Sprintf("connect-no-failure-status:%s:%s", cls, wrap), fmt.Sprintf("dial error %q: CONNECT answered %d, not a failure status", ec.err, o.httpStatus))
			}
		}
		return
	}
	// a client connection exists
	if conns == 0 {
		viol("not-dialed:"+j.proto, "no client connection was handed out")
		return
	}
	st := j.ok.clientStatus
	switch {
	case isHTTP:
		// the HTTP backend always answers; success only through a client connection
		if o.httpStatus != 200 || !o.backendHit {
			viol("http-success-path", fmt.Sprintf("a connected tunnel must be proxied: status %d backend=%v", o.httpStatus, o.backendHit))
		}
	case isTCP:
		switch st {
		case "ok":
			if !o.gotStatus || o.status != protocol.TunnelStatusCode_STATUS_OK || !o.echoOK {
				viol("tcp-success-path:"+j.proto, fmt.Sprintf("client accepted and sent STATUS_OK: caller saw status=%v %s echo=%v (%s)", o.gotStatus, o.status, o.echoOK, o.readErr))
			}
		case "no-direct", "error", "no-direct-no-text", "error-no-text":
			if o.gotStatus && o.status == protocol.TunnelStatusCode_STATUS_OK {
				viol("tcp-success-on-client-failure:"+j.proto, "the client end reported a failure, the caller received STATUS_OK")
			}
			if !o.gotStatus {
				viol("tcp-client-failure-status-lost:"+j.proto, "the client end reported a failure status, the caller received none: "+o.readErr)
			}
		case "close":
			if o.gotStatus && o.status == protocol.TunnelStatusCode_STATUS_OK {
				viol("tcp-success-on-client-close:"+j.proto, "the client end closed without a status, the caller received STATUS_OK")
			}
		}
	default:
		switch st {
		case "ok":
			if o.httpStatus != 200 || !o.echoOK {
				viol("connect-success-path", fmt.Sprintf("client accepted and sent STATUS_OK: CONNECT status %d echo=%v", o.httpStatus, o.echoOK))
			}
		default:
			if o.httpStatus >= 200 && o.httpStatus < 300 {
				viol("connect-success-on-client-"+st, fmt.Sprintf("client end behaviour %q, CONNECT answered %d", st, o.httpStatus))
			}
		}
	}
}
