// C37 — internal admin endpoints always require the admin credentials.
//
// Real gateways (gwlab) reached through the TLS / QUIC listeners with SNI = root
// domain (the apex router). Marker handlers with counters are mounted as the
// acme / chord / tun / migrator internal handlers, DialInternal is recorded and
// leads to a marker "remote node". Requests are generated over paths, methods,
// credential forms, proxy headers and protocols; counters may move only for
// requests that carry exactly the configured credentials.
package main

import (
	"context"
	"encoding/base64"
	"fmt"
	"io"
	"math/rand"
	"net"
	"net/http"
	"strings"
	"sync"
	"sync/atomic"
	"time"

	"verifharness/lab/ev"
	"verifharness/lab/gwlab"

	"go.miragespace.co/specter/gateway"
	"go.miragespace.co/specter/spec/protocol"
	"go.miragespace.co/specter/util/bufconn"
)

const root = "apex.c37.example"

type world struct {
	lab        *gwlab.Lab
	user, pass string
	configured bool
	kind       string
	local      atomic.Int64 // marker handlers reached
	remote     atomic.Int64 // remote node reached through the internal proxy
	dials      atomic.Int64 // DialInternal calls
	clients    map[string]*http.Client
	docBody    string
	nonce      string // identifies this world's handlers (who answers on the fixed plain-HTTP local port?)
}

func (w *world) marker(name string) http.Handler {
	return http.HandlerFunc(func(rw http.ResponseWriter, r *http.Request) {
		w.local.Add(1)
		rw.Header().Set("X-Marker", name)
		rw.Header().Set("X-World", w.nonce)
		fmt.Fprintf(rw, "MARKER:%s:%s", name, r.URL.Path)
	})
}

type oneConnListener struct {
	ch chan net.Conn
}

func (l *oneConnListener) Accept() (net.Conn, error) {
	c, ok := <-l.ch
	if !ok {
		return nil, net.ErrClosed
	}
	return c, nil
}
func (l *oneConnListener) Close() error   { return nil }
func (l *oneConnListener) Addr() net.Addr { return &net.TCPAddr{IP: net.IPv4(127, 0, 0, 1)} }

func newWorld(user, pass, kind string) (*world, error) {
	w := &world{user: user, pass: pass, kind: kind, configured: user != "" && pass != "", clients: map[string]*http.Client{}}
	w.nonce = fmt.Sprintf("%p", w)
	lab, err := gwlab.New(gwlab.Config{
		RootDomains: []string{root},
		AdminUser:   user,
		AdminPass:   pass,
		Handlers: gateway.InternalHandlers{
			Acme:         w.marker("acme"),
			Chord:        w.marker("chord"),
			TunnelServer: w.marker("tun"),
			Migrator:     w.marker("migrator"),
		},
	})
	if err != nil {
		return nil, err
	}
	w.lab = lab
	ln := &oneConnListener{ch: make(chan net.Conn, 16)}
	remoteSrv := &http.Server{Handler: http.HandlerFunc(func(rw http.ResponseWriter, r *http.Request) {
		w.remote.Add(1)
		fmt.Fprint(rw, "MARKER:remote-node")
	})}
	go remoteSrv.Serve(ln)
	lab.Server.SetDialInternal(func(ctx context.Context, node *protocol.Node) (net.Conn, error) {
		w.dials.Add(1)
		c1, c2 := bufconn.BufferedPipe(8192)
		ln.ch <- c2
		return c1, nil
	})
	for _, p := range []string{"h1", "h2", "h3"} {
		w.clients[p] = lab.Client(p, root)
	}
	// the gateway also serves the apex router without TLS on a fixed loopback port
	w.clients["local"] = &http.Client{Timeout: gwlab.Watchdog, CheckRedirect: func(*http.Request, []*http.Request) error { return http.ErrUseLastResponse },
		Transport: &http.Transport{DisableKeepAlives: true, DialContext: func(ctx context.Context, _, _ string) (net.Conn, error) {
			return (&net.Dialer{}).DialContext(ctx, "tcp", "127.0.0.1:9999")
		}}}
	return w, nil
}

func (w *world) close() {
	for n, c := range w.clients {
		if n != "local" {
			gwlab.CloseClient(c)
		}
	}
	w.lab.Close()
}

type credForm struct {
	name  string
	right bool
	hdr   func(w *world, rng *rand.Rand) string // "" = no Authorization header
}

func basic(u, p string) string {
	return "Basic " + base64.StdEncoding.EncodeToString([]byte(u+":"+p))
}

func mutate(rng *rand.Rand, s string) string {
	if s == "" {
		return "x"
	}
	b := []byte(s)
	switch rng.Intn(5) {
	case 0: // flip case of a letter / change a char
		i := rng.Intn(len(b))
		if (b[i] >= 'a' && b[i] <= 'z') || (b[i] >= 'A' && b[i] <= 'Z') {
			b[i] ^= 32
		} else {
			b[i] = 'Q'
		}
		return string(b)
	case 1:
		return s[:len(s)-1] // proper prefix
	case 2:
		return s + " "
	case 3:
		return s + s[len(s)-1:]
	}
	return "totally-different"
}

var credForms = []credForm{
	{"none", false, func(w *world, rng *rand.Rand) string { return "" }},
	{"right", true, func(w *world, rng *rand.Rand) string { return basic(w.user, w.pass) }},
	{"wrong-password", false, func(w *world, rng *rand.Rand) string { return basic(w.user, mutate(rng, w.pass)) }},
	{"wrong-user", false, func(w *world, rng *rand.Rand) string { return basic(mutate(rng, w.user), w.pass) }},
	{"empty-password", false, func(w *world, rng *rand.Rand) string { return basic(w.user, "") }},
	{"empty-user", false, func(w *world, rng *rand.Rand) string { return basic("", w.pass) }},
	{"both-empty", false, func(w *world, rng *rand.Rand) string { return basic("", "") }},
	{"swapped", false, func(w *world, rng *rand.Rand) string { return basic(w.pass, w.user) }},
	{"bearer", false, func(w *world, rng *rand.Rand) string { return "Bearer " + w.pass }},
	{"not-base64", false, func(w *world, rng *rand.Rand) string { return "Basic !!!" + w.user + ":" + w.pass }},
	{"no-colon", false, func(w *world, rng *rand.Rand) string {
		return "Basic " + base64.StdEncoding.EncodeToString([]byte(w.user+w.pass))
	}},
	{"plaintext", false, func(w *world, rng *rand.Rand) string { return "Basic " + w.user + ":" + w.pass }},
}

type pathGen struct {
	name      string
	canonical bool // routed under the /_internal prefix as written
	mounted   bool // with the right credentials and no proxying, a marker handler answers
	gen       func(rng *rand.Rand) string
}

func seg(rng *rand.Rand) string {
	al := "abcdefghijklmnopqrstuvwxyz0123456789-_"
	n := 1 + rng.Intn(8)
	b := make([]byte, n)
	for i := range b {
		b[i] = al[rng.Intn(len(al))]
	}
	return string(b)
}

var mounts = []string{"acme", "chord", "tun", "migrator"}

var pathGens = []pathGen{
	{"prefix", true, false, func(rng *rand.Rand) string { return []string{"/_internal", "/_internal/"}[rng.Intn(2)] }},
	{"mount-root", true, true, func(rng *rand.Rand) string {
		return "/_internal/" + mounts[rng.Intn(4)] + []string{"", "/"}[rng.Intn(2)]
	}},
	{"mount-sub", true, true, func(rng *rand.Rand) string {
		p := "/_internal/" + mounts[rng.Intn(4)] + "/" + seg(rng)
		if rng.Intn(2) == 0 {
			p += "/" + seg(rng)
		}
		if rng.Intn(4) == 0 {
			p += "/"
		}
		return p
	}},
	{"unknown", true, false, func(rng *rand.Rand) string { return "/_internal/" + seg(rng) + "x/" + seg(rng) }},
	{"debug", true, false, func(rng *rand.Rand) string {
		return []string{"/_internal/debug/pprof/cmdline", "/_internal/debug/vars", "/_internal/debug/pprof/"}[rng.Intn(3)]
	}},
	{"dot-segments-inside", true, false, func(rng *rand.Rand) string {
		return []string{"/_internal/chord/../acme/" + seg(rng), "/_internal/./chord/" + seg(rng), "/_internal/../" + seg(rng), "/_internal/x/../../_internal/tun/" + seg(rng)}[rng.Intn(4)]
	}},
	{"encoded-slash-inside", true, false, func(rng *rand.Rand) string {
		return []string{"/_internal/chord%2F" + seg(rng), "/_internal/acme%2f..%2ftun", "/_internal/%2e%2e/" + seg(rng)}[rng.Intn(3)]
	}},
	{"double-slash-inside", true, false, func(rng *rand.Rand) string { return "/_internal//" + mounts[rng.Intn(4)] + "/" + seg(rng) }},
	// other spellings of the prefix: whatever they are routed to, nothing internal may be reached without credentials
	{"case-variant", false, false, func(rng *rand.Rand) string {
		return []string{"/_INTERNAL/chord/", "/_Internal/tun/", "/_internaL/acme/"}[rng.Intn(3)] + seg(rng)
	}},
	{"leading-dot-segments", false, false, func(rng *rand.Rand) string {
		return []string{"/./_internal/chord/", "/x/../_internal/tun/", "/specter-cgi/../_internal/acme/", "//_internal/migrator/"}[rng.Intn(4)] + seg(rng)
	}},
	{"encoded-prefix", false, false, func(rng *rand.Rand) string {
		return []string{"/_internal%2Fchord%2F", "/%5Finternal/chord/", "/%5finternal%2ftun%2f", "/_internal%2f"}[rng.Intn(4)] + seg(rng)
	}},
}

var methods = []string{"GET", "GET", "GET", "POST", "PUT", "DELETE", "HEAD", "OPTIONS", "PATCH", "PROPFIND"}

type reqCase struct {
	proto, method, path, query string
	pg                         *pathGen
	cred                       *credForm
	authHdr                    string
	proxyNode                  string // x-internal-proxy-node-address
	forwarded                  bool   // x-internal-proxy-forwarded
}

type outcome struct {
	status                 int
	body                   string
	dLocal, dRemote, dDial int64
	retries429             int
	world                  string
	err                    error
}

func (w *world) do(c reqCase) outcome {
	var o outcome
	for {
		scheme := "https://"
		if c.proto == "local" {
			scheme = "http://"
		}
		req, err := http.NewRequest(c.method, scheme+root+c.path+c.query, nil)
		if err != nil {
			o.err = err
			return o
		}
		if c.authHdr != "" {
			req.Header.Set("Authorization", c.authHdr)
		}
		if c.proxyNode != "" {
			req.Header.Set("x-internal-proxy-node-address", c.proxyNode)
		}
		if c.forwarded {
			req.Header.Set("x-internal-proxy-forwarded", "true")
		}
		l0, r0, d0 := w.local.Load(), w.remote.Load(), w.dials.Load()
		resp, err := w.clients[c.proto].Do(req)
		if err != nil {
			o.err = err
			return o
		}
		b, _ := io.ReadAll(io.LimitReader(resp.Body, 1<<16))
		resp.Body.Close()
		o.status, o.body, o.world = resp.StatusCode, string(b), resp.Header.Get("X-World")
		o.dLocal, o.dRemote, o.dDial = w.local.Load()-l0, w.remote.Load()-r0, w.dials.Load()-d0
		if resp.StatusCode != http.StatusTooManyRequests {
			return o
		}
		// the apex router is rate limited (10 requests/s per gateway); a limited request reached nothing
		if o.dLocal != 0 || o.dRemote != 0 || o.dDial != 0 {
			return o
		}
		o.retries429++
		if o.retries429 > 600 {
			o.err = fmt.Errorf("still rate limited after %d attempts", o.retries429)
			return o
		}
		time.Sleep(100 * time.Millisecond) // pacing only
	}
}

func randCred(rng *rand.Rand, allowColon bool) string {
	al := "abcdefghijklmnopqrstuvwxyzABCDEFGHIJKLMNOPQRSTUVWXYZ0123456789-_.!@#$%^&*() "
	if allowColon {
		al += "::"
	}
	n := 1 + rng.Intn(20)
	b := make([]byte, n)
	for i := range b {
		b[i] = al[rng.Intn(len(al))]
	}
	return string(b)
}

func main() {
	r := ev.Start("C37", "exploration")
	r.SetMaxSamples(8)
	r.SetRule("requests to the apex router of real gateways (SNI = root domain) over {h1,h2,h3} and, for the gateway that owns it, over the plain-HTTP loopback listener (no TLS state): path class {prefix, mounted handler root/sub-path, unknown sub-path, debug, dot segments / encoded slashes / double slashes inside the prefix, case variants, leading dot segments, encoded spellings of the prefix} x method x credential form {none, right, wrong password (case flip, prefix, trailing space, ...), wrong user, empty password, empty user, both empty, swapped, Bearer, invalid base64, no colon, plaintext} x proxy headers {none, node address, node address + forwarded} x credential configuration {user+password, empty user, empty password, both empty}; a case is distinct by (configuration kind, protocol, path class, credential form, proxy-header form, status)")
	r.Assume("the 10 req/s limiter in front of the apex router answers 429 before anything else; such attempts are repeated (pacing sleep, no verdict depends on it)")
	r.Assume("non-canonical spellings of the prefix (case variants, leading dot segments, encoded prefix) are judged only for 'no internal handler / dialer reached and no internal content returned'; canonical ones additionally for the exact status 401 (404 when credentials are not configured)")
	rng := r.Rand("c37")
	nWorlds := r.Pick(12, 40)
	perWorld := r.Pick(25, 250)
	type plan struct {
		w     *world
		cases []reqCase
	}
	var plans []plan
	for i := 0; i < nWorlds; i++ {
		user, pass, kind := randCred(rng, false), randCred(rng, true), "configured"
		switch i % 6 {
		case 3:
			user, kind = "", "empty-user"
		case 4:
			pass, kind = "", "empty-password"
		case 5:
			user, pass, kind = "", "", "both-empty"
		}
		if i == 0 {
			user, pass = "zzzAdminzzz", "yyyPasswordzzz"
		}
		w, err := newWorld(user, pass, kind)
		if err != nil {
			r.Inconclusive("cannot start gateway: " + err.Error())
			continue
		}
		p := plan{w: w}
		for j := 0; j < perWorld; j++ {
			c := reqCase{proto: []string{"h1", "h2", "h3"}[rng.Intn(3)], method: methods[rng.Intn(len(methods))]}
			c.pg = &pathGens[rng.Intn(len(pathGens))]
			if rng.Intn(3) == 0 {
				c.pg = &pathGens[1+rng.Intn(2)] // mounted handlers more often
			}
			c.path = c.pg.gen(rng)
			if rng.Intn(4) == 0 {
				c.query = "?q=" + seg(rng)
			}
			c.cred = &credForms[rng.Intn(len(credForms))]
			if rng.Intn(3) == 0 {
				c.cred = &credForms[1] // right credentials
			}
			c.authHdr = c.cred.hdr(w, rng)
			switch rng.Intn(5) {
			case 0, 1:
				c.proxyNode = fmt.Sprintf("127.0.0.1:%d", 4000+rng.Intn(1000))
			case 2:
				c.proxyNode = fmt.Sprintf("10.0.0.%d:443", rng.Intn(250))
				c.forwarded = true
			}
			p.cases = append(p.cases, c)
		}
		plans = append(plans, p)
	}
	type rec struct {
		w *world
		c reqCase
		o outcome
	}
	recs := make([][]rec, len(plans))
	var localWorlds, localReqs atomic.Int64
	var wg sync.WaitGroup
	for i := range plans {
		wg.Add(1)
		go func(i int) {
			defer wg.Done()
			p := plans[i]
			// what the catch-all serves to the administrator (to recognise it in unauthorised answers)
			if p.w.configured {
				o := p.w.do(reqCase{proto: "h2", method: "GET", path: "/_internal/", authHdr: basic(p.w.user, p.w.pass)})
				if o.err == nil && o.status == 200 {
					p.w.docBody = o.body
				}
			}
			// the fixed local port belongs to one gateway of this machine at most: ours iff a mounted
			// handler reached through it with the right credentials answers with this world's nonce
			ownsLocal := false
			if p.w.configured {
				o := p.w.do(reqCase{proto: "local", method: "GET", path: "/_internal/chord/", authHdr: basic(p.w.user, p.w.pass)})
				ownsLocal = o.err == nil && o.world == p.w.nonce
			}
			if ownsLocal {
				localWorlds.Add(1)
			}
			for ci, c := range p.cases {
				if ownsLocal && (ci%3 == 0 || c.forwarded) {
					c.proto = "local"
					localReqs.Add(1)
				}
				recs[i] = append(recs[i], rec{p.w, c, p.w.do(c)})
				if ownsLocal && c.proto != "local" {
					// the same request once more without TLS, marked as already relayed by another node
					c2 := c
					c2.proto, c2.forwarded = "local", true
					if c2.proxyNode == "" {
						c2.proxyNode = "10.0.0.7:443"
					}
					localReqs.Add(1)
					recs[i] = append(recs[i], rec{p.w, c2, p.w.do(c2)})
				}
			}
		}(i)
	}
	wg.Wait()
	for i := range recs {
		for j, x := range recs[i] {
			judge(r, i, j, x.w, x.c, x.o)
		}
		plans[i].w.close()
	}
	r.Count("worlds_owning_the_plain_loopback_listener", localWorlds.Load())
	r.Count("requests_over_the_plain_loopback_listener", localReqs.Load())
	r.Finish()
}

var sampled = map[string]bool{}

func judge(r *ev.Run, wi, ci int, w *world, c reqCase, o outcome) {
	caseName := fmt.Sprintf("w%d/%d", wi, ci)
	if o.err != nil {
		r.Inconclusive(fmt.Sprintf("%s: transport problem (not judged): %v", caseName, o.err))
		return
	}
	r.Count("rate_limited_attempts", int64(o.retries429))
	px := "none"
	if c.proxyNode != "" {
		px = "node"
		if c.forwarded {
			px = "node+forwarded"
		}
	}
	authorised := w.configured && c.authHdr == basic(w.user, w.pass)
	sig := fmt.Sprintf("%s/%s/%s/%s/%s/%d", w.kind, c.proto, c.pg.name, c.cred.name, px, o.status)
	r.Case(sig)
	wit := map[string]any{"config": w.kind, "admin_user": w.user, "admin_pass": w.pass, "proto": c.proto, "method": c.method, "path": c.path + c.query,
		"authorization": c.authHdr, "credential_form": c.cred.name, "proxy_node": c.proxyNode, "forwarded_header": c.forwarded,
		"status": o.status, "handler_hits": o.dLocal, "remote_hits": o.dRemote, "dial_internal_calls": o.dDial}
	if k := fmt.Sprint(w.kind, authorised, px); !sampled[k] && len(sampled) < 8 {
		sampled[k] = true
		r.Sample(wit)
	}
	viol := func(key, what string) {
		body := o.body
		if len(body) > 200 {
			body = body[:200]
		}
		wit["body"] = body
		r.Violation(key, caseName, fmt.Sprintf("%s %s %s [%s, %s, proxy=%s, config=%s]: %s", c.proto, c.method, c.path, c.cred.name, c.authHdr, px, w.kind, what), wit)
	}
	if authorised {
		r.Count("authorised_requests", 1)
		// non-vacuity of the counters: the administrator does reach the handlers / the dialer
		if c.pg.canonical {
			switch {
			case o.status == 401:
				r.Inconclusive(fmt.Sprintf("%s: a request with the configured credentials was refused (401); the monitors cannot be shown to work", caseName))
			case px == "node" && o.dDial == 0:
				r.Inconclusive(fmt.Sprintf("%s: authorised proxied request did not reach DialInternal (status %d)", caseName, o.status))
			case px != "node" && c.pg.mounted && o.dLocal == 0 && c.method != "OPTIONS":
				r.Inconclusive(fmt.Sprintf("%s: authorised request to a mounted handler did not reach it (status %d)", caseName, o.status))
			}
			if px == "node" && o.dDial > 0 {
				r.Count("authorised_proxied", 1)
			}
			if o.dLocal > 0 {
				r.Count("authorised_handler_hits", 1)
			}
		}
		return
	}
	r.Count("unauthorised_requests", 1)
	moved := o.dLocal != 0 || o.dRemote != 0 || o.dDial != 0
	kind := "unauthorised"
	if !w.configured {
		kind = "unconfigured:" + w.kind
	}
	if moved {
		what := fmt.Sprintf("an internal handler was reached without the admin credentials (handler hits %d, DialInternal calls %d, remote hits %d, status %d)", o.dLocal, o.dDial, o.dRemote, o.status)
		if o.dDial != 0 {
			viol(kind+":proxy-dialed:"+c.cred.name, what)
		} else {
			viol(kind+":handler-reached:"+c.cred.name, what)
		}
		return
	}
	if strings.Contains(o.body, "MARKER:") || (w.docBody != "" && len(o.body) > 0 && strings.Contains(o.body, w.docBody)) {
		viol(kind+":internal-content:"+c.cred.name, fmt.Sprintf("internal content was returned without the admin credentials (status %d)", o.status))
		return
	}
	if c.pg.canonical {
		want := 401
		if !w.configured {
			want = 404
		}
		if o.status != want {
			viol(fmt.Sprintf("%s:status-%d-for-%s", kind, want, c.pg.name), fmt.Sprintf("must be answered %d, got %d", want, o.status))
		}
	}
}
