// C38 — length-prefixed messages round-trip and respect size bounds.
// Real rpc.Send / rpc.Receive / rpc.BoundedReceive on the message types the
// repository frames, through readers that hand out 1..n bytes per Read.
package main

import (
	"bytes"
	"encoding/binary"
	"fmt"
	"io"
	"math/rand"
	"strings"

	"verifharness/lab/ev"

	"go.miragespace.co/specter/spec/protocol"
	"go.miragespace.co/specter/spec/rpc"

	"google.golang.org/protobuf/proto"
)

type msg interface {
	rpc.VTMarshaler
	proto.Message
}

// chunkReader delivers the stream in pieces chosen by the mode and counts what
// was taken from it.
type chunkReader struct {
	data     []byte
	off      int
	mode     int // 0 all at once, 1 one byte per Read, 2 random 1..n, 3 random with tiny pieces around the header
	rng      *rand.Rand
	reads    int
	maxChunk int
}

func (c *chunkReader) Read(p []byte) (int, error) {
	c.reads++
	if c.off >= len(c.data) {
		return 0, io.EOF
	}
	n := len(p)
	switch c.mode {
	case 1:
		n = 1
	case 2:
		n = 1 + c.rng.Intn(c.maxChunk)
	case 3:
		if c.off < 8 {
			n = 1 + c.rng.Intn(2)
		} else {
			n = 1 + c.rng.Intn(c.maxChunk)
		}
	}
	if n > len(p) {
		n = len(p)
	}
	if n > len(c.data)-c.off {
		n = len(c.data) - c.off
	}
	if n == 0 {
		return 0, nil
	}
	copy(p, c.data[c.off:c.off+n])
	c.off += n
	return n, nil
}

func randString(rng *rand.Rand, n int) string {
	const al = "abcdefghijklmnopqrstuvwxyz0123456789-.:/ ÄöÜ你好"
	r := []rune(al)
	var b strings.Builder
	for b.Len() < n {
		b.WriteRune(r[rng.Intn(len(r))])
	}
	return b.String()
}

func size(rng *rand.Rand) int {
	switch x := rng.Intn(100); {
	case x < 8:
		return 0
	case x < 70:
		return rng.Intn(300)
	case x < 92:
		return rng.Intn(4096)
	}
	return rng.Intn(65536)
}

func node(rng *rand.Rand) *protocol.Node {
	if rng.Intn(6) == 0 {
		return nil
	}
	return &protocol.Node{Id: rng.Uint64() >> uint(rng.Intn(64)), Address: randString(rng, rng.Intn(40)), Unknown: rng.Intn(2) == 0, Rendezvous: rng.Intn(2) == 0}
}

type kind struct {
	name  string
	fresh func() msg
	gen   func(rng *rand.Rand) msg
}

var kinds = []kind{
	{"Stream", func() msg { return &protocol.Stream{} }, func(rng *rand.Rand) msg {
		return &protocol.Stream{Type: protocol.Stream_Type(rng.Intn(6)), Target: node(rng)}
	}},
	{"Connection", func() msg { return &protocol.Connection{} }, func(rng *rand.Rand) msg {
		return &protocol.Connection{Identity: node(rng), CacheState: protocol.Connection_State(rng.Intn(3)), CacheDirection: protocol.Connection_Direction(rng.Intn(3)), Version: randString(rng, size(rng)/4)}
	}},
	{"Link", func() msg { return &protocol.Link{} }, func(rng *rand.Rand) msg {
		return &protocol.Link{Alpn: protocol.Link_ALPN(rng.Intn(4)), Hostname: randString(rng, size(rng)), Remote: randString(rng, rng.Intn(50))}
	}},
	{"TunnelRoute", func() msg { return &protocol.TunnelRoute{} }, func(rng *rand.Rand) msg {
		return &protocol.TunnelRoute{ClientDestination: node(rng), ChordDestination: node(rng), TunnelDestination: node(rng), Hostname: randString(rng, size(rng))}
	}},
	{"TunnelStatus", func() msg { return &protocol.TunnelStatus{} }, func(rng *rand.Rand) msg {
		return &protocol.TunnelStatus{Status: protocol.TunnelStatusCode(rng.Intn(4)), Error: randString(rng, size(rng))}
	}},
	{"Datagram", func() msg { return &protocol.Datagram{} }, func(rng *rand.Rand) msg {
		b := make([]byte, size(rng))
		rng.Read(b)
		if len(b) == 0 {
			b = nil
		}
		return &protocol.Datagram{Type: protocol.Datagram_Type(rng.Intn(4)), Data: b}
	}},
	{"Node", func() msg { return &protocol.Node{} }, func(rng *rand.Rand) msg {
		n := node(rng)
		if n == nil {
			n = &protocol.Node{}
		}
		return n
	}},
	{"ImportRequest", func() msg { return &protocol.ImportRequest{} }, func(rng *rand.Rand) msg {
		m := &protocol.ImportRequest{}
		for i := 0; i < rng.Intn(6); i++ {
			k := make([]byte, 1+rng.Intn(20))
			rng.Read(k)
			v := make([]byte, size(rng)/4)
			rng.Read(v)
			m.Keys = append(m.Keys, k)
			m.Values = append(m.Values, &protocol.KVTransfer{SimpleValue: v, PrefixChildren: [][]byte{k}, LeaseToken: rng.Uint64()})
		}
		return m
	}},
}

// hookWriter runs before() once, inside its first Write, then stores what is written.
type hookWriter struct {
	buf    bytes.Buffer
	before func()
	done   bool
}

func (h *hookWriter) Write(p []byte) (int, error) {
	if !h.done {
		h.done = true
		h.before()
	}
	return h.buf.Write(p)
}

func bucket(n int) string {
	switch {
	case n == 0:
		return "0"
	case n < 128:
		return "<128"
	case n < 4096:
		return "<4k"
	}
	return "<=64k+"
}

func main() {
	r := ev.Start("C38", "exploration")
	r.SetRule("one frame per case: seeded message of one of 8 framed types (payload 0 B..64 KiB), written by Send, followed by 0..64 random trailing bytes and read back through a reader handing out everything / 1 byte / random 1..n bytes per Read; per frame also BoundedReceive at max = size-1, size, size+1, 0 and 2^32-1, truncation at seeded offsets (inside the prefix, inside the payload, one byte short), a hostile length prefix, every 8th case a train of 2..5 frames on one stream, and every 2nd case (right after its truncated reads) a Send that overlaps a Receive of another message of the same size class on another stream; distinct by (type, payload size bucket, reader mode) and by sub-check kind")
	rng := r.Rand("c38")
	n := r.Pick(5000, 500000)
	var sub int64
	sampled := 0
	for i := 0; i < n; i++ {
		k := kinds[rng.Intn(len(kinds))]
		m := k.gen(rng)
		var wire bytes.Buffer
		if err := rpc.Send(&wire, m); err != nil {
			r.Violation("send:error", "", fmt.Sprintf("Send(%s) failed: %v", k.name, err), nil)
			continue
		}
		frame := append([]byte(nil), wire.Bytes()...)
		if len(frame) < rpc.LengthSize {
			r.Violation("send:short-frame", "", fmt.Sprintf("Send(%s) wrote %d bytes", k.name, len(frame)), nil)
			continue
		}
		psize := len(frame) - rpc.LengthSize
		trailing := make([]byte, rng.Intn(65))
		rng.Read(trailing)
		stream := append(append([]byte(nil), frame...), trailing...)
		mode := rng.Intn(4)
		if psize > 8192 && mode == 1 && rng.Intn(4) != 0 {
			mode = 2 // keep the number of 64 Ki single-byte reads moderate
		}
		newReader := func(data []byte) *chunkReader {
			return &chunkReader{data: data, mode: mode, rng: rng, maxChunk: 1 + rng.Intn(1+len(data))}
		}
		w := func(extra map[string]any) map[string]any {
			o := map[string]any{"type": k.name, "payload_size": psize, "reader_mode": mode, "trailing": len(trailing), "frame_hex_head": fmt.Sprintf("%x", frame[:min(len(frame), 64)])}
			for a, b := range extra {
				o[a] = b
			}
			return o
		}
		r.Case(fmt.Sprintf("frame/%s/%s/mode%d", k.name, bucket(psize), mode))

		// 1. round trip + what follows the frame stays unread and intact
		{
			rd := newReader(stream)
			got := k.fresh()
			err := rpc.Receive(rd, got)
			sub++
			switch {
			case err != nil:
				r.Violation("receive:error", "", fmt.Sprintf("Receive(%s, %d B payload, reader mode %d) failed: %v", k.name, psize, mode, err), w(nil))
			case !proto.Equal(got, m):
				r.Violation("receive:message-differs", "", fmt.Sprintf("%s: decoded message differs from the one sent", k.name), w(map[string]any{"sent": fmt.Sprint(m), "got": fmt.Sprint(got)}))
			case rd.off != len(frame):
				r.Violation("receive:consumed-beyond-frame", "", fmt.Sprintf("%s: %d bytes consumed from the stream, the frame has %d", k.name, rd.off, len(frame)), w(nil))
			default:
				rest, _ := io.ReadAll(rd)
				if !bytes.Equal(rest, trailing) {
					r.Violation("receive:trailing-damaged", "", fmt.Sprintf("%s: bytes after the frame are not intact", k.name), w(nil))
				}
			}
			if sampled < 4 && psize > 0 && psize < 80 && mode != 0 {
				sampled++
				r.Sample(map[string]any{"type": k.name, "message": fmt.Sprint(m), "frame_hex": fmt.Sprintf("%x", frame), "trailing_bytes": len(trailing), "reader_mode": mode, "reads": rd.reads, "consumed": rd.off, "decoded_equal": err == nil && proto.Equal(got, m)})
			}
		}

		// 2. bounds around the frame size
		for _, max := range []int64{int64(psize) - 1, int64(psize), int64(psize) + 1, 0, 1<<32 - 1} {
			if max < 0 {
				continue
			}
			rd := newReader(stream)
			got := k.fresh()
			err := rpc.BoundedReceive(rd, got, uint32(max))
			sub++
			wantReject := int64(psize) > max
			rel := "size<=max"
			if wantReject {
				rel = "size>max"
			}
			r.Distinct("bounded/" + rel + "/" + bucket(psize))
			ww := w(map[string]any{"max": max})
			if wantReject {
				if err == nil {
					r.Violation("bounded:oversize-accepted", "", fmt.Sprintf("BoundedReceive(max=%d) accepted a %d-byte %s frame", max, psize, k.name), ww)
				} else if !proto.Equal(got, k.fresh()) {
					r.Violation("bounded:decoded-despite-reject", "", fmt.Sprintf("BoundedReceive(max=%d) rejected the %d-byte frame but filled the message", max, psize), ww)
				} else if rd.off > rpc.LengthSize {
					r.Violation("bounded:payload-consumed-on-reject", "", fmt.Sprintf("BoundedReceive(max=%d) rejected the frame after consuming %d bytes", max, rd.off), ww)
				}
			} else {
				if err != nil {
					r.Violation("bounded:fitting-frame-rejected", "", fmt.Sprintf("BoundedReceive(max=%d) rejected a %d-byte %s frame: %v", max, psize, k.name, err), ww)
				} else if !proto.Equal(got, m) || rd.off != len(frame) {
					r.Violation("bounded:message-differs", "", fmt.Sprintf("BoundedReceive(max=%d): wrong message or %d bytes consumed instead of %d", max, rd.off, len(frame)), ww)
				}
			}
		}

		// 3. truncated streams: error, never a partial message
		cuts := []int{rng.Intn(rpc.LengthSize), len(frame) - 1}
		if psize > 1 {
			cuts = append(cuts, rpc.LengthSize+rng.Intn(psize))
		}
		for _, cut := range cuts {
			if cut < 0 || cut >= len(frame) {
				continue
			}
			rd := newReader(frame[:cut])
			got := k.fresh()
			var err error
			if rng.Intn(2) == 0 {
				err = rpc.Receive(rd, got)
			} else {
				err = rpc.BoundedReceive(rd, got, uint32(psize))
			}
			sub++
			where := "payload"
			if cut < rpc.LengthSize {
				where = "prefix"
			}
			r.Distinct("truncated/" + where)
			if err == nil {
				r.Violation("truncated:accepted:"+where, "", fmt.Sprintf("%s frame of %d bytes cut at %d was accepted", k.name, len(frame), cut), w(map[string]any{"cut": cut}))
			} else if !proto.Equal(got, k.fresh()) {
				r.Violation("truncated:partial-message:"+where, "", fmt.Sprintf("%s frame cut at %d: error %v but the message was partially filled", k.name, cut, err), w(map[string]any{"cut": cut}))
			}
		}

		// 3b. framing calls that overlap in time, right after the failed reads above: while Send is
		// inside the stream's Write for message A, a Receive of message B (same size class) runs on
		// another stream (here: from within Write, which is what a second goroutine amounts to for
		// the buffer pool). Both must come out as written — buffers are not shared between calls,
		// whatever an earlier error path did with its own.
		if i%2 == 0 {
			class := func(n int) int {
				c := 0
				for n > 0 {
					n >>= 1
					c++
				}
				return c
			}
			var mB msg
			for try := 0; try < 24; try++ {
				c := k.gen(rng)
				if class(c.SizeVT()+rpc.LengthSize) == class(len(frame)) && !proto.Equal(c, m) {
					mB = c
					break
				}
			}
			if mB != nil {
				var wireB bytes.Buffer
				if err := rpc.Send(&wireB, mB); err == nil {
					gotB := k.fresh()
					var errB error
					hw := &hookWriter{before: func() { errB = rpc.Receive(bytes.NewReader(wireB.Bytes()), gotB) }}
					errA := rpc.Send(hw, m)
					gotA := k.fresh()
					var errA2 error
					if errA == nil {
						errA2 = rpc.Receive(bytes.NewReader(hw.buf.Bytes()), gotA)
					}
					sub++
					r.Distinct("overlapping-send-receive/" + bucket(psize))
					if errA != nil || errA2 != nil || errB != nil || !proto.Equal(gotA, m) || !proto.Equal(gotB, mB) {
						r.Violation("overlap:frame-not-read-back-as-written", "", fmt.Sprintf("%s: a Send (%d B) overlapping a Receive on another stream, after truncated reads: send err=%v, read-back err=%v equal=%v; other stream err=%v equal=%v", k.name, psize, errA, errA2, proto.Equal(gotA, m), errB, proto.Equal(gotB, mB)), w(nil))
					}
				}
			}
		}

		// 4. hostile length prefix, bounded read: refused from the prefix alone
		if i%4 == 0 {
			claimed := uint32(1<<20) + rng.Uint32()>>uint(rng.Intn(12))
			hdr := make([]byte, rpc.LengthSize)
			binary.BigEndian.PutUint32(hdr, claimed)
			junk := make([]byte, rng.Intn(200))
			rng.Read(junk)
			rd := newReader(append(hdr, junk...))
			got := k.fresh()
			max := uint32(rng.Intn(4096))
			err := rpc.BoundedReceive(rd, got, max)
			sub++
			r.Distinct("hostile-prefix")
			if err == nil {
				r.Violation("bounded:oversize-accepted", "", fmt.Sprintf("BoundedReceive(max=%d) accepted a frame claiming %d bytes", max, claimed), nil)
			} else if rd.off > rpc.LengthSize || !proto.Equal(got, k.fresh()) {
				r.Violation("bounded:payload-consumed-on-reject", "", fmt.Sprintf("BoundedReceive(max=%d) consumed %d bytes of a frame claiming %d bytes", max, rd.off, claimed), nil)
			}
		}

		// 5. a train of frames on one stream: each reader leaves the next frame intact
		if i%8 == 0 {
			cnt := 2 + rng.Intn(4)
			var all bytes.Buffer
			var sent []msg
			var ks []kind
			for j := 0; j < cnt; j++ {
				kk := kinds[rng.Intn(len(kinds))]
				mm := kk.gen(rng)
				if err := rpc.Send(&all, mm); err != nil {
					r.Violation("send:error", "", fmt.Sprintf("Send(%s) failed: %v", kk.name, err), nil)
				}
				sent = append(sent, mm)
				ks = append(ks, kk)
			}
			rd := newReader(all.Bytes())
			r.Distinct(fmt.Sprintf("train/%d", cnt))
			for j := range sent {
				got := ks[j].fresh()
				var err error
				if j%2 == 0 {
					err = rpc.Receive(rd, got)
				} else {
					err = rpc.BoundedReceive(rd, got, uint32(sent[j].SizeVT()))
				}
				sub++
				if err != nil || !proto.Equal(got, sent[j]) {
					r.Violation("train:frame-damaged", "", fmt.Sprintf("frame %d of %d (%s) on a shared stream: err=%v, equal=%v", j+1, cnt, ks[j].name, err, err == nil && proto.Equal(got, sent[j])), map[string]any{"reader_mode": mode, "position": j})
					break
				}
			}
		}
	}
	r.Count("sub_checks", sub)
	r.Assume("readers never return (0, nil) on a non-empty buffer and never fail except with io.EOF at the end of the data")
	r.Assume("message equality is proto.Equal; strings are valid UTF-8")
	r.Finish()
}
