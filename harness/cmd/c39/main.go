// C39 — util/bufconn.BufferedPipe is a faithful byte stream.
//
// Every run creates one real BufferedPipe(bufSize) pair (A, B) and drives it with one
// writer and one reader goroutine per end (4 goroutines) plus optional closer goroutines,
// with seeded yields, chunk sizes, close points and deadlines. Every call is recorded as
// (call stamp, return stamp, n, err) in per-goroutine logs; the oracle is a checker over
// that recorded history written from the property statement:
//
//	stream   the concatenation of what a reader got is an in-order expansion of the peer's
//	         writes (an acknowledged write contributes all its bytes, a failed write a
//	         prefix), complete when the reader saw EOF, a prefix otherwise;
//	eof      EOF only after the writing end's Close was called;
//	closed   a Read/Write invoked after that end's Close returned fails and transfers nothing;
//	cause    every error has a cause in the history (own close, peer close, armed deadline);
//	timeout  an error returned because of a deadline is a net.Error with Timeout();
//	liveness all goroutines finish; a run that does not is a violation iff the goroutine dump
//	         proves a deadlock (all parties parked in bufconn / on the run's own channels, no
//	         deadline set), else the watchdog reports INCONCLUSIVE with the pending call;
//	races    any race-detector report with a frame in util/bufconn.
package main

import (
	"bytes"
	"errors"
	"fmt"
	"io"
	"math/rand"
	"net"
	"os"
	"regexp"
	"runtime"
	"sort"
	"strings"
	"sync"
	"sync/atomic"
	"time"

	"verifharness/lab/ev"
	"verifharness/lab/racelog"

	"go.miragespace.co/specter/util/bufconn"
)

// ---------------------------------------------------------------- history

type call struct {
	G      string // goroutine: wA rA wB rB closer probe
	End    int    // 0 = A, 1 = B
	Op     string // write read close setrd setwd
	Arg    int    // len of buffer / data
	Call   int64
	Ret    int64 // 0 while pending
	N      int
	Err    string
	ErrCls string // "", eof, timeout, badtimeout, other
	data   []byte // written bytes / bytes read
}

// glog is the private call log of one goroutine. Stamps come from the monotonic clock, not
// from a shared counter or lock: those would add happens-before edges between the goroutines
// and hide races inside bufconn from the race detector. "x before y" is only ever concluded
// from ret(x) < call(y) (strict), equal stamps count as concurrent.
type glog struct {
	name  string
	calls []*call
	cur   atomic.Pointer[call]
}

var base = time.Now()

func now() int64 { return int64(time.Since(base)) + 1 }

func (l *glog) begin(end int, op string, arg int, data []byte) *call {
	c := &call{G: l.name, End: end, Op: op, Arg: arg, data: data}
	l.calls = append(l.calls, c)
	l.cur.Store(c)
	c.Call = now()
	return c
}

func (l *glog) end(c *call, n int, err error) {
	t := now()
	cls := ""
	es := ""
	if err != nil {
		es = err.Error()
		var ne net.Error
		switch {
		case err == io.EOF:
			cls = "eof"
		case errors.As(err, &ne) && ne.Timeout():
			cls = "timeout"
		case strings.Contains(es, "timeout"):
			cls = "badtimeout" // says timeout but is not a net.Error with Timeout()
		default:
			cls = "other"
		}
	}
	c.N, c.Err, c.ErrCls = n, es, cls
	c.Ret = t
	l.cur.Store(nil)
}

// ---------------------------------------------------------------- plan

type plan struct {
	Run       int      `json:"run"`
	Buf       int      `json:"buf"`
	Mode      string   `json:"mode"` // stream | rdeadline | wdeadline
	Initiator int      `json:"initiator"`
	Chunks    [2][]int `json:"chunks"`      // write sizes of wA, wB
	ReadMax   [2]int   `json:"read_max"`    // max read buffer of rA, rB
	Yield     [2]int   `json:"yield"`       // yield intensity 0..3 per end
	EarlyEnd  int      `json:"early_end"`   // -1 none, else end closed early
	EarlyG    string   `json:"early_g"`     // goroutine whose op count triggers it
	EarlyOp   int      `json:"early_op"`    // after this many ops of EarlyG
	EarlyInl  bool     `json:"early_inl"`   // Close called inline by EarlyG (it owns the end)
	DlAt      int      `json:"dl_at"`       // write index of the initiator where the deadline scenario happens
	DlMillis  int      `json:"dl_ms"`       // deadline distance
	DlByOther bool     `json:"dl_by_other"` // deadline armed by a third goroutine while the call is (about to be) blocked
	ZeroReads bool     `json:"zero_reads"`  // occasionally issue zero-length reads
	Feint     bool     `json:"feint"`       // stream runs: each goroutine first sets a deadline 3 ms ahead and clears it at once, then waits 8 ms
}

func makePlan(rng *rand.Rand, run int) plan {
	p := plan{Run: run, EarlyEnd: -1}
	switch rng.Intn(4) {
	case 0:
		p.Buf = 1 + rng.Intn(3)
	case 1:
		p.Buf = 1 + rng.Intn(16)
	default:
		p.Buf = 1 + rng.Intn(64)
	}
	switch rng.Intn(5) {
	case 0:
		p.Mode = "rdeadline"
	case 1:
		p.Mode = "wdeadline"
	default:
		p.Mode = "stream"
	}
	p.Feint = p.Mode == "stream" && run%6 == 0
	p.Initiator = rng.Intn(2)
	for e := 0; e < 2; e++ {
		n := rng.Intn(14)
		if e == p.Initiator && n < 2 {
			n = 2 + rng.Intn(6)
		}
		for i := 0; i < n; i++ {
			var sz int
			switch rng.Intn(6) {
			case 0:
				sz = rng.Intn(2) // 0 or 1
			case 1:
				sz = p.Buf + rng.Intn(3) - 1 // around the capacity
			case 2:
				sz = p.Buf + 1 + rng.Intn(3*p.Buf) // larger than the buffer
			default:
				sz = 1 + rng.Intn(2*p.Buf)
			}
			if sz < 0 {
				sz = 0
			}
			p.Chunks[e] = append(p.Chunks[e], sz)
		}
		p.ReadMax[e] = 1 + rng.Intn(2*p.Buf+2)
		p.Yield[e] = rng.Intn(4)
	}
	if rng.Intn(3) == 0 {
		p.EarlyEnd = rng.Intn(2)
		p.EarlyG = []string{"wA", "rA", "wB", "rB"}[rng.Intn(4)]
		p.EarlyOp = rng.Intn(8)
		owner := 0
		if strings.HasSuffix(p.EarlyG, "B") {
			owner = 1
		}
		p.EarlyInl = owner == p.EarlyEnd && rng.Intn(2) == 0
	}
	ini := p.Initiator
	if p.Mode != "stream" {
		// the deadline direction is initiator -> responder
		if len(p.Chunks[ini]) < 3 {
			p.Chunks[ini] = append(p.Chunks[ini], 1+rng.Intn(p.Buf), 1+rng.Intn(p.Buf), 1+rng.Intn(p.Buf))
		}
		p.DlAt = rng.Intn(len(p.Chunks[ini]))
		p.DlMillis = 1 + rng.Intn(4)
		if rng.Intn(4) == 0 {
			// a deadline that is not in the future (now, or already past) unblocks at once
			p.DlMillis = []int{0, -1, -50}[rng.Intn(3)]
		}
		p.DlByOther = rng.Intn(2) == 0
		if p.Mode == "wdeadline" {
			// must not fit into the buffer even after one read that was already in flight
			p.Chunks[ini][p.DlAt] = p.Buf + p.ReadMax[1-ini] + 1 + rng.Intn(p.Buf+1)
		}
	}
	p.ZeroReads = rng.Intn(6) == 0
	return p
}

// ---------------------------------------------------------------- one run

type runState struct {
	p     plan
	conns [2]net.Conn
	abort chan struct{}
	logs  map[string]*glog

	// deadline scenarios (direction initiator -> responder)
	starved     chan struct{} // closed when the call that has to time out is (about to be) starved
	starvedOnce sync.Once
	released    chan struct{} // closed when that call has returned / its goroutine ended
	relOnce     sync.Once

	earlyCh   chan struct{}
	earlyOnce sync.Once

	finished [4]chan struct{}

	armed [2][2]atomic.Bool // [end][0 read,1 write]: a non-zero deadline was set at some point
	dlSet [2][2]atomic.Bool // [end][0 read,1 write]: a deadline is set right now (a timer may still fire)
	// dlPast: the deadline that is set was not in the future when it was set (now or earlier): by the
	// net.Conn contract it takes effect at once, so no timer is left that could wake a parked call later
	dlPast [2][2]atomic.Bool
	acked [2]atomic.Int64   // bytes of acknowledged writes of end e
	got   [2]atomic.Int64   // bytes read so far from end e's writes

	gmu        sync.Mutex
	goids      map[uint64]string // live goroutines of this run
	noProgress atomic.Bool
}

func yield(rng *rand.Rand, intensity int) {
	if intensity == 0 {
		return
	}
	switch rng.Intn(4 * (4 - intensity)) {
	case 0:
		runtime.Gosched()
	case 1:
		time.Sleep(time.Duration(rng.Intn(200)) * time.Microsecond)
	case 2:
		for i := rng.Intn(3); i >= 0; i-- {
			runtime.Gosched()
		}
	}
}

func (s *runState) closeEnd(l *glog, end int) {
	c := l.begin(end, "close", 0, nil)
	err := s.conns[end].Close()
	l.end(c, 0, err)
}

func (s *runState) opDone(l *glog, idx int) {
	p := &s.p
	if p.EarlyEnd >= 0 && p.EarlyG == l.name && idx == p.EarlyOp {
		if p.EarlyInl {
			s.closeEnd(l, p.EarlyEnd)
		} else {
			s.earlyOnce.Do(func() { close(s.earlyCh) })
		}
	}
}

func (s *runState) wait(ch chan struct{}) {
	select {
	case <-ch:
	case <-s.abort:
	}
}

func isClosed(ch chan struct{}) bool {
	select {
	case <-ch:
		return true
	default:
		return false
	}
}

func (s *runState) release() { s.relOnce.Do(func() { close(s.released) }) }
func (s *runState) starve()  { s.starvedOnce.Do(func() { close(s.starved) }) }

func (s *runState) writer(end int, seed int64, wg *sync.WaitGroup) {
	defer wg.Done()
	l := s.logs["w"+string(rune('A'+end))]
	rng := rand.New(rand.NewSource(seed))
	p := &s.p
	conn := s.conns[end]
	dlDir := end == p.Initiator && p.Mode != "stream"
	defer close(s.finished[end*2])
	if p.Feint {
		// a deadline that is withdrawn before it passes must leave nothing behind
		c := l.begin(end, "setwd", 3, nil)
		err := conn.SetWriteDeadline(time.Now().Add(3 * time.Millisecond))
		l.end(c, 0, err)
		c = l.begin(end, "setwd", 0, nil)
		err = conn.SetWriteDeadline(time.Time{})
		l.end(c, 0, err)
		// and deadlines withdrawn at the very instant they pass (16 times): the withdrawal wins
		for k := 0; k < 16; k++ {
			at := time.Now().Add(time.Duration(20+rng.Intn(40)) * time.Microsecond)
			conn.SetWriteDeadline(at)
			for time.Now().Before(at) {
			}
			conn.SetWriteDeadline(time.Time{})
		}
		time.Sleep(8 * time.Millisecond)
	}
	defer func() {
		if dlDir {
			// whatever happened, nobody may keep waiting for this goroutine
			s.starve()
			if p.Mode == "wdeadline" {
				s.release()
			}
		}
	}()
	for i, sz := range p.Chunks[end] {
		yield(rng, p.Yield[end])
		if dlDir && p.Mode == "rdeadline" && i == p.DlAt {
			// nothing more is written until the reader has seen its timeout
			s.starve()
			s.wait(s.released)
		}
		dlWrite := dlDir && p.Mode == "wdeadline" && i == p.DlAt
		if dlWrite {
			if !p.DlByOther {
				c := l.begin(end, "setwd", p.DlMillis, nil)
				s.armed[end][1].Store(true)
				s.dlSet[end][1].Store(true)
				s.dlPast[end][1].Store(p.DlMillis <= 0)
				err := conn.SetWriteDeadline(time.Now().Add(time.Duration(p.DlMillis) * time.Millisecond))
				l.end(c, 0, err)
			}
			// from here on the peer's reader stops reading until this write has returned
			s.starve()
		}
		data := make([]byte, sz)
		rng.Read(data)
		c := l.begin(end, "write", sz, data)
		n, err := conn.Write(data)
		l.end(c, n, err)
		if err == nil {
			s.acked[end].Add(int64(n))
		}
		if dlWrite {
			s.release()
			if c.ErrCls == "timeout" {
				cc := l.begin(end, "setwd", 0, nil)
				e2 := conn.SetWriteDeadline(time.Time{})
				s.dlSet[end][1].Store(false)
				s.dlPast[end][1].Store(false)
				l.end(cc, 0, e2)
			}
		}
		s.opDone(l, i)
		if err != nil && c.ErrCls != "timeout" {
			break
		}
	}
	if end == p.Initiator {
		yield(rng, p.Yield[end])
		s.closeEnd(l, end)
		// a write on the closed end
		data := []byte{0xC3, 0x9C}
		c := l.begin(end, "write", len(data), data)
		n, err := conn.Write(data)
		l.end(c, n, err)
	}
}

func (s *runState) reader(end int, seed int64, wg *sync.WaitGroup) {
	defer wg.Done()
	l := s.logs["r"+string(rune('A'+end))]
	rng := rand.New(rand.NewSource(seed))
	p := &s.p
	conn := s.conns[end]
	// the deadline direction is initiator -> responder, so its reader is the responder's
	dlDir := end != p.Initiator && p.Mode != "stream"
	defer close(s.finished[end*2+1])
	if p.Feint {
		c := l.begin(end, "setrd", 3, nil)
		err := conn.SetReadDeadline(time.Now().Add(3 * time.Millisecond))
		l.end(c, 0, err)
		c = l.begin(end, "setrd", 0, nil)
		err = conn.SetReadDeadline(time.Time{})
		l.end(c, 0, err)
		for k := 0; k < 16; k++ {
			at := time.Now().Add(time.Duration(20+rng.Intn(40)) * time.Microsecond)
			conn.SetReadDeadline(at)
			for time.Now().Before(at) {
			}
			conn.SetReadDeadline(time.Time{})
		}
		time.Sleep(8 * time.Millisecond)
	}
	defer func() {
		if dlDir && p.Mode == "rdeadline" {
			s.release()
		}
	}()
	zero := 0
	idle := 0 // reads into a non-empty buffer that returned (0, nil)
	for i := 0; ; i++ {
		if idle > 64 {
			s.noProgress.Store(true)
			break
		}
		yield(rng, p.Yield[end])
		if dlDir && p.Mode == "wdeadline" && isClosed(s.starved) {
			// stop reading until the deadline write has returned
			s.wait(s.released)
		}
		if dlDir && p.Mode == "rdeadline" && !p.DlByOther && i == 0 {
			c := l.begin(end, "setrd", p.DlMillis, nil)
			s.armed[end][0].Store(true)
			s.dlSet[end][0].Store(true)
			s.dlPast[end][0].Store(p.DlMillis <= 0)
			err := conn.SetReadDeadline(time.Now().Add(time.Duration(p.DlMillis) * time.Millisecond))
			l.end(c, 0, err)
		}
		sz := 1 + rng.Intn(p.ReadMax[end])
		if p.ZeroReads && zero < 3 && rng.Intn(5) == 0 {
			sz = 0
			zero++
		}
		buf := make([]byte, sz)
		c := l.begin(end, "read", sz, nil)
		n, err := conn.Read(buf)
		if n >= 0 && n <= len(buf) {
			c.data = append([]byte(nil), buf[:n]...)
		}
		l.end(c, n, err)
		if n > 0 {
			s.got[1-end].Add(int64(n))
		}
		if err == nil && n == 0 && sz > 0 {
			idle++
		}
		s.opDone(l, i)
		if err != nil {
			if c.ErrCls == "timeout" && s.armed[end][0].Load() {
				// only released once the writer really is starving this reader: a timeout that
				// fired while data was still flowing proves nothing yet
				if dlDir && isClosed(s.starved) {
					s.release()
				}
				cc := l.begin(end, "setrd", 0, nil)
				e2 := conn.SetReadDeadline(time.Time{})
				s.dlSet[end][0].Store(false)
				s.dlPast[end][0].Store(false)
				l.end(cc, 0, e2)
				if dlDir && !isClosed(s.released) {
					// arm again: the starved read is still to come
					c := l.begin(end, "setrd", p.DlMillis, nil)
					s.dlSet[end][0].Store(true)
					s.dlPast[end][0].Store(p.DlMillis <= 0)
					err := conn.SetReadDeadline(time.Now().Add(time.Duration(p.DlMillis) * time.Millisecond))
					l.end(c, 0, err)
				}
				continue
			}
			break
		}
	}
	if end != p.Initiator {
		// the responder closes once its reader is finished
		yield(rng, p.Yield[end])
		s.closeEnd(l, end)
		buf := make([]byte, 4)
		c := l.begin(end, "read", len(buf), nil)
		n, err := conn.Read(buf)
		if n >= 0 && n <= len(buf) {
			c.data = append([]byte(nil), buf[:n]...)
		}
		l.end(c, n, err)
	}
}

// armer sets the deadline from a third goroutine once the call is (about to be) starved.
func (s *runState) armer(seed int64, wg *sync.WaitGroup) {
	defer wg.Done()
	p := &s.p
	l := s.logs["armer"]
	rng := rand.New(rand.NewSource(seed))
	s.wait(s.starved)
	if isClosed(s.abort) {
		return
	}
	yield(rng, 3)
	d := time.Duration(p.DlMillis) * time.Millisecond
	if p.Mode == "wdeadline" {
		end := p.Initiator
		c := l.begin(end, "setwd", p.DlMillis, nil)
		s.armed[end][1].Store(true)
		s.dlSet[end][1].Store(true)
		s.dlPast[end][1].Store(p.DlMillis <= 0)
		err := s.conns[end].SetWriteDeadline(time.Now().Add(d))
		l.end(c, 0, err)
	} else {
		end := 1 - p.Initiator
		c := l.begin(end, "setrd", p.DlMillis, nil)
		s.armed[end][0].Store(true)
		s.dlSet[end][0].Store(true)
		s.dlPast[end][0].Store(p.DlMillis <= 0)
		err := s.conns[end].SetReadDeadline(time.Now().Add(d))
		l.end(c, 0, err)
	}
}

// ---------------------------------------------------------------- deadlock proof

func goid() uint64 {
	var buf [64]byte
	n := runtime.Stack(buf[:], false)
	var id uint64
	fmt.Sscanf(string(buf[:n]), "goroutine %d ", &id)
	return id
}

// spawn runs fn as a goroutine that is registered with the run while it lives.
func (s *runState) spawn(name string, fn func()) {
	go func() {
		id := goid()
		s.gmu.Lock()
		s.goids[id] = name
		s.gmu.Unlock()
		defer func() {
			s.gmu.Lock()
			delete(s.goids, id)
			s.gmu.Unlock()
		}()
		fn()
	}()
}

type gInfo struct {
	state string
	stack string
}

var gHeader = regexp.MustCompile(`^goroutine (\d+) \[([^\],]+)`)

func dumpAll() map[uint64]gInfo {
	buf := make([]byte, 1<<22)
	for {
		n := runtime.Stack(buf, true)
		if n < len(buf) {
			buf = buf[:n]
			break
		}
		buf = make([]byte, 2*len(buf))
	}
	out := map[uint64]gInfo{}
	for _, blk := range strings.Split(string(buf), "\n\n") {
		m := gHeader.FindStringSubmatch(blk)
		if m == nil {
			continue
		}
		var id uint64
		fmt.Sscanf(m[1], "%d", &id)
		out[id] = gInfo{state: m[2], stack: blk}
	}
	return out
}

// provenDeadlock decides from the scheduler's view of the run's goroutines whether progress
// is impossible by construction: every live goroutine of the run is parked in sync.Cond.Wait
// inside util/bufconn (at least one) or blocked on one of the harness' own channels / wait
// groups (which only goroutines of this run release), none is running, runnable, sleeping or
// in a lock, and no deadline is set on an end whose call is parked (no timer can wake it).
// Time plays no role: the same answer would be given at any later moment.
func (s *runState) provenDeadlock() (proven bool, parked []string, detail string) {
	dump := dumpAll()
	s.gmu.Lock()
	ids := map[uint64]string{}
	for id, n := range s.goids {
		ids[id] = n
	}
	s.gmu.Unlock()
	var lines []string
	for id, name := range ids {
		g, ok := dump[id]
		if !ok {
			return false, nil, "goroutine " + name + " ended meanwhile"
		}
		inBuf := strings.Contains(g.stack, "util/bufconn.(*pipe).")
		switch {
		case g.state == "sync.Cond.Wait" && inBuf:
			op, dir := "Read", 0
			if strings.Contains(g.stack, "util/bufconn.(*pipe).Write") {
				op, dir = "Write", 1
			}
			end := 0
			if strings.HasSuffix(name, "B") {
				end = 1
			}
			if s.dlSet[end][dir].Load() && !s.dlPast[end][dir].Load() {
				return false, nil, fmt.Sprintf("%s is parked in %s but a deadline is set on that end", name, op)
			}
			if s.dlSet[end][dir].Load() {
				parked = append(parked, fmt.Sprintf("%s parked in bufconn %s (sync.Cond.Wait) although a deadline that had already passed when it was set is on that end", name, op))
			} else {
				parked = append(parked, fmt.Sprintf("%s parked in bufconn %s (sync.Cond.Wait)", name, op))
			}
		case !inBuf && (g.state == "chan receive" || g.state == "select" || g.state == "sync.WaitGroup.Wait" || g.state == "semacquire"):
			lines = append(lines, fmt.Sprintf("%s blocked on a harness channel (%s)", name, g.state))
		default:
			return false, nil, fmt.Sprintf("%s is in state %q", name, g.state)
		}
	}
	if len(parked) == 0 {
		return false, nil, "no goroutine is parked inside bufconn"
	}
	sort.Strings(parked)
	sort.Strings(lines)
	return true, parked, strings.Join(append(append([]string{}, parked...), lines...), "; ")
}

// conservation describes, per direction, how many acknowledged bytes have not been read.
func (s *runState) conservation() string {
	out := ""
	for e := 0; e < 2; e++ {
		a, g := s.acked[e].Load(), s.got[e].Load()
		out += fmt.Sprintf("; %c->%c: %d bytes acknowledged, %d read", 'A'+e, 'A'+1-e, a, g)
		if a > g {
			out += fmt.Sprintf(" (%d acknowledged bytes sit in the pipe while its reader is not woken: lost wakeup)", a-g)
		}
	}
	return out
}

type outcome struct {
	plan           plan
	viol           []violation
	hung           []string
	bytes          int
	timeouts       int
	starvedTimeout bool
	partial        bool
	deadlock       string // proven deadlock: description
	deadlockDump   string
	eofFull        int
	zeroAfterClose int
}

type violation struct {
	key, what string
}

var watchdog = 60 * time.Second

func runOne(p plan, seed int64) outcome {
	s := &runState{p: p, abort: make(chan struct{}), starved: make(chan struct{}), released: make(chan struct{}), earlyCh: make(chan struct{}), logs: map[string]*glog{}}
	for _, n := range []string{"wA", "rA", "wB", "rB", "closer", "armer", "probe"} {
		s.logs[n] = &glog{name: n}
	}
	s.conns[0], s.conns[1] = bufconn.BufferedPipe(p.Buf)
	for i := range s.finished {
		s.finished[i] = make(chan struct{})
	}
	s.goids = map[uint64]string{}
	var wg sync.WaitGroup
	wg.Add(4)
	s.spawn("wA", func() { s.writer(0, seed*8+1, &wg) })
	s.spawn("rA", func() { s.reader(0, seed*8+2, &wg) })
	s.spawn("wB", func() { s.writer(1, seed*8+3, &wg) })
	s.spawn("rB", func() { s.reader(1, seed*8+4, &wg) })
	if p.Mode != "stream" && p.DlByOther {
		wg.Add(1)
		s.spawn("armer", func() { s.armer(seed*8+5, &wg) })
	}
	if p.EarlyEnd >= 0 && !p.EarlyInl {
		wg.Add(1)
		s.spawn("closer", func() {
			defer wg.Done()
			all := make(chan struct{})
			s.spawn("closer-helper", func() {
				for _, f := range s.finished {
					<-f
				}
				close(all)
			})
			// the trigger may never be reached (its goroutine ended earlier)
			select {
			case <-s.earlyCh:
				s.closeEnd(s.logs["closer"], p.EarlyEnd)
			case <-s.abort:
			case <-all:
			}
		})
	}
	done := make(chan struct{})
	s.spawn("waiter", func() { wg.Wait(); close(done) })
	out := outcome{plan: p}
	finished := false
	// the scheduler is asked a few times whether the run is provably dead; only the last
	// look (the watchdog proper) gives up as INCONCLUSIVE
	for _, wait := range []time.Duration{5 * time.Second, 15 * time.Second, watchdog - 20*time.Second} {
		select {
		case <-done:
			finished = true
		case <-time.After(wait):
			if ok, parked, detail := s.provenDeadlock(); ok {
				// ask again: a goroutine that had just been woken shows up as runnable
				time.Sleep(200 * time.Millisecond)
				if ok2, parked2, _ := s.provenDeadlock(); ok2 && fmt.Sprint(parked) == fmt.Sprint(parked2) {
					out.deadlock = detail + s.conservation()
					buf := make([]byte, 1<<20)
					out.deadlockDump = string(buf[:runtime.Stack(buf, true)])
					for _, n := range []string{"wA", "rA", "wB", "rB", "closer", "armer"} {
						if c := s.logs[n].cur.Load(); c != nil {
							out.hung = append(out.hung, fmt.Sprintf("%s:%s(%d) on end %c", n, c.Op, c.Arg, 'A'+c.End))
						}
					}
					close(s.abort)
					return out
				}
			}
		}
		if finished || out.deadlock != "" {
			break
		}
	}
	if !finished {
		_, _, why := s.provenDeadlock()
		out.hung = append(out.hung, "not a provable deadlock: "+why)
		for _, n := range []string{"wA", "rA", "wB", "rB", "closer", "armer"} {
			if c := s.logs[n].cur.Load(); c != nil {
				out.hung = append(out.hung, fmt.Sprintf("%s:%s(%d) on end %c", n, c.Op, c.Arg, 'A'+c.End))
			}
		}
		close(s.abort)
		return out
	}
	close(s.abort)
	// both ends are closed now: every further call must fail
	l := s.logs["probe"]
	for e := 0; e < 2; e++ {
		buf := make([]byte, 3)
		c := l.begin(e, "read", 3, nil)
		n, err := s.conns[e].Read(buf)
		if n >= 0 && n <= len(buf) {
			c.data = append([]byte(nil), buf[:n]...)
		}
		l.end(c, n, err)
		c = l.begin(e, "write", 1, []byte{7})
		n, err = s.conns[e].Write([]byte{7})
		l.end(c, n, err)
	}
	judge(s, &out)
	return out
}

// ---------------------------------------------------------------- oracle

func judge(s *runState, out *outcome) {
	bad := func(key, format string, a ...any) {
		out.viol = append(out.viol, violation{key, fmt.Sprintf(format, a...)})
	}
	if s.noProgress.Load() {
		out.hung = append(out.hung, "a reader exceeded its operation bound without reaching an error (reads returning 0,nil)")
		return
	}
	var calls []*call
	for _, l := range s.logs {
		calls = append(calls, l.calls...)
	}
	const inf = int64(1) << 62
	closeCall := [2]int64{inf, inf}
	closeRet := [2]int64{inf, inf}
	for _, c := range calls {
		if c.Op == "close" {
			if c.Call < closeCall[c.End] {
				closeCall[c.End] = c.Call
			}
			if c.Ret < closeRet[c.End] {
				closeRet[c.End] = c.Ret
			}
			if c.Err != "" {
				bad("close-error", "Close on end %d returned %q", c.End, c.Err)
			}
		}
	}
	for e := 0; e < 2; e++ {
		// direction: end e writes, end 1-e reads. One goroutine (plus the final probe, which
		// runs after everything else) issues the writes resp. reads, so program order = order.
		var writes, reads []*call
		for _, g := range []string{"w" + string(rune('A'+e)), "probe"} {
			for _, c := range s.logs[g].calls {
				if c.Op == "write" && c.End == e {
					writes = append(writes, c)
				}
			}
		}
		for _, g := range []string{"r" + string(rune('A'+1-e)), "probe"} {
			for _, c := range s.logs[g].calls {
				if c.Op == "read" && c.End == 1-e {
					reads = append(reads, c)
				}
			}
		}
		dir := fmt.Sprintf("%c->%c", 'A'+e, 'A'+1-e)

		// --- writes
		for _, w := range writes {
			if w.N < 0 || w.N > w.Arg {
				bad("write-n-range", "%s Write(%d bytes) returned n=%d", dir, w.Arg, w.N)
				continue
			}
			if w.Err == "" && w.N != w.Arg {
				bad("write-short-nil", "%s Write(%d bytes) returned n=%d with a nil error", dir, w.Arg, w.N)
			}
			if w.Call > closeRet[e] {
				if w.Err == "" && w.Arg == 0 {
					// a zero-length Write carries nothing; whether it "fails" is not pinned down
					out.zeroAfterClose++
				} else if w.Err == "" {
					bad("write-after-close-succeeds", "%s Write invoked after Close of that end had returned gave (%d, nil)", dir, w.N)
				}
				continue
			}
			switch w.ErrCls {
			case "":
			case "timeout":
				if !s.armed[e][1].Load() {
					bad("write-timeout-without-deadline", "%s Write returned a timeout but no write deadline was in force on that end (none was set, or one was set and withdrawn again before it passed)", dir)
				} else {
					out.timeouts++
					if e == s.p.Initiator && s.p.Mode == "wdeadline" {
						out.starvedTimeout = true
					}
				}
			case "badtimeout":
				bad("timeout-not-net-error", "%s Write returned %q which is not a net.Error with Timeout()", dir, w.Err)
			default:
				// needs a cause: own end or the reading end closed (Close called before the write returned)
				if !(closeCall[e] < w.Ret || closeCall[1-e] < w.Ret) {
					bad("write-spurious-error", "%s Write(%d bytes) failed with %q while neither end had been closed", dir, w.Arg, w.Err)
				}
			}
		}

		// --- reads
		var stream []byte
		eof := false
		for _, rd := range reads {
			if rd.N < 0 || rd.N > rd.Arg {
				bad("read-n-range", "%s Read(buf %d) returned n=%d", dir, rd.Arg, rd.N)
				continue
			}
			if rd.Call > closeRet[1-e] {
				if rd.Err == "" {
					bad("read-after-close-succeeds", "%s Read invoked after Close of the reading end had returned gave (%d, nil)", dir, rd.N)
				} else if rd.N != 0 {
					bad("read-after-close-data", "%s Read invoked after Close of the reading end delivered %d bytes", dir, rd.N)
				}
				continue
			}
			if eof && rd.N > 0 {
				bad("data-after-eof", "%s Read delivered %d bytes after an earlier Read had returned EOF", dir, rd.N)
			}
			stream = append(stream, rd.data...)
			switch rd.ErrCls {
			case "":
			case "eof":
				if !(closeCall[e] < rd.Ret) {
					bad("eof-before-writer-close", "%s Read returned EOF but the writing end's Close had not been called", dir)
				}
				eof = true
			case "timeout":
				if !s.armed[1-e][0].Load() {
					bad("read-timeout-without-deadline", "%s Read returned a timeout but no read deadline was in force on that end (none was set, or one was set and withdrawn again before it passed)", dir)
				} else {
					out.timeouts++
					if e == s.p.Initiator && s.p.Mode == "rdeadline" {
						out.starvedTimeout = true
					}
				}
			case "badtimeout":
				bad("timeout-not-net-error", "%s Read returned %q which is not a net.Error with Timeout()", dir, rd.Err)
			default:
				if !(closeCall[1-e] < rd.Ret) {
					bad("read-spurious-error", "%s Read failed with %q while the reading end had not been closed", dir, rd.Err)
				}
			}
		}

		// --- stream: in-order expansion of the writes; complete if the reader saw EOF
		ok, partial, why := matchStream(stream, writes, eof, closeRet[e])
		if !ok {
			key := "stream-corrupt"
			if strings.HasPrefix(why, "incomplete") {
				key = "stream-lost-bytes-at-eof"
			}
			bad(key, "%s reader got %d bytes (%x...) which is not an in-order expansion of the %d writes: %s", dir, len(stream), head(stream, 24), len(writes), why)
		}
		if partial {
			out.partial = true
		}
		if eof {
			out.eofFull++
		}
		out.bytes += len(stream)
	}
}

func head(b []byte, n int) []byte {
	if len(b) > n {
		return b[:n]
	}
	return b
}

// matchStream decides whether stream is an expansion of writes: an acknowledged write
// contributes all of its bytes, a failed one a prefix of at least n bytes (nothing if it was
// invoked after Close of its own end had returned). full: the stream must be a complete
// expansion; otherwise it may stop anywhere. partial: every matching expansion needs a
// failed write to have contributed bytes.
func matchStream(stream []byte, writes []*call, full bool, ownCloseRet int64) (ok bool, partial bool, why string) {
	cur := map[int]bool{0: false} // reachable stream offset -> only reachable with a partial contribution
	isPrefix := false             // the stream ends inside / between writes of a valid expansion
	for _, w := range writes {
		if _, hit := cur[len(stream)]; hit {
			isPrefix = true
		}
		next := map[int]bool{}
		add := func(p int, part bool) {
			if old, ok := next[p]; !ok || (old && !part) {
				next[p] = part
			}
		}
		d := w.data
		for p, part := range cur {
			avail := stream[p:]
			if w.Err == "" {
				if len(avail) >= len(d) {
					if bytes.Equal(avail[:len(d)], d) {
						add(p+len(d), part)
					}
				} else if bytes.Equal(avail, d[:len(avail)]) {
					isPrefix = true
				}
				continue
			}
			minK, maxK := w.N, len(d)
			if w.Call > ownCloseRet {
				minK, maxK = 0, 0
			}
			for k := 0; k <= maxK; k++ {
				if k > len(avail) {
					isPrefix = true // avail matched d[:len(avail)] in the previous rounds
					break
				}
				if k > 0 && avail[k-1] != d[k-1] {
					break
				}
				if k >= minK {
					add(p+k, part || k > 0)
				}
			}
		}
		cur = next
		if len(cur) == 0 {
			break
		}
	}
	if part, hit := cur[len(stream)]; hit {
		return true, part, ""
	}
	if isPrefix {
		if !full {
			return true, false, ""
		}
		return false, false, "incomplete: the reader saw EOF but bytes of acknowledged writes are missing"
	}
	return false, false, "the bytes differ from what was written (wrong value, order, duplication or loss in the middle)"
}

// ---------------------------------------------------------------- main

func bucket(b int) string {
	switch {
	case b == 1:
		return "1"
	case b < 8:
		return "2-7"
	case b < 32:
		return "8-31"
	}
	return "32-64"
}

func main() {
	r := ev.Start("C39", "exploration")
	r.SetRule("(a sixth of the stream runs start with every goroutine setting a deadline 3 ms ahead, withdrawing it at once, then 16 times setting one 20-60 us ahead and withdrawing it at the instant it passes, and waiting 8 ms: no call may time out afterwards) one run = one real BufferedPipe(buf), buf in 1..64 (biased to 1..3), a writer and a reader goroutine per end (chunks of 0..4*buf bytes, read buffers 0..2*buf+2, seeded Gosched/sleep yields), the initiator closing after its last write, the responder after its reader ended, in 1/3 of the runs an early Close of either end after the k-th op of a seeded goroutine (inline or from a third goroutine), and in 2/5 of the runs a read or write deadline (armed by the caller or by a third goroutine) on a call that is logically starved: the peer goroutine is gated until the timeout was seen. Non-trivial: >= 1 byte was transferred and checked. Distinct by (mode, buffer bucket, initiator, early-close end/kind, some chunk > buffer, traffic > 2*buffer, timeout observed on the starved call, a failed write contributed a prefix, number of directions read to EOF)")
	r.Assume("schedules are sampled by the Go scheduler under seeded yields and parallel load, not enumerated; one writer and one reader goroutine per direction (plus closers / deadline setters), as in the property's quantifier")
	r.Assume("a run that does not finish is a violation only if the scheduler's goroutine dump proves that no progress is possible (every goroutine of the run parked in sync.Cond.Wait inside bufconn or blocked on the run's own channels, no deadline set, two identical looks); otherwise the 60 s watchdog reports INCONCLUSIVE with the pending call")
	r.Assume("a failed Write may have transferred a prefix of its bytes although it reports n=0 (the statement does not pin the count down); timeouts are only required to be well-formed and to have an armed deadline as cause, a late timer firing after a deadline was cleared is not judged")
	r.Assume("a zero-length Write on a closed end is not judged (on the pinned tree it returns (0, nil) after the end's own Close, an error after the peer's Close); it is counted")
	n := r.Pick(8000, 250000)
	par := runtime.GOMAXPROCS(0)
	if par > 16 {
		par = 16
	}
	if par < 2 {
		par = 2
	}
	type job struct {
		p    plan
		seed int64
	}
	jobs := make(chan job)
	results := make(chan outcome, par)
	var wg sync.WaitGroup
	for i := 0; i < par; i++ {
		wg.Add(1)
		go func() {
			defer wg.Done()
			for j := range jobs {
				results <- runOne(j.p, j.seed)
			}
		}()
	}
	var stop atomic.Bool // a run hung: every further one would cost another watchdog period
	go func() {
		for i := 0; i < n && !stop.Load(); i++ {
			name := fmt.Sprintf("run%d", i)
			if !r.WantCase(name) {
				continue
			}
			rng := r.Rand(name)
			jobs <- job{makePlan(rng, i), rng.Int63() >> 8}
		}
		close(jobs)
		wg.Wait()
		close(results)
	}()
	var samples []outcome
	for out := range results {
		name := fmt.Sprintf("run%d", out.plan.Run)
		p := out.plan
		if out.deadlock != "" {
			stop.Store(true)
			r.Count("runs_deadlocked", 1)
			r.Case("")
			fmt.Fprintf(os.Stderr, "DEADLOCK %s plan=%+v: %s\n%s\n", name, p, out.deadlock, out.deadlockDump)
			r.Violation("deadlock:all-parties-parked", name, fmt.Sprintf("buf=%d mode=%s: nobody closed an end and no deadline is set, yet every goroutine of the run is parked for good (pending calls: %s): %s", p.Buf, p.Mode, strings.Join(out.hung, ", "), out.deadlock), map[string]any{"plan": p, "pending": out.hung, "goroutines": out.deadlock, "dump": out.deadlockDump})
			continue
		}
		if len(out.hung) > 0 {
			r.Count("runs_hung", 1)
			stop.Store(true)
			r.Inconclusive(fmt.Sprintf("%s (buf=%d mode=%s): calls did not return within %s: %s", name, p.Buf, p.Mode, watchdog, strings.Join(out.hung, ", ")))
			fmt.Fprintf(os.Stderr, "HUNG %s plan=%+v pending=%v\n", name, p, out.hung)
			r.Case("")
			continue
		}
		big := false
		for e := 0; e < 2; e++ {
			for _, c := range p.Chunks[e] {
				if c > p.Buf {
					big = true
				}
			}
		}
		sig := ""
		if out.bytes > 0 {
			early := "none"
			if p.EarlyEnd >= 0 {
				early = fmt.Sprintf("%d/%v", p.EarlyEnd, p.EarlyInl)
			}
			sig = fmt.Sprintf("%s/%v/b%s/i%d/e%s/big%v/wrap%v/to%v/part%v/eof%d", p.Mode, p.DlByOther, bucket(p.Buf), p.Initiator, early, big, out.bytes > 2*p.Buf, out.starvedTimeout, out.partial, out.eofFull)
		}
		r.Case(sig)
		r.Count("bytes_checked", int64(out.bytes))
		r.Count("timeouts_observed", int64(out.timeouts))
		r.Count("directions_read_to_eof", int64(out.eofFull))
		if out.starvedTimeout {
			r.Count("starved_calls_timed_out", 1)
		}
		if p.Mode != "stream" {
			r.Count("deadline_runs", 1)
		}
		if p.Feint {
			r.Count("runs_with_a_deadline_set_and_withdrawn_before_it_passed", 1)
		}
		r.Count("dontcare_zero_length_write_after_close_returned_nil", int64(out.zeroAfterClose))
		if out.partial {
			r.Count("runs_with_partial_failed_write", 1)
		}
		if p.EarlyEnd >= 0 {
			r.Count("runs_with_early_close", 1)
		}
		if p.Run < 4 {
			samples = append(samples, out)
		}
		for _, v := range out.viol {
			r.Violation(v.key, name, fmt.Sprintf("buf=%d mode=%s: %s", p.Buf, p.Mode, v.what), map[string]any{"plan": p})
		}
	}
	sort.Slice(samples, func(i, j int) bool { return samples[i].plan.Run < samples[j].plan.Run })
	for _, out := range samples {
		r.Sample(map[string]any{"plan": out.plan, "bytes_checked": out.bytes, "timeouts": out.timeouts, "directions_read_to_eof": out.eofFull})
	}
	if racelog.Enabled() {
		reps := racelog.Collect("/util/bufconn")
		nrep := 0
		for _, rep := range reps {
			if rep.InRepo {
				nrep++
				r.Violation("race:"+rep.Key, "", "data race with a frame in util/bufconn: "+rep.Key, map[string]any{"frames": rep.Frames, "count": rep.Count, "excerpt": rep.Excerpt})
			}
		}
		r.Count("race_reports_in_bufconn", int64(nrep))
		r.Extra("race_detector", "on")
	} else {
		r.Extra("race_detector", "off (build without -race)")
	}
	r.Finish()
}
