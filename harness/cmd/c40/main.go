// C40 — tun.Pipe delivers all data in both directions and closes both ends.
//
// Every case hands two real streams X and Y (near ends of bufconn / net.Pipe / loopback TCP
// links, wrapped by a recorder that counts Close calls and can inject a Read/Write failure
// at a byte offset) to the real tun.Pipe and drives the far ends X' and Y' from the harness.
//
// Oracle (from the statement):
//   - what a far end receives is always an in-order prefix of what the other far end wrote;
//   - "clean" cases — the direction opposite to the one that ends is idle and drained when the
//     end happens — must deliver everything: after X' wrote P and closed, Y' receives exactly
//     P; after a failure injected at offset k, exactly the k bytes that were read/accepted
//     before it;
//   - nothing ends before a side ended or failed;
//   - the returned channel is closed, and by then Close was observed on both X and Y.
//
// "Racy" cases (the other side still writing when one side ends) are judged for order,
// closure and completion only: Pipe closes both streams on the first end, so the tail of
// either direction may be cut there (counted, not judged).
package main

import (
	"bytes"
	"errors"
	"fmt"
	"io"
	"math/rand"
	"net"
	"os"
	"regexp"
	"runtime"
	"sort"
	"strings"
	"sync"
	"sync/atomic"
	"time"

	"verifharness/lab/ev"
	"verifharness/lab/racelog"

	"go.miragespace.co/specter/spec/tun"
	"go.miragespace.co/specter/util/bufconn"
)

var errInjected = errors.New("c40: injected stream failure")

// near is the recorder / fault injector around a stream given to tun.Pipe.
type near struct {
	inner   io.ReadWriteCloser
	closes  atomic.Int32
	maxRead int // 0 = unlimited

	readFailAt  int64 // -1 = never; fail once this many bytes were read
	readWithErr bool  // deliver the last bytes together with the error
	writeFailAt int64 // -1 = never; accept this many bytes then fail

	rd, wr atomic.Int64
	failed atomic.Bool
	// ended: the inner stream's Read has returned an error (io.EOF included) to Pipe
	ended      atomic.Bool
	halfCloses atomic.Int32

	mu       sync.Mutex
	inflight map[uint64]string // goroutine -> "Read" | "Write" currently inside the inner stream
	failGoid uint64            // the goroutine of Pipe that was handed the injected error
	endGoid  uint64            // the goroutine of Pipe whose Read saw the stream end
}

// nearHC is a near whose inner stream can be half-closed (TCP): Pipe sees the same method set
// as it would on the real stream.
type nearHC struct{ *near }

func (n nearHC) CloseWrite() error {
	n.halfCloses.Add(1)
	return n.inner.(interface{ CloseWrite() error }).CloseWrite()
}

func goid() uint64 {
	var buf [64]byte
	n := runtime.Stack(buf[:], false)
	var id uint64
	fmt.Sscanf(string(buf[:n]), "goroutine %d ", &id)
	return id
}

func (n *near) enter(op string) uint64 {
	id := goid()
	n.mu.Lock()
	if n.inflight == nil {
		n.inflight = map[uint64]string{}
	}
	n.inflight[id] = op
	n.mu.Unlock()
	return id
}

func (n *near) leave(id uint64) {
	n.mu.Lock()
	delete(n.inflight, id)
	n.mu.Unlock()
}

func (n *near) fail() {
	n.mu.Lock()
	n.failGoid = goid()
	n.mu.Unlock()
	n.failed.Store(true)
}

func (n *near) Read(b []byte) (int, error) {
	if n.maxRead > 0 && len(b) > n.maxRead {
		b = b[:n.maxRead]
	}
	if n.readFailAt >= 0 {
		left := n.readFailAt - n.rd.Load()
		if left <= 0 {
			n.fail()
			return 0, errInjected
		}
		if int64(len(b)) > left {
			b = b[:left]
		}
	}
	id := n.enter("Read")
	k, err := n.inner.Read(b)
	if err != nil {
		n.mu.Lock()
		n.endGoid = id
		n.mu.Unlock()
		n.ended.Store(true)
	}
	n.leave(id)
	got := n.rd.Add(int64(k))
	if err == nil && n.readFailAt >= 0 && n.readWithErr && got >= n.readFailAt {
		n.fail()
		return k, errInjected
	}
	return k, err
}

func (n *near) Write(b []byte) (int, error) {
	if n.writeFailAt >= 0 {
		left := n.writeFailAt - n.wr.Load()
		if int64(len(b)) > left {
			k := 0
			var err error
			if left > 0 {
				id := n.enter("Write")
				k, err = n.inner.Write(b[:left])
				n.leave(id)
				n.wr.Add(int64(k))
			}
			if err == nil {
				n.fail()
				err = errInjected
			}
			return k, err
		}
	}
	id := n.enter("Write")
	k, err := n.inner.Write(b)
	n.leave(id)
	n.wr.Add(int64(k))
	return k, err
}

func (n *near) Close() error {
	n.closes.Add(1)
	return n.inner.Close()
}

// ---------------------------------------------------------------- stuck-pipe proof

type gInfo struct{ state, stack string }

var gHeader = regexp.MustCompile(`^goroutine (\d+) \[([^\],]+)`)

func dumpAll() map[uint64]gInfo {
	buf := make([]byte, 1<<22)
	for {
		n := runtime.Stack(buf, true)
		if n < len(buf) {
			buf = buf[:n]
			break
		}
		buf = make([]byte, 2*len(buf))
	}
	out := map[uint64]gInfo{}
	for _, blk := range strings.Split(string(buf), "\n\n") {
		m := gHeader.FindStringSubmatch(blk)
		if m == nil {
			continue
		}
		var id uint64
		fmt.Sscanf(m[1], "%d", &id)
		out[id] = gInfo{m[2], blk}
	}
	return out
}

func parkedState(st string) bool {
	switch st {
	case "sync.Cond.Wait", "select", "IO wait", "chan receive", "sync.WaitGroup.Wait", "semacquire":
		return true
	}
	return false
}

type caseGoroutines struct {
	mu  sync.Mutex
	ids map[uint64]string
}

func (c *caseGoroutines) spawn(wg *sync.WaitGroup, name string, fn func()) {
	wg.Add(1)
	go func() {
		defer wg.Done()
		id := goid()
		c.mu.Lock()
		c.ids[id] = name
		c.mu.Unlock()
		defer func() {
			c.mu.Lock()
			delete(c.ids, id)
			c.mu.Unlock()
		}()
		fn()
	}()
}

// provenStuck decides from recorded events and the scheduler's view whether the pipe can
// never complete: an injected stream error HAS been returned to one of Pipe's copy loops and
// that goroutine has ended; every other call of Pipe into the two streams is a parked Read;
// every harness goroutine of the case has ended or is parked in a Read/Write on a far end or
// on the case's own channels (the harness closes the far ends only after completion); and at
// least one stream has not been closed. Nothing is left that could write, close or wake.
func provenStuck(nr [2]*near, cg *caseGoroutines) (bool, string) {
	dump := dumpAll()
	var notes []string
	failedSeen := false
	for e, n := range nr {
		n.mu.Lock()
		fg := n.failGoid
		eg := n.endGoid
		infl := map[uint64]string{}
		for id, op := range n.inflight {
			infl[id] = op
		}
		n.mu.Unlock()
		if n.failed.Load() {
			failedSeen = true
			if _, alive := dump[fg]; alive {
				return false, "the copy loop that received the injected error is still alive"
			}
			notes = append(notes, fmt.Sprintf("the copy loop that was handed the injected error on %c has ended", 'X'+e))
		} else if n.ended.Load() {
			failedSeen = true
			if _, alive := dump[eg]; alive {
				return false, "the copy loop that saw the stream end is still alive"
			}
			notes = append(notes, fmt.Sprintf("the copy loop that saw %c end has ended", 'X'+e))
		}
		for id, op := range infl {
			g, ok := dump[id]
			if !ok {
				return false, "a call into a stream ended meanwhile"
			}
			if op != "Read" || !parkedState(g.state) {
				return false, fmt.Sprintf("Pipe is inside %c.%s in state %q", 'X'+e, op, g.state)
			}
			notes = append(notes, fmt.Sprintf("Pipe is parked in %c.Read (%s)", 'X'+e, g.state))
		}
	}
	if !failedSeen {
		return false, "neither an injected error nor the end of a stream has been returned to Pipe"
	}
	if nr[0].closes.Load() > 0 && nr[1].closes.Load() > 0 {
		return false, "both streams have been closed"
	}
	cg.mu.Lock()
	ids := map[uint64]string{}
	for id, n := range cg.ids {
		ids[id] = n
	}
	cg.mu.Unlock()
	for id, name := range ids {
		g, ok := dump[id]
		if !ok {
			return false, "harness goroutine " + name + " ended meanwhile"
		}
		if !parkedState(g.state) {
			return false, fmt.Sprintf("harness goroutine %s is in state %q", name, g.state)
		}
		notes = append(notes, fmt.Sprintf("harness %s parked (%s)", name, g.state))
	}
	sort.Strings(notes)
	return true, strings.Join(notes, "; ")
}

// ---------------------------------------------------------------- links

func mkLink(kind string, sz int) (far net.Conn, nearEnd net.Conn, err error) {
	switch kind {
	case "bufconn":
		a, b := bufconn.BufferedPipe(sz)
		return a, b, nil
	case "netpipe":
		a, b := net.Pipe()
		return a, b, nil
	case "tcp":
		ln, err := net.Listen("tcp", "127.0.0.1:0")
		if err != nil {
			return nil, nil, err
		}
		defer ln.Close()
		type res struct {
			c   net.Conn
			err error
		}
		ch := make(chan res, 1)
		go func() { c, err := ln.Accept(); ch <- res{c, err} }()
		a, err := net.Dial("tcp", ln.Addr().String())
		if err != nil {
			return nil, nil, err
		}
		r := <-ch
		if r.err != nil {
			a.Close()
			return nil, nil, r.err
		}
		return a, r.c, nil
	}
	return nil, nil, fmt.Errorf("unknown link kind %s", kind)
}

// ---------------------------------------------------------------- plan

type plan struct {
	Case     int       `json:"case"`
	Kind     [2]string `json:"kind"`     // link kind of X, Y
	BufSz    [2]int    `json:"buf"`      // bufconn capacity
	MaxRead  [2]int    `json:"max_read"` // near-end read chunk limit (0 = none)
	Scenario string    `json:"scenario"` // clean-close | clean-halfclose | racy-close | fault-clean | fault-racy
	Finisher int       `json:"finisher"` // far end that ends / whose flow fails: 0 = X', 1 = Y'
	Size     [2]int    `json:"size"`     // payload written by X', Y'
	Chunk    [2]int    `json:"chunk"`    // far-end write chunk
	CloseAt  int       `json:"close_at"` // racy-close: finisher closes after this many bytes
	Fault    string    `json:"fault"`    // read | read+data | write
	FaultAt  int       `json:"fault_at"` // byte offset in the finisher's flow
}

func makePlan(rng *rand.Rand, i int) plan {
	p := plan{Case: i}
	minCap := 1 << 30
	for e := 0; e < 2; e++ {
		switch rng.Intn(6) {
		case 0:
			p.Kind[e] = "tcp"
		case 1, 2:
			p.Kind[e] = "netpipe"
		default:
			p.Kind[e] = "bufconn"
			switch rng.Intn(4) {
			case 0:
				p.BufSz[e] = 1 + rng.Intn(64)
			case 1:
				p.BufSz[e] = 4096
			case 2:
				p.BufSz[e] = tun.BufferSize + rng.Intn(3) - 1
			default:
				p.BufSz[e] = 65536
			}
			if p.BufSz[e] < minCap {
				minCap = p.BufSz[e]
			}
		}
		if rng.Intn(3) == 0 {
			p.MaxRead[e] = 1 + rng.Intn(3000)
		}
	}
	limit := 120000
	if minCap < 1<<30 && minCap*1500 < limit {
		limit = minCap * 1500
	}
	for e := 0; e < 2; e++ {
		switch rng.Intn(6) {
		case 0:
			p.Size[e] = 0
		case 1:
			p.Size[e] = 1 + rng.Intn(100)
		case 2:
			p.Size[e] = tun.BufferSize + rng.Intn(5) - 2
		case 3:
			p.Size[e] = 2*tun.BufferSize + rng.Intn(40000)
		default:
			p.Size[e] = 1 + rng.Intn(20000)
		}
		if p.Size[e] > limit {
			p.Size[e] = 1 + rng.Intn(limit)
		}
		p.Chunk[e] = 1 + rng.Intn(9000)
	}
	p.Finisher = rng.Intn(2)
	f := p.Finisher
	switch rng.Intn(10) {
	case 0, 1, 2:
		p.Scenario = "clean-close"
	case 3:
		p.Scenario = "clean-close"
		if p.Kind[f] == "tcp" {
			p.Scenario = "clean-halfclose"
		}
	case 4, 5:
		p.Scenario = "racy-close"
		p.CloseAt = rng.Intn(p.Size[f] + 1)
	case 6, 7, 8:
		p.Scenario = "fault-clean"
	default:
		p.Scenario = "fault-racy"
	}
	if strings.HasPrefix(p.Scenario, "fault") {
		if p.Size[f] < 2 {
			p.Size[f] = 2 + rng.Intn(5000)
		}
		p.Fault = []string{"read", "read+data", "write"}[rng.Intn(3)]
		p.FaultAt = rng.Intn(p.Size[f]) // strictly inside the flow
		if p.Fault != "write" && p.FaultAt == 0 {
			// a Read that fails before any byte of the flow would end the pipe before the
			// opposite direction has been delivered: not a "clean" end
			p.FaultAt = 1
		}
		if rng.Intn(4) == 0 && p.Size[f] > tun.BufferSize {
			p.FaultAt = tun.BufferSize * (1 + rng.Intn(p.Size[f]/tun.BufferSize)) // on a copy-buffer boundary
			if p.FaultAt >= p.Size[f] {
				p.FaultAt = p.Size[f] - 1
			}
		}
	}
	return p
}

// ---------------------------------------------------------------- one case

type outcome struct {
	plan       plan
	stuck      string // proven: the pipe can never complete
	hung       string
	setupErr   string
	viol       []violation
	got        [2]int // bytes received by X', Y'
	cut        bool   // racy case in which a tail was lost
	chanErrs   int
	nontrivial bool
}

type violation struct{ key, what string }

var watchdog = 60 * time.Second

func runCase(p plan, seed int64) (out outcome) {
	out.plan = p
	rng := rand.New(rand.NewSource(seed))
	var far [2]net.Conn
	var nr [2]*near
	for e := 0; e < 2; e++ {
		f, n, err := mkLink(p.Kind[e], p.BufSz[e])
		if err != nil {
			out.setupErr = err.Error()
			return
		}
		far[e] = f
		nr[e] = &near{inner: n, maxRead: p.MaxRead[e], readFailAt: -1, writeFailAt: -1}
	}
	var payload [2][]byte
	for e := 0; e < 2; e++ {
		payload[e] = make([]byte, p.Size[e])
		rng.Read(payload[e])
	}
	f, s := p.Finisher, 1-p.Finisher
	fault := strings.HasPrefix(p.Scenario, "fault")
	clean := strings.HasPrefix(p.Scenario, "clean") || p.Scenario == "fault-clean"
	if fault {
		// flow f: far[f] -> near[f].Read -> near[s].Write -> far[s]
		switch p.Fault {
		case "read":
			nr[f].readFailAt = int64(p.FaultAt)
		case "read+data":
			nr[f].readFailAt = int64(p.FaultAt)
			nr[f].readWithErr = true
		case "write":
			nr[s].writeFailAt = int64(p.FaultAt)
		}
	}

	var ends [2]io.ReadWriteCloser
	for e := 0; e < 2; e++ {
		ends[e] = nr[e]
		if _, ok := nr[e].inner.(interface{ CloseWrite() error }); ok {
			ends[e] = nearHC{nr[e]}
		}
	}
	done := tun.Pipe(ends[0], ends[1])

	var recv [2]bytes.Buffer // recv[e]: what far[e] received (sent by far[1-e])
	var readErr [2]error
	drained := make(chan struct{})  // far[f] has received all of payload[s]
	wroteAll := make(chan struct{}) // far[s] has written all of payload[s] (fault-clean phase 1)
	var wg sync.WaitGroup
	cg := &caseGoroutines{ids: map[uint64]string{}}

	writeAll := func(e int, data []byte) error {
		for len(data) > 0 {
			c := p.Chunk[e]
			if c > len(data) {
				c = len(data)
			}
			if _, err := far[e].Write(data[:c]); err != nil {
				return err
			}
			data = data[c:]
		}
		return nil
	}
	rbuf := [2]int{1 + rng.Intn(8192), 1 + rng.Intn(8192)}
	readLoop := func(e int, want int, signal chan struct{}) {
		buf := make([]byte, rbuf[e])
		signaled := false
		if want == 0 && signal != nil {
			close(signal)
			signaled = true
		}
		for {
			n, err := far[e].Read(buf)
			recv[e].Write(buf[:n])
			if signal != nil && !signaled && recv[e].Len() >= want {
				close(signal)
				signaled = true
			}
			if err != nil {
				readErr[e] = err
				if signal != nil && !signaled {
					close(signal)
				}
				return
			}
		}
	}

	// readers
	cg.spawn(&wg, "reader of the finishing side", func() { readLoop(f, len(payload[s]), drained) })
	cg.spawn(&wg, "reader of the other side", func() { readLoop(s, 0, nil) })
	// writer of the non-finishing side
	cg.spawn(&wg, "writer of the other side", func() {
		_ = writeAll(s, payload[s])
		close(wroteAll)
	})
	// writer of the finishing side
	cg.spawn(&wg, "writer of the finishing side", func() {
		switch p.Scenario {
		case "clean-close", "clean-halfclose":
			_ = writeAll(f, payload[f])
			<-drained
			if p.Scenario == "clean-halfclose" {
				_ = far[f].(*net.TCPConn).CloseWrite()
			} else {
				_ = far[f].Close()
			}
		case "racy-close":
			_ = writeAll(f, payload[f][:p.CloseAt])
			_ = far[f].Close()
		case "fault-clean":
			<-drained // phase 1: the opposite direction has been delivered and is idle
			_ = writeAll(f, payload[f])
		case "fault-racy":
			_ = writeAll(f, payload[f])
		}
	})

	// completion of the pipe
	nerr := 0
	timer := time.NewTimer(watchdog)
	defer timer.Stop()
	look := time.NewTimer(3 * time.Second)
	defer look.Stop()
wait:
	for {
		select {
		case e, ok := <-done:
			if !ok {
				break wait
			}
			if e != nil {
				nerr++
			}
		case <-look.C:
			// not complete yet: can it still complete? (decided from events, not from time)
			if ok, why := provenStuck(nr, cg); ok {
				time.Sleep(200 * time.Millisecond)
				if ok2, why2 := provenStuck(nr, cg); ok2 && why2 == why {
					out.stuck = fmt.Sprintf("a stream error or the end of a stream was returned to Pipe, yet the returned channel is not closed and can never be: %s; Close calls seen: X=%d Y=%d; half-closes: X=%d Y=%d; errors delivered on the channel so far: %d", why, nr[0].closes.Load(), nr[1].closes.Load(), nr[0].halfCloses.Load(), nr[1].halfCloses.Load(), nerr)
					far[0].Close()
					far[1].Close()
					return
				}
			}
			look.Reset(10 * time.Second)
		case <-timer.C:
			out.hung = fmt.Sprintf("the channel returned by Pipe was not closed within %s (X closes=%d, Y closes=%d, injected failure hit=%v/%v)", watchdog, nr[0].closes.Load(), nr[1].closes.Load(), nr[0].failed.Load(), nr[1].failed.Load())
			far[0].Close()
			far[1].Close()
			return
		}
	}
	out.chanErrs = nerr
	cx, cy := nr[0].closes.Load(), nr[1].closes.Load()
	// harness side: end the far ends, collect
	fin := make(chan struct{})
	go func() { wg.Wait(); close(fin) }()
	// after completion both near ends are closed, so every far-end call returns; the far ends
	// are closed by the harness only after their readers have seen that
	select {
	case <-fin:
	case <-time.After(watchdog):
		out.hung = "Pipe reported completion but the far ends' calls did not return within " + watchdog.String()
		far[0].Close()
		far[1].Close()
		return
	}
	far[0].Close()
	far[1].Close()

	bad := func(key, format string, a ...any) {
		out.viol = append(out.viol, violation{key, fmt.Sprintf(format, a...)})
	}
	if cx < 1 || cy < 1 {
		bad("completion-without-close", "the channel was closed but Close had been called %d times on X and %d times on Y", cx, cy)
	}
	name := [2]string{"X'", "Y'"}
	for e := 0; e < 2; e++ {
		got := recv[e].Bytes()
		sent := payload[1-e]
		out.got[e] = len(got)
		if !bytes.HasPrefix(sent, got) {
			bad("stream-corrupt", "%s received %d bytes that are not a prefix of the %d bytes %s wrote (first difference at %d)", name[e], len(got), len(sent), name[1-e], firstDiff(sent, got))
		}
	}
	expectF := len(payload[f]) // what far[s] must have received
	switch p.Scenario {
	case "racy-close":
		expectF = p.CloseAt
	case "fault-clean", "fault-racy":
		expectF = p.FaultAt
	}
	if clean {
		if out.got[s] != expectF {
			bad("lost-tail:"+p.Scenario+faultSuffix(p), "%s wrote %d bytes and ended (%s) while the opposite direction was idle and drained, but %s received only %d of the %d bytes that were read/accepted before the end", name[f], len(payload[f]), p.Scenario+faultSuffix(p), name[s], out.got[s], expectF)
		}
		if out.got[f] != len(payload[s]) {
			bad("premature-end", "%s received %d of %d bytes: the pipe ended before either side did", name[f], out.got[f], len(payload[s]))
		}
	} else {
		if out.got[s] > expectF {
			bad("data-after-end", "%s received %d bytes although only %d were written/read before the end", name[s], out.got[s], expectF)
		}
		if out.got[s] < expectF {
			out.cut = true
		}
	}
	if fault {
		hit := nr[f].failed.Load() || nr[s].failed.Load()
		if clean && !hit {
			bad("fault-not-reached", "the pipe completed although the injected failure at offset %d was never reached", p.FaultAt)
		}
	}
	out.nontrivial = out.got[0]+out.got[1] > 0
	return
}

func faultSuffix(p plan) string {
	if p.Fault == "" {
		return ""
	}
	return "/" + p.Fault
}

func firstDiff(a, b []byte) int {
	for i := 0; i < len(a) && i < len(b); i++ {
		if a[i] != b[i] {
			return i
		}
	}
	if len(a) < len(b) {
		return len(a)
	}
	return len(b)
}

func sizeClass(n int) string {
	switch {
	case n == 0:
		return "0"
	case n < tun.BufferSize:
		return "<buf"
	case n < 2*tun.BufferSize:
		return "~buf"
	}
	return ">2buf"
}

func main() {
	r := ev.Start("C40", "exploration")
	r.SetRule("one case = real tun.Pipe(X, Y) over two links, each bufconn (capacity 1..64 / 4096 / ~16384 / 65536), net.Pipe or loopback TCP, near ends wrapped by a Close recorder with an optional read-chunk limit; payloads of 0..~100000 random bytes per direction written in chunks of 1..9000; scenarios: clean-close / clean-halfclose (finisher writes everything, drains the opposite direction, closes), racy-close (closes after a seeded byte count while the other side may still write), fault-clean / fault-racy (near-end Read fails at offset k, with or without data in the same call, or near-end Write fails after accepting k bytes). Non-trivial: >= 1 byte arrived. Distinct by (link kinds, scenario, fault kind, finisher, size class of both payloads, read limits)")
	r.Assume("when the other side is still writing at the moment one side ends, Pipe closes both streams at once and the tail of either direction may be cut: such cases are judged for order, closure and completion only (cut tails are counted)")
	r.Assume("a pipe that does not complete is a violation only if recorded events and the goroutine dump prove that it never can (injected error returned and its copy loop ended, all other Pipe calls parked in Read, all harness goroutines ended or parked, a stream still unclosed; two identical looks); otherwise the 60 s watchdog reports INCONCLUSIVE")
	n := r.Pick(1500, 30000)
	par := runtime.GOMAXPROCS(0)
	if par > 16 {
		par = 16
	}
	if par < 2 {
		par = 2
	}
	type job struct {
		p    plan
		seed int64
	}
	jobs := make(chan job)
	results := make(chan outcome, par)
	var wg sync.WaitGroup
	for i := 0; i < par; i++ {
		wg.Add(1)
		go func() {
			defer wg.Done()
			for j := range jobs {
				results <- runCase(j.p, j.seed)
			}
		}()
	}
	var stop atomic.Bool
	go func() {
		for i := 0; i < n && !stop.Load(); i++ {
			name := fmt.Sprintf("case%d", i)
			if !r.WantCase(name) {
				continue
			}
			rng := r.Rand(name)
			jobs <- job{makePlan(rng, i), rng.Int63()}
		}
		close(jobs)
		wg.Wait()
		close(results)
	}()
	var samples []outcome
	for out := range results {
		p := out.plan
		name := fmt.Sprintf("case%d", p.Case)
		if out.setupErr != "" {
			r.Inconclusive(name + ": link setup failed: " + out.setupErr)
			continue
		}
		if out.stuck != "" {
			r.Count("cases_proven_stuck", 1)
			if r.Counter("cases_proven_stuck") >= 8 {
				stop.Store(true) // every further one costs another look period
			}
			r.Case("")
			key := "pipe-not-completed-after-stream-error"
			if !strings.HasPrefix(p.Scenario, "fault") {
				key = "pipe-not-completed-after-one-side-ended"
			}
			r.Violation(key, name, fmt.Sprintf("%s over %s/%s: %s", p.Scenario+faultSuffix(p), p.Kind[0], p.Kind[1], out.stuck), map[string]any{"plan": p})
			continue
		}
		if out.hung != "" {
			stop.Store(true)
			r.Count("cases_hung", 1)
			r.Case("")
			r.Inconclusive(fmt.Sprintf("%s (%s over %s/%s): %s", name, p.Scenario+faultSuffix(p), p.Kind[0], p.Kind[1], out.hung))
			fmt.Fprintf(os.Stderr, "HUNG %s plan=%+v: %s\n", name, p, out.hung)
			continue
		}
		sig := ""
		if out.nontrivial {
			sig = fmt.Sprintf("%s/%s/%s%s/f%d/%s/%s/%v%v", p.Kind[0], p.Kind[1], p.Scenario, faultSuffix(p), p.Finisher, sizeClass(p.Size[0]), sizeClass(p.Size[1]), p.MaxRead[0] > 0, p.MaxRead[1] > 0)
		}
		r.Case(sig)
		r.Count("bytes_delivered", int64(out.got[0]+out.got[1]))
		r.Count("scenario_"+p.Scenario, 1)
		r.Count("errors_reported_on_channel", int64(out.chanErrs))
		if out.cut {
			r.Count("dontcare_racy_cases_with_cut_tail", 1)
		}
		if p.Case < 5 {
			samples = append(samples, out)
		}
		for _, v := range out.viol {
			r.Violation(v.key, name, fmt.Sprintf("%s over %s/%s: %s", p.Scenario+faultSuffix(p), p.Kind[0], p.Kind[1], v.what), map[string]any{"plan": p, "received": out.got})
		}
	}
	sort.Slice(samples, func(i, j int) bool { return samples[i].plan.Case < samples[j].plan.Case })
	for _, out := range samples {
		r.Sample(map[string]any{"plan": out.plan, "received_by_X'": out.got[0], "received_by_Y'": out.got[1], "errors_on_channel": out.chanErrs})
	}
	if racelog.Enabled() {
		reps := racelog.Collect("/spec/tun")
		k := 0
		for _, rep := range reps {
			if rep.InRepo {
				k++
				r.Violation("race:"+rep.Key, "", "data race with a frame in spec/tun: "+rep.Key, map[string]any{"frames": rep.Frames, "count": rep.Count, "excerpt": rep.Excerpt})
			}
		}
		r.Count("race_reports_in_spec_tun", int64(k))
		r.Extra("race_detector", "on")
	} else {
		r.Extra("race_detector", "off (build without -race)")
	}
	r.Finish()
}
