// C41 — simultaneous peer connections converge on one shared connection.
//
// Groups of two (thorough: also three) real overlay.QUIC transports on loopback UDP, set up
// the way cmd/server does (quic.Transport -> overlay.NewMux -> mux.With(peer TLS) ->
// AcceptWithListener, mutual TLS with a scratch CA). Each round prepares a cache state
// (keep / both cleared / one side reaped), then lets the peers DialStream each other from a
// barrier while the verif hooks in reuseConnection add seeded delays and record the order of
// the negotiation steps. Connections are identified across peers by TLS exported keying
// material, liveness by the connection context.
//
// Monitors at quiescence (state of a pair unchanged and good for 1.2 s; a bad state must
// persist for 12 s before it is reported, because a refused negotiation closes its connection
// one second later):
//
//	M1  both peers cache a live connection for each other  =>  it is the same connection;
//	M2  a peer caches a live connection  =>  the other peer caches the same one;
//	M3  a stream that DialStream returned still echoes (its connection was not closed by the
//	    negotiation) — not judged for rounds that reap a connection themselves.
//
// Every cache-state read of a negotiation is bracketed by two probes of the node's cache
// (hooks reuse.identified / reuse.cachesent run on the negotiating goroutine), so the harness
// knows what each negotiation announced (FRESH / CACHED). A dead stream in a pair that
// started with empty caches, dialled crosswise and announced FRESH four times is the known
// simultaneous-open defect (key all-fresh-cross:returned-connection-closed); if the
// announcements cannot be established (a probe raced with a store; reads of a 3-node group
// that cannot be attributed to the pair) the dead stream is counted, not judged; everything
// else keeps its own key.
package main

import (
	"context"
	"crypto/ecdsa"
	"crypto/elliptic"
	crand "crypto/rand"
	"crypto/tls"
	"crypto/x509"
	"crypto/x509/pkix"
	"encoding/hex"
	"fmt"
	"io"
	"math/big"
	"math/rand"
	"net"
	"os"
	"runtime"
	"sort"
	"strings"
	"sync"
	"time"

	"verifharness/lab/ev"

	"go.miragespace.co/specter/overlay"
	"go.miragespace.co/specter/spec/cipher"
	"go.miragespace.co/specter/spec/protocol"
	"go.miragespace.co/specter/spec/transport"

	"github.com/quic-go/quic-go"
	"go.uber.org/zap"
)

const alpn = "specter-chord/1"

// ---------------------------------------------------------------- TLS

func makeTLS() (*tls.Config, error) {
	caKey, err := ecdsa.GenerateKey(elliptic.P256(), crand.Reader)
	if err != nil {
		return nil, err
	}
	caTpl := &x509.Certificate{SerialNumber: big.NewInt(1), Subject: pkix.Name{CommonName: "c41 ca"}, NotBefore: time.Now().Add(-time.Hour), NotAfter: time.Now().Add(24 * time.Hour),
		KeyUsage: x509.KeyUsageCertSign | x509.KeyUsageDigitalSignature, IsCA: true, BasicConstraintsValid: true}
	caDer, err := x509.CreateCertificate(crand.Reader, caTpl, caTpl, &caKey.PublicKey, caKey)
	if err != nil {
		return nil, err
	}
	caCert, _ := x509.ParseCertificate(caDer)
	key, err := ecdsa.GenerateKey(elliptic.P256(), crand.Reader)
	if err != nil {
		return nil, err
	}
	tpl := &x509.Certificate{SerialNumber: big.NewInt(2), Subject: pkix.Name{CommonName: "c41 node"}, NotBefore: time.Now().Add(-time.Hour), NotAfter: time.Now().Add(24 * time.Hour),
		KeyUsage: x509.KeyUsageDigitalSignature, ExtKeyUsage: []x509.ExtKeyUsage{x509.ExtKeyUsageServerAuth, x509.ExtKeyUsageClientAuth},
		IPAddresses: []net.IP{net.ParseIP("127.0.0.1")}, DNSNames: []string{"localhost"}}
	der, err := x509.CreateCertificate(crand.Reader, tpl, caCert, &key.PublicKey, caKey)
	if err != nil {
		return nil, err
	}
	pool := x509.NewCertPool()
	pool.AddCert(caCert)
	return cipher.GetPeerTLSConfig(pool, tls.Certificate{Certificate: [][]byte{der}, PrivateKey: key}, []string{alpn}), nil
}

// ---------------------------------------------------------------- node

type node struct {
	idx  int
	addr string
	id   *protocol.Node
	udp  net.PacketConn
	qt   *quic.Transport
	mux  *overlay.ALPNMux
	tr   *overlay.QUIC
}

func newNode(ctx context.Context, idx int, tlsConf *tls.Config) (*node, error) {
	udp, err := net.ListenPacket("udp", "127.0.0.1:0")
	if err != nil {
		return nil, err
	}
	n := &node{idx: idx, addr: udp.LocalAddr().String(), udp: udp}
	n.id = &protocol.Node{Address: n.addr, Id: uint64(1000 + idx)}
	n.qt = &quic.Transport{Conn: udp}
	n.mux, err = overlay.NewMux(n.qt)
	if err != nil {
		udp.Close()
		return nil, err
	}
	ln := n.mux.With(tlsConf, alpn)
	n.tr = overlay.NewQUIC(overlay.TransportConfig{
		Logger:           zap.NewNop(),
		VirtualTransport: true,
		ClientTLS:        tlsConf,
		QuicTransport:    n.qt,
		Endpoint:         &protocol.Node{Address: n.addr},
	})
	go n.tr.AcceptWithListener(ctx, ln)
	go n.mux.Accept(ctx)
	// echo every stream the peers open
	go func() {
		for {
			select {
			case <-ctx.Done():
				return
			case d := <-n.tr.AcceptStream():
				go func(d *transport.StreamDelegate) {
					io.Copy(d.Conn, d.Conn)
					d.Conn.Close()
				}(d)
			}
		}
	}()
	return n, nil
}

func (n *node) close() {
	n.tr.Stop()
	n.mux.Close()
	n.qt.Close()
	n.udp.Close()
}

// ---------------------------------------------------------------- hooks

var short = map[string]string{"reuse.identsent": "sent", "reuse.identified": "idfd", "reuse.cachesent": "cach", "reuse.decide": "deci", "reuse.go": "go"}

type hookEvent struct {
	Point    string
	Node     int
	Incoming bool
}

type groupHooks struct {
	mu      sync.Mutex
	events  []hookEvent
	delay   map[string]time.Duration // point/node/incoming -> delay
	nodes   []*node
	pending map[uint64]map[int]bool // goroutine -> peer idx -> cached just before the cache-state read
	reads   []readProbe
}

// readProbe brackets the cache-state read of one negotiation (it happens between the
// reuse.identified and the reuse.cachesent hook, on one goroutine): was a connection to peer
// p cached just before and just after it. Equal answers tell what the negotiation announced
// (FRESH / CACHED) for that peer; different answers leave it open.
type readProbe struct {
	Node     int
	Incoming bool
	Before   map[int]bool
	After    map[int]bool
}

func goid() uint64 {
	var buf [64]byte
	n := runtime.Stack(buf[:], false)
	var id uint64
	fmt.Sscanf(string(buf[:n]), "goroutine %d ", &id)
	return id
}

func (g *groupHooks) probe(self int) map[int]bool {
	m := map[int]bool{}
	for _, y := range g.nodes {
		if y.idx == self {
			continue
		}
		_, ok := g.nodes[self].tr.VerifCached(y.id)
		m[y.idx] = ok
	}
	return m
}

var (
	hooksMu sync.RWMutex
	byAddr  = map[string]*struct {
		g   *groupHooks
		idx int
	}{}
)

func hook(point, self string, incoming bool) {
	hooksMu.RLock()
	e := byAddr[self]
	hooksMu.RUnlock()
	if e == nil {
		return
	}
	if point == "reuse.cachesent" {
		// right after the read (and the send of what was read)
		after := e.g.probe(e.idx)
		id := goid()
		e.g.mu.Lock()
		if before, ok := e.g.pending[id]; ok {
			delete(e.g.pending, id)
			e.g.reads = append(e.g.reads, readProbe{e.idx, incoming, before, after})
		}
		e.g.mu.Unlock()
	}
	e.g.mu.Lock()
	e.g.events = append(e.g.events, hookEvent{point, e.idx, incoming})
	d := e.g.delay[fmt.Sprintf("%s/%d/%v", point, e.idx, incoming)]
	e.g.mu.Unlock()
	if d > 0 {
		time.Sleep(d)
	}
	if point == "reuse.identified" {
		// right before the read
		before := e.g.probe(e.idx)
		e.g.mu.Lock()
		e.g.pending[goid()] = before
		e.g.mu.Unlock()
	}
	if point == "reuse.decide" {
		// the decision (and a possible store into the cache) happens after this hook returns
		e.g.mu.Lock()
		e.g.events = append(e.g.events, hookEvent{"reuse.go", e.idx, incoming})
		e.g.mu.Unlock()
	}
}

// announced classifies what the negotiations between nodes a and b announced in this round:
// "all-fresh": every negotiation on a and on b that could be one between the two read "not
// cached" for the other (at least an incoming and an outgoing one on each side);
// "some-cached": attributable (2-node group) and at least one read "cached" for certain;
// "open": a read raced with a store, or the group has a third node and the reads cannot be
// attributed to the pair.
func announced(reads []readProbe, a, b, size int) string {
	type dirs struct{ in, out bool }
	seen := map[int]*dirs{a: {}, b: {}}
	allFresh, someCached, open := true, false, false
	for _, rp := range reads {
		var peer int
		switch rp.Node {
		case a:
			peer = b
		case b:
			peer = a
		default:
			continue
		}
		if rp.Incoming {
			seen[rp.Node].in = true
		} else {
			seen[rp.Node].out = true
		}
		bf, af := rp.Before[peer], rp.After[peer]
		switch {
		case !bf && !af:
		case bf && af:
			allFresh = false
			someCached = true
		default:
			allFresh = false
			open = true
		}
	}
	complete := seen[a].in && seen[a].out && seen[b].in && seen[b].out
	switch {
	case allFresh && complete:
		return "all-fresh"
	case size == 2 && someCached && !open:
		return "some-cached"
	case size == 2 && !open && !complete:
		return "incomplete"
	}
	return "open"
}

// ---------------------------------------------------------------- observation

var (
	ekmMu sync.Mutex
	ekms  = map[*quic.Conn]string{}
)

func connID(c *quic.Conn) string {
	ekmMu.Lock()
	defer ekmMu.Unlock()
	if s, ok := ekms[c]; ok {
		return s
	}
	cs := c.ConnectionState().TLS
	b, err := cs.ExportKeyingMaterial("verif c41 connection id", nil, 12)
	s := ""
	if err != nil {
		s = fmt.Sprintf("noekm:%p", c)
	} else {
		s = hex.EncodeToString(b)
	}
	ekms[c] = s
	return s
}

type side struct {
	Cached   bool   `json:"cached"`
	ID       string `json:"conn,omitempty"`
	Alive    bool   `json:"alive,omitempty"`
	Incoming bool   `json:"incoming,omitempty"`
}

type pairState struct {
	A, B side
}

func observe(a, b *node) pairState {
	get := func(x, y *node) side {
		c, ok := x.tr.VerifCached(y.id)
		if !ok {
			return side{}
		}
		return side{Cached: true, ID: connID(c.Conn), Alive: c.Conn.Context().Err() == nil, Incoming: c.Incoming}
	}
	return pairState{get(a, b), get(b, a)}
}

// good: nothing live is cached on either side, or both cache the same live connection.
func (p pairState) good() bool {
	la, lb := p.A.Cached && p.A.Alive, p.B.Cached && p.B.Alive
	if !p.A.Cached && !p.B.Cached {
		return true
	}
	if la && lb && p.A.ID == p.B.ID && p.A.Incoming != p.B.Incoming {
		return true
	}
	return false
}

func (p pairState) String() string {
	f := func(s side) string {
		if !s.Cached {
			return "-"
		}
		d := "out"
		if s.Incoming {
			d = "in"
		}
		l := "dead"
		if s.Alive {
			l = "live"
		}
		return fmt.Sprintf("%s/%s/%s", s.ID[:8], d, l)
	}
	return f(p.A) + " | " + f(p.B)
}

const (
	stableFor   = 1200 * time.Millisecond
	badPersists = 12 * time.Second
	pollEvery   = 25 * time.Millisecond
)

// settle waits for the pair to be quiescent. ok=false: a bad state persisted.
func settle(a, b *node) (st pairState, ok bool, waited time.Duration) {
	start := time.Now()
	var goodSince, badSince time.Time
	var last pairState
	for {
		st = observe(a, b)
		now := time.Now()
		if st.good() {
			badSince = time.Time{}
			if goodSince.IsZero() || st != last {
				goodSince = now
			}
			if now.Sub(goodSince) >= stableFor {
				return st, true, now.Sub(start)
			}
		} else {
			goodSince = time.Time{}
			if badSince.IsZero() {
				badSince = now
			}
			if now.Sub(badSince) >= badPersists {
				return st, false, now.Sub(start)
			}
		}
		last = st
		time.Sleep(pollEvery)
	}
}

// ---------------------------------------------------------------- rounds

type dialResult struct {
	From, To int
	Err      string
	conn     net.Conn
	EchoErr  string
}

type roundPlan struct {
	Prep    map[string]string `json:"prep"`  // "a-b" -> keep | clear | reap:<idx>
	Dials   [][2]int          `json:"dials"` // ordered pairs dialling
	Delays  map[string]int    `json:"delays_ms"`
	Profile string            `json:"delay_profile"`
}

func pairKey(i, j int) string {
	if i > j {
		i, j = j, i
	}
	return fmt.Sprintf("%d-%d", i, j)
}

func makeRound(rng *rand.Rand, n int) roundPlan {
	p := roundPlan{Prep: map[string]string{}, Delays: map[string]int{}}
	for i := 0; i < n; i++ {
		for j := i + 1; j < n; j++ {
			switch rng.Intn(6) {
			case 0, 1:
				p.Prep[pairKey(i, j)] = "keep"
			case 2, 3, 4:
				p.Prep[pairKey(i, j)] = "clear"
			default:
				p.Prep[pairKey(i, j)] = fmt.Sprintf("reap:%d", []int{i, j}[rng.Intn(2)])
			}
			switch rng.Intn(5) {
			case 0:
				p.Dials = append(p.Dials, [2]int{i, j})
			case 1:
				p.Dials = append(p.Dials, [2]int{j, i})
			default:
				p.Dials = append(p.Dials, [2]int{i, j}, [2]int{j, i})
			}
		}
	}
	rng.Shuffle(len(p.Dials), func(i, j int) { p.Dials[i], p.Dials[j] = p.Dials[j], p.Dials[i] })
	points := []string{"reuse.identsent", "reuse.identified", "reuse.cachesent", "reuse.decide"}
	key := func(pt string, i int, in bool) string { return fmt.Sprintf("%s/%d/%v", pt, i, in) }
	switch profile := rng.Intn(6); profile {
	case 0, 1:
		// one class of negotiations is held back at one point, everything else runs freely:
		// by direction, by node, or both
		pt := points[rng.Intn(len(points))]
		hold := 25 + rng.Intn(40)
		byDir, dirIn := rng.Intn(3) != 0, rng.Intn(2) == 0
		byNode, nodeIdx := rng.Intn(3) == 0, rng.Intn(n)
		for i := 0; i < n; i++ {
			for _, in := range []bool{false, true} {
				if (byDir && in != dirIn) || (byNode && i != nodeIdx) {
					continue
				}
				p.Delays[key(pt, i, in)] = hold
			}
		}
		p.Profile = fmt.Sprintf("hold %s dir=%v/%v node=%v/%d", pt, byDir, dirIn, byNode, nodeIdx)
	default:
		p.Profile = "random"
		for _, pt := range points {
			for i := 0; i < n; i++ {
				for _, in := range []bool{false, true} {
					var d int
					switch rng.Intn(6) {
					case 0, 1, 2:
						d = 0
					case 3, 4:
						d = 1 + rng.Intn(5)
					default:
						d = 10 + rng.Intn(30)
					}
					if d > 0 {
						p.Delays[key(pt, i, in)] = d
					}
				}
			}
		}
	}
	return p
}

type groupResult struct {
	rounds int
	hung   string
}

func runGroup(r *ev.Run, gi, size, rounds int, tlsConf *tls.Config, samples *sampleBox) {
	ctx, cancel := context.WithCancel(context.Background())
	defer cancel()
	name := fmt.Sprintf("group%d", gi)
	rng := r.Rand(name)
	var nodes []*node
	g := &groupHooks{delay: map[string]time.Duration{}, pending: map[uint64]map[int]bool{}}
	for i := 0; i < size; i++ {
		n, err := newNode(ctx, i, tlsConf)
		if err != nil {
			r.Inconclusive(name + ": transport setup failed: " + err.Error())
			return
		}
		nodes = append(nodes, n)
		hooksMu.Lock()
		byAddr[n.addr] = &struct {
			g   *groupHooks
			idx int
		}{g, i}
		hooksMu.Unlock()
	}
	defer func() {
		for _, n := range nodes {
			hooksMu.Lock()
			delete(byAddr, n.addr)
			hooksMu.Unlock()
			n.close()
		}
	}()

	for ro := 0; ro < rounds; ro++ {
		cname := fmt.Sprintf("%s/round%d", name, ro)
		plan := makeRound(rng, size)
		reaped := map[string]bool{}
		before := map[string]pairState{}
		// --- prepare
		for i := 0; i < size; i++ {
			for j := i + 1; j < size; j++ {
				k := pairKey(i, j)
				switch prep := plan.Prep[k]; {
				case prep == "clear":
					nodes[i].tr.VerifReap(nodes[j].id)
					nodes[j].tr.VerifReap(nodes[i].id)
					st, ok, _ := settle(nodes[i], nodes[j])
					if !ok || st.A.Cached || st.B.Cached {
						// close propagation re-creates nothing; both sides must end empty
						if !ok {
							noteKey(r, "no-convergence-after-reap")
							r.Violation("no-convergence-after-reap", name, fmt.Sprintf("%s: after both sides dropped their cached connection the pair %s stayed in state [%s]", cname, k, st), nil)
							return
						}
						nodes[i].tr.VerifReap(nodes[j].id)
						nodes[j].tr.VerifReap(nodes[i].id)
						settle(nodes[i], nodes[j])
					}
				case strings.HasPrefix(prep, "reap:"):
					var x int
					fmt.Sscanf(prep, "reap:%d", &x)
					y := i + j - x
					nodes[x].tr.VerifReap(nodes[y].id) // no waiting: the other side may not have noticed yet
					reaped[k] = true
				}
				before[k] = observe(nodes[i], nodes[j])
			}
		}
		g.mu.Lock()
		g.events = nil
		g.reads = nil
		g.nodes = nodes
		g.delay = map[string]time.Duration{}
		for k, v := range plan.Delays {
			g.delay[k] = time.Duration(v) * time.Millisecond
		}
		g.mu.Unlock()

		// --- dial from a barrier
		results := make([]*dialResult, len(plan.Dials))
		barrier := make(chan struct{})
		var wg sync.WaitGroup
		// the context given to DialStream also governs the stream / datagram handlers of a
		// connection that this dial creates (handlePeer), so it must outlive the round: the
		// repository's own callers pass their long-lived base context too
		dctx := ctx
		for di, d := range plan.Dials {
			res := &dialResult{From: d[0], To: d[1]}
			results[di] = res
			wg.Add(1)
			go func() {
				defer wg.Done()
				<-barrier
				c, err := nodes[res.From].tr.DialStream(dctx, nodes[res.To].id, protocol.Stream_RPC)
				if err != nil {
					res.Err = err.Error()
					return
				}
				res.conn = c
			}()
		}
		close(barrier)
		done := make(chan struct{})
		go func() { wg.Wait(); close(done) }()
		select {
		case <-done:
		case <-time.After(120 * time.Second):
			r.Inconclusive(cname + ": DialStream calls did not return within 120 s")
			return
		}
		// --- quiescence + monitors
		g.mu.Lock()
		events := append([]hookEvent(nil), g.events...)
		reads := append([]readProbe(nil), g.reads...)
		g.mu.Unlock()
		var order []string
		for _, e := range events {
			d := "o"
			if e.Incoming {
				d = "i"
			}
			order = append(order, fmt.Sprintf("%s%d%s", short[e.Point], e.Node, d))
		}
		witness := func(extra any) any {
			return map[string]any{"plan": plan, "hook_order": order, "cache_reads": reads, "state_before": fmtStates(before), "dials": results, "detail": extra}
		}
		after := map[string]pairState{}
		bad := false
		for i := 0; i < size; i++ {
			for j := i + 1; j < size; j++ {
				k := pairKey(i, j)
				st, ok, _ := settle(nodes[i], nodes[j])
				after[k] = st
				if !ok {
					bad = true
					la, lb := st.A.Cached && st.A.Alive, st.B.Cached && st.B.Alive
					key, what := "", ""
					switch {
					case la && lb && st.A.ID != st.B.ID:
						key, what = "different-live-connections", "both peers cache a live connection for each other, but not the same one"
					case la && lb:
						key, what = "same-connection-same-direction", "both peers cache the same connection with the same direction"
					case la || lb:
						key, what = "one-sided-live-cache", "one peer caches a live connection that the other peer does not cache"
					default:
						key, what = "dead-connection-stays-cached", "a closed connection stays cached"
					}
					noteKey(r, key+":"+stateClass(before[k]))
					r.Violation(key+":"+stateClass(before[k]), name, fmt.Sprintf("%s pair %s: %s for %s: [%s] (before the round: [%s])", cname, k, what, badPersists, st, before[k]), witness(nil))
				}
			}
		}
		// M3: returned streams still echo
		nOK := 0
		for _, res := range results {
			if res.conn == nil {
				continue
			}
			nOK++
			k := pairKey(res.From, res.To)
			nonce := fmt.Sprintf("c41-%d-%d-%d-%d", gi, ro, res.From, res.To)
			res.conn.SetDeadline(time.Now().Add(5 * time.Second))
			_, err := res.conn.Write([]byte(nonce))
			if err == nil {
				buf := make([]byte, len(nonce))
				_, err = io.ReadFull(res.conn, buf)
				if err == nil && string(buf) != nonce {
					err = fmt.Errorf("echo mismatch %q", buf)
				}
			}
			if err != nil {
				res.EchoErr = err.Error()
				if ne, ok := err.(net.Error); ok && ne.Timeout() {
					r.Inconclusive(fmt.Sprintf("%s: echo on the stream %d->%d neither succeeded nor failed within 20 s", cname, res.From, res.To))
					fmt.Fprintf(os.Stderr, "ECHO-TIMEOUT %s %d->%d prep=%v dials=%v before=%v after=%v order=%v results=%+v\n", cname, res.From, res.To, plan.Prep, plan.Dials, fmtStates(before), fmtStates(after), order, results)
				} else if reaped[k] {
					r.Count("dontcare_dead_stream_in_reap_round", 1)
				} else {
					bad = true
					key := "returned-connection-closed:" + stateClass(before[k])
					if stateClass(before[k]) == "both-fresh" && crossDial(plan.Dials, res.From, res.To) {
						switch announced(reads, res.From, res.To, size) {
						case "all-fresh":
							// the simultaneous open in which all negotiations of the pair announce FRESH
							key = "all-fresh-cross:returned-connection-closed"
						case "open":
							// a read raced with a store, or (3-node group) the reads cannot be
							// attributed to this pair: the scenario cannot be named, so no verdict
							r.Count("dontcare_dead_stream_unattributable_negotiation_state", 1)
							res.conn.Close()
							continue
						}
					}
					noteKey(r, key)
					if key != "all-fresh-cross:returned-connection-closed" {
						fmt.Fprintf(os.Stderr, "OTHER-KEY %s %s %d->%d err=%v prep=%v dials=%v delays=%v before=%v after=%v order=%v\n", key, cname, res.From, res.To, err, plan.Prep, plan.Dials, plan.Delays, fmtStates(before), fmtStates(after), order)
					}
					r.Violation(key, name, fmt.Sprintf("%s: DialStream %d->%d returned a stream, but at quiescence its connection is closed (%v); pair state [%s], before [%s]", cname, res.From, res.To, err, after[k], before[k]), witness(nil))
				}
			}
			res.conn.Close()
		}
		// signature: the order of the negotiation steps
		sig := ""
		if len(events) > 0 {
			sig = strings.Join(order, ",")
		}
		r.Case(sig)
		r.Count("hook_events", int64(len(events)))
		r.Count("dials", int64(len(results)))
		r.Count("dials_returning_a_stream", int64(nOK))
		for k, p := range plan.Prep {
			r.Count("pair_rounds_prep_"+prepClass(p), 1)
			r.Count("pair_rounds_starting_"+stateClass(before[k]), 1)
			if st := after[k]; st.A.Cached && st.B.Cached {
				r.Count("pair_rounds_ending_with_shared_connection", 1)
			} else {
				r.Count("pair_rounds_ending_with_empty_caches", 1)
			}
		}
		samples.add(map[string]any{"round": cname, "plan": plan, "hook_order": order, "cache_reads": reads, "state_before": fmtStates(before), "state_after": fmtStates(after), "dials": results})
		_ = bad
	}
}

// crossDial: both peers of the pair dial each other in this round.
func crossDial(dials [][2]int, a, b int) bool {
	ab, ba := false, false
	for _, d := range dials {
		if d[0] == a && d[1] == b {
			ab = true
		}
		if d[0] == b && d[1] == a {
			ba = true
		}
	}
	return ab && ba
}

// stateClass names the cache state of a pair at the start of a round.
func stateClass(p pairState) string {
	switch {
	case !p.A.Cached && !p.B.Cached:
		return "both-fresh"
	case p.A.Cached && p.B.Cached && p.A.ID == p.B.ID:
		return "both-cached"
	}
	return "one-side-cached"
}

func prepClass(p string) string {
	if strings.HasPrefix(p, "reap") {
		return "one-side-reaped"
	}
	if p == "clear" {
		return "both-fresh"
	}
	return "kept"
}

func fmtStates(m map[string]pairState) map[string]string {
	out := map[string]string{}
	for k, v := range m {
		out[k] = v.String()
	}
	return out
}

var (
	keyMu  sync.Mutex
	keyCnt = map[string]int{}
)

func noteKey(r *ev.Run, key string) {
	r.Count("violation_key:"+key, 1)
	keyMu.Lock()
	keyCnt[key]++
	keyMu.Unlock()
}

type sampleBox struct {
	mu sync.Mutex
	v  []map[string]any
}

func (s *sampleBox) add(m map[string]any) {
	s.mu.Lock()
	if len(s.v) < 40 {
		s.v = append(s.v, m)
	}
	s.mu.Unlock()
}

func main() {
	r := ev.Start("C41", "exploration")
	r.SetRule("one case = one round of a group of 2 (thorough: 2 or 3) real QUIC transports on loopback: per pair a prepared cache state (kept from the previous round / both sides cleared / one side reaped without waiting) and one or both peers calling DialStream from a barrier, with seeded delays of 0..40 ms at the four reuseConnection hook points per (node, direction). Non-trivial: at least one negotiation ran. Distinct by the observed order of hook events (point, node, direction) of the round")
	r.Assume("interleavings are sampled (seeded delays + scheduler), not enumerated; the property's 'all interleavings of a decision-table model' is not covered")
	r.Assume("quiescence = pair state good and unchanged for 1.2 s; a bad state is reported only after it persisted for 12 s (a refused negotiation closes its connection 1 s later, close notifications travel over loopback UDP)")
	tlsConf, err := makeTLS()
	if err != nil {
		r.Inconclusive("tls setup: " + err.Error())
		r.Finish()
	}
	overlay.VerifSetHook(hook)
	groups := r.Pick(16, 48)
	roundsPer := r.Pick(12, 32)
	samples := &sampleBox{}
	var wg sync.WaitGroup
	sem := make(chan struct{}, 16)
	for gi := 0; gi < groups; gi++ {
		name := fmt.Sprintf("group%d", gi)
		if !r.WantCase(name) {
			continue
		}
		size := 2
		if !r.Quick() && gi%3 == 2 {
			size = 3
		}
		wg.Add(1)
		sem <- struct{}{}
		go func() {
			defer wg.Done()
			defer func() { <-sem }()
			runGroup(r, gi, size, roundsPer, tlsConf, samples)
		}()
	}
	wg.Wait()
	overlay.VerifSetHook(nil)
	samples.mu.Lock()
	sort.Slice(samples.v, func(i, j int) bool { return samples.v[i]["round"].(string) < samples.v[j]["round"].(string) })
	for i, s := range samples.v {
		if i >= 4 {
			break
		}
		r.Sample(s)
	}
	samples.mu.Unlock()
	fmt.Fprintln(os.Stderr, "KEYS", keyCnt)
	r.Finish()
}
