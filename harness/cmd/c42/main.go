// C42 — incoming streams are dispatched to the right handler.
//
// Real transport.StreamRouter over two scripted transports (channels the worker feeds).
// Every delegate carries a connection that records Close, every registered handler
// records which delegate it was given. Oracle (from the statement): a chord stream
// goes to the handler registered for (type, target id), else to the node-wide handler
// of that type, else it is closed; a tunnel stream goes to the handler of its type,
// else it is closed.
//
// "Was not closed" is decided logically, not by waiting: the router logs a warning
// before closing; the worker's zap core sees on which goroutine that happened and then
// parks that goroutine on a later "blocker" delegate — once the same goroutine has
// picked up a later delegate, its handling of the earlier one is over.
package main

import (
	"context"
	"fmt"
	"math/rand"
	"net"
	"runtime"
	"strings"
	"sync"
	"time"

	"verifharness/lab/ev"

	"go.miragespace.co/specter/spec/protocol"
	"go.miragespace.co/specter/spec/transport"

	"go.uber.org/zap"
	"go.uber.org/zap/zapcore"
)

const watchdog = 120 * time.Second

type fakeTransport struct {
	transport.Transport
	ch chan *transport.StreamDelegate
}

func (f *fakeTransport) AcceptStream() <-chan *transport.StreamDelegate { return f.ch }

// dinfo: everything observed about one delegate.
type dinfo struct {
	name   string
	mu     sync.Mutex
	events []string
	note   chan struct{}
}

func (d *dinfo) event(e string) {
	d.mu.Lock()
	d.events = append(d.events, e)
	d.mu.Unlock()
	select {
	case d.note <- struct{}{}:
	default:
	}
}

func (d *dinfo) snapshot() []string {
	d.mu.Lock()
	defer d.mu.Unlock()
	return append([]string(nil), d.events...)
}

type conn struct {
	net.Conn
	d *dinfo
}

func (c *conn) Close() error { c.d.event("closed"); return nil }

func gid() string {
	var b [64]byte
	n := runtime.Stack(b[:], false)
	f := strings.Fields(string(b[:n]))
	if len(f) >= 2 {
		return f[1]
	}
	return "?"
}

// core is the zap core given to the router: it tells the worker on which goroutine
// a "no handler" decision was logged, and parks goroutines on blocker delegates.
type core struct {
	mu       sync.Mutex
	warned   map[*protocol.Node]string        // delegate identity -> goroutine that logged about it
	blockers map[*protocol.Node]chan struct{} // identity of a blocker -> release
	entered  chan [2]string                   // (blocker name, goroutine)
	names    map[*protocol.Node]string
}

func (c *core) Enabled(zapcore.Level) bool        { return true }
func (c *core) With([]zapcore.Field) zapcore.Core { return c }
func (c *core) Sync() error                       { return nil }
func (c *core) Check(e zapcore.Entry, ce *zapcore.CheckedEntry) *zapcore.CheckedEntry {
	return ce.AddCore(e, c)
}
func (c *core) Write(_ zapcore.Entry, fields []zapcore.Field) error {
	for _, f := range fields {
		n, ok := f.Interface.(*protocol.Node)
		if !ok || n == nil {
			continue
		}
		g := gid()
		c.mu.Lock()
		c.warned[n] = g
		rel := c.blockers[n]
		name := c.names[n]
		c.mu.Unlock()
		if rel != nil {
			c.entered <- [2]string{name, g}
			<-rel
		}
	}
	return nil
}

type arrival struct {
	tunnel bool
	kind   protocol.Stream_Type
	id     uint64
}

type caseResult struct {
	name       string
	arrivals   int
	sigs       []string
	violations []viol
	inconcl    []string
	sample     map[string]any
	blockRuns  int
	all        []*dinfo
	expect     map[*dinfo]string
}

type viol struct {
	key, what string
	w         map[string]any
}

var kinds = []protocol.Stream_Type{protocol.Stream_UNKNOWN_TYPE, protocol.Stream_RPC, protocol.Stream_DIRECT, protocol.Stream_PROXY, protocol.Stream_INTERNAL, 77}
var ids = []uint64{0, 1, 2, 3, 1 << 47, 1<<48 - 1}

const blockerKind = protocol.Stream_Type(4242) // never registered

func runCase(name string, rng *rand.Rand) *caseResult {
	res := &caseResult{name: name, expect: map[*dinfo]string{}}
	co := &core{warned: map[*protocol.Node]string{}, blockers: map[*protocol.Node]chan struct{}{}, entered: make(chan [2]string, 64), names: map[*protocol.Node]string{}}
	logger := zap.New(co)
	ct := &fakeTransport{ch: make(chan *transport.StreamDelegate)}
	tt := &fakeTransport{ch: make(chan *transport.StreamDelegate)}
	router := transport.NewStreamRouter(logger, ct, tt)
	ctx, cancel := context.WithCancel(context.Background())
	defer cancel()
	router.Accept(ctx)

	// the model of what was registered: key -> names of the handlers registered for it
	virt := map[[2]uint64][]string{}
	phys := map[protocol.Stream_Type][]string{}
	tun := map[protocol.Stream_Type][]string{}
	gen := 0
	mkHandler := func(hname string) transport.StreamHandler {
		return func(d *transport.StreamDelegate) {
			d.Conn.(*conn).d.event("handled:" + hname)
		}
	}
	register := func(n int) {
		for i := 0; i < n; i++ {
			gen++
			k := kinds[rng.Intn(len(kinds))]
			switch rng.Intn(3) {
			case 0:
				id := ids[rng.Intn(len(ids))]
				h := fmt.Sprintf("virtual(%s,%d)#%d", k, id, gen)
				router.HandleChord(k, &protocol.Node{Id: id, Address: "10.0.0.1:1"}, mkHandler(h))
				virt[[2]uint64{uint64(k), id}] = append(virt[[2]uint64{uint64(k), id}], h)
			case 1:
				h := fmt.Sprintf("physical(%s)#%d", k, gen)
				router.HandleChord(k, nil, mkHandler(h))
				phys[k] = append(phys[k], h)
			default:
				h := fmt.Sprintf("tunnel(%s)#%d", k, gen)
				router.HandleTunnel(k, mkHandler(h))
				tun[k] = append(tun[k], h)
			}
		}
	}
	// expected outcome of an arrival: the admissible handler names, or nil = closed
	expected := func(a arrival) ([]string, string) {
		if a.tunnel {
			if h := tun[a.kind]; len(h) > 0 {
				return h, "tunnel/handler"
			}
			if len(phys[a.kind]) > 0 {
				return nil, "tunnel/none-but-chord-has-one"
			}
			return nil, "tunnel/none"
		}
		if h := virt[[2]uint64{uint64(a.kind), a.id}]; len(h) > 0 {
			if len(phys[a.kind]) > 0 {
				return h, "chord/virtual-over-physical"
			}
			return h, "chord/virtual"
		}
		otherVirt := false
		for k := range virt {
			if k[0] == uint64(a.kind) {
				otherVirt = true
			}
		}
		if h := phys[a.kind]; len(h) > 0 {
			if otherVirt {
				return h, "chord/fallback-physical"
			}
			return h, "chord/physical-only"
		}
		switch {
		case otherVirt:
			return nil, "chord/none-other-target-registered"
		case len(tun[a.kind]) > 0:
			return nil, "chord/none-but-tunnel-has-one"
		}
		return nil, "chord/none"
	}

	send := func(a arrival, label string) (*dinfo, *protocol.Node, bool) {
		d := &dinfo{name: label, note: make(chan struct{}, 8)}
		ident := &protocol.Node{Id: a.id, Address: label}
		del := &transport.StreamDelegate{Conn: &conn{d: d}, Identity: ident, Kind: a.kind}
		co.mu.Lock()
		co.names[ident] = label
		co.mu.Unlock()
		ch := ct.ch
		if a.tunnel {
			ch = tt.ch
		}
		select {
		case ch <- del:
			return d, ident, true
		case <-time.After(watchdog):
			res.inconcl = append(res.inconcl, name+": router did not take "+label+" within the watchdog")
			return d, ident, false
		}
	}
	// settle decides "nothing happened to d" soundly: park the goroutine that logged about d on a blocker.
	settle := func(a arrival, ident *protocol.Node, d *dinfo) (string, bool) {
		res.blockRuns++
		var releases []chan struct{}
		defer func() {
			for _, r := range releases {
				close(r)
			}
		}()
		for i := 0; i < 16; i++ {
			co.mu.Lock()
			g := co.warned[ident]
			co.mu.Unlock()
			if g == "" {
				// the decision has not even been logged yet: wait for that logical event
				t := time.NewTimer(watchdog)
				for g == "" {
					select {
					case <-t.C:
						return "the router never logged a decision about the stream", false
					case <-time.After(time.Millisecond):
					}
					if len(d.snapshot()) > 0 {
						return "", true // something did happen to the stream meanwhile
					}
					co.mu.Lock()
					g = co.warned[ident]
					co.mu.Unlock()
				}
				t.Stop()
			}
			rel := make(chan struct{})
			bl := fmt.Sprintf("blocker%d", i)
			bident := &protocol.Node{Id: 1, Address: bl}
			co.mu.Lock()
			co.blockers[bident] = rel
			co.names[bident] = bl
			co.mu.Unlock()
			releases = append(releases, rel)
			bd := &dinfo{name: bl, note: make(chan struct{}, 8)}
			ch := ct.ch
			if a.tunnel {
				ch = tt.ch
			}
			select {
			case ch <- &transport.StreamDelegate{Conn: &conn{d: bd}, Identity: bident, Kind: blockerKind}:
			case <-time.After(watchdog):
				return "no accept goroutine left to take a blocker", false
			}
			select {
			case e := <-co.entered:
				if e[1] == g {
					return "", true // the goroutine that handled the stream has moved on to a later one
				}
			case <-time.After(watchdog):
				return "blocker was taken but never logged", false
			}
		}
		return "the goroutine that logged the decision never took another stream", false
	}

	phase := func(nArr int, tag string) {
		for i := 0; i < nArr; i++ {
			a := arrival{tunnel: rng.Intn(3) == 0, kind: kinds[rng.Intn(len(kinds))], id: ids[rng.Intn(len(ids))]}
			label := fmt.Sprintf("%s-%s%d", name, tag, i)
			want, sig := expected(a)
			d, ident, ok := send(a, label)
			if !ok {
				return
			}
			res.arrivals++
			res.all = append(res.all, d)
			res.sigs = append(res.sigs, sig)
			wantS := "closed"
			if want != nil {
				wantS = "handled by one of " + strings.Join(want, ", ")
			}
			res.expect[d] = wantS
			w := map[string]any{"case": name, "arrival": map[string]any{"tunnel": a.tunnel, "type": a.kind.String(), "target_id": a.id}, "expected": wantS,
				"registered": map[string]any{"virtual": fmt.Sprint(virt), "physical": fmt.Sprint(phys), "tunnel": fmt.Sprint(tun)}}
			// first thing that happens to the delegate
			var first string
			select {
			case <-d.note:
				first = d.snapshot()[0]
			case <-time.After(300 * time.Millisecond):
				// nothing yet: if a close is expected, establish logically whether it can still come
				if want == nil {
					why, settled := settle(a, ident, d)
					if !settled {
						res.inconcl = append(res.inconcl, label+": "+why)
						continue
					}
					if ev := d.snapshot(); len(ev) > 0 {
						first = ev[0]
					} else {
						first = "nothing (not closed, no handler ran; the accepting goroutine has moved on)"
					}
				} else {
					select {
					case <-d.note:
						first = d.snapshot()[0]
					case <-time.After(watchdog):
						res.inconcl = append(res.inconcl, label+": no handler ran and nothing was closed within the watchdog")
						continue
					}
				}
			}
			w["observed"] = first
			if res.sample == nil && sig == "chord/fallback-physical" {
				res.sample = map[string]any{"case": name, "arrival": w["arrival"], "class": sig, "expected": wantS, "observed": first}
			}
			good := false
			if want == nil {
				good = first == "closed"
			} else {
				for _, h := range want {
					if first == "handled:"+h {
						good = true
					}
				}
			}
			if !good {
				res.violations = append(res.violations, viol{"dispatch:" + sig, fmt.Sprintf("%s stream type=%s target=%d: expected %s, observed %s", map[bool]string{true: "tunnel", false: "chord"}[a.tunnel], a.kind, a.id, wantS, first), w})
			}
		}
	}
	register(1 + rng.Intn(8))
	phase(6+rng.Intn(6), "a")
	register(1 + rng.Intn(5))
	phase(4+rng.Intn(6), "b")
	return res
}

func main() {
	r := ev.Start("C42", "exploration")
	r.SetRule("per case a fresh StreamRouter over two scripted transports; 2..13 seeded registrations in two rounds (virtual per (type,id), node-wide per type, tunnel per type; types = the 5 defined + an undefined one; ids from {0,1,2,3,2^47,2^48-1}) and 10..22 arrivals (chord (type,id) or tunnel type); distinct by arrival class: chord virtual / virtual-over-physical / fallback-physical / physical-only / none / none-other-target-registered / none-but-tunnel-has-one, tunnel handler / none / none-but-chord-has-one")
	n := r.Pick(1000, 100000)
	root := r.Rand("c42")
	seeds := make([]int64, n)
	for i := range seeds {
		seeds[i] = root.Int63()
	}
	results := make([]*caseResult, n)
	var wg sync.WaitGroup
	ch := make(chan int, n)
	for i := 0; i < n; i++ {
		ch <- i
	}
	close(ch)
	for w := 0; w < runtime.GOMAXPROCS(0); w++ {
		wg.Add(1)
		go func() {
			defer wg.Done()
			for i := range ch {
				name := fmt.Sprintf("case%d", i)
				if !r.WantCase(name) {
					continue
				}
				results[i] = runCase(name, rand.New(rand.NewSource(seeds[i])))
			}
		}()
	}
	wg.Wait()
	var arrivals, settles, double int64
	sampled := 0
	for _, res := range results {
		if res == nil {
			continue
		}
		for _, s := range res.sigs {
			r.Case(s)
		}
		arrivals += int64(res.arrivals)
		settles += int64(res.blockRuns)
		for _, v := range res.violations {
			r.Violation(v.key, res.name, v.what, v.w)
		}
		for _, s := range res.inconcl {
			r.Inconclusive(s)
		}
		if res.sample != nil && sampled < 4 {
			sampled++
			r.Sample(res.sample)
		}
		// late scan: nothing may have happened twice to a delegate
		for _, d := range res.all {
			if ev := d.snapshot(); len(ev) > 1 {
				double++
				r.Violation("dispatch:more-than-once", res.name, fmt.Sprintf("stream %s: %v (expected only: %s)", d.name, ev, res.expect[d]), nil)
			}
		}
	}
	r.Count("arrivals", arrivals)
	r.Count("blocker_protocol_runs", settles)
	r.Assume("registrations happen before the arrivals they are judged against; when a key was registered twice any handler registered for that key is admissible")
	r.Assume("the router logs (with the peer identity as a field) before closing an unroutable stream; without that log line an unclosed stream is reported as inconclusive, not as a violation")
	r.Finish()
}
