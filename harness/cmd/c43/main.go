// C43 — SyncConfigTunnels gives every tunnel with a target a distinct hostname, keeps
// configured hostnames, and reuses only dot-free registered hostnames that no tunnel uses
// before it asks for new ones.
//
// A real client.Client (configuration file in a scratch directory, no certificate) talks to a
// scripted TunnelService through its own twirp client over an in-memory transport. Each case
// is one SyncConfigTunnels call; the oracle looks only at what went in (tunnel list, set of
// registered hostnames) and what came out (tunnel list in memory, configuration file as
// re-read by the config reader, the server's call log).
package main

import (
	"fmt"
	"math/rand"
	"os"
	"path/filepath"
	"sort"
	"strings"

	"verifharness/lab/child"
	"verifharness/lab/ev"
	"verifharness/lab/tunclient"

	"go.miragespace.co/specter/tun/client"
)

type tun struct {
	Target   string `json:"target"`
	Hostname string `json:"hostname,omitempty"`
	Insecure bool   `json:"insecure,omitempty"`
	Mode     string `json:"headerMode,omitempty"`
	Host     string `json:"headerHost,omitempty"`
}

func toClient(ts []tun) []client.Tunnel {
	out := make([]client.Tunnel, len(ts))
	for i, t := range ts {
		out[i] = client.Tunnel{Target: t.Target, Hostname: t.Hostname, Insecure: t.Insecure, ProxyHeaderMode: t.Mode, ProxyHeaderHost: t.Host}
	}
	return out
}

func fromClient(ts []client.Tunnel) []tun {
	out := make([]tun, len(ts))
	for i, t := range ts {
		out[i] = tun{Target: t.Target, Hostname: t.Hostname, Insecure: t.Insecure, Mode: t.ProxyHeaderMode, Host: t.ProxyHeaderHost}
	}
	return out
}

type gen struct {
	rng  *rand.Rand
	used map[string]bool
	n    int
}

func (g *gen) dotfree() string {
	for {
		b := make([]byte, 4+g.rng.Intn(6))
		for i := range b {
			b[i] = "abcdefghijklmnopqrstuvwxyz0123456789"[g.rng.Intn(36)]
		}
		s := string(b)
		if !g.used[s] {
			g.used[s] = true
			return s
		}
	}
}

func (g *gen) dotted() string {
	for {
		s := fmt.Sprintf("%s.%s", g.dotfree(), []string{"example.com", "corp.internal", "a.b.c.example.org"}[g.rng.Intn(3)])
		if !g.used[s] {
			g.used[s] = true
			return s
		}
	}
}

func (g *gen) target() string {
	g.n++
	switch g.rng.Intn(5) {
	case 0:
		return fmt.Sprintf("tcp://127.0.0.1:%d", 2000+g.n)
	case 1:
		return fmt.Sprintf("https://10.1.2.%d:8443", g.n%250)
	case 2:
		return fmt.Sprintf("unix:///tmp/nonexistent-%d.sock", g.n)
	default:
		return fmt.Sprintf("http://127.0.0.1:%d", 3000+g.n)
	}
}

func (g *gen) newTunnel(pool []string) tun {
	t := tun{Target: g.target()}
	switch g.rng.Intn(10) {
	case 0, 1, 2, 3, 4:
		// no hostname
	case 5:
		// a registered hostname (dot-free or dotted) that nobody uses yet
		if len(pool) > 0 {
			t.Hostname = pool[g.rng.Intn(len(pool))]
		}
	case 6:
		t.Hostname = g.dotfree() // dot-free, not registered
	default:
		t.Hostname = g.dotted()
	}
	if strings.HasPrefix(t.Target, "http") {
		switch g.rng.Intn(5) {
		case 0:
			t.Mode = "hostname"
		case 1:
			t.Mode, t.Host = "custom", "inner.example"
		case 2:
			t.Insecure = true
		}
	}
	return t
}

type round struct {
	Input      []tun    `json:"input"`
	Registered []string `json:"registered"`
	Output     []tun    `json:"output"`
	Generated  []string `json:"generated"`
	Published  []string `json:"published"`
	GenFault   string   `json:"generate_fault,omitempty"` // which GenerateHostname calls were scripted to fail
	GenFailed  int      `json:"generate_failed"`
}

func main() {
	r := ev.Start("C43", "exploration")
	r.SetRule("one case = one SyncConfigTunnels of a real client: 0..8 tunnels accepted by the config validator (http/https/tcp/unix targets, header options), hostnames empty / dot-free registered / dot-free unregistered / dotted, no duplicates; 0..7 registered hostnames on the scripted server (dot-free and dotted, used and unused by the configuration); fresh GenerateHostname results that become registered. Up to 3 rounds per client: later rounds edit the list through RebuildTunnels (remove, add, blank a hostname) and may register more names; in a third of the synchronisations GenerateHostname is scripted to fail (always, from the k-th call, only the k-th call). Non-trivial: at least one tunnel needed a hostname. Distinct by (round, tunnels needing a name, relation needed vs reusable, unused dotted registered present, registered name in use present, configured hostnames present, hostname request failed before or after an assignment)")
	r.Assume("the scripted server is well-behaved: RPCs succeed, registered hostnames are distinct, generated hostnames are fresh; configurations with duplicate hostnames are outside the property")
	dir, err := os.MkdirTemp(child.WorkDir(), "c43-")
	if err != nil {
		r.Inconclusive("scratch dir: " + err.Error())
		r.Finish()
	}
	defer os.RemoveAll(dir)
	nClients := r.Pick(500, 10000)
	caseNo := 0
	for ci := 0; ci < nClients; ci++ {
		name := fmt.Sprintf("client%d", ci)
		if !r.WantCase(name) {
			continue
		}
		rng := r.Rand(name)
		g := &gen{rng: rng, used: map[string]bool{}}
		// registered set
		var registered []string
		for i, n := 0, rng.Intn(8); i < n; i++ {
			if rng.Intn(3) == 0 {
				registered = append(registered, g.dotted())
			} else {
				registered = append(registered, g.dotfree())
			}
		}
		// tunnels
		var tunnels []tun
		pool := append([]string(nil), registered...)
		for i, n := 0, rng.Intn(9); i < n; i++ {
			t := g.newTunnel(pool)
			if t.Hostname != "" {
				for j, p := range pool {
					if p == t.Hostname {
						pool = append(pool[:j], pool[j+1:]...)
						break
					}
				}
			}
			tunnels = append(tunnels, t)
		}
		path := filepath.Join(dir, fmt.Sprintf("client-%d.yaml", ci))
		if err := tunclient.WriteConfig(path, toClient(tunnels)); err != nil {
			r.Inconclusive("write config: " + err.Error())
			break
		}
		svc := &tunclient.Service{Prefix: fmt.Sprintf("gen%dx", ci)}
		svc.SetRegistered(registered)
		rig, err := tunclient.New(path, svc, nil, nil)
		if err != nil {
			r.Violation("config-rejected", name, "a generated configuration was rejected by the reader: "+err.Error(), tunnels)
			continue
		}
		rounds := 1 + rng.Intn(3)
		for ro := 0; ro < rounds; ro++ {
			if ro > 0 {
				// edit the configuration the way the API does, maybe register more names
				cur := fromClient(rig.Client.GetCurrentConfig().Tunnels)
				var next []tun
				for _, t := range cur {
					switch rng.Intn(6) {
					case 0: // removed (its hostname stays registered on the server)
						continue
					case 1: // the user blanks the hostname
						t.Hostname = ""
					}
					next = append(next, t)
				}
				regNow, _, _, _ := svc.Snapshot()
				inUse := map[string]bool{}
				for _, t := range next {
					inUse[t.Hostname] = true
				}
				var free []string
				for _, h := range regNow {
					if !inUse[h] {
						free = append(free, h)
					}
				}
				for i, n := 0, rng.Intn(4); i < n; i++ {
					t := g.newTunnel(free)
					if t.Hostname != "" {
						if inUse[t.Hostname] {
							t.Hostname = ""
						}
						inUse[t.Hostname] = true
					}
					next = append(next, t)
				}
				if rng.Intn(3) == 0 {
					regNow = append(regNow, g.dotfree())
					if rng.Intn(2) == 0 {
						regNow = append(regNow, g.dotted())
					}
					svc.SetRegistered(regNow)
				}
				rig.Client.RebuildTunnels(toClient(next))
			}
			in := fromClient(rig.Client.GetCurrentConfig().Tunnels)
			regBefore, _, _, _ := svc.Snapshot()
			svc.ResetLog()
			// in a third of the synchronisations the server refuses some hostname requests
			fault := ""
			switch rng.Intn(9) {
			case 0:
				fault = "always"
				svc.SetGenFail(func(int) bool { return true })
			case 1:
				k := 1 + rng.Intn(4)
				fault = fmt.Sprintf("from call %d", k)
				svc.SetGenFail(func(n int) bool { return n >= k })
			case 2:
				k := 1 + rng.Intn(4)
				fault = fmt.Sprintf("only call %d", k)
				svc.SetGenFail(func(n int) bool { return n == k })
			default:
				svc.SetGenFail(nil)
			}
			rig.Client.SyncConfigTunnels(rig.Ctx)
			out := fromClient(rig.Client.GetCurrentConfig().Tunnels)
			_, generated, published, calls := svc.Snapshot()
			rd := round{Input: in, Registered: regBefore, Output: out, Generated: generated, Published: published, GenFault: fault, GenFailed: svc.Failed()}
			svc.SetGenFail(nil)
			caseNo++
			cname := fmt.Sprintf("%s/round%d", name, ro)
			judge(r, cname, name, ro, rd, calls, path)
			if caseNo <= 3 {
				r.Sample(rd)
			}
		}
		rig.Close()
		os.Remove(path)
	}
	r.Finish()
}

func judge(r *ev.Run, cname, replay string, ro int, rd round, calls []string, path string) {
	bad := func(key, format string, a ...any) {
		r.Violation(key, replay, cname+": "+fmt.Sprintf(format, a...), rd)
	}
	in, out := rd.Input, rd.Output
	registered := map[string]bool{}
	for _, h := range rd.Registered {
		registered[h] = true
	}
	configured := map[string]bool{}
	needed := 0
	for _, t := range in {
		if t.Hostname != "" {
			configured[t.Hostname] = true
		} else if t.Target != "" {
			needed++
		}
	}
	var reusable []string
	unusedDotted, usedRegistered := false, false
	for _, h := range rd.Registered {
		switch {
		case configured[h]:
			usedRegistered = true
		case strings.Contains(h, "."):
			unusedDotted = true
		default:
			reusable = append(reusable, h)
		}
	}
	sort.Strings(reusable)
	rel := "="
	if needed < len(reusable) {
		rel = "<"
	} else if needed > len(reusable) {
		rel = ">"
	}
	sig := ""
	if needed > 0 {
		nb := needed
		if nb > 3 {
			nb = 3
		}
		fk := "ok"
		if rd.GenFailed > 0 {
			fk = "genfail-first"
			if len(rd.Generated) > 0 || len(reusable) > 0 {
				fk = "genfail-after-assignment"
			}
		}
		sig = fmt.Sprintf("r%d/n%d/%s/ud%v/ur%v/c%v/%s", ro, nb, rel, unusedDotted, usedRegistered, len(configured) > 0, fk)
	}
	r.Case(sig)
	r.Count("tunnels_needing_hostname", int64(needed))
	r.Count("generate_calls", int64(len(rd.Generated)))
	r.Count("generate_calls_failed_by_script", int64(rd.GenFailed))
	if rd.GenFailed > 0 {
		r.Count("syncs_with_failed_hostname_request", 1)
	}

	if len(out) != len(in) {
		bad("tunnel-count-changed", "the synchronised list has %d tunnels, the configuration had %d", len(out), len(in))
		return
	}
	seen := map[string]int{}
	generated := map[string]bool{}
	for _, h := range rd.Generated {
		generated[h] = true
	}
	reusableSet := map[string]bool{}
	for _, h := range reusable {
		reusableSet[h] = true
	}
	reused := 0
	nameless := 0
	for i := range in {
		a, b := in[i], out[i]
		if a.Target != b.Target || a.Insecure != b.Insecure || a.Mode != b.Mode || a.Host != b.Host {
			bad("tunnel-changed", "tunnel %d changed other than in its hostname: %+v -> %+v", i, a, b)
		}
		if a.Hostname != "" && b.Hostname != a.Hostname {
			bad("configured-hostname-not-kept", "tunnel %d was configured with hostname %q and now has %q", i, a.Hostname, b.Hostname)
		}
		if b.Target != "" && b.Hostname == "" {
			nameless++
			if rd.GenFailed == 0 {
				bad("tunnel-without-hostname", "tunnel %d (target %s) has no hostname after the synchronisation", i, b.Target)
			}
			continue
		}
		if j, dup := seen[b.Hostname]; dup && b.Hostname != "" {
			bad("hostname-shared", "tunnels %d and %d share the hostname %q", j, i, b.Hostname)
		}
		seen[b.Hostname] = i
		if a.Hostname == "" && b.Hostname != "" {
			switch {
			case reusableSet[b.Hostname]:
				reused++
			case generated[b.Hostname]:
			case registered[b.Hostname] && strings.Contains(b.Hostname, "."):
				bad("custom-hostname-reused", "tunnel %d received the registered custom hostname %q", i, b.Hostname)
			case registered[b.Hostname]:
				bad("in-use-hostname-reused", "tunnel %d received the registered hostname %q that another tunnel is configured with", i, b.Hostname)
			default:
				bad("hostname-from-nowhere", "tunnel %d received hostname %q which is neither registered nor was generated in this synchronisation", i, b.Hostname)
			}
		}
	}
	wantReused := needed
	if len(reusable) < needed {
		wantReused = len(reusable)
	}
	wantGenerated := needed - wantReused
	if rd.GenFailed > 0 {
		// some hostname requests were refused: tunnels may stay without a hostname, but only
		// as many as requests failed, and reuse still comes first
		if nameless > rd.GenFailed {
			bad("tunnel-without-hostname", "%d tunnels have no hostname although only %d hostname requests failed", nameless, rd.GenFailed)
		}
		if len(rd.Generated)+rd.GenFailed > wantGenerated {
			bad("generate-count", "%d tunnels needed a hostname, %d could be reused, yet GenerateHostname was called %d times (calls: %v)", needed, len(reusable), len(rd.Generated)+rd.GenFailed, calls)
		}
	} else if len(rd.Generated) != wantGenerated {
		bad("generate-count", "%d tunnels needed a hostname and %d unused dot-free registered hostnames were available, so %d new hostnames were to be requested, but GenerateHostname was called %d times (calls: %v)", needed, len(reusable), wantGenerated, len(rd.Generated), calls)
	}
	if reused != wantReused {
		bad("reuse-count", "%d of the %d available unused dot-free registered hostnames were reused, expected %d", reused, len(reusable), wantReused)
	}
	// the written configuration is the same list
	cfg, err := client.NewConfig(path)
	if err != nil {
		bad("written-config-unreadable", "the configuration written by the synchronisation is rejected by the reader: %v", err)
		return
	}
	file := fromClient(cfg.Tunnels)
	if fmt.Sprint(file) != fmt.Sprint(out) {
		bad("written-config-differs", "the configuration file holds %v, the client holds %v", file, out)
	}
}
