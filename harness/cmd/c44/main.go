// C44 — after a configuration change, traffic follows the current configuration.
//
// A real client.Client (started, with its local API server) over a scripted TunnelService.
// Targets are loopback HTTP / HTTPS (self-signed) / TCP servers that answer with their own
// id and the Host header they saw. Each client goes through 1..3 seeded configuration
// changes, applied through RebuildTunnels or through a real reload (new file + POST
// /api/reload). In a seeded part of the steps another goroutine delivers an incoming
// connection exactly at the verif hook between proxy invalidation and router rebuild.
//
// Oracle, evaluated after the change has completed, from the configuration documentation
// only: a new connection for every configured hostname reaches the currently configured
// target, with the documented Host header and TLS-verification behaviour; a connection for
// a hostname that is no longer configured is refused; no HTTP proxy stays cached for a
// hostname that is not routed.
package main

import (
	"bufio"
	"context"
	"encoding/json"
	"fmt"
	"io"
	"log"
	"math/rand"
	"net"
	"net/http"
	"net/http/httptest"
	"net/url"
	"os"
	"path/filepath"
	"sort"
	"strings"
	"sync"
	"time"

	"verifharness/lab/child"
	"verifharness/lab/ev"
	"verifharness/lab/tunclient"

	"go.miragespace.co/specter/spec/protocol"
	"go.miragespace.co/specter/spec/rpc"
	"go.miragespace.co/specter/tun/client"
	"go.miragespace.co/specter/util/bufconn"
)

// ---------------------------------------------------------------- targets

type target struct {
	ID     string
	Scheme string // http https tcp
	URL    string
	Host   string // host:port
}

type targetReply struct {
	ID   string `json:"id"`
	Host string `json:"host"`
	Path string `json:"path"`
}

// targetBase strips the path prefix a tunnel target may carry (http://host:port/v1 -> http://host:port).
func targetBase(tg string) (base, prefix string) {
	if i := strings.Index(tg, "://"); i >= 0 {
		if j := strings.Index(tg[i+3:], "/"); j >= 0 {
			return tg[:i+3+j], tg[i+3+j:]
		}
	}
	return tg, ""
}

func startTargets() (ts []target, stop func()) {
	var closers []func()
	mk := func(id string) http.Handler {
		return http.HandlerFunc(func(w http.ResponseWriter, r *http.Request) {
			w.Header().Set("X-Target-Id", id)
			w.Header().Set("Connection", "close")
			json.NewEncoder(w).Encode(targetReply{ID: id, Host: r.Host, Path: r.URL.Path})
		})
	}
	for i := 0; i < 5; i++ {
		id := fmt.Sprintf("H%d", i)
		s := httptest.NewServer(mk(id))
		u, _ := url.Parse(s.URL)
		ts = append(ts, target{ID: id, Scheme: "http", URL: s.URL, Host: u.Host})
		closers = append(closers, s.Close)
	}
	for i := 0; i < 2; i++ {
		id := fmt.Sprintf("S%d", i)
		s := httptest.NewUnstartedServer(mk(id))
		s.Config.ErrorLog = log.New(io.Discard, "", 0)
		s.StartTLS()
		u, _ := url.Parse(s.URL)
		ts = append(ts, target{ID: id, Scheme: "https", URL: s.URL, Host: u.Host})
		closers = append(closers, s.Close)
	}
	for i := 0; i < 2; i++ {
		id := fmt.Sprintf("T%d", i)
		ln, err := net.Listen("tcp", "127.0.0.1:0")
		if err != nil {
			panic(err)
		}
		go func() {
			for {
				c, err := ln.Accept()
				if err != nil {
					return
				}
				go func() {
					fmt.Fprintf(c, "%s\n", id)
					c.Close()
				}()
			}
		}()
		ts = append(ts, target{ID: id, Scheme: "tcp", URL: "tcp://" + ln.Addr().String(), Host: ln.Addr().String()})
		closers = append(closers, func() { ln.Close() })
	}
	return ts, func() {
		for _, c := range closers {
			c()
		}
	}
}

// ---------------------------------------------------------------- model of a tunnel entry

type tun struct {
	Hostname string `json:"hostname"`
	Target   string `json:"target"`
	Insecure bool   `json:"insecure,omitempty"`
	Mode     string `json:"headerMode,omitempty"`
	Host     string `json:"headerHost,omitempty"`
	Timeout  int    `json:"headerTimeoutSec,omitempty"`
}

func toClient(ts []tun) []client.Tunnel {
	out := make([]client.Tunnel, len(ts))
	for i, t := range ts {
		out[i] = client.Tunnel{Target: t.Target, Hostname: t.Hostname, Insecure: t.Insecure, ProxyHeaderMode: t.Mode, ProxyHeaderHost: t.Host, ProxyHeaderTimeout: time.Duration(t.Timeout) * time.Second}
	}
	return out
}

// expectation for a new connection, from config.example.yaml:
//
//	headerMode ""       : target host:port unless headerHost is set
//	           hostname : the tunnel's hostname (no apex is known to this client)
//	           custom   : headerHost
//	           target   : target host:port
//	insecure            : skip TLS verification to the upstream (the https targets are self-signed)
type expect struct {
	Link     string `json:"link"` // http | tcp
	Served   bool   `json:"served"`
	ID       string `json:"id"`
	HostSeen string `json:"host_seen,omitempty"`
	PathSeen string `json:"path_seen,omitempty"`
}

func expectation(t tun, byURL map[string]target) expect {
	base, prefix := targetBase(t.Target)
	tg := byURL[base]
	e := expectation0(t, tg)
	if e.Link == "http" && e.Served {
		e.PathSeen = strings.TrimSuffix(prefix, "/") + "/probe"
	}
	return e
}

func expectation0(t tun, tg target) expect {
	switch tg.Scheme {
	case "tcp":
		return expect{Link: "tcp", Served: true, ID: tg.ID}
	case "https":
		if !t.Insecure {
			return expect{Link: "http", Served: false}
		}
	}
	host := tg.Host
	switch t.Mode {
	case "":
		if t.Host != "" {
			host = t.Host
		}
	case "hostname":
		host = t.Hostname
	case "custom":
		host = t.Host
	case "target":
	}
	return expect{Link: "http", Served: true, ID: tg.ID, HostSeen: host}
}

// ---------------------------------------------------------------- probing

type probeResult struct {
	Refused  bool   `json:"refused,omitempty"`
	Served   bool   `json:"served,omitempty"`
	ID       string `json:"id,omitempty"`
	HostSeen string `json:"host_seen,omitempty"`
	PathSeen string `json:"path_seen,omitempty"`
	Status   int    `json:"status,omitempty"`
	Err      string `json:"err,omitempty"`
	TimedOut bool   `json:"timed_out,omitempty"`
}

var probeTimeout = 30 * time.Second

func probe(ctx context.Context, c *client.Client, hostname, link string) probeResult {
	c1, c2 := bufconn.BufferedPipe(8192)
	defer c2.Close()
	alpn := protocol.Link_HTTP
	if link == "tcp" {
		alpn = protocol.Link_TCP
	}
	if err := c.VerifHandleIncoming(ctx, &protocol.Link{Alpn: alpn, Hostname: hostname, Remote: "198.51.100.7:4321"}, c1); err != nil {
		return probeResult{Refused: true, Err: err.Error()}
	}
	c2.SetDeadline(time.Now().Add(probeTimeout))
	isTimeout := func(err error) bool {
		ne, ok := err.(net.Error)
		return ok && ne.Timeout()
	}
	if link == "tcp" {
		st := &protocol.TunnelStatus{}
		if err := rpc.BoundedReceive(c2, st, 4096); err != nil {
			return probeResult{Err: "status: " + err.Error(), TimedOut: isTimeout(err)}
		}
		if st.GetStatus() != protocol.TunnelStatusCode_STATUS_OK {
			return probeResult{Err: "tunnel status: " + st.GetError()}
		}
		line, err := bufio.NewReader(c2).ReadString('\n')
		if err != nil {
			return probeResult{Err: "read: " + err.Error(), TimedOut: isTimeout(err)}
		}
		return probeResult{Served: true, ID: strings.TrimSpace(line)}
	}
	if _, err := fmt.Fprintf(c2, "GET /probe HTTP/1.1\r\nHost: %s\r\nConnection: close\r\n\r\n", hostname); err != nil {
		return probeResult{Err: "write: " + err.Error(), TimedOut: isTimeout(err)}
	}
	resp, err := http.ReadResponse(bufio.NewReader(c2), nil)
	if err != nil {
		return probeResult{Err: "response: " + err.Error(), TimedOut: isTimeout(err)}
	}
	defer resp.Body.Close()
	body, _ := io.ReadAll(io.LimitReader(resp.Body, 4096))
	res := probeResult{Status: resp.StatusCode}
	if id := resp.Header.Get("X-Target-Id"); id != "" {
		var tr targetReply
		_ = json.Unmarshal(body, &tr)
		res.Served, res.ID, res.HostSeen, res.PathSeen = true, id, tr.Host, tr.Path
	}
	return res
}

// ---------------------------------------------------------------- hook

type windowConn struct {
	Step     int         `json:"step"`
	Point    string      `json:"point"`
	Hostname string      `json:"hostname"`
	OldRoute tun         `json:"old_route"`
	Result   probeResult `json:"result"`
	InWindow bool        `json:"finished_inside_window"`
}

type hookState struct {
	mu      sync.Mutex
	armed   string // point to fire at ("" = none)
	fire    func() // runs the window connections (in another goroutine)
	hits    map[string]int
	fired   bool
	pending chan struct{}
}

var hs = &hookState{hits: map[string]int{}}

// windowWait bounds how long the rebuild is held for the window connection. On a tree where
// incoming connections wait for the configuration lock the connection cannot finish inside
// the window; it then completes after the change. Nothing is judged on this.
var windowWait = 200 * time.Millisecond

func hook(point string) {
	hs.mu.Lock()
	hs.hits[point]++
	if hs.armed != point || hs.fired {
		hs.mu.Unlock()
		return
	}
	hs.fired = true
	fire := hs.fire
	done := make(chan struct{})
	hs.pending = done
	hs.mu.Unlock()
	go func() { defer close(done); fire() }()
	select {
	case <-done:
	case <-time.After(windowWait):
	}
}

// ---------------------------------------------------------------- generation

type gen struct {
	rng     *rand.Rand
	targets []target
	n       int
}

func (g *gen) hostname() string {
	g.n++
	if g.rng.Intn(3) == 0 {
		return fmt.Sprintf("app%d.custom.example", g.n)
	}
	return fmt.Sprintf("auto%dx%d", g.n, g.rng.Intn(1000))
}

func (g *gen) options(t *tun) {
	t.Insecure, t.Mode, t.Host, t.Timeout = false, "", "", 0
	tg := t.Target
	if strings.HasPrefix(tg, "tcp") {
		return
	}
	if strings.HasPrefix(tg, "https") {
		t.Insecure = g.rng.Intn(4) != 0
	} else if g.rng.Intn(6) == 0 {
		t.Insecure = true
	}
	switch g.rng.Intn(6) {
	case 0:
		t.Mode = "hostname"
	case 1:
		t.Mode, t.Host = "custom", fmt.Sprintf("inner%d.example", g.rng.Intn(4))
	case 2:
		t.Mode = "target"
	case 3:
		t.Host = fmt.Sprintf("override%d.example", g.rng.Intn(4))
	}
	if g.rng.Intn(5) == 0 {
		t.Timeout = 5 + g.rng.Intn(20)
	}
}

var pathPrefixes = []string{"", "", "/v1", "/v2", "/a/b", "/a/c/"}

// withPrefix gives an http(s) target a path prefix (tcp targets have none).
func (g *gen) withPrefix(u string) string {
	if strings.HasPrefix(u, "tcp") {
		return u
	}
	return u + pathPrefixes[g.rng.Intn(len(pathPrefixes))]
}

func (g *gen) tunnel() tun {
	t := tun{Hostname: g.hostname(), Target: g.withPrefix(g.targets[g.rng.Intn(len(g.targets))].URL)}
	g.options(&t)
	return t
}

// mutate returns the next configuration and a description of what changed per hostname.
func (g *gen) mutate(cur []tun) (next []tun, changes map[string]string) {
	changes = map[string]string{}
	for _, t := range cur {
		switch g.rng.Intn(8) {
		case 0:
			changes[t.Hostname] = "removed"
			continue
		case 1, 2:
			old := t.Target
			if base, _ := targetBase(old); !strings.HasPrefix(old, "tcp") && g.rng.Intn(3) == 0 {
				// same scheme, host and port: only the path of the target changes
				for i := 0; i < 20 && t.Target == old; i++ {
					t.Target = g.withPrefix(base)
				}
				if t.Target != old {
					changes[t.Hostname] = "target-path"
					break
				}
			}
			for t.Target == old {
				t.Target = g.withPrefix(g.targets[g.rng.Intn(len(g.targets))].URL)
			}
			keep := t
			g.options(&t)
			if g.rng.Intn(2) == 0 && !strings.HasPrefix(t.Target, "tcp") && !strings.HasPrefix(old, "tcp") && strings.HasPrefix(t.Target, "https") == strings.HasPrefix(old, "https") {
				t.Insecure, t.Mode, t.Host, t.Timeout = keep.Insecure, keep.Mode, keep.Host, keep.Timeout
			}
			changes[t.Hostname] = "target"
		case 3:
			if strings.HasPrefix(t.Target, "tcp") {
				break
			}
			old := t
			for i := 0; i < 10 && old == t; i++ {
				g.options(&t)
			}
			if old != t {
				changes[t.Hostname] = "options"
			}
		}
		next = append(next, t)
	}
	for i, n := 0, g.rng.Intn(3); i < n; i++ {
		t := g.tunnel()
		// sometimes a hostname that was removed earlier comes back with another target
		next = append(next, t)
		changes[t.Hostname] = "added"
	}
	if len(next) > 1 && g.rng.Intn(4) == 0 {
		g.rng.Shuffle(len(next), func(i, j int) { next[i], next[j] = next[j], next[i] })
	}
	return
}

// ---------------------------------------------------------------- main

type stepRecord struct {
	Step    int               `json:"step"`
	Method  string            `json:"method"`
	Changes map[string]string `json:"changes"`
	Config  []tun             `json:"config"`
	Window  []windowConn      `json:"window_connections,omitempty"`
}

func main() {
	r := ev.Start("C44", "exploration")
	r.SetRule("one case = one configuration change of a started real client: 1..6 tunnels over 9 loopback targets (5 http, 2 https self-signed, 2 tcp) with seeded options (insecure, headerMode, headerHost, headerTimeout); the change removes / retargets / re-options / adds tunnels (sometimes re-adding a hostname removed earlier) and is applied by RebuildTunnels or by rewriting the file and POST /api/reload, or (a fifth of the steps) one tunnel at any position of the list is taken out through UnpublishTunnel / ReleaseTunnel; proxies are warm from the previous probes; in about half of the steps 1..2 incoming connections for hostnames of the old configuration are delivered from another goroutine at the hook between proxy invalidation and router rebuild. After the change every configured hostname and every hostname configured earlier is probed with a new connection. Non-trivial: the change touched at least one hostname. Distinct by (method, kinds of change present, window connection delivered / finished inside the window, window hostname's kind of change)")
	r.Assume("the window connection itself is not judged (it is concurrent with the change); whether it finished inside the window is recorded")
	r.Assume("expected Host header and TLS behaviour are taken from tun/client/config.example.yaml; headerTimeout changes are applied but their effect is not observed")
	targets, stopTargets := startTargets()
	defer stopTargets()
	byURL := map[string]target{}
	for _, t := range targets {
		byURL[t.URL] = t
	}
	dir, err := os.MkdirTemp(child.WorkDir(), "c44-")
	if err != nil {
		r.Inconclusive("scratch dir: " + err.Error())
		r.Finish()
	}
	defer os.RemoveAll(dir)
	client.VerifSetHook(hook)

	nClients := r.Pick(120, 1500)
	httpc := &http.Client{Timeout: 60 * time.Second, Transport: &http.Transport{DisableKeepAlives: true}}
	sampled := 0
	windowsDelivered, windowsInside, staleSeen := 0, 0, 0
	for ci := 0; ci < nClients; ci++ {
		name := fmt.Sprintf("client%d", ci)
		if !r.WantCase(name) {
			continue
		}
		rng := r.Rand(name)
		g := &gen{rng: rng, targets: targets}
		var cur []tun
		for i, n := 0, 1+rng.Intn(5); i < n; i++ {
			cur = append(cur, g.tunnel())
		}
		path := filepath.Join(dir, fmt.Sprintf("client-%d.yaml", ci))
		if err := tunclient.WriteConfig(path, toClient(cur)); err != nil {
			r.Inconclusive("write config: " + err.Error())
			break
		}
		ln, err := net.Listen("tcp", "127.0.0.1:0")
		if err != nil {
			r.Inconclusive("listen: " + err.Error())
			break
		}
		svc := &tunclient.Service{Prefix: fmt.Sprintf("gen%dx", ci)}
		rig, err := tunclient.New(path, svc, nil, func(cc *client.ClientConfig) { cc.ServerListener = ln })
		if err != nil {
			ln.Close()
			r.Violation("config-rejected", name, "a generated configuration was rejected: "+err.Error(), cur)
			continue
		}
		rig.Client.SyncConfigTunnels(rig.Ctx) // builds the router, as Initialize does
		rig.Client.Start(rig.Ctx)
		everConfigured := map[string]bool{}
		lastLink := map[string]string{}
		windowHistory := map[string][]windowConn{} // hostname -> window connections so far
		var history []stepRecord
		abort := false

		judgeAll := func(step int, cname string) {
			curBy := map[string]tun{}
			for _, t := range cur {
				curBy[t.Hostname] = t
				everConfigured[t.Hostname] = true
			}
			var hosts []string
			for h := range everConfigured {
				hosts = append(hosts, h)
			}
			sort.Strings(hosts)
			witness := func(extra any) any {
				return map[string]any{"history": history, "observation": extra}
			}
			// a failure is attributed to the known window race iff a window connection for that
			// hostname was delivered earlier and what is observed now is what the route of that
			// moment prescribes
			classify := func(h string, got probeResult, other string) string {
				for _, w := range windowHistory[h] {
					old := expectation(w.OldRoute, byURL)
					if got.Served && old.Served && got.ID == old.ID && (old.Link == "tcp" || got.HostSeen == old.HostSeen && got.PathSeen == old.PathSeen) {
						return "stale-proxy:window-connection"
					}
					if !got.Served && !got.Refused && !old.Served {
						return "stale-proxy:window-connection"
					}
				}
				return other
			}
			for _, h := range hosts {
				t, configured := curBy[h]
				if !configured {
					link := lastLink[h]
					got := probe(rig.Ctx, rig.Client, h, link)
					if got.TimedOut {
						r.Inconclusive(fmt.Sprintf("%s: probe of removed hostname %s did not finish within %s", cname, h, probeTimeout))
						abort = true
						return
					}
					if !got.Refused {
						key := classify(h, got, "removed-host-forwarded")
						if key == "stale-proxy:window-connection" {
							staleSeen++
						}
						r.Count("violation_key:"+key, 1)
						r.Violation(key, name, fmt.Sprintf("%s: hostname %s is no longer configured but a new connection was accepted (result %+v)", cname, h, got), witness(got))
					}
					continue
				}
				want := expectation(t, byURL)
				lastLink[h] = want.Link
				got := probe(rig.Ctx, rig.Client, h, want.Link)
				if got.TimedOut {
					r.Inconclusive(fmt.Sprintf("%s: probe of %s did not finish within %s", cname, h, probeTimeout))
					abort = true
					return
				}
				obs := map[string]any{"hostname": h, "configured": t, "expected": want, "got": got}
				fail := func(other, format string, a ...any) {
					key := classify(h, got, other)
					if key == "stale-proxy:window-connection" {
						staleSeen++
					}
					r.Count("violation_key:"+key, 1)
					r.Violation(key, name, cname+": "+fmt.Sprintf(format, a...), witness(obs))
				}
				switch {
				case got.Refused:
					fail("configured-host-refused", "hostname %s is configured (target %s) but the connection was refused: %s", h, t.Target, got.Err)
				case want.Served && !got.Served:
					fail("not-forwarded", "hostname %s should reach target %s but the answer did not come from a target (status %d, err %q)", h, want.ID, got.Status, got.Err)
				case !want.Served && got.Served:
					fail("stale-option:insecure", "hostname %s points to a self-signed https target with insecure=false, yet target %s answered", h, got.ID)
				case want.Served && got.ID != want.ID:
					fail("wrong-target", "hostname %s is configured for target %s but target %s answered", h, want.ID, got.ID)
				case want.Served && want.Link == "http" && got.PathSeen != want.PathSeen:
					fail("stale-target:path", "hostname %s is configured for target %s: the target saw the request path %q, with the current target it is %q", h, t.Target, got.PathSeen, want.PathSeen)
				case want.Served && want.Link == "http" && got.HostSeen != want.HostSeen:
					fail("stale-option:host-header", "hostname %s (headerMode %q, headerHost %q): the target saw Host %q, documented is %q", h, t.Mode, t.Host, got.HostSeen, want.HostSeen)
				}
			}
			routed := rig.Client.VerifRouterTargets()
			for _, h := range rig.Client.VerifProxyHosts() {
				if _, ok := routed[h]; !ok {
					key := "stale-proxy:unrouted-host-cached"
					if len(windowHistory[h]) > 0 {
						key = "stale-proxy:window-connection"
						staleSeen++
					}
					r.Count("violation_key:"+key, 1)
					r.Violation(key, name, fmt.Sprintf("%s: an HTTP proxy is cached for hostname %s which is not routed any more", cname, h), witness(map[string]any{"proxy_hosts": rig.Client.VerifProxyHosts(), "routed": routed}))
				}
			}
		}

		// warm every proxy with the initial configuration (and check it)
		history = append(history, stepRecord{Step: 0, Method: "initial", Config: cur})
		judgeAll(0, name+"/initial")

		steps := 1 + rng.Intn(3)
		var removedPool []string
		for st := 1; st <= steps && !abort; st++ {
			cname := fmt.Sprintf("%s/step%d", name, st)
			old := cur
			next, changes := g.mutate(cur)
			// a hostname removed earlier may come back with another target
			if len(removedPool) > 0 && rng.Intn(2) == 0 {
				h := removedPool[rng.Intn(len(removedPool))]
				present := false
				for _, t := range next {
					if t.Hostname == h {
						present = true
					}
				}
				if !present {
					t := g.tunnel()
					t.Hostname = h
					g.options(&t)
					next = append(next, t)
					changes[h] = "re-added"
				}
			}
			for h, c := range changes {
				if c == "removed" {
					removedPool = append(removedPool, h)
				}
			}
			method := "rebuild"
			point := "client.rebuild.window"
			if len(old) > 0 && rng.Intn(5) == 0 {
				// the third way a configuration changes: one tunnel is taken out through the client's
				// own UnpublishTunnel / ReleaseTunnel (from any position of the list, more often not the last)
				method = []string{"unpublish", "release"}[rng.Intn(2)]
				vi := rng.Intn(len(old))
				if len(old) > 1 && rng.Intn(2) == 0 {
					vi = rng.Intn(len(old) - 1)
				}
				next, changes = nil, map[string]string{old[vi].Hostname: "removed"}
				for i, t := range old {
					if i != vi {
						next = append(next, t)
					}
				}
				removedPool = append(removedPool, old[vi].Hostname)
				if vi == len(old)-1 {
					r.Count("api_removals_of_the_last_tunnel", 1)
				} else {
					r.Count("api_removals_of_a_tunnel_followed_by_others", 1)
				}
			} else if rng.Intn(2) == 0 {
				method = "reload"
				point = "client.reload.window"
				if rng.Intn(5) == 0 {
					point = "client.rebuild.window" // the second window of a reload: the router is already rebuilt
				}
			}
			// window connections
			var wconns []windowConn
			var wmu sync.Mutex
			wantWindow := rng.Intn(2) == 0 && len(old) > 0 && os.Getenv("VERIF_C44_NOWINDOW") == "" && (method == "rebuild" || method == "reload")
			var whosts []tun
			if wantWindow {
				var touched, untouched []tun
				for _, t := range old {
					if c := changes[t.Hostname]; c == "removed" || c == "target" || c == "options" {
						touched = append(touched, t)
					} else {
						untouched = append(untouched, t)
					}
				}
				if len(touched) > 0 {
					whosts = append(whosts, touched[rng.Intn(len(touched))])
					if len(touched) > 1 && rng.Intn(3) == 0 {
						whosts = append(whosts, touched[rng.Intn(len(touched))])
					}
				}
				if len(untouched) > 0 && (len(whosts) == 0 || rng.Intn(3) == 0) {
					whosts = append(whosts, untouched[rng.Intn(len(untouched))])
				}
			}
			hs.mu.Lock()
			hs.fired, hs.pending = false, nil
			hs.armed = ""
			if len(whosts) > 0 {
				hs.armed = point
				hs.fire = func() {
					for _, t := range whosts {
						res := probe(rig.Ctx, rig.Client, t.Hostname, expectation(t, byURL).Link)
						wmu.Lock()
						wconns = append(wconns, windowConn{Step: st, Point: point, Hostname: t.Hostname, OldRoute: t, Result: res})
						wmu.Unlock()
					}
				}
			}
			hs.mu.Unlock()

			switch method {
			case "unpublish", "release":
				var victim client.Tunnel
				for h := range changes {
					for _, t := range toClient(old) {
						if t.Hostname == h {
							victim = t
						}
					}
				}
				var err error
				if method == "unpublish" {
					err = rig.Client.UnpublishTunnel(rig.Ctx, victim)
				} else {
					err = rig.Client.ReleaseTunnel(rig.Ctx, victim)
				}
				if err != nil {
					r.Inconclusive(fmt.Sprintf("%s: %s of %s failed: %v", cname, method, victim.Hostname, err))
					abort = true
				}
			case "rebuild":
				rig.Client.RebuildTunnels(toClient(next))
			case "reload":
				if err := tunclient.WriteConfig(path, toClient(next)); err != nil {
					r.Inconclusive("write config: " + err.Error())
					abort = true
				} else {
					resp, err := httpc.Post("http://"+ln.Addr().String()+"/api/reload", "text/plain", nil)
					if err != nil {
						r.Inconclusive(cname + ": POST /api/reload failed: " + err.Error())
						abort = true
					} else {
						io.Copy(io.Discard, resp.Body)
						resp.Body.Close()
						if resp.StatusCode != http.StatusNoContent {
							r.Inconclusive(fmt.Sprintf("%s: POST /api/reload answered %d", cname, resp.StatusCode))
							abort = true
						}
					}
				}
			}
			if abort {
				break
			}
			// the change has completed; let the window goroutine finish
			hs.mu.Lock()
			hs.armed = ""
			pending, fired := hs.pending, hs.fired
			hs.mu.Unlock()
			insideWindow := false
			if pending != nil {
				select {
				case <-pending:
				case <-time.After(2 * probeTimeout):
					r.Inconclusive(cname + ": the window connection did not finish after the change completed")
					abort = true
				}
			}
			if abort {
				break
			}
			cur = next
			wmu.Lock()
			for i := range wconns {
				windowHistory[wconns[i].Hostname] = append(windowHistory[wconns[i].Hostname], wconns[i])
			}
			rec := stepRecord{Step: st, Method: method, Changes: changes, Config: next, Window: append([]windowConn(nil), wconns...)}
			wmu.Unlock()
			history = append(history, rec)
			if fired {
				windowsDelivered++
				// "inside": the connection was answered while the rebuild was still held at the hook
				for _, w := range rec.Window {
					old := expectation(w.OldRoute, byURL)
					if w.Result.Served == old.Served && w.Result.ID == old.ID && !w.Result.Refused {
						insideWindow = true
					}
				}
				if insideWindow {
					windowsInside++
				}
			}

			// signature
			kinds := map[string]bool{}
			for _, c := range changes {
				kinds[c] = true
			}
			var ks []string
			for k := range kinds {
				ks = append(ks, k)
			}
			sort.Strings(ks)
			wk := "none"
			if fired {
				var wks []string
				for _, w := range rec.Window {
					c := changes[w.Hostname]
					if c == "" {
						c = "unchanged"
					}
					wks = append(wks, c)
				}
				sort.Strings(wks)
				wk = strings.Join(wks, "+") + fmt.Sprintf("@%s/%v", strings.TrimPrefix(point, "client."), insideWindow)
			}
			sig := ""
			if len(changes) > 0 {
				sig = fmt.Sprintf("%s/%s/w:%s", method, strings.Join(ks, ","), wk)
			}
			r.Case(sig)
			judgeAll(st, cname)
			if sampled < 3 && fired && len(changes) > 0 {
				sampled++
				r.Sample(map[string]any{"client": name, "old": old, "step": rec})
			}
		}
		rig.Close()
		ln.Close()
		os.Remove(path)
		if abort {
			break
		}
	}
	client.VerifSetHook(nil)
	hs.mu.Lock()
	for k, v := range hs.hits {
		r.Count("hook_hits_"+k, int64(v))
	}
	hs.mu.Unlock()
	r.Count("steps_with_window_connection", int64(windowsDelivered))
	r.Count("window_connections_served_by_old_route", int64(windowsInside))
	r.Count("observations_attributed_to_window_race", int64(staleSeen))
	r.Finish()
}
