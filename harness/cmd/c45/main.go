// C45 — saving the client configuration never loses the client identity.
//
// A child process performs chains of configuration saves through the real
// (*client.Config).writeFile (exported as VerifWriteFile under the verif tag)
// while strace records every file operation; lab/crashimg rebuilds the directory
// as it was after every operation of every save; each image is read back with the
// real client.NewConfig. Oracle (from the statement): the file is the previous
// or the new configuration — certificate, private key, apex and tunnels.
package main

import (
	"encoding/json"
	"fmt"
	"math/rand"
	"os"
	"path/filepath"
	"reflect"
	"strings"
	"sync"
	"time"

	"verifharness/lab/child"
	"verifharness/lab/crashimg"
	"verifharness/lab/ev"

	"go.miragespace.co/specter/tun/client"
)

const cfgName = "client.yaml"

// state is the part of a configuration the statement talks about.
type state struct {
	Apex    string          `json:"apex"`
	Cert    string          `json:"cert"`
	Key     string          `json:"key"` // "" in a step = keep what the client has in memory
	Tunnels []client.Tunnel `json:"tunnels"`
	Why     string          `json:"why,omitempty"`
}

func stateOf(c *client.Config) state {
	s := state{Apex: c.Apex, Cert: c.Certificate, Key: c.PrivKey}
	for _, t := range c.Tunnels {
		s.Tunnels = append(s.Tunnels, client.Tunnel{Target: t.Target, Hostname: t.Hostname, Insecure: t.Insecure,
			ProxyHeaderTimeout: t.ProxyHeaderTimeout, ProxyHeaderHost: t.ProxyHeaderHost, ProxyHeaderMode: t.ProxyHeaderMode})
	}
	return s
}

func tunnelsEqual(a, b []client.Tunnel) bool {
	if len(a) != len(b) {
		return false
	}
	for i := range a {
		if !reflect.DeepEqual(a[i], b[i]) {
			return false
		}
	}
	return true
}

// same: does the parsed file carry configuration want? A want without private
// key (a file that never had one) leaves the key open: the reader generates one.
func same(got, want state) bool {
	return got.Apex == want.Apex && got.Cert == want.Cert && (want.Key == "" || got.Key == want.Key) && tunnelsEqual(got.Tunnels, want.Tunnels)
}

// ----------------------------------------------------------------- generation

func fakePEM(rng *rand.Rand, kind string, lines int) string {
	const b64 = "ABCDEFGHIJKLMNOPQRSTUVWXYZabcdefghijklmnopqrstuvwxyz0123456789+/"
	var sb strings.Builder
	sb.WriteString("-----BEGIN " + kind + "-----\n")
	for i := 0; i < lines; i++ {
		n := 64
		if i == lines-1 {
			n = 4 * (1 + rng.Intn(15))
		}
		for j := 0; j < n; j++ {
			sb.WriteByte(b64[rng.Intn(len(b64))])
		}
		sb.WriteByte('\n')
	}
	sb.WriteString("-----END " + kind + "-----\n")
	return sb.String()
}

func genTunnel(rng *rand.Rand, i int) client.Tunnel {
	t := client.Tunnel{}
	switch rng.Intn(5) {
	case 0:
		t.Target = fmt.Sprintf("tcp://127.0.0.1:%d", 2000+rng.Intn(60000))
	case 1:
		t.Target = fmt.Sprintf("https://10.0.%d.%d:8443/%s", rng.Intn(255), rng.Intn(255), strings.Repeat("p", rng.Intn(30)))
		t.Insecure = rng.Intn(2) == 0
	case 2:
		t.Target = fmt.Sprintf("unix:///var/run/app-%d.sock", i)
		t.ProxyHeaderMode = "custom"
		t.ProxyHeaderHost = fmt.Sprintf("app%d.internal", i)
	default:
		t.Target = fmt.Sprintf("http://127.0.0.1:%d", 3000+rng.Intn(5000))
		if rng.Intn(3) == 0 {
			t.ProxyHeaderMode = "hostname"
		}
		if rng.Intn(4) == 0 {
			t.ProxyHeaderTimeout = time.Duration(1+rng.Intn(60)) * time.Second
		}
	}
	if rng.Intn(5) > 0 {
		t.Hostname = fmt.Sprintf("h%d-%x", i, rng.Int31())
		if rng.Intn(4) == 0 {
			t.Hostname += ".custom.example.com"
		}
	}
	return t
}

// genChain: an initial configuration and n save steps as the client performs them
// (registration, certificate renewal, RebuildTunnels, tunnel removal, UpdateApex).
func genChain(rng *rand.Rand, n int, large bool) []state {
	cur := state{Apex: "specter.example:443", Why: "initial"}
	cnt := 0
	nt := rng.Intn(4)
	if large {
		nt = 20 + rng.Intn(100)
	}
	for i := 0; i < nt; i++ {
		cnt++
		cur.Tunnels = append(cur.Tunnels, genTunnel(rng, cnt))
	}
	registered := rng.Intn(3) > 0
	if registered {
		cur.Cert = fakePEM(rng, "CERTIFICATE", 8+rng.Intn(20))
		cur.Key = fakePEM(rng, "PRIVATE KEY", 2+rng.Intn(3))
	}
	chain := []state{cur}
	for len(chain) <= n {
		next := cur
		next.Tunnels = append([]client.Tunnel{}, cur.Tunnels...)
		switch p := rng.Intn(100); {
		case cur.Cert == "":
			next.Why = "register"
			next.Cert = fakePEM(rng, "CERTIFICATE", 8+rng.Intn(20))
			next.Key = "" // the key generated when the file was first read
		case p < 25:
			next.Why = "renew"
			next.Cert = fakePEM(rng, "CERTIFICATE", 6+rng.Intn(30))
		case p < 55:
			next.Why = "tunnels-grow"
			add := 1 + rng.Intn(4)
			if large {
				add = 10 + rng.Intn(80)
			}
			for i := 0; i < add; i++ {
				cnt++
				next.Tunnels = append(next.Tunnels, genTunnel(rng, cnt))
			}
		case p < 70:
			if len(cur.Tunnels) == 0 {
				continue
			}
			next.Why = "tunnel-remove"
			i := rng.Intn(len(next.Tunnels))
			next.Tunnels = append(next.Tunnels[:i], next.Tunnels[i+1:]...)
		case p < 85:
			next.Why = "tunnels-replace"
			k := rng.Intn(5)
			if large {
				k = rng.Intn(120)
			}
			next.Tunnels = nil
			for i := 0; i < k; i++ {
				cnt++
				next.Tunnels = append(next.Tunnels, genTunnel(rng, cnt))
			}
		default:
			next.Why = "apex"
			next.Apex = fmt.Sprintf("gw%d.example.net:%d", rng.Intn(100), 400+rng.Intn(100))
		}
		chain = append(chain, next)
		cur = next
		if cur.Key == "" {
			cur.Key = "(in-memory)"
		}
	}
	return chain
}

// ---------------------------------------------------------------------- child

type childArgs struct {
	Chain []state `json:"chain"`
	// Symlink: the configuration path is a symbolic link to the file in a sub-directory (dotfiles
	// checkouts, /etc/... -> /data/... set-ups)
	Symlink bool `json:"symlink,omitempty"`
	// Leftovers: files that an earlier, interrupted save (of this or an older version) may have left
	// next to the configuration: they must not change how the next save is done
	Leftovers bool `json:"leftovers,omitempty"`
}

type childOut struct {
	// Saved[i] is the configuration the client held in memory when it performed
	// save i (Saved[0]: the initial file as read back by the client).
	Saved []state  `json:"saved"`
	Errs  []string `json:"errs"`
}

func bootstrapYAML(s state) string {
	var sb strings.Builder
	sb.WriteString("version: 2\napex: " + s.Apex + "\n")
	if len(s.Tunnels) > 0 {
		sb.WriteString("tunnels:\n")
		for _, t := range s.Tunnels {
			sb.WriteString("  - target: " + t.Target + "\n")
			if t.Hostname != "" {
				sb.WriteString("    hostname: " + t.Hostname + "\n")
			}
			if t.Insecure {
				sb.WriteString("    insecure: true\n")
			}
			if t.ProxyHeaderTimeout != 0 {
				sb.WriteString("    headerTimeout: " + t.ProxyHeaderTimeout.String() + "\n")
			}
			if t.ProxyHeaderHost != "" {
				sb.WriteString("    headerHost: " + t.ProxyHeaderHost + "\n")
			}
			if t.ProxyHeaderMode != "" {
				sb.WriteString("    headerMode: " + t.ProxyHeaderMode + "\n")
			}
		}
	}
	return sb.String()
}

func set(c *client.Config, s state) {
	c.Apex = s.Apex
	c.Certificate = s.Cert
	if s.Key != "" && s.Key != "(in-memory)" {
		c.PrivKey = s.Key
	}
	c.Tunnels = append([]client.Tunnel{}, s.Tunnels...)
}

func runChild(raw json.RawMessage) (any, error) {
	var a childArgs
	if err := json.Unmarshal(raw, &a); err != nil {
		return nil, err
	}
	dir := child.InChildDir()
	root := filepath.Join(dir, "cfg")
	path := filepath.Join(root, cfgName)
	mf, err := os.OpenFile(filepath.Join(dir, "markers"), os.O_CREATE|os.O_WRONLY|os.O_APPEND, 0o644)
	if err != nil {
		return nil, err
	}
	mark := func(s string) {
		if _, err := mf.Write([]byte(s + "\n")); err != nil {
			fmt.Fprintf(os.Stderr, "marker write: %v\n", err)
			os.Exit(96)
		}
	}
	if err := os.Mkdir(root, 0o755); err != nil {
		return nil, err
	}
	// the initial file: hand-written (as a user would) when there is no identity
	// yet, otherwise written by the client itself from a minimal file
	first := path
	if a.Symlink {
		if err := os.Mkdir(filepath.Join(root, "real"), 0o755); err != nil {
			return nil, err
		}
		first = filepath.Join(root, "real", cfgName)
	}
	if err := os.WriteFile(first, []byte(bootstrapYAML(a.Chain[0])), 0o644); err != nil {
		return nil, err
	}
	if a.Symlink {
		if err := os.Symlink(filepath.Join("real", cfgName), path); err != nil {
			return nil, err
		}
	}
	if a.Leftovers {
		for _, n := range []string{cfgName + ".tmp", cfgName + ".tmp-123456789", cfgName + ".new", cfgName + "~", "." + cfgName + ".swp"} {
			if err := os.WriteFile(filepath.Join(root, n), []byte("version: 2\napex: left-over-of-an-interrupted-save\n"), 0o600); err != nil {
				return nil, err
			}
		}
	}
	cfg, err := client.NewConfig(path)
	if err != nil {
		return nil, fmt.Errorf("reading the bootstrap file: %w", err)
	}
	out := childOut{}
	if a.Chain[0].Cert != "" {
		set(cfg, a.Chain[0])
		if err := cfg.VerifWriteFile(); err != nil {
			return nil, fmt.Errorf("writing the initial file: %w", err)
		}
		out.Saved = append(out.Saved, stateOf(cfg))
	} else {
		s := stateOf(cfg)
		s.Key = "" // not in the file
		out.Saved = append(out.Saved, s)
	}
	for i := 1; i < len(a.Chain); i++ {
		set(cfg, a.Chain[i])
		mark(fmt.Sprintf("BEGIN %d", i))
		err := cfg.VerifWriteFile()
		mark(fmt.Sprintf("END %d", i))
		e := ""
		if err != nil {
			e = err.Error()
		}
		out.Errs = append(out.Errs, e)
		out.Saved = append(out.Saved, stateOf(cfg))
	}
	return out, nil
}

// --------------------------------------------------------------------- parent

var sigMu sync.Mutex
var sigCount = map[string]int{}

func bucket(n int) string {
	switch {
	case n <= 1:
		return "1"
	case n <= 4:
		return "2-4"
	case n <= 16:
		return "5-16"
	case n <= 64:
		return "17-64"
	}
	return "65+"
}

func excerpt(b []byte) string {
	if len(b) > 1500 {
		return string(b[:700]) + fmt.Sprintf("\n...[%d bytes]...\n", len(b)-1400) + string(b[len(b)-700:])
	}
	return string(b)
}

func runChain(r *ev.Run, ci int, chain []state, onlySave, onlyK int) {
	caseBase := fmt.Sprintf("c%d", ci)
	logPath := filepath.Join(child.WorkDir(), "c45-"+caseBase+".strace")
	defer os.Remove(logPath)
	res := child.Run("c45save", childArgs{Chain: chain, Symlink: ci%3 == 1, Leftovers: ci%4 == 2}, child.Opt{Wrap: crashimg.Wrap(logPath), Timeout: 5 * time.Minute})
	defer res.Cleanup()
	if res.TimedOut {
		r.Inconclusive(caseBase + ": traced child hit the watchdog")
		return
	}
	if res.Died || res.Err != "" {
		if crashed, repo, head, ex := child.Crash(res.LogPath); crashed && repo {
			r.Violation("save-crashes", caseBase, "saving the configuration crashed: "+head, map[string]any{"excerpt": ex})
			return
		}
		lb, _ := os.ReadFile(res.LogPath)
		s := string(lb)
		if len(s) > 300 {
			s = s[len(s)-300:]
		}
		r.Inconclusive(fmt.Sprintf("%s: traced child failed: %s %s", caseBase, res.Err, s))
		return
	}
	var out childOut
	if err := res.Decode(&out); err != nil {
		r.Inconclusive(caseBase + ": " + err.Error())
		return
	}
	for i, e := range out.Errs {
		if e != "" {
			r.Inconclusive(fmt.Sprintf("%s: save %d returned an error in the child: %s", caseBase, i+1, e))
			return
		}
	}
	root := filepath.Join(res.Dir, "cfg")
	tr, err := crashimg.Parse(logPath, root, filepath.Join(res.Dir, "markers"))
	if err != nil {
		r.Inconclusive(caseBase + ": cannot reconstruct crash images: " + err.Error())
		return
	}
	// replay sanity: the last image must be the file the child left
	final, err := tr.At(len(tr.Ops))
	if err != nil {
		r.Inconclusive(caseBase + ": " + err.Error())
		return
	}
	disk, _ := os.ReadFile(filepath.Join(root, cfgName))
	if img, _ := final.File(cfgName); string(img) != string(disk) {
		r.Inconclusive(caseBase + ": replayed final image differs from the file the child left")
		return
	}
	begin, end := map[int]int{}, map[int]int{}
	for _, m := range tr.Markers {
		var i int
		if n, _ := fmt.Sscanf(m.Text, "BEGIN %d", &i); n == 1 {
			begin[i] = m.Ops
		} else if n, _ := fmt.Sscanf(m.Text, "END %d", &i); n == 1 {
			end[i] = m.Ops
		}
	}
	nsaves := len(chain) - 1
	if len(begin) != nsaves || len(end) != nsaves || len(out.Saved) != nsaves+1 {
		r.Inconclusive(fmt.Sprintf("%s: %d BEGIN / %d END markers, %d recorded states for %d saves", caseBase, len(begin), len(end), len(out.Saved), nsaves))
		return
	}
	r.Count("chains", 1)
	r.Count("saves", int64(nsaves))
	imgRoot := filepath.Join(child.WorkDir(), "img-"+caseBase)
	defer os.RemoveAll(imgRoot)
	saveOf := func(k int) (int, bool) { // the save during which image k exists (k > its BEGIN)
		for i := 1; i <= nsaves; i++ {
			if k > begin[i] && k <= end[i] {
				return i, true
			}
		}
		return 0, false
	}
	err = tr.Walk(func(k int, fs *crashimg.FS) error {
		si, during := saveOf(k)
		if !during {
			if k != begin[1] { // only one baseline image: the file before the first save
				return nil
			}
			si = 1
		}
		if onlySave >= 0 && (si != onlySave || (onlyK >= 0 && k-begin[si] != onlyK)) {
			return nil
		}
		rel := k - begin[si] // 0 = before the save started
		old, neu := out.Saved[si-1], out.Saved[si]
		why := chain[si].Why
		caseName := fmt.Sprintf("%s/s%d/k%d", caseBase, si, rel)
		dir := filepath.Join(imgRoot, fmt.Sprintf("k%d", k))
		if err := fs.Materialize(dir); err != nil {
			return err
		}
		defer os.RemoveAll(dir)
		content, present := fs.File(cfgName)
		lastOp := "before-save"
		if rel > 0 {
			o := tr.Ops[k-1]
			lastOp = o.Kind
			if o.Path != cfgName {
				lastOp += ":other-file"
			}
		}
		r.Count("images", 1)
		witness := map[string]any{
			"chain": ci, "save": si, "change": why, "boundary": rel, "of": end[si] - begin[si], "last_op": lastOp,
			"file_bytes": len(content), "old_bytes_hint": len(old.Cert) + len(old.Key), "file": excerpt(content),
			"old": summary(old), "new": summary(neu), "files_in_dir": fs.Describe(),
		}
		verdict := ""
		var got state
		switch {
		case !present:
			verdict = "config-missing"
		default:
			cfg, err := client.NewConfig(filepath.Join(dir, cfgName))
			if err != nil {
				witness["read_error"] = err.Error()
				if len(content) == 0 {
					verdict = "truncated-empty"
				} else {
					verdict = "partial-yaml:unreadable"
				}
			} else {
				got = stateOf(cfg)
				switch {
				case same(got, old):
					verdict = "ok-old"
				case same(got, neu):
					verdict = "ok-new"
				case len(content) == 0:
					verdict = "truncated-empty"
				case got.Cert != old.Cert && got.Cert != neu.Cert:
					verdict = "partial-yaml:certificate-lost"
				case got.Key != old.Key && got.Key != neu.Key: // (the reader never leaves the key empty: it generates one)
					verdict = "partial-yaml:privkey-lost"
				case !tunnelsEqual(got.Tunnels, old.Tunnels) && !tunnelsEqual(got.Tunnels, neu.Tunnels):
					verdict = "partial-yaml:tunnels-lost"
				case got.Apex != old.Apex && got.Apex != neu.Apex:
					verdict = "partial-yaml:apex-lost"
				default:
					verdict = "mixed-old-new"
				}
				witness["read_back"] = summary(got)
			}
		}
		sig := ""
		if rel > 0 {
			sig = why + "/" + lastOp + "/" + verdict + "/w" + bucket(rel)
		}
		r.Case(sig)
		sigMu.Lock()
		sigCount[why+"/"+lastOp+"/"+verdict]++
		sigMu.Unlock()
		r.Count("verdict_"+verdict, 1)
		if strings.HasPrefix(verdict, "ok-") {
			if rel > 0 {
				r.Sample(map[string]any{"chain": ci, "save": si, "change": why, "boundary": rel, "of": end[si] - begin[si], "last_op": lastOp, "file_bytes": len(content), "verdict": verdict})
			}
			return nil
		}
		r.Violation(verdict, caseName, fmt.Sprintf("crash after file operation %d of %d of a save (%s; %s): the %d-byte file is neither the previous nor the new configuration (%s)", rel, end[si]-begin[si], why, lastOp, len(content), verdict), witness)
		return nil
	})
	if err != nil {
		r.Inconclusive(caseBase + ": " + err.Error())
	}
}

func summary(s state) map[string]any {
	h := func(x string) string {
		if x == "" {
			return ""
		}
		return fmt.Sprintf("%dB:%08x", len(x), fnv(x))
	}
	return map[string]any{"apex": s.Apex, "certificate": h(s.Cert), "privKey": h(s.Key), "tunnels": len(s.Tunnels)}
}

func fnv(s string) uint32 {
	h := uint32(2166136261)
	for i := 0; i < len(s); i++ {
		h ^= uint32(s[i])
		h *= 16777619
	}
	return h
}

func main() {
	child.Register("c45save", runChild)
	child.Main()
	r := ev.Start("C45", "fault_enumeration")
	r.SetRule("seeded chains of configuration saves as the client performs them (register, renew certificate, grow/replace tunnels, remove a tunnel, change apex; small and 20-200-tunnel configurations so that yaml.v3's 128-byte buffer flushes in 10..300 writes) run through (*Config).writeFile under strace; EVERY file-operation boundary of every save is one crash image read back with client.NewConfig; a case is distinct by (kind of change, last completed file operation, verdict, bucket of the boundary index); in every third chain the configuration path is a symbolic link to the file in a sub-directory (the crash-image model follows and replaces links as the kernel does); in every fourth chain the directory already holds files an interrupted earlier save may have left (<config>.tmp, .tmp-<n>, .new, ~, .swp)")
	r.Assume("process-crash model: completed system calls persist and are atomic; power loss is not modelled")
	r.Assume("only the configuration file path is judged; other files a save may leave in the directory (temporary files) are ignored")
	r.SetMaxSamples(6)
	nchains := r.Pick(10, 120)
	nsaves := r.Pick(5, 8)
	rng := r.Rand("chains")
	type job struct {
		ci    int
		chain []state
	}
	var jobs []job
	for i := 0; i < nchains; i++ {
		jobs = append(jobs, job{i, genChain(rng, nsaves, i%3 == 2)})
	}
	onlyC, onlyS, onlyK := -1, -1, -1
	if r.ReplayCase != "" {
		fmt.Sscanf(r.ReplayCase, "c%d/s%d/k%d", &onlyC, &onlyS, &onlyK)
	}
	sem := make(chan struct{}, 12)
	var wg sync.WaitGroup
	for _, j := range jobs {
		if onlyC >= 0 && j.ci != onlyC {
			continue
		}
		wg.Add(1)
		sem <- struct{}{}
		go func(j job) {
			defer wg.Done()
			defer func() { <-sem }()
			runChain(r, j.ci, j.chain, onlyS, onlyK)
		}(j)
	}
	wg.Wait()
	r.Extra("images_by_change_op_verdict", sigCount)
	r.Finish()
}
