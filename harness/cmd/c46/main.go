// C46 — concurrent fan-out returns aligned results after all tasks finish.
// Real promise.All under -race with 0..16 seeded tasks (delays, values, errors,
// value+error, context-aware and context-ignoring tasks) and a context cancelled at a
// seeded point (never / before the call / while tasks run). Each task records what it
// returned and sets a completion flag as its last action; the oracle compares All's
// slices with those records the moment All returns. Any race report with a frame in
// util/promise is a violation as well.
package main

import (
	"context"
	"fmt"
	"math/rand"
	"runtime"
	"sync"
	"sync/atomic"
	"time"

	"verifharness/lab/ev"
	"verifharness/lab/racelog"

	"go.miragespace.co/specter/util/promise"
)

type task struct {
	kind     string // "value" | "error" | "both" | "ctx"
	delay    time.Duration
	spins    int
	value    int64
	err      error
	finished atomic.Bool
	// what the task function actually returned (written before finished is set)
	retVal int64
	retErr error
	// a plain word written by the task and read by the checker after All returned:
	// lets the race detector see a missing happens-before edge
	plain int64
	// set on entry: a task All never called has neither a value nor an error of its own
	started atomic.Bool
}

func (t *task) fn(ctx context.Context) (v int64, err error) {
	t.started.Store(true)
	defer func() {
		t.retVal, t.retErr = v, err
		t.plain = v + 1
		t.finished.Store(true)
	}()
	for i := 0; i < t.spins; i++ {
		runtime.Gosched()
	}
	switch t.kind {
	case "ctx":
		if t.delay < 0 { // waits for the cancellation only
			<-ctx.Done()
			return 0, ctx.Err()
		}
		select {
		case <-ctx.Done():
			return 0, ctx.Err()
		case <-time.After(t.delay):
			return t.value, nil
		}
	default:
		if t.delay > 0 {
			time.Sleep(t.delay)
		}
	}
	switch t.kind {
	case "error":
		return 0, t.err
	case "both":
		return t.value, t.err
	}
	return t.value, nil
}

type runResult struct {
	name    string
	sig     string
	bad     []string
	key     string
	witness map[string]any
	hung    bool
}

func oneRun(name string, rng *rand.Rand) runResult {
	n := rng.Intn(17)
	if rng.Intn(10) == 0 {
		n = []int{0, 1, 16}[rng.Intn(3)]
	}
	cancelMode := []string{"never", "before", "during", "during", "after-first-task"}[rng.Intn(5)]
	tasks := make([]*task, n)
	kinds := map[string]int{}
	for i := range tasks {
		t := &task{value: int64(i+1)*1000 + int64(rng.Intn(999)) + 1}
		if rng.Intn(4) == 0 {
			t.value = 0 // a task may legitimately succeed with the zero value
		}
		switch x := rng.Intn(10); {
		case x < 4:
			t.kind = "value"
		case x < 6:
			t.kind = "error"
			t.err = fmt.Errorf("task %d failed (%d)", i, rng.Intn(1000))
		case x < 7:
			t.kind = "both"
			t.err = fmt.Errorf("task %d failed with a value (%d)", i, rng.Intn(1000))
		default:
			t.kind = "ctx"
		}
		switch rng.Intn(4) {
		case 0:
			t.delay = 0
		case 1:
			t.delay = time.Duration(rng.Intn(50)) * time.Microsecond
		default:
			t.delay = time.Duration(rng.Intn(600)) * time.Microsecond
		}
		t.spins = rng.Intn(4)
		if t.kind == "ctx" && cancelMode != "never" && rng.Intn(3) == 0 {
			t.delay = -1
		}
		kinds[t.kind]++
		tasks[i] = t
	}
	if cancelMode == "after-first-task" && n > 0 && tasks[0].delay < 0 {
		tasks[0].delay = time.Duration(rng.Intn(100)) * time.Microsecond // somebody must be able to return first
	}
	ctx, cancel := context.WithCancel(context.Background())
	defer cancel()
	fns := make([]func(context.Context) (int64, error), n)
	for i, t := range tasks {
		fns[i] = t.fn
	}
	var firstDone chan struct{}
	switch cancelMode {
	case "before":
		cancel()
	case "during":
		d := time.Duration(rng.Intn(400)) * time.Microsecond
		go func() {
			if d > 0 {
				time.Sleep(d)
			}
			cancel()
		}()
	case "after-first-task":
		// cancellation is triggered by a logical event: the first task that returns
		firstDone = make(chan struct{}, 1)
		for i, t := range tasks {
			inner := t.fn
			fns[i] = func(c context.Context) (int64, error) {
				v, e := inner(c)
				select {
				case firstDone <- struct{}{}:
				default:
				}
				return v, e
			}
		}
		go func() {
			<-firstDone
			cancel()
		}()
		if n == 0 {
			firstDone <- struct{}{}
		}
	}

	type out struct {
		vals []int64
		errs []error
		fin  []bool
	}
	ch := make(chan out, 1)
	go func() {
		vals, errs := promise.All(ctx, fns...)
		// completion flags are read the moment All returns
		fin := make([]bool, n)
		for i, t := range tasks {
			fin[i] = t.finished.Load()
		}
		ch <- out{vals, errs, fin}
	}()
	res := runResult{name: name, sig: fmt.Sprintf("n%s/cancel-%s/err%v/ctx%v", bucketN(n), cancelMode, kinds["error"]+kinds["both"] > 0, kinds["ctx"] > 0)}
	if n == 0 {
		res.sig = "n0/cancel-" + cancelMode
	}
	var o out
	select {
	case o = <-ch:
	case <-time.After(2 * time.Minute):
		cancel()
		res.hung = true
		return res
	}
	desc := make([]string, n)
	for i, t := range tasks {
		desc[i] = fmt.Sprintf("%s(delay=%v)", t.kind, t.delay)
	}
	res.witness = map[string]any{"tasks": desc, "cancel": cancelMode, "n": n}
	flag := func(key, s string) {
		if res.key == "" {
			res.key = key
		}
		res.bad = append(res.bad, s)
	}
	if len(o.vals) != n || len(o.errs) != n {
		flag("length", fmt.Sprintf("%d tasks, %d values and %d errors returned", n, len(o.vals), len(o.errs)))
		return res
	}
	unfinished := 0
	for i := range tasks {
		if !o.fin[i] {
			unfinished++
		}
	}
	if unfinished > 0 {
		flag("returned-before-tasks-finished:cancel-"+cancelMode, fmt.Sprintf("All returned while %d of %d tasks had not finished", unfinished, n))
		// let them finish before their records are read; a task that has not even been entered a
		// second after All returned was never run: what All reports for it is not its outcome
		deadline := time.Now().Add(time.Second)
		for _, t := range tasks {
			for !t.started.Load() && time.Now().Before(deadline) {
				time.Sleep(50 * time.Microsecond)
			}
		}
		never := 0
		for _, t := range tasks {
			if !t.started.Load() {
				never++
				continue
			}
			for !t.finished.Load() {
				time.Sleep(50 * time.Microsecond)
			}
		}
		if never > 0 {
			flag("task-never-run:cancel-"+cancelMode, fmt.Sprintf("%d of %d tasks were never called, yet All returned a result for them", never, n))
			return res
		}
	}
	for i, t := range tasks {
		_ = t.plain // plain read: ordered after the task's write only if All waited for it
		switch {
		case t.retErr != nil:
			if o.errs[i] != t.retErr {
				flag("misaligned-error", fmt.Sprintf("position %d: task returned error %q, All reports %v", i, t.retErr, o.errs[i]))
			}
			if o.vals[i] != 0 {
				flag("value-with-error", fmt.Sprintf("position %d holds value %d although the task failed", i, o.vals[i]))
			}
		default:
			if o.errs[i] != nil {
				flag("misaligned-error", fmt.Sprintf("position %d: task succeeded, All reports error %v", i, o.errs[i]))
			}
			if o.vals[i] != t.retVal {
				flag("misaligned-value", fmt.Sprintf("position %d: task returned %d, All reports %d", i, t.retVal, o.vals[i]))
			}
		}
	}
	vs := make([]string, n)
	for i := range o.vals {
		vs[i] = fmt.Sprintf("%d/%v", o.vals[i], o.errs[i])
	}
	res.witness["returned"] = vs
	return res
}

func bucketN(n int) string {
	switch {
	case n == 1:
		return "1"
	case n <= 4:
		return "2-4"
	case n <= 15:
		return "5-15"
	}
	return "16"
}

func main() {
	r := ev.Start("C46", "exploration")
	r.SetRule("one call of promise.All per case: 0..16 seeded tasks of kinds value (a quarter of them the zero value) / error / value+error / context-aware (return on cancellation or after a delay), delays 0..600 us plus 0..3 yields, context cancelled never / before the call / after a seeded delay / when the first task returns; distinct by (task-count bucket, cancellation mode, has failing task, has context-aware task)")
	if !racelog.Enabled() {
		r.Assume("this run was built WITHOUT -race: only the functional oracle was active")
	}
	n := r.Pick(2000, 100000)
	root := r.Rand("c46")
	seeds := make([]int64, n)
	for i := range seeds {
		seeds[i] = root.Int63()
	}
	results := make([]runResult, n)
	idx := make(chan int, n)
	for i := 0; i < n; i++ {
		idx <- i
	}
	close(idx)
	var wg sync.WaitGroup
	workers := runtime.GOMAXPROCS(0)
	if workers > 8 {
		workers = 8
	}
	for w := 0; w < workers; w++ {
		wg.Add(1)
		go func() {
			defer wg.Done()
			for i := range idx {
				name := fmt.Sprintf("run%d", i)
				if !r.WantCase(name) {
					continue
				}
				results[i] = oneRun(name, rand.New(rand.NewSource(seeds[i])))
			}
		}()
	}
	wg.Wait()
	sampled := 0
	sampledMode := map[any]bool{}
	for _, res := range results {
		if res.name == "" {
			continue
		}
		if res.hung {
			r.Inconclusive(res.name + ": promise.All did not return within 2 minutes (goroutines of the run abandoned)")
			continue
		}
		r.Case(res.sig)
		if sampled < 4 && len(res.bad) == 0 && res.witness["n"].(int) >= 3 && res.witness["n"].(int) <= 6 && !sampledMode[res.witness["cancel"]] {
			sampled++
			sampledMode[res.witness["cancel"]] = true
			r.Sample(res.witness)
		}
		if len(res.bad) > 0 {
			r.Violation(res.key, res.name, fmt.Sprint(res.bad), res.witness)
		}
	}
	// race detector verdict
	reports := racelog.Collect("util/promise")
	nRace := 0
	for _, rep := range reports {
		if rep.InRepo {
			nRace++
			r.Violation("race:"+rep.Key, "", fmt.Sprintf("data race involving util/promise (%d reports)", rep.Count), map[string]any{"frames": rep.Frames, "excerpt": rep.Excerpt})
		}
	}
	r.Count("race_reports_in_util_promise", int64(nRace))
	r.Count("race_reports_total", int64(len(reports)))
	r.Extra("race_build", racelog.Enabled())
	r.Finish()
}
