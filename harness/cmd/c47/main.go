// C47 — listen address lists are normalized faithfully.
// Real listen.ParseAddresses (reached through an overlay-only re-export shim, the
// package is internal) against a reference model written from the five rules of the
// statement: trim blanks; a non-empty override list replaces the base list; duplicates
// are removed keeping first-seen order; non-IP hosts other than the Fly host are
// rejected; every address gets the network of its IP family (IPv4 for the Fly host).
package main

import (
	"fmt"
	"math/rand"
	"net/netip"
	"strings"

	"verifharness/lab/ev"

	listen "go.miragespace.co/specter/cmd/veriflisten"
)

const flyHost = "fly-global-services" // from the statement's "special Fly host"; cross-checked with the package constant below

type want struct {
	addr, host, network string
}

type model struct {
	dontCare string // non-empty: the statement does not decide this input
	reject   bool
	out      []want
}

func trimBlanks(s string) string { return strings.Trim(s, " \t\n\r") }

// splitHostPort: "host:port", "[v6]:port", ":port". ok=false when malformed.
func splitHostPort(a string) (host string, ok bool) {
	if strings.HasPrefix(a, "[") {
		end := strings.Index(a, "]")
		if end < 0 || len(a) < end+3 || a[end+1] != ':' || strings.ContainsAny(a[end+2:], ":[]") {
			return "", false
		}
		return a[1:end], true
	}
	i := strings.LastIndex(a, ":")
	if i < 0 || strings.Contains(a[:i], ":") || strings.ContainsAny(a, "[]") || i == len(a)-1 {
		return "", false
	}
	return a[:i], true
}

func reference(proto string, base, overrides []string) model {
	clean := func(l []string) []string {
		var o []string
		for _, a := range l {
			if t := trimBlanks(a); t != "" {
				o = append(o, t)
			}
		}
		return o
	}
	eff := clean(base)
	if ov := clean(overrides); len(ov) > 0 {
		eff = ov
	}
	if len(eff) == 0 {
		return model{dontCare: "no address at all"}
	}
	m := model{}
	seen := map[string]bool{}
	for _, a := range eff {
		if seen[a] {
			continue
		}
		seen[a] = true
		host, ok := splitHostPort(a)
		if !ok {
			return model{dontCare: "malformed host:port " + a}
		}
		switch {
		case host == "":
			m.out = append(m.out, want{a, host, proto}) // wildcard: no family
		case host == flyHost:
			m.out = append(m.out, want{a, host, proto + "4"})
		default:
			ip, err := netip.ParseAddr(host)
			if err != nil {
				m.reject = true
				continue
			}
			if ip.Zone() != "" {
				return model{dontCare: "zoned address " + host}
			}
			// an IPv4-mapped IPv6 literal (::ffff:a.b.c.d) denotes an IPv4 address: the "6" networks cannot bind it
			if ip.Is4() || ip.Is4In6() {
				m.out = append(m.out, want{a, host, proto + "4"})
			} else {
				m.out = append(m.out, want{a, host, proto + "6"})
			}
		}
	}
	return m
}

func versionNetwork(proto string, v int) string {
	switch v {
	case int(listen.IPV4):
		return proto + "4"
	case int(listen.IPV6):
		return proto + "6"
	}
	return proto
}

var v4 = []string{"0.0.0.0", "127.0.0.1", "10.1.2.3", "192.168.0.7", "203.0.113.9", "255.255.255.255"}
var v6 = []string{"::", "::1", "2001:db8::1", "fe80::1", "fd00::5", "2001:db8:0:1::2"}
var badHosts = []string{"localhost", "example.com", "fly-global-services.internal", "my-host", "1.2.3", "1.2.3.4.5", "256.1.1.1", "fly-global-service", "x"}
var ports = []string{"53", "80", "443", "8080", "0", "65535"}
var blanks = []string{"", "", " ", "  ", "\t", " \t ", "\n", "\r\n"}

func genAddr(rng *rand.Rand, pBad int) (string, string) {
	p := ports[rng.Intn(len(ports))]
	switch x := rng.Intn(100); {
	case x < pBad:
		return badHosts[rng.Intn(len(badHosts))] + ":" + p, "hostname"
	case x < pBad+30:
		return v4[rng.Intn(len(v4))] + ":" + p, "v4"
	case x < pBad+60:
		return "[" + v6[rng.Intn(len(v6))] + "]:" + p, "v6"
	case x < pBad+64:
		// IPv4-mapped IPv6 literals, in dotted and in hexadecimal notation
		return "[" + []string{"::ffff:1.2.3.4", "::ffff:10.0.0.1", "::ffff:0.0.0.0", "::ffff:7f00:1", "0:0:0:0:0:ffff:192.168.1.1", "::FFFF:8.8.8.8"}[rng.Intn(6)] + "]:" + p, "v4mapped"
	case x < pBad+72:
		return ":" + p, "wildcard"
	case x < pBad+84:
		return flyHost + ":" + p, "fly"
	case x < pBad+87:
		return []string{"missing-port", "[::1]", "1.2.3.4", "[fe80::1%eth0]:" + p, "[fe80::2%1]:" + p, "::1:" + p}[rng.Intn(6)], "odd"
	}
	return v4[rng.Intn(len(v4))] + ":" + p, "v4"
}

func genList(rng *rand.Rand, pBad int, feats map[string]bool) []string {
	switch rng.Intn(8) {
	case 0:
		return nil
	case 1:
		feats["blank-only"] = true
		return []string{blanks[2+rng.Intn(len(blanks)-2)], ""}[:1+rng.Intn(2)]
	}
	n := 1 + rng.Intn(6)
	var l []string
	for i := 0; i < n; i++ {
		if len(l) > 0 && rng.Intn(4) == 0 {
			// duplicate of an earlier entry, possibly with other blanks around it
			feats["dup"] = true
			l = append(l, blanks[rng.Intn(len(blanks))]+trimBlanks(l[rng.Intn(len(l))])+blanks[rng.Intn(len(blanks))])
			continue
		}
		if rng.Intn(8) == 0 {
			feats["empty-entry"] = true
			l = append(l, blanks[rng.Intn(len(blanks))])
			continue
		}
		a, kind := genAddr(rng, pBad)
		feats[kind] = true
		pre, post := blanks[rng.Intn(len(blanks))], blanks[rng.Intn(len(blanks))]
		if pre+post != "" {
			feats["padded"] = true
		}
		l = append(l, pre+a+post)
	}
	return l
}

func main() {
	r := ev.Start("C47", "exploration")
	r.SetRule("seeded (proto, base list, override list): lists of 0..6 entries over IPv4 / bracketed IPv6 / wildcard ':port' / the Fly host / hostnames and near-IP strings, entries padded with blanks, duplicates re-inserted with different padding, empty and blank-only entries and lists; distinct by (override state, outcome, duplicates, padding, families present)")
	if listen.FlyGlobalServicesHost != flyHost {
		r.Inconclusive("the package's Fly host constant is " + listen.FlyGlobalServicesHost)
	}
	rng := r.Rand("c47")
	n := r.Pick(10000, 1000000)
	var dontCare, rejected, accepted int64
	sampled := 0
	for i := 0; i < n; i++ {
		proto := []string{"tcp", "udp", "tcp", "udp", "quic"}[rng.Intn(5)]
		pBad := []int{0, 0, 5, 25}[rng.Intn(4)]
		bf, of := map[string]bool{}, map[string]bool{}
		base := genList(rng, pBad, bf)
		over := genList(rng, pBad, of)
		if rng.Intn(3) == 0 {
			over = nil
			of = map[string]bool{}
		}
		m := reference(proto, base, over)
		got, err := listen.ParseAddresses(proto, append([]string(nil), base...), append([]string(nil), over...))
		ovState := "none"
		switch {
		case of["blank-only"] && len(over) > 0:
			ovState = "blank-only"
		case len(over) > 0:
			ovState = "given"
		}
		w := map[string]any{"proto": proto, "base": base, "overrides": over, "returned": fmt.Sprintf("%+v", got), "error": fmt.Sprint(err)}
		if m.dontCare != "" {
			dontCare++
			r.Case("")
			continue
		}
		fam := ""
		for _, k := range []string{"v4", "v6", "wildcard", "fly", "hostname"} {
			if bf[k] || of[k] {
				fam += k[:1]
			}
		}
		r.Case(fmt.Sprintf("ov-%s/rej%v/dup%v/pad%v/%s", ovState, m.reject, bf["dup"] || of["dup"], bf["padded"] || of["padded"], fam))
		if m.reject {
			rejected++
			if err == nil {
				r.Violation("hostname-accepted", "", fmt.Sprintf("ParseAddresses(%q, %q, %q) accepted a list with a non-IP host: %+v", proto, base, over, got), w)
			}
			continue
		}
		accepted++
		if sampled < 5 && (bf["dup"] || of["dup"]) && len(m.out) >= 2 && (ovState != "none" || sampled < 2) {
			sampled++
			r.Sample(w)
		}
		if err != nil {
			key := "valid-list-rejected"
			if ovState == "blank-only" {
				key = "blank-overrides-not-ignored"
			}
			r.Violation(key, "", fmt.Sprintf("ParseAddresses(%q, %q, %q) failed: %v; expected %+v", proto, base, over, err, m.out), w)
			continue
		}
		if len(got) != len(m.out) {
			key := "wrong-address-set"
			if len(got) > len(m.out) {
				key = "duplicate-kept"
			} else if ovState != "none" {
				key = "wrong-address-set:overrides-" + ovState
			}
			r.Violation(key, "", fmt.Sprintf("ParseAddresses(%q, %q, %q) = %+v, expected %+v", proto, base, over, got, m.out), w)
			continue
		}
		for j, g := range got {
			e := m.out[j]
			switch {
			case g.Address != e.addr:
				r.Violation("wrong-order-or-address", "", fmt.Sprintf("entry %d is %q, expected %q (base %q overrides %q)", j, g.Address, e.addr, base, over), w)
			case g.Host != e.host:
				r.Violation("wrong-host", "", fmt.Sprintf("entry %d (%q): host %q, expected %q", j, g.Address, g.Host, e.host), w)
			case g.Network != e.network:
				r.Violation("wrong-network:"+strings.TrimPrefix(e.network, proto), "", fmt.Sprintf("entry %d (%q): network %q, expected %q", j, g.Address, g.Network, e.network), w)
			case versionNetwork(proto, int(g.Version)) != g.Network:
				r.Violation("version-network-mismatch", "", fmt.Sprintf("entry %d (%q): version %v does not match network %q", j, g.Address, g.Version, g.Network), w)
			default:
				continue
			}
			break
		}
	}
	r.Count("dont_care_inputs", dontCare)
	r.Count("expected_rejections", rejected)
	r.Count("expected_acceptances", accepted)
	r.Assume("blanks are space, tab, CR, LF; duplicates are equal strings after trimming (textually different spellings of one address are not generated)")
	r.Assume("don't care (not asserted): no address at all, malformed host:port, zoned IPv6 hosts; a wildcard host (':port') is accepted with the family-less network, as the package's API documents")
	r.Finish()
}
