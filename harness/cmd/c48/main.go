// C48 — the ACME DNS responder answers exactly the stored challenges.
//
// Real acme.NewDNS + (*DNS).ServeDNS with a recording dns.ResponseWriter over a
// real kv/memory store (wrapped so that PrefixList can be made to fail);
// challenge values are stored through the real ChordSolver.Present/CleanUp (and
// raw PrefixAppend for empty / arbitrary values). Every response is compared
// with a model of "what is currently stored for which label".
package main

import (
	"context"
	"errors"
	"fmt"
	"io"
	"math/rand"
	"net"
	"os"
	"sort"
	"strings"
	"sync/atomic"

	"verifharness/lab/ev"

	"go.miragespace.co/specter/acme"
	"go.miragespace.co/specter/kv/memory"
	acmeSpec "go.miragespace.co/specter/spec/acme"
	"go.miragespace.co/specter/spec/chord"
	"go.miragespace.co/specter/spec/protocol"
	"go.miragespace.co/specter/spec/tun"

	acmez "github.com/mholt/acmez/v3/acme"
	"github.com/miekg/dns"
	"go.uber.org/zap"
)

// ---------- storage wrapper ----------

var errInjected = errors.New("injected storage failure")

type failKV struct {
	chord.KV
	fail     atomic.Bool
	lists    atomic.Int64
	failures atomic.Int64
}

func (f *failKV) PrefixList(ctx context.Context, prefix []byte) ([][]byte, error) {
	f.lists.Add(1)
	if f.fail.Load() {
		f.failures.Add(1)
		// hostile: hand back the data together with the error
		vals, _ := f.KV.PrefixList(ctx, prefix)
		// the kinds of failure a storage behind a DHT produces: an opaque error, a timeout, a
		// cancellation, a stream cut short, a ring that is re-arranging itself, "not found"
		kinds := []error{errInjected, context.DeadlineExceeded, context.Canceled, io.EOF, io.ErrUnexpectedEOF, chord.ErrKVStaleOwnership, chord.ErrNodeGone, chord.ErrNodeNoSuccessor, os.ErrNotExist, os.ErrDeadlineExceeded}
		k := int(f.failures.Load()) % (2 * len(kinds))
		if k >= len(kinds) {
			return nil, fmt.Errorf("kv: %w", kinds[k-len(kinds)]) // without data
		}
		return vals, fmt.Errorf("kv: %w", kinds[k])
	}
	return f.KV.PrefixList(ctx, prefix)
}

// ---------- recording writer ----------

type recWriter struct {
	msgs []*dns.Msg
}

func (w *recWriter) LocalAddr() net.Addr {
	return &net.UDPAddr{IP: net.IPv4(127, 0, 0, 1), Port: 53}
}
func (w *recWriter) RemoteAddr() net.Addr {
	return &net.UDPAddr{IP: net.IPv4(127, 0, 0, 1), Port: 40000}
}
func (w *recWriter) WriteMsg(m *dns.Msg) error   { w.msgs = append(w.msgs, m.Copy()); return nil }
func (w *recWriter) Write(b []byte) (int, error) { return len(b), nil }
func (w *recWriter) Close() error                { return nil }
func (w *recWriter) TsigStatus() error           { return nil }
func (w *recWriter) TsigTimersOnly(bool)         {}
func (w *recWriter) Hijack()                     {}

// ---------- scenario ----------

const lowerAl = "abcdefghijklmnopqrstuvwxyz"

func randLabel(rng *rand.Rand, min, max int) string {
	al := lowerAl + "0123456789-"
	n := min + rng.Intn(max-min+1)
	b := make([]byte, n)
	for i := range b {
		b[i] = al[rng.Intn(len(al))]
	}
	if b[0] == '-' {
		b[0] = 'a'
	}
	return string(b)
}

func randCase(rng *rand.Rand, s string) string {
	b := []byte(s)
	mode := rng.Intn(4)
	for i, c := range b {
		if c < 'a' || c > 'z' {
			continue
		}
		switch mode {
		case 0:
		case 1:
			b[i] = c - 32
		default:
			if rng.Intn(2) == 0 {
				b[i] = c - 32
			}
		}
	}
	return string(b)
}

func randValue(rng *rand.Rand) string {
	al := lowerAl + strings.ToUpper(lowerAl) + "0123456789-_"
	n := 1 + rng.Intn(60)
	b := make([]byte, n)
	for i := range b {
		b[i] = al[rng.Intn(len(al))]
	}
	return string(b)
}

type nsConf struct {
	name string // fqdn, lower
	v4   []string
	v6   []string
}

type scenario struct {
	zone    string // fqdn, lower
	email   string
	ns      []nsConf
	kv      *failKV
	h       *acme.DNS
	solver  *acme.ChordSolver
	managed []string          // managed (apex) domains of the solver
	custom  map[string]string // custom hostname -> label
	model   map[string]map[string]bool
	present []acmez.Challenge // challenges currently presented
	labels  []string          // every label ever used
}

func newScenario(rng *rand.Rand, idx int) *scenario {
	s := &scenario{custom: map[string]string{}, model: map[string]map[string]bool{}}
	switch idx {
	case 0:
		s.zone = "acme.example.com."
	case 1:
		s.zone = "d.co."
	default:
		n := 2 + rng.Intn(3)
		ls := make([]string, n)
		for i := range ls {
			ls[i] = randLabel(rng, 1, 8)
		}
		s.zone = strings.Join(ls, ".") + "."
	}
	s.email = "ops@" + strings.TrimSuffix(s.zone, ".")
	nns := 1 + rng.Intn(2)
	nsMap := map[string][]string{}
	for i := 0; i < nns; i++ {
		c := nsConf{name: fmt.Sprintf("ns%d.%s", i+1, s.zone)}
		for j := rng.Intn(3); j > 0; j-- {
			c.v4 = append(c.v4, fmt.Sprintf("192.0.2.%d", 1+rng.Intn(250)))
		}
		for j := rng.Intn(3); j > 0; j-- {
			c.v6 = append(c.v6, fmt.Sprintf("2001:db8::%x", 1+rng.Intn(60000)))
		}
		if len(c.v4)+len(c.v6) == 0 {
			c.v4 = []string{"192.0.2.53"}
		}
		s.ns = append(s.ns, c)
		// the repository's test passes names without the trailing dot
		nsMap[strings.TrimSuffix(c.name, ".")] = append(append([]string{}, c.v4...), c.v6...)
	}
	s.kv = &failKV{KV: memory.WithHashFn(chord.Hash)}
	zoneArg := strings.TrimSuffix(s.zone, ".")
	if rng.Intn(2) == 0 {
		zoneArg = s.zone
	}
	s.h = acme.NewDNS(context.Background(), zap.NewNop(), s.kv, s.email, zoneArg, nsMap)
	s.managed = []string{"apex" + fmt.Sprint(idx) + ".example", "specter.im"}
	s.solver = &acme.ChordSolver{KV: s.kv, ManagedDomains: s.managed}
	for i := 0; i < 3; i++ {
		host := fmt.Sprintf("custom%d.%s.example.org", i, randLabel(rng, 2, 6))
		tok := make([]byte, 16)
		rng.Read(tok)
		err := tun.SaveCustomHostname(context.Background(), s.kv, host, &protocol.CustomHostname{
			ClientIdentity: &protocol.Node{Id: uint64(i + 1), Address: "client"},
			ClientToken:    &protocol.ClientToken{Token: tok},
		})
		if err != nil {
			panic(err)
		}
		s.custom[host] = acmeSpec.EncodeClientToken(tok)
	}
	return s
}

func (s *scenario) addLabel(l string) {
	for _, x := range s.labels {
		if x == l {
			return
		}
	}
	s.labels = append(s.labels, l)
}

func (s *scenario) set(label string) map[string]bool {
	m := s.model[label]
	if m == nil {
		m = map[string]bool{}
		s.model[label] = m
	}
	s.addLabel(label)
	return m
}

// mutate applies one storage change through the real code and the model.
func (s *scenario) mutate(r *ev.Run, rng *rand.Rand) {
	ctx := context.Background()
	switch k := rng.Intn(10); {
	case k < 4: // Present through the real solver
		var ident, label string
		if rng.Intn(2) == 0 {
			ident, label = s.managed[rng.Intn(len(s.managed))], acmeSpec.ManagedDelegation
		} else {
			hosts := make([]string, 0, len(s.custom))
			for h := range s.custom {
				hosts = append(hosts, h)
			}
			sort.Strings(hosts)
			ident = hosts[rng.Intn(len(hosts))]
			label = s.custom[ident]
		}
		ch := acmez.Challenge{Type: "dns-01", Token: randValue(rng), KeyAuthorization: randValue(rng), Identifier: acmez.Identifier{Type: "dns", Value: ident}}
		if err := s.solver.Present(ctx, ch); err != nil {
			if errors.Is(err, chord.ErrKVPrefixConflict) && s.model[label][ch.DNS01KeyAuthorization()] {
				return // the same value is already stored (short random key authorizations collide)
			}
			r.Inconclusive("solver.Present failed: " + err.Error())
			return
		}
		s.set(label)[ch.DNS01KeyAuthorization()] = true
		s.present = append(s.present, ch)
		r.Count("solver_present", 1)
	case k < 6: // CleanUp through the real solver
		if len(s.present) == 0 {
			return
		}
		i := rng.Intn(len(s.present))
		ch := s.present[i]
		s.present = append(s.present[:i], s.present[i+1:]...)
		if err := s.solver.CleanUp(ctx, ch); err != nil {
			r.Inconclusive("solver.CleanUp failed: " + err.Error())
			return
		}
		label := acmeSpec.ManagedDelegation
		if l, ok := s.custom[ch.Identifier.Value]; ok {
			label = l
		}
		delete(s.set(label), ch.DNS01KeyAuthorization())
		r.Count("solver_cleanup", 1)
	case k < 8: // raw value under an arbitrary (or existing) label, possibly empty
		label := randLabel(rng, 1, 10)
		if len(s.labels) > 0 && rng.Intn(2) == 0 {
			label = s.labels[rng.Intn(len(s.labels))]
		}
		if rng.Intn(4) == 0 {
			// a label that is a proper prefix / first label of the zone, the hostile cases for suffix arithmetic
			label = strings.SplitN(s.zone, ".", 2)[0]
		}
		val := randValue(rng)
		if rng.Intn(3) == 0 {
			val = ""
		}
		err := s.kv.PrefixAppend(ctx, []byte("/acme-dns/"+label), []byte(val))
		if err != nil && !errors.Is(err, chord.ErrKVPrefixConflict) {
			r.Inconclusive("PrefixAppend failed: " + err.Error())
			return
		}
		s.set(label)[val] = true
		r.Count("raw_append", 1)
	default: // raw remove
		if len(s.labels) == 0 {
			return
		}
		label := s.labels[rng.Intn(len(s.labels))]
		for v := range s.model[label] {
			keep := false
			for _, ch := range s.present {
				if ch.DNS01KeyAuthorization() == v {
					keep = true
				}
			}
			if keep {
				continue
			}
			if err := s.kv.PrefixRemove(ctx, []byte("/acme-dns/"+label), []byte(v)); err != nil {
				r.Inconclusive("PrefixRemove failed: " + err.Error())
				return
			}
			delete(s.model[label], v)
			r.Count("raw_remove", 1)
			break
		}
	}
}

type query struct {
	name  string
	qtype uint16
	class string // name class
	label string // lower-case label for class label.zone / ns / lookalike-shift
	edns  bool
}

func (s *scenario) someLabel(rng *rand.Rand) string {
	if len(s.labels) > 0 && rng.Intn(4) != 0 {
		return s.labels[rng.Intn(len(s.labels))]
	}
	return randLabel(rng, 1, 10)
}

func (s *scenario) genQuery(rng *rand.Rand) query {
	types := []uint16{dns.TypeTXT, dns.TypeTXT, dns.TypeTXT, dns.TypeA, dns.TypeAAAA, dns.TypeNS, dns.TypeSOA, dns.TypeANY, dns.TypeCNAME}
	q := query{qtype: types[rng.Intn(len(types))], edns: rng.Intn(5) == 0}
	switch k := rng.Intn(20); {
	case k < 8:
		q.class, q.label = "label.zone", s.someLabel(rng)
		q.name = q.label + "." + s.zone
		if rng.Intn(3) != 0 {
			q.qtype = dns.TypeTXT
		}
	case k < 10:
		q.class, q.name = "zone", s.zone
	case k < 12:
		ns := s.ns[rng.Intn(len(s.ns))]
		q.class, q.name = "ns", ns.name
		q.label = strings.SplitN(ns.name, ".", 2)[0]
		if rng.Intn(2) == 0 {
			q.qtype = []uint16{dns.TypeA, dns.TypeAAAA}[rng.Intn(2)]
		}
	case k < 15:
		q.class = "deeper"
		q.name = randLabel(rng, 1, 6) + "." + s.someLabel(rng) + "." + s.zone
		if rng.Intn(3) == 0 {
			q.name = randLabel(rng, 1, 4) + "." + q.name
		}
	case k < 17:
		// same number of labels as the zone (or one more), the zone text is only a string suffix
		q.class = "lookalike"
		l := s.someLabel(rng)
		q.name = l + string(lowerAl[rng.Intn(26)]) + s.zone
		if rng.Intn(3) == 0 {
			q.name = l + "." + randLabel(rng, 1, 3) + s.zone
		}
		q.qtype = dns.TypeTXT
	case k < 18:
		q.class = "parent"
		parts := strings.SplitN(s.zone, ".", 2)
		q.name = parts[1]
		if q.name == "" {
			q.name = "."
		}
	default:
		q.class = "unrelated"
		q.name = s.someLabel(rng) + "." + randLabel(rng, 1, 8) + ".test."
	}
	q.name = randCase(rng, q.name)
	return q
}

func rrTexts(rrs []dns.RR) (txt []string, other []string) {
	for _, rr := range rrs {
		if t, ok := rr.(*dns.TXT); ok {
			txt = append(txt, strings.Join(t.Txt, ""))
		} else {
			other = append(other, rr.String())
		}
	}
	sort.Strings(txt)
	return
}

func sameStrings(a, b []string) bool {
	if len(a) != len(b) {
		return false
	}
	for i := range a {
		if a[i] != b[i] {
			return false
		}
	}
	return true
}

func ipSet(ips []string) []string {
	out := []string{}
	for _, s := range ips {
		out = append(out, net.ParseIP(s).String())
	}
	sort.Strings(out)
	return out
}

var sampled = map[string]bool{}

// ask runs one query through the real handler and judges the response.
func (s *scenario) ask(r *ev.Run, q query) {
	failing := s.kv.fail.Load()
	m := new(dns.Msg)
	m.SetQuestion(q.name, q.qtype)
	if q.edns {
		m.SetEdns0(1232, false)
	}
	w := &recWriter{}
	before := s.kv.lists.Load()
	s.h.ServeDNS(w, m)
	consulted := s.kv.lists.Load() > before
	wit := map[string]any{"zone": s.zone, "qname": q.name, "qtype": dns.TypeToString[q.qtype], "class": q.class, "storage_failing": failing}
	if len(w.msgs) != 1 {
		r.Case("")
		r.Violation("response-count", "", fmt.Sprintf("%d responses written for one query", len(w.msgs)), wit)
		return
	}
	resp := w.msgs[0]
	txt, other := rrTexts(resp.Answer)
	wit["rcode"] = dns.RcodeToString[resp.Rcode]
	wit["answer_txt"] = txt
	wit["answer_other"] = other
	wit["aa"] = resp.Authoritative

	// what is stored right now
	stored := []string{}
	for v := range s.model[q.label] {
		if v != "" {
			stored = append(stored, v)
		}
	}
	sort.Strings(stored)
	hasEmpty := s.model[q.label][""]
	allStored := map[string]bool{}
	for _, vs := range s.model {
		for v := range vs {
			if v != "" {
				allStored[v] = true
			}
		}
	}

	tname := dns.TypeToString[q.qtype]
	sig := fmt.Sprintf("%s/%s/fail=%v/rc=%s", q.class, tname, failing, dns.RcodeToString[resp.Rcode])
	if q.class == "label.zone" && q.qtype == dns.TypeTXT {
		sig += fmt.Sprintf("/n=%d/empty=%v", min(len(stored), 3), hasEmpty)
	}
	r.Case(sig)
	if k := q.class + tname; !sampled[k] && len(sampled) < 8 && (len(txt) > 0 || q.class != "label.zone") {
		sampled[k] = true
		r.Sample(wit)
	}
	viol := func(key, what string) {
		wit["stored_for_label"] = stored
		r.Violation(key, "", fmt.Sprintf("zone %s, query %s %s: %s", s.zone, q.name, tname, what), wit)
	}

	inZone := q.class == "label.zone" || q.class == "zone" || q.class == "ns"
	switch {
	case q.qtype == dns.TypeANY && inZone:
		if resp.Rcode != dns.RcodeNotImplemented || len(resp.Answer) != 0 {
			viol("any-not-notimp", fmt.Sprintf("ANY must be answered NOTIMP without records, got %s with %d records", dns.RcodeToString[resp.Rcode], len(resp.Answer)))
		}
		return
	case q.qtype == dns.TypeANY:
		// ANY below/outside the zone: the statement gives two answers (NOTIMP / name error); not judged
		for _, t := range txt {
			if allStored[t] {
				viol("stored-value-leak:"+q.class, "a stored challenge value was returned for a name that is not label.zone: "+t)
			}
		}
		return
	}

	switch q.class {
	case "label.zone", "ns":
		if q.qtype == dns.TypeTXT {
			if failing {
				if !consulted {
					viol("txt-storage-not-consulted", "storage was not consulted for a TXT query of label.zone")
				}
				if resp.Rcode != dns.RcodeServerFailure {
					viol("storage-failure-not-servfail", fmt.Sprintf("storage failed, rcode must be SERVFAIL, got %s (%d TXT answers)", dns.RcodeToString[resp.Rcode], len(txt)))
				}
				return
			}
			if !sameStrings(txt, stored) {
				viol("txt-mismatch", fmt.Sprintf("TXT answers %q, stored non-empty values for label %q are %q", txt, q.label, stored))
			}
			if len(other) > 0 {
				viol("txt-foreign-records", fmt.Sprintf("non-TXT records in a TXT answer: %v", other))
			}
			if len(stored) > 0 && resp.Rcode != dns.RcodeSuccess {
				viol("txt-rcode", fmt.Sprintf("values are stored but rcode is %s", dns.RcodeToString[resp.Rcode]))
			}
			for _, rr := range resp.Answer {
				if !strings.EqualFold(rr.Header().Name, q.name) {
					viol("txt-owner", fmt.Sprintf("answer owner %q differs from the query name", rr.Header().Name))
				}
			}
			return
		}
		if q.class == "ns" && (q.qtype == dns.TypeA || q.qtype == dns.TypeAAAA) {
			var conf nsConf
			for _, c := range s.ns {
				if strings.EqualFold(c.name, q.name) {
					conf = c
				}
			}
			want := ipSet(conf.v4)
			if q.qtype == dns.TypeAAAA {
				want = ipSet(conf.v6)
			}
			got := []string{}
			for _, rr := range resp.Answer {
				switch a := rr.(type) {
				case *dns.A:
					got = append(got, a.A.String())
				case *dns.AAAA:
					got = append(got, a.AAAA.String())
				}
			}
			sort.Strings(got)
			if !sameStrings(got, want) || (len(want) > 0 && resp.Rcode != dns.RcodeSuccess) {
				viol("static-ns-address", fmt.Sprintf("static %s records of the name server: got %v (%s), configured %v", tname, got, dns.RcodeToString[resp.Rcode], want))
			}
		}
		// other types for label.zone: nothing is stated
		for _, t := range txt {
			viol("txt-in-non-txt-answer", "TXT record "+t+" in the answer to a non-TXT query")
		}
	case "zone":
		switch q.qtype {
		case dns.TypeSOA:
			nsNames := []string{}
			for _, c := range s.ns {
				nsNames = append(nsNames, c.name)
			}
			sort.Strings(nsNames)
			ok := len(resp.Answer) == 1 && resp.Rcode == dns.RcodeSuccess
			if ok {
				soa, is := resp.Answer[0].(*dns.SOA)
				ok = is && strings.EqualFold(soa.Hdr.Name, s.zone) && soa.Ns == nsNames[0] && soa.Mbox == strings.ReplaceAll(s.email, "@", ".")+"."
			}
			if !ok {
				viol("static-soa", fmt.Sprintf("SOA query must return the zone's SOA (ns %s), got %v %s", nsNames[0], other, dns.RcodeToString[resp.Rcode]))
			}
		case dns.TypeNS:
			want := []string{}
			for _, c := range s.ns {
				want = append(want, c.name)
			}
			sort.Strings(want)
			got := []string{}
			for _, rr := range resp.Answer {
				if n, ok := rr.(*dns.NS); ok {
					got = append(got, n.Ns)
				}
			}
			sort.Strings(got)
			if !sameStrings(got, want) || resp.Rcode != dns.RcodeSuccess {
				viol("static-ns", fmt.Sprintf("NS query must return %v, got %v %s", want, got, dns.RcodeToString[resp.Rcode]))
			}
		}
		for _, t := range txt {
			if allStored[t] {
				viol("stored-value-leak:zone", "a stored challenge value was returned for the zone apex: "+t)
			}
		}
	case "deeper":
		hasSOA := false
		for _, rr := range resp.Ns {
			if soa, ok := rr.(*dns.SOA); ok && strings.EqualFold(soa.Hdr.Name, s.zone) {
				hasSOA = true
			}
		}
		if resp.Rcode != dns.RcodeNameError || !resp.Authoritative || !hasSOA || len(resp.Answer) != 0 {
			viol("deeper-not-nxdomain", fmt.Sprintf("a name two or more labels below the zone must get an authoritative NXDOMAIN with the SOA: rcode %s aa=%v soa=%v answers=%d", dns.RcodeToString[resp.Rcode], resp.Authoritative, hasSOA, len(resp.Answer)))
		}
		if consulted {
			r.Count("deeper_consulted_storage", 1)
		}
	default: // lookalike, parent, unrelated: not names of this zone
		for _, t := range txt {
			if allStored[t] {
				viol("stored-value-leak:"+q.class, fmt.Sprintf("a stored challenge value (%s) was returned for %s, which is not a name of zone %s", t, q.name, s.zone))
				break
			}
		}
	}
}

func main() {
	r := ev.Start("C48", "exploration")
	r.SetMaxSamples(8)
	r.SetRule("per scenario (zone of 2-4 labels given with/without trailing dot, 1-2 in-zone name servers with A/AAAA sets, a kv/memory store, a ChordSolver with managed domains and 3 registered custom hostnames) a seeded interleaving of storage changes (solver.Present/CleanUp, raw PrefixAppend incl. empty values and labels equal to the zone's first label, PrefixRemove), storage-failure toggles and queries; a query is distinct by (name class {label.zone, zone, ns, deeper, lookalike = zone text is only a string suffix, parent, unrelated}, qtype {TXT,A,AAAA,NS,SOA,ANY,CNAME}, storage failing, rcode, for TXT label.zone: number of stored non-empty values (0,1,2,3+) and presence of an empty value); query names are randomly re-cased")
	r.Assume("zone and name-server names are configured in lower case; name servers are one label below the zone (as in the repository's tests)")
	r.Assume("ANY for names below/outside the zone and rcodes of empty answers are not pinned by the statement and not judged; names outside the zone are judged only for 'no stored challenge value is returned'")
	rng := r.Rand("c48")
	nScen := r.Pick(20, 250)
	steps := r.Pick(160, 640)
	for i := 0; i < nScen; i++ {
		s := newScenario(rng, i)
		failLeft := 0
		for j := 0; j < steps; j++ {
			if failLeft > 0 {
				failLeft--
				if failLeft == 0 {
					s.kv.fail.Store(false)
				}
			} else if rng.Intn(25) == 0 {
				s.kv.fail.Store(true)
				failLeft = 3 + rng.Intn(6)
				r.Count("failure_windows", 1)
			}
			if rng.Intn(3) == 0 && !s.kv.fail.Load() {
				s.mutate(r, rng)
				continue
			}
			q := s.genQuery(rng)
			s.ask(r, q)
			r.Count("queries", 1)
		}
		r.Count("storage_lookups", s.kv.lists.Load())
		r.Count("storage_failures_injected", s.kv.failures.Load())
	}
	r.Finish()
}
