// C49 — certificate storage over the DHT behaves like a file store with exclusive locks.
//
// acme.NewChordStorage over a real single-node chord ring (chord.NewLocalNode +
// Create on kv/memory). Part A: seeded Store/Load/Delete/Exists/Stat/List
// histories vs a file-tree model. Part B: 2-4 storage instances contend for
// locks over the shared ring; every Acquire/Renew/Release they issue is recorded
// (per instance) with [call, return] times from one monotonic clock and mutual
// exclusion is judged by an interval oracle in which an over-slept or failed
// renewal means "the lease may have expired" (don't care), never a violation.
package main

import (
	"bytes"
	"context"
	"errors"
	"fmt"
	"io/fs"
	"math/rand"
	"sort"
	"strings"
	"sync"
	"sync/atomic"
	"time"

	"verifharness/lab/ev"

	"go.miragespace.co/specter/acme"
	rchord "go.miragespace.co/specter/chord"
	"go.miragespace.co/specter/kv/memory"
	"go.miragespace.co/specter/spec/chord"
	"go.miragespace.co/specter/spec/mocks"
	"go.miragespace.co/specter/spec/protocol"
	"go.miragespace.co/specter/spec/rtt"

	"go.uber.org/zap"
)

type noopRTT struct{}

func (noopRTT) Snapshot(string, time.Duration) *rtt.Statistics { return &rtt.Statistics{} }
func (noopRTT) RecordLatency(string, float64)                  {}
func (noopRTT) RecordSent(string)                              {}
func (noopRTT) RecordLost(string)                              {}
func (noopRTT) Drop(string)                                    {}

var nodeSeq atomic.Uint64

// newRing: one real chord node that created its own ring (as chord/local_chord_test.go devConfig does).
func newRing() (*rchord.LocalNode, error) {
	id := chord.Hash([]byte(fmt.Sprintf("c49-node-%d", nodeSeq.Add(1))))
	n := rchord.NewLocalNode(rchord.NodeConfig{
		KVProvider:               memory.WithHashFn(chord.Hash),
		ChordClient:              new(mocks.ChordClient),
		BaseLogger:               zap.NewNop(),
		Identity:                 &protocol.Node{Id: id, Address: fmt.Sprintf("c49-%d", id)},
		NodesRTT:                 noopRTT{},
		StabilizeInterval:        30 * time.Millisecond,
		FixFingerInterval:        50 * time.Millisecond,
		PredecessorCheckInterval: 70 * time.Millisecond,
	})
	if err := n.Create(); err != nil {
		return nil, err
	}
	return n, nil
}

// =====================================================================
// Part A: file-store semantics
// =====================================================================

func name(rng *rand.Rand, kind byte, n int) string {
	return fmt.Sprintf("%c%02d", kind, rng.Intn(n))
}

// keys: 0-3 directory segments "dNN" followed by a file segment "fNN.pem"; one
// time in four the last directory-level segment is a "bNN" name that is stored
// itself and/or has a file below it (a key that is both a stored key and the
// parent of deeper keys). Segments of one kind have the same length and kinds
// differ in their first letter, so no sibling is a string prefix of another.
func genKey(rng *rand.Rand) string {
	depth := rng.Intn(4)
	segs := []string{}
	for i := 0; i < depth; i++ {
		segs = append(segs, name(rng, 'd', 3))
	}
	if rng.Intn(4) == 0 {
		segs = append(segs, name(rng, 'b', 2))
		if rng.Intn(2) == 0 {
			return strings.Join(segs, "/") // the "bNN" key itself
		}
	}
	segs = append(segs, name(rng, 'f', 4)+".pem")
	return strings.Join(segs, "/")
}

func genDir(rng *rand.Rand) string {
	depth := rng.Intn(4)
	segs := []string{}
	for i := 0; i < depth; i++ {
		segs = append(segs, name(rng, 'd', 3))
	}
	return strings.Join(segs, "/")
}

type fileModel map[string][]byte

func (m fileModel) children(dir string) []string {
	set := map[string]bool{}
	pfx := dir
	if pfx != "" {
		pfx += "/"
	}
	for k := range m {
		if !strings.HasPrefix(k, pfx) {
			continue
		}
		rest := k[len(pfx):]
		if i := strings.IndexByte(rest, '/'); i >= 0 {
			rest = rest[:i]
		}
		set[pfx+rest] = true
	}
	out := []string{}
	for k := range set {
		out = append(out, k)
	}
	sort.Strings(out)
	return out
}

func (m fileModel) under(dir string) []string {
	pfx := dir
	if pfx != "" {
		pfx += "/"
	}
	out := []string{}
	for k := range m {
		if strings.HasPrefix(k, pfx) {
			out = append(out, k)
		}
	}
	sort.Strings(out)
	return out
}

var sampledA int

func partA(r *ev.Run) {
	rng := r.Rand("files")
	nScen := r.Pick(40, 400)
	nOps := r.Pick(300, 1000)
	ctx := context.Background()
	for s := 0; s < nScen; s++ {
		node, err := newRing()
		if err != nil {
			r.Inconclusive("cannot create ring: " + err.Error())
			return
		}
		nInst := 1 + rng.Intn(3)
		var insts []*acme.ChordStorage
		for i := 0; i < nInst; i++ {
			st, err := acme.NewChordStorage(zap.NewNop(), node, acme.StorageConfig{RetryInterval: 50 * time.Millisecond, LeaseTTL: time.Second})
			if err != nil {
				r.Inconclusive("NewChordStorage: " + err.Error())
				return
			}
			insts = append(insts, st)
		}
		model := fileModel{}
		deleted := map[string]bool{}
		// locks are taken and released while the file operations go on: lock names live in the same key
		// space as the stored values, and none of the file operations may be affected by them
		held := map[string]*acme.ChordStorage{}
		for o := 0; o < nOps; o++ {
			st := insts[rng.Intn(nInst)]
			caseName := fmt.Sprintf("A/s%d/op%d", s, o)
			if s%2 == 1 && rng.Intn(12) == 0 {
				if len(held) > 0 && rng.Intn(2) == 0 {
					for name, h := range held {
						_ = h.Unlock(ctx, name)
						delete(held, name)
						break
					}
				} else if name := genKey(rng); held[name] == nil {
					lctx, cancel := context.WithTimeout(ctx, 2*time.Second)
					if err := st.Lock(lctx, name); err == nil {
						held[name] = st
						r.Count("locks_held_during_file_operations", 1)
					}
					cancel()
				}
				continue
			}
			viol := func(key, what string, wit map[string]any) {
				wit["scenario"] = s
				wit["op_index"] = o
				r.Violation(key, caseName, caseName+": "+what, wit)
			}
			switch k := rng.Intn(20); {
			case k < 6: // Store
				key := genKey(rng)
				val := make([]byte, 1+rng.Intn(64))
				rng.Read(val)
				if err := st.Store(ctx, key, val); err != nil {
					r.Inconclusive(fmt.Sprintf("%s: Store(%q) failed: %v", caseName, key, err))
					continue
				}
				_, existed := model[key]
				model[key] = val
				delete(deleted, key)
				r.Case(fmt.Sprintf("store/overwrite=%v/depth=%d/inst=%d", existed, strings.Count(key, "/"), nInst))
			case k < 8: // Delete
				key := genKey(rng)
				if ks := model.under(""); len(ks) > 0 && rng.Intn(3) != 0 {
					key = ks[rng.Intn(len(ks))]
				}
				_, existed := model[key]
				if err := st.Delete(ctx, key); err != nil {
					if !existed && errors.Is(err, fs.ErrNotExist) {
						r.Case("delete/absent-notexist")
						continue
					}
					r.Inconclusive(fmt.Sprintf("%s: Delete(%q) failed: %v", caseName, key, err))
					continue
				}
				delete(model, key)
				deleted[key] = true
				r.Case(fmt.Sprintf("delete/existed=%v", existed))
			case k < 14: // Load / Exists / Stat
				key := genKey(rng)
				all := model.under("")
				switch rng.Intn(4) {
				case 0, 1:
					if len(all) > 0 {
						key = all[rng.Intn(len(all))]
					}
				case 2:
					ds := make([]string, 0, len(deleted))
					for d := range deleted {
						ds = append(ds, d)
					}
					sort.Strings(ds)
					if len(ds) > 0 {
						key = ds[rng.Intn(len(ds))]
					}
				}
				want, exists := model[key]
				state := "never"
				if exists {
					state = "stored"
				} else if deleted[key] {
					state = "deleted"
				}
				got, lerr := st.Load(ctx, key)
				ex := st.Exists(ctx, key)
				info, serr := st.Stat(ctx, key)
				if len(model.under(key)) > 0 {
					// the key is (also) the parent of deeper keys: what reading it means is not pinned by the statement
					r.Case("load/file-and-directory-unjudged")
					r.Count("unjudged_reads_of_file_and_directory_keys", 1)
					continue
				}
				r.Case("load/" + state)
				wit := map[string]any{"key": key, "state": state, "load_err": fmt.Sprint(lerr), "exists": ex, "stat_err": fmt.Sprint(serr)}
				if exists {
					if sampledA < 2 {
						sampledA++
						r.Sample(map[string]any{"part": "files", "op": "Load", "key": key, "value_len": len(got), "matches_last_store": bytes.Equal(got, want)})
					}
					if lerr != nil || !bytes.Equal(got, want) {
						viol("load-not-last-stored", fmt.Sprintf("Load(%q) = %x, %v; last stored value %x", key, got, lerr, want), wit)
					}
					if !ex {
						viol("exists-false-for-stored", fmt.Sprintf("Exists(%q) = false for a stored key", key), wit)
					}
					if serr != nil || info.Size != int64(len(want)) || !info.IsTerminal {
						viol("stat-stored", fmt.Sprintf("Stat(%q) = %+v, %v for a stored key of %d bytes", key, info, serr, len(want)), wit)
					}
				} else {
					kk := "never-stored"
					if state == "deleted" {
						kk = "deleted"
					}
					if lerr == nil {
						viol("load-"+kk+"-exists", fmt.Sprintf("Load(%q) returned %d bytes for a %s key", key, len(got), state), wit)
					} else if !errors.Is(lerr, fs.ErrNotExist) {
						viol("load-"+kk+"-wrong-error", fmt.Sprintf("Load(%q) of a %s key must fail with fs.ErrNotExist, got %v", key, state, lerr), wit)
					}
					if ex {
						viol("exists-true-"+kk, fmt.Sprintf("Exists(%q) = true for a %s key", key, state), wit)
					}
					if serr == nil {
						viol("stat-"+kk+"-exists", fmt.Sprintf("Stat(%q) succeeded for a %s key", key, state), wit)
					}
				}
			default: // List
				dir := genDir(rng)
				arg := dir
				if dir != "" && rng.Intn(3) == 0 {
					arg = dir + "/"
				}
				want := model.children(dir)
				got, err := st.List(ctx, arg, false)
				wit := map[string]any{"prefix": arg, "got": got, "want": want, "list_err": fmt.Sprint(err)}
				nFiles, nDirs, nBoth := 0, 0, 0
				for _, c := range want {
					_, isFile := model[c]
					isDir := len(model.under(c)) > 0
					switch {
					case isFile && isDir:
						nBoth++
					case isFile:
						nFiles++
					default:
						nDirs++
					}
				}
				if nBoth > 0 {
					r.Count("lists_with_file_and_directory_child", 1)
				}
				r.Case(fmt.Sprintf("list/depth=%d/files=%d/dirs=%d/both=%d/slash=%v", strings.Count(dir, "/")+btoi(dir != ""), min(nFiles, 3), min(nDirs, 3), min(nBoth, 2), arg != dir))
				if err != nil {
					if len(want) == 0 && errors.Is(err, fs.ErrNotExist) {
						continue
					}
					r.Inconclusive(fmt.Sprintf("%s: List(%q) failed: %v", caseName, arg, err))
					continue
				}
				if sampledA < 4 && len(want) >= 2 && nDirs > 0 {
					sampledA++
					r.Sample(map[string]any{"part": "files", "op": "List", "prefix": arg, "recursive": false, "result": got})
				}
				seen := map[string]int{}
				for _, g := range got {
					seen[g]++
				}
				for g, n := range seen {
					if n > 1 {
						viol("list-duplicate-child", fmt.Sprintf("List(%q) returned %q %d times", arg, g, n), wit)
					}
				}
				gs := append([]string(nil), got...)
				sort.Strings(gs)
				gs = dedup(gs)
				if strings.Join(gs, "\n") != strings.Join(want, "\n") {
					viol("list-children-mismatch", fmt.Sprintf("List(%q, non-recursive) = %v, the immediate children are %v", arg, got, want), wit)
				}
				// recursive listing is not part of the statement: observed, counted, not judged
				if rec, err := st.List(ctx, arg, true); err == nil {
					rs := append([]string(nil), rec...)
					sort.Strings(rs)
					if strings.Join(rs, "\n") != strings.Join(model.under(dir), "\n") {
						r.Count("unjudged_recursive_list_differs", 1)
					}
					r.Count("recursive_lists_observed", 1)
				}
			}
		}
		for name, h := range held {
			_ = h.Unlock(ctx, name)
		}
		node.Leave()
	}
}

func btoi(b bool) int {
	if b {
		return 1
	}
	return 0
}

func dedup(s []string) []string {
	out := s[:0:0]
	for i, x := range s {
		if i == 0 || s[i-1] != x {
			out = append(out, x)
		}
	}
	return out
}

// =====================================================================
// Part B: locks
// =====================================================================

var t0 = time.Now()

func mono() time.Duration { return time.Since(t0) }

type kvCall struct {
	Op        string // acquire renew release
	Inst      int
	Lease     string
	Call, Ret time.Duration
	TTL       time.Duration
	Token     uint64
	Err       string
	Prev      uint64 // renew: the token the caller presented
}

type history struct {
	mu    sync.Mutex
	calls []kvCall
}

func (h *history) add(c kvCall) { h.mu.Lock(); h.calls = append(h.calls, c); h.mu.Unlock() }

// recKV records the lease calls of one storage instance; failRenew simulates a
// holder that can no longer reach the store for renewals.
type recKV struct {
	chord.KV
	inst      int
	h         *history
	failRenew atomic.Bool
}

func errStr(err error) string {
	if err == nil {
		return ""
	}
	return err.Error()
}

func (k *recKV) Acquire(ctx context.Context, lease []byte, ttl time.Duration) (uint64, error) {
	c := mono()
	tok, err := k.KV.Acquire(ctx, lease, ttl)
	k.h.add(kvCall{Op: "acquire", Inst: k.inst, Lease: string(lease), Call: c, Ret: mono(), TTL: ttl, Token: tok, Err: errStr(err)})
	return tok, err
}

func (k *recKV) Renew(ctx context.Context, lease []byte, ttl time.Duration, prev uint64) (uint64, error) {
	if k.failRenew.Load() {
		c := mono()
		k.h.add(kvCall{Op: "renew", Inst: k.inst, Lease: string(lease), Call: c, Ret: c, TTL: ttl, Err: "injected: store unreachable", Prev: prev})
		return 0, errors.New("injected: store unreachable")
	}
	c := mono()
	tok, err := k.KV.Renew(ctx, lease, ttl, prev)
	k.h.add(kvCall{Op: "renew", Inst: k.inst, Lease: string(lease), Call: c, Ret: mono(), TTL: ttl, Token: tok, Err: errStr(err), Prev: prev})
	return tok, err
}

func (k *recKV) Release(ctx context.Context, lease []byte, token uint64) error {
	c := mono()
	err := k.KV.Release(ctx, lease, token)
	k.h.add(kvCall{Op: "release", Inst: k.inst, Lease: string(lease), Call: c, Ret: mono(), Token: token, Err: errStr(err)})
	return err
}

type apiCall struct {
	Op        string // lock unlock
	Inst      int
	Key       string
	Call, Ret time.Duration
	Err       string
}

type lockScenario struct {
	id      int
	kind    string // handoff | lost-renewals | two-keys
	nInst   int
	ttl     time.Duration
	rounds  int
	holdMin time.Duration
	holdMax time.Duration
	seed    int64
}

type lockResult struct {
	sc    lockScenario
	api   []apiCall
	kv    []kvCall
	err   string
	stuck bool
}

func runLockScenario(sc lockScenario) lockResult {
	res := lockResult{sc: sc}
	node, err := newRing()
	if err != nil {
		res.err = err.Error()
		return res
	}
	defer node.Leave()
	h := &history{}
	var apiMu sync.Mutex
	addAPI := func(c apiCall) { apiMu.Lock(); res.api = append(res.api, c); apiMu.Unlock() }
	type inst struct {
		st *acme.ChordStorage
		kv *recKV
	}
	insts := make([]inst, sc.nInst)
	for i := range insts {
		kv := &recKV{KV: node, inst: i, h: h}
		st, err := acme.NewChordStorage(zap.NewNop(), kv, acme.StorageConfig{RetryInterval: 50 * time.Millisecond, LeaseTTL: sc.ttl})
		if err != nil {
			res.err = err.Error()
			return res
		}
		insts[i] = inst{st, kv}
	}
	keys := []string{"certs/issuer/example.com"}
	if sc.kind == "two-keys" {
		keys = append(keys, "certs/issuer/example.org")
	}
	ctx, cancel := context.WithTimeout(context.Background(), 5*time.Minute)
	defer cancel()
	var wg sync.WaitGroup
	for i := range insts {
		wg.Add(1)
		go func(i int) {
			defer wg.Done()
			rng := rand.New(rand.NewSource(sc.seed + int64(i)*7919))
			in := insts[i]
			for rd := 0; rd < sc.rounds; rd++ {
				key := keys[rng.Intn(len(keys))]
				lctx := ctx
				var endCtx context.CancelFunc
				if sc.kind == "ctx-ends-after-lock" && i == 0 && rd == 0 {
					// the context handed to Lock ends right after Lock has returned (a request-scoped
					// context): the lock is still held and has to be kept alive until Unlock
					lctx, endCtx = context.WithCancel(ctx)
					defer endCtx()
				}
				impatient := sc.kind == "impatient-waiters" && i > 0
				if impatient {
					// a waiter that gives up: its context ends while another instance holds the lock
					var lc context.CancelFunc
					lctx, lc = context.WithTimeout(ctx, sc.ttl*time.Duration(15+rng.Intn(25))/100)
					defer lc()
				}
				c := mono()
				err := in.st.Lock(lctx, key)
				e := errStr(err)
				if impatient && err != nil {
					e = "gave-up: " + e
				}
				addAPI(apiCall{"lock", i, key, c, mono(), e})
				if err != nil {
					if impatient {
						time.Sleep(time.Duration(rng.Intn(30)) * time.Millisecond)
						continue
					}
					return
				}
				hold := sc.holdMin + time.Duration(rng.Int63n(int64(sc.holdMax-sc.holdMin)+1))
				if endCtx != nil {
					endCtx()
					addAPI(apiCall{"lock-context-ended", i, key, mono(), mono(), ""})
					hold = sc.ttl * 17 / 10 // well past one lease: only renewals keep the lock
				}
				if sc.kind == "lost-renewals" && i == 0 && rd == 0 {
					// this holder loses the store: its renewals fail, it keeps "holding" well beyond the lease
					in.kv.failRenew.Store(true)
					hold = sc.ttl*2 + sc.holdMax
				}
				time.Sleep(hold) // workload pacing only
				c = mono()
				err = in.st.Unlock(ctx, key)
				addAPI(apiCall{"unlock", i, key, c, mono(), errStr(err)})
				in.kv.failRenew.Store(false)
				time.Sleep(time.Duration(rng.Intn(30)) * time.Millisecond)
			}
		}(i)
	}
	done := make(chan struct{})
	go func() { wg.Wait(); close(done) }()
	select {
	case <-done:
	case <-time.After(6 * time.Minute):
		res.stuck = true
	}
	h.mu.Lock()
	res.kv = append([]kvCall(nil), h.calls...)
	h.mu.Unlock()
	apiMu.Lock()
	res.api = append([]apiCall(nil), res.api...)
	apiMu.Unlock()
	return res
}

const leasePrefix = "/acme-storage/"

// certainlyHeld reports whether instance a's lease was certainly valid during
// all of [x, y]: the windows [ret_i, call_i + ttl_i) of the successful grants of
// a's current holding epoch (lease calls issued in [epochFrom, epochTo]) cover the
// interval without a gap. ttl as granted by the store is truncated to seconds.
func certainlyHeld(kv []kvCall, a int, lease string, epochFrom, epochTo, x, y time.Duration) (bool, []kvCall) {
	type win struct{ from, to time.Duration }
	var wins []win
	var used []kvCall
	for _, c := range kv {
		if c.Inst != a || c.Lease != lease || c.Call < epochFrom || c.Ret > epochTo {
			continue
		}
		if (c.Op == "acquire" || c.Op == "renew") && c.Err == "" {
			ttl := c.TTL.Truncate(time.Second)
			wins = append(wins, win{c.Ret, c.Call + ttl})
			used = append(used, c)
		}
	}
	sort.Slice(wins, func(i, j int) bool { return wins[i].from < wins[j].from })
	cur := x
	for _, w := range wins {
		if w.from <= cur && w.to > cur {
			cur = w.to
			if cur > y {
				return true, used
			}
		}
	}
	return false, used
}

var sampledB int

func judgeLocks(r *ev.Run, res lockResult) {
	sc := res.sc
	caseName := fmt.Sprintf("B/%s/%d", sc.kind, sc.id)
	if res.err != "" {
		r.Inconclusive(caseName + ": setup failed: " + res.err)
		return
	}
	if res.stuck {
		r.Inconclusive(caseName + ": watchdog: the lock workload did not finish")
		return
	}
	conflicts, renewOK, renewFail := 0, 0, 0
	for _, c := range res.kv {
		switch {
		case c.Op == "acquire" && c.Err != "":
			conflicts++
		case c.Op == "renew" && c.Err == "":
			renewOK++
		case c.Op == "renew":
			renewFail++
		}
	}
	// a live holder that reaches the store keeps its lease: a renewal issued and answered entirely
	// inside the validity of the holder's latest grant (so the store certainly saw the lease
	// unexpired) and not preceded by a release must not be refused — otherwise the lease of a
	// healthy holder runs out under it and another instance legitimately takes the lock while
	// the first still works under it
	{
		type st struct {
			grant    kvCall
			has      bool
			released bool
		}
		cur := map[string]*st{}
		calls := append([]kvCall{}, res.kv...)
		sort.SliceStable(calls, func(i, j int) bool { return calls[i].Call < calls[j].Call })
		insideJudged := 0
		for _, c := range calls {
			k := fmt.Sprintf("%d|%s", c.Inst, c.Lease)
			x := cur[k]
			if x == nil {
				x = &st{}
				cur[k] = x
			}
			switch c.Op {
			case "acquire":
				if c.Err == "" {
					x.grant, x.has, x.released = c, true, false
				}
			case "release":
				x.released = true
			case "renew":
				inside := x.has && !x.released && c.Call >= x.grant.Ret && c.Ret < x.grant.Call+x.grant.TTL.Truncate(time.Second)
				if c.Err == "" {
					x.grant, x.has = c, true
					if inside {
						insideJudged++
					}
					continue
				}
				if strings.HasPrefix(c.Err, "injected") {
					x.has = false // from here on the lease may run out
					continue
				}
				if inside {
					insideJudged++
					r.Violation("renewal-refused-inside-own-lease", caseName, fmt.Sprintf("%s: instance %d's renewal of %q during [%v,%v] was refused (%s) although its latest grant (%s at [%v,%v], token %d, ttl %v) was certainly still valid and it had not released; the renewal presented token %d", caseName, c.Inst, c.Lease, c.Call, c.Ret, c.Err, x.grant.Op, x.grant.Call, x.grant.Ret, x.grant.Token, x.grant.TTL, c.Prev),
						map[string]any{"kind": sc.kind, "ttl": sc.ttl.String(), "seed": sc.seed, "renewal": c, "latest_grant": x.grant})
				}
				x.has = false
			}
		}
		r.Count("kv_renewals_judged_inside_own_lease", int64(insideJudged))
	}
	r.Count("kv_acquire_conflicts", int64(conflicts))
	r.Count("kv_renewals_ok", int64(renewOK))
	r.Count("kv_renewals_failed", int64(renewFail))
	r.Count("kv_lease_calls", int64(len(res.kv)))
	locks := []apiCall{}
	gaveUp := 0
	defer func() { r.Count("lock_calls_that_gave_up_when_their_context_ended", int64(gaveUp)) }()
	for _, a := range res.api {
		if a.Op == "lock" {
			if strings.HasPrefix(a.Err, "gave-up: ") {
				gaveUp++
				continue // a waiter whose context ended: it reported failure and holds nothing
			}
			if a.Err != "" {
				r.Inconclusive(fmt.Sprintf("%s: Lock failed: %s", caseName, a.Err))
				return
			}
			locks = append(locks, a)
		}
	}
	unlockOf := func(l apiCall) (apiCall, bool) {
		for _, a := range res.api {
			if a.Op == "unlock" && a.Inst == l.Inst && a.Key == l.Key && a.Call >= l.Ret {
				return a, true
			}
		}
		return apiCall{}, false
	}
	contended, expiredTakeovers, uncertain := 0, 0, 0
	for _, b := range locks {
		lease := leasePrefix + b.Key
		// B's Lock must be backed by a successful Acquire of its own during the call
		backed := false
		hadConflict := false
		for _, c := range res.kv {
			if c.Inst == b.Inst && c.Lease == lease && c.Op == "acquire" && c.Call >= b.Call && c.Ret <= b.Ret {
				if c.Err == "" {
					backed = true
				} else {
					hadConflict = true
				}
			}
		}
		if hadConflict {
			contended++
		}
		wit := map[string]any{"kind": sc.kind, "instances": sc.nInst, "ttl": sc.ttl.String(), "seed": sc.seed, "lock": b}
		for _, a := range locks {
			if a.Inst == b.Inst || a.Key != b.Key {
				continue
			}
			// A held the lock (Lock returned) before B's Lock call began ...
			if !(a.Ret < b.Call) {
				continue
			}
			// ... and had not begun to unlock when B's Lock returned
			epochTo := time.Duration(1<<62 - 1)
			if u, ok := unlockOf(a); ok {
				if u.Call <= b.Ret {
					continue
				}
				epochTo = u.Call
			}
			held, grants := certainlyHeld(res.kv, a.Inst, lease, a.Call, epochTo, b.Call, b.Ret)
			if !held {
				// A's renewals over-slept / failed: its lease may have expired — the statement allows B to obtain the lock
				// (only count the case where A really still was between Lock and Unlock)
				expiredTakeovers++
				uncertain++
				// ... unless A simply stopped keeping its lock alive: a holder that has not unlocked and
				// reaches the store renews; if it issued no renewal at all over at least three renewal
				// intervals (TTL/4 each) before the take-over, the lock was lost by the storage, not by the lease
				if sc.kind == "ctx-ends-after-lock" && a.Inst == 0 {
					var ended time.Duration = -1
					for _, x := range res.api {
						if x.Op == "lock-context-ended" && x.Inst == 0 && x.Key == a.Key {
							ended = x.Call
						}
					}
					renews := 0
					for _, c := range res.kv {
						if c.Inst == 0 && c.Lease == lease && c.Op == "renew" && ended >= 0 && c.Call >= ended && c.Call <= b.Ret {
							renews++
						}
					}
					if ended >= 0 && renews == 0 && b.Ret-ended >= sc.ttl*3/4 {
						wit["holder_lock"] = a
						r.Violation("holder-stopped-renewing-while-holding", caseName, fmt.Sprintf("%s: instance 0 holds Lock(%q) (its Lock context ended at %v, Unlock not called yet) and issued no lease renewal during the %v until instance %d obtained the lock at %v: the lease ran out under a live holder", caseName, a.Key, ended, b.Ret-ended, b.Inst, b.Ret), wit)
					}
				}
				continue
			}
			wit["holder_lock"] = a
			wit["holder_grants"] = grants
			r.Violation("lock-obtained-while-held", caseName, fmt.Sprintf("%s: instance %d obtained Lock(%q) during [%v,%v] while instance %d held it (locked at %v, not yet unlocking) and its lease was certainly valid", caseName, b.Inst, b.Key, b.Call, b.Ret, a.Inst, a.Ret), wit)
		}
		if !backed {
			r.Violation("lock-without-acquire", caseName, fmt.Sprintf("%s: instance %d's Lock(%q) returned success without a successful lease acquisition during the call", caseName, b.Inst, b.Key), wit)
		}
	}
	r.Count("locks_obtained", int64(len(locks)))
	r.Count("locks_contended", int64(contended))
	r.Count("takeovers_after_possible_expiry", int64(expiredTakeovers))
	if sampledB < 2 && contended > 0 {
		sampledB++
		brief := []string{}
		for i, c := range res.kv {
			if i >= 10 {
				break
			}
			e := "ok"
			if c.Err != "" {
				e = "err: " + c.Err
			}
			brief = append(brief, fmt.Sprintf("inst%d %s [%.3fs,%.3fs] %s", c.Inst, c.Op, c.Call.Seconds(), c.Ret.Seconds(), e))
		}
		r.Sample(map[string]any{"part": "locks", "kind": sc.kind, "instances": sc.nInst, "ttl": sc.ttl.String(), "first_lease_calls": brief})
	}
	r.Case(fmt.Sprintf("locks/%s/n=%d/ttl=%v/contended=%v/takeover=%v", sc.kind, sc.nInst, sc.ttl, contended > 0, expiredTakeovers > 0))
}

func partB(r *ev.Run) {
	rng := r.Rand("locks")
	n := r.Pick(9, 60)
	var scs []lockScenario
	for i := 0; i < n; i++ {
		sc := lockScenario{id: i, nInst: 2 + rng.Intn(3), ttl: time.Second, rounds: 2, seed: rng.Int63()}
		sc.kind = []string{"handoff", "impatient-waiters", "lost-renewals", "two-keys", "ctx-ends-after-lock"}[i%5]
		if i%5 == 4 {
			sc.ttl = 2 * time.Second
		}
		// holds long enough for a few renewals (ttl/4 apart)
		sc.holdMin = sc.ttl * 3 / 10
		sc.holdMax = sc.ttl * 9 / 10
		if sc.kind == "lost-renewals" {
			sc.rounds = 1
			if sc.nInst > 3 {
				sc.nInst = 3
			}
		}
		scs = append(scs, sc)
	}
	results := make([]lockResult, len(scs))
	var wg sync.WaitGroup
	sem := make(chan struct{}, 30)
	for i := range scs {
		wg.Add(1)
		sem <- struct{}{}
		go func(i int) {
			defer wg.Done()
			defer func() { <-sem }()
			results[i] = runLockScenario(scs[i])
		}(i)
	}
	wg.Wait()
	for _, res := range results {
		judgeLocks(r, res)
	}
}

func main() {
	r := ev.Start("C49", "exploration")
	r.SetMaxSamples(6)
	r.SetRule("files (in every second scenario locks with path-like names are taken and released by the instances while the history runs: no file operation may be affected by them): per scenario (1-3 storage instances over one real single-node chord ring on kv/memory) a seeded history of Store/Delete/Load+Exists+Stat/List over keys of 0-3 directory segments dNN and a file segment fNN.pem, one in four through a bNN segment that is itself stored and/or has a file below it (a child that is both a stored key and a parent), non-empty values, distinct by (operation, overwrite / key state stored|deleted|never, depth, number of file / directory / file-and-directory children, trailing slash); locks: scenarios {handoff, impatient-waiters (waiters whose context ends after 0.15-0.4 TTL while another instance holds the lock: a Lock that returns success must still be backed by its own acquisition), lost-renewals (a holder's renewals fail while it keeps holding), two-keys, ctx-ends-after-lock (the context given to Lock ends once Lock has returned while the lock is held for 1.7 TTL: the holder must go on renewing)} x 2-4 instances x lease TTL {1s,2s}, each instance locking, holding 0.3-0.9 TTL and unlocking in rounds, distinct by (kind, instances, ttl, contention observed, takeover after possible expiry observed); every renewal issued and answered inside the holder's own certainly-valid lease must be granted")
	r.Assume("segments of one kind have equal length (siblings that are string prefixes of each other are outside the statement), values are non-empty; a key that is both stored and the parent of deeper keys is judged only as a child in its parent's non-recursive listing (exactly once); Load/Exists/Stat of such a key and listing it as the prefix are not judged; a missing directory may list empty or fail with fs.ErrNotExist")
	r.Assume("lock oracle: instance A certainly holds during [x,y] iff its Lock returned before x, its Unlock was not called by y and the windows [return_i, call_i + floor_seconds(ttl)) of its successful Acquire/Renew calls cover [x,y]; anything else (over-slept or failed renewal) counts as 'lease may have expired' and is not judged")
	r.Assume("the DHT is a single-node ring (no remote hops, no ownership change during the history)")
	if r.ReplayCase == "" || strings.HasPrefix(r.ReplayCase, "A/") {
		partA(r)
	}
	if r.ReplayCase == "" || strings.HasPrefix(r.ReplayCase, "B/") {
		partB(r)
	}
	r.Finish()
}
