// C50 — the gateways a client uses: at most three, measured ones first in ascending
// average round-trip time.
//
// A real client.Client with a real rtt.Instrumentation as Recorder. Each case replaces the
// connected set (0..8 nodes) and the measurement table (missing / fresh / equal / zero /
// stale values), then observes the set at its three use sites: GetConnectedNodes, the node
// every RPC stream is dialled to, and the Servers list of the PublishTunnel request of a
// real SyncConfigTunnels. The expected averages come from the values the harness recorded,
// not from the recorder.
//
// Stale measurements: the recorder reads the clock. The build overlays rtt/rtt.go (regenerated from
// the repository's current text) so that it reads a settable clock (`clockfile:` extra of
// tools/mkoverlay.sh): every case records its stale samples 10.001 s .. 1 h before, and its fresh
// samples 0 .. 9 s before, the virtual instant at which the set is observed, so that a node's
// history holds aged-out samples in front of recent ones. The thorough tier runs its first 4000
// cases on the real clock instead (stale samples recorded, one shared 11 s sleep, fresh samples):
// there no verdict depends on how long anything took; a case whose fresh values might have aged
// past 8 s (monotonic clock) before it was evaluated is skipped and counted.
package main

import (
	"fmt"
	"math/rand"
	"os"
	"path/filepath"
	"sort"
	"time"

	"verifharness/lab/child"
	"verifharness/lab/ev"
	"verifharness/lab/tunclient"

	realrtt "go.miragespace.co/specter/rtt"
	"go.miragespace.co/specter/spec/protocol"
	"go.miragespace.co/specter/spec/rtt"
	"go.miragespace.co/specter/tun/client"
)

type nodeSpec struct {
	Addr    string    `json:"addr"`
	Id      uint64    `json:"id"`
	Unknown bool      `json:"unknown,omitempty"`
	Fresh   []float64 `json:"fresh,omitempty"` // latencies recorded now (ns)
	Stale   []float64 `json:"stale,omitempty"` // latencies recorded more than 10 s ago
	StaleMs int64     `json:"stale_age_ms,omitempty"`
	FreshMs int64     `json:"fresh_age_ms,omitempty"`
}

func (n nodeSpec) node() *protocol.Node {
	return &protocol.Node{Id: n.Id, Address: n.Addr, Unknown: n.Unknown}
}

type caseSpec struct {
	No    int        `json:"case"`
	Nodes []nodeSpec `json:"nodes"`
}

func makeCase(rng *rand.Rand, no int) caseSpec {
	c := caseSpec{No: no}
	n := rng.Intn(9)
	base := []float64{0, 1, 1000, 250000, 1e6, 5e6, 2e7, 1e8, 1e9, 3.6e12}
	shared := base[rng.Intn(len(base))]
	perm := rng.Perm(40)
	for i := 0; i < n; i++ {
		ns := nodeSpec{Addr: fmt.Sprintf("10.%d.0.%d:443", no%200, perm[i]+1), Id: uint64(100 + i), Unknown: rng.Intn(8) == 0}
		vals := func() []float64 {
			k := 1 + rng.Intn(6)
			v := make([]float64, k)
			switch rng.Intn(4) {
			case 0: // equal to other nodes' values
				for j := range v {
					v[j] = shared
				}
			case 1:
				for j := range v {
					v[j] = base[rng.Intn(len(base))]
				}
			default:
				for j := range v {
					v[j] = float64(rng.Int63n(2e8))
				}
			}
			return v
		}
		switch rng.Intn(6) {
		case 0, 1: // unmeasured
		case 2: // only stale
			ns.Stale = vals()
		case 3: // stale and fresh
			ns.Stale = vals()
			ns.Fresh = vals()
		default:
			ns.Fresh = vals()
		}
		ns.StaleMs = []int64{10001, 10500, 11000, 30000, 61000, 3600000}[rng.Intn(6)]
		ns.FreshMs = []int64{0, 0, 1, 500, 3000, 9000}[rng.Intn(6)]
		c.Nodes = append(c.Nodes, ns)
	}
	return c
}

func mean(v []float64) float64 {
	s := 0.0
	for _, x := range v {
		s += x
	}
	return s / float64(len(v))
}

func main() {
	r := ev.Start("C50", "exploration")
	r.SetRule("one case = connected set of 0..8 nodes (distinct addresses, some flagged Unknown) and a measurement table: per node none / 1..6 fresh latencies (0..9 s old) / stale only (10.001 s..1 h old) / stale in front of fresh, values from {0, 1ns .. 1h} and random, with values shared between nodes (equal averages); observed at GetConnectedNodes, the dial target of each RPC and the Servers of PublishTunnel during a real SyncConfigTunnels. Non-trivial: >= 2 nodes connected and >= 1 measured. Distinct by (connected count, measured count among the result, unmeasured present, stale present, equal averages present, Unknown node present)")
	r.Assume("which (at most three) of more than three connected nodes are used is not stated by the property and not judged; order among equal averages (within 2 ns) and among unmeasured nodes is not judged")
	dir, err := os.MkdirTemp(child.WorkDir(), "c50-")
	if err != nil {
		r.Inconclusive("scratch dir: " + err.Error())
		r.Finish()
	}
	defer os.RemoveAll(dir)
	path := filepath.Join(dir, "client.yaml")
	if err := tunclient.WriteConfig(path, []client.Tunnel{{Target: "tcp://127.0.0.1:9", Hostname: "fixedname"}}); err != nil {
		r.Inconclusive("write config: " + err.Error())
		r.Finish()
	}
	svc := &tunclient.Service{Prefix: "g"}
	rig, err := tunclient.New(path, svc, nil, nil)
	if err != nil {
		r.Inconclusive("client setup: " + err.Error())
		r.Finish()
	}
	defer rig.Close()

	n := r.Pick(3000, 40000)
	realN := r.Pick(0, 4000) // cases on the real clock
	r.Extra("stale_measurements", "virtual clock (overlay of rtt/rtt.go): stale samples 10.001 s .. 1 h old in front of fresh ones 0 .. 9 s old; thorough: the first 4000 cases on the real clock with one shared 11 s sleep")
	cases := make([]caseSpec, 0, n)
	recs := make([]*realrtt.Instrumentation, 0, n)
	realrtt.VerifNow = time.Now
	for i := 0; i < n; i++ {
		name := fmt.Sprintf("case%d", i)
		if !r.WantCase(name) {
			continue
		}
		c := makeCase(r.Rand(name), i)
		rec := realrtt.NewInstrumentation(32)
		if i < realN {
			for _, ns := range c.Nodes {
				for _, v := range ns.Stale {
					rec.RecordLatency(rtt.MakeMeasurementKey(ns.node()), v)
				}
			}
		}
		cases = append(cases, c)
		recs = append(recs, rec)
	}
	if realN > 0 {
		t0 := time.Now()
		for time.Since(t0) < 11*time.Second { // monotonic; the recorder's window is 10 s
			time.Sleep(time.Until(t0.Add(11 * time.Second)))
		}
	}
	sampled := 0
	epoch := time.Date(2030, 1, 1, 0, 0, 0, 0, time.UTC)
	for i, c := range cases {
		name := fmt.Sprintf("case%d", c.No)
		rec := recs[i]
		var recorder rtt.Recorder = rec
		start := time.Now()
		if c.No < realN {
			realrtt.VerifNow = time.Now
			for _, ns := range c.Nodes {
				for _, v := range ns.Fresh {
					rec.RecordLatency(rtt.MakeMeasurementKey(ns.node()), v)
				}
			}
			r.Count("cases_on_the_real_clock", 1)
		} else {
			at := epoch.Add(time.Duration(c.No) * 2 * time.Hour)
			var now time.Time
			realrtt.VerifNow = func() time.Time { return now }
			for _, ns := range c.Nodes {
				now = at.Add(-time.Duration(ns.StaleMs) * time.Millisecond)
				for _, v := range ns.Stale {
					rec.RecordLatency(rtt.MakeMeasurementKey(ns.node()), v)
				}
				now = at.Add(-time.Duration(ns.FreshMs) * time.Millisecond)
				for _, v := range ns.Fresh {
					rec.RecordLatency(rtt.MakeMeasurementKey(ns.node()), v)
				}
				if len(ns.Stale) > 0 && len(ns.Fresh) > 0 {
					r.Count("nodes_with_aged_out_samples_in_front_of_recent_ones", 1)
				}
			}
			now = at
			r.Count("cases_on_the_virtual_clock", 1)
		}
		rig.Client.Recorder = recorder
		var nodes []*protocol.Node
		for _, ns := range c.Nodes {
			nodes = append(nodes, ns.node())
		}
		rig.Client.VerifSetConnected(nodes)

		got := rig.Client.GetConnectedNodes()
		rig.Transport.TakePeers()
		svc.TakeServers()
		rig.Client.SyncConfigTunnels(rig.Ctx)
		peers := rig.Transport.TakePeers()
		servers := svc.TakeServers()
		if c.No < realN && time.Since(start) > 8*time.Second {
			r.Count("dontcare_cases_skipped_measurements_may_have_aged", 1)
			continue
		}

		// expected measurement table, from what the harness recorded
		avg := map[string]float64{}
		byAddr := map[string]nodeSpec{}
		stalePresent, unknownPresent := false, false
		for _, ns := range c.Nodes {
			byAddr[ns.Addr] = ns
			if len(ns.Fresh) > 0 {
				avg[ns.Addr] = mean(ns.Fresh)
			}
			if len(ns.Stale) > 0 {
				stalePresent = true
			}
			if ns.Unknown {
				unknownPresent = true
			}
		}
		check := func(site string, addrs []string) (measured int, unmeasured bool, equal bool) {
			bad := func(key, format string, a ...any) {
				r.Violation(key, name, site+": "+fmt.Sprintf(format, a...), map[string]any{"case": c, "observed": addrs, "expected_average_ns": avg})
			}
			if len(addrs) > 3 {
				bad("more-than-three", "%d gateway nodes are used: %v", len(addrs), addrs)
			}
			seen := map[string]bool{}
			for _, a := range addrs {
				if _, ok := byAddr[a]; !ok {
					bad("not-connected", "node %s is used but is not in the connected set", a)
				}
				if seen[a] {
					bad("duplicate-node", "node %s is used twice", a)
				}
				seen[a] = true
			}
			for i := 0; i+1 < len(addrs); i++ {
				la, lok := avg[addrs[i]]
				ra, rok := avg[addrs[i+1]]
				switch {
				case !lok && rok:
					bad("unmeasured-before-measured", "%s (no recent measurement) comes before %s (average %.0f ns)", addrs[i], addrs[i+1], ra)
				case lok && rok && la > ra+2:
					bad("not-ascending", "%s (average %.0f ns) comes before %s (average %.0f ns)", addrs[i], la, addrs[i+1], ra)
				case lok && rok && la >= ra-2 && la <= ra+2:
					equal = true
				}
			}
			for _, a := range addrs {
				if _, ok := avg[a]; ok {
					measured++
				} else {
					unmeasured = true
				}
			}
			return
		}
		var gotAddrs []string
		for _, g := range got {
			gotAddrs = append(gotAddrs, g.GetAddress())
		}
		measured, unmeasured, equal := check("GetConnectedNodes", gotAddrs)
		for _, s := range servers {
			check("PublishTunnel.Servers", s)
			if fmt.Sprint(s) != fmt.Sprint(gotAddrs) && len(s)+len(gotAddrs) > 0 {
				// same state, so the same selection is expected; order among ties may differ
				a, b := append([]string(nil), s...), append([]string(nil), gotAddrs...)
				sort.Strings(a)
				sort.Strings(b)
				if fmt.Sprint(a) != fmt.Sprint(b) {
					r.Violation("publish-uses-other-set", name, fmt.Sprintf("PublishTunnel was sent servers %v while GetConnectedNodes gives %v", s, gotAddrs), c)
				}
			}
		}
		r.Count("publish_requests_checked", int64(len(servers)))
		// every RPC goes to a node that may stand first
		for _, p := range peers {
			if _, ok := byAddr[p]; !ok {
				r.Violation("rpc-to-unconnected-node", name, "an RPC stream was dialled to "+p+" which is not connected", c)
				continue
			}
			pa, pok := avg[p]
			for _, g := range gotAddrs {
				ga, gok := avg[g]
				if gok && (!pok || pa > ga+2) {
					r.Violation("rpc-not-to-fastest", name, fmt.Sprintf("an RPC stream was dialled to %s (average %v, measured %v) although %s has average %.0f ns", p, pa, pok, g, ga), c)
					break
				}
			}
		}
		r.Count("rpc_dials_checked", int64(len(peers)))
		if len(c.Nodes) > 0 && len(got) == 0 {
			r.Count("dontcare_empty_result_for_nonempty_set", 1)
		}
		sig := ""
		if len(c.Nodes) >= 2 && measured >= 1 {
			nc := len(c.Nodes)
			if nc > 4 {
				nc = 4
			}
			sig = fmt.Sprintf("n%d/m%d/u%v/s%v/e%v/k%v", nc, measured, unmeasured, stalePresent, equal, unknownPresent)
		}
		r.Case(sig)
		if sampled < 4 && len(c.Nodes) >= 3 && measured >= 2 {
			sampled++
			r.Sample(map[string]any{"case": c, "GetConnectedNodes": gotAddrs, "publish_servers": servers, "rpc_dialled_to": peers})
		}
	}
	r.Finish()
}
