// C51 — clients are offered at most three distinct gateway endpoints.
//
// The real Server.GetNodes handler runs against a scripted chord.VNode: the
// successor list is generated (virtual nodes = repeated addresses, nil holes,
// virtual nodes of the asked node itself) and the destination records of the
// physical nodes are present / missing / unreadable / undecodable in the
// scripted KV. The oracle walks the generated ring description, not the code.
package main

import (
	"context"
	"fmt"
	"math/rand"
	"sort"
	"strings"
	"sync"

	"verifharness/lab/ev"
	"verifharness/lab/tunlab"

	"go.miragespace.co/specter/spec/chord"
	"go.miragespace.co/specter/spec/protocol"
	"go.miragespace.co/specter/spec/tun"
)

type phys struct {
	Name   string         `json:"name"`
	Chord  *protocol.Node `json:"-"`
	Tunnel *protocol.Node `json:"-"`
	Addr   string         `json:"chord_addr"`
	TunStr string         `json:"tunnel_endpoint"`
	Record string         `json:"record"` // present | nil | empty | error | garbage
}

type caseDesc struct {
	Name       string   `json:"case"`
	Phys       []phys   `json:"physical_nodes"`
	SuccList   []string `json:"successor_list"` // physical node name per entry ("-" = nil hole)
	Retry      bool     `json:"retry_wrapper"`
	Needed     []string `json:"needed"`
	WantFail   bool     `json:"want_fail"`
	GotErr     string   `json:"got_err,omitempty"`
	GotNodes   []string `json:"got_nodes,omitempty"`
	RecordGets []string `json:"record_keys_read,omitempty"`
}

func nodeStr(n *protocol.Node) string {
	if n == nil {
		return "<nil>"
	}
	return fmt.Sprintf("%d/%s", n.GetId(), n.GetAddress())
}

func main() {
	r := ev.Start("C51", "exploration")
	r.SetRule("seeded ring descriptions: 1..6 physical nodes (each with its own chord address, tunnel endpoint and destination record state in {present, nil, empty, error, undecodable}), a successor list of 0..8 entries drawn with repetition from their virtual nodes (including further virtual nodes of the asked node and nil holes); half the cases behind chord.WrapRetryKV. Distinct = (canonical repetition pattern of the successor list, record-state vector of the first three distinct physical nodes, retry wrapper); non-trivial = the successor list is non-empty (more than the node itself is in play) ")
	r.Assume("'physical node' = chord address; the three candidates are the asked node followed by the first distinct addresses along its successor list")
	r.Assume("a record that exists but cannot be read or decoded counts as 'cannot be found' (no endpoint can be taken from it)")
	r.Assume("the order of the endpoints after the first is not pinned by the statement and is not judged")
	rng := r.Rand("c51")
	n := r.Pick(6000, 100000)

	ca := tunlab.NewCA()
	caller := tunlab.NewClient(ca, "caller", 4242, "")

	type job struct {
		name string
		seed int64
	}
	jobs := make([]job, n)
	for i := range jobs {
		jobs[i] = job{fmt.Sprintf("c%d", i), rng.Int63()}
	}
	var mu sync.Mutex
	samplesByKind := map[string]bool{}
	var okCount, failCount, recordReads int64
	const workers = 16
	// worker-local servers, one bare and one behind chord.WrapRetryKV (the
	// production wiring); which one a case uses depends on the case index only
	labs := make([][2]*tunlab.Lab, workers)
	for w := range labs {
		for k := 0; k < 2; k++ {
			l, err := tunlab.NewLab(tunlab.Options{Script: &tunlab.ScriptVNode{Ident: &protocol.Node{}}, Retry: k == 1})
			if err != nil {
				panic(err)
			}
			labs[w][k] = l
			defer l.Close()
		}
	}
	tunlab.ParallelW(n, workers, func(w, i int) {
		j := jobs[i]
		if !r.WantCase(j.name) {
			return
		}
		d, sig, viols := runCase(labs[w][i%2], i%2 == 1, rand.New(rand.NewSource(j.seed)), j.name, caller, i)
		r.Case(sig)
		mu.Lock()
		recordReads += int64(len(d.RecordGets))
		if d.GotErr == "" {
			okCount++
		} else {
			failCount++
		}
		kind := fmt.Sprintf("%v/%d", d.WantFail, len(d.Needed))
		if !samplesByKind[kind] && len(d.SuccList) > 2 {
			samplesByKind[kind] = true
			r.Sample(d)
		}
		mu.Unlock()
		for _, v := range viols {
			if v[0] == "spurious-failure" && strings.Contains(v[1], "context deadline exceeded") {
				r.Inconclusive(j.name + ": " + v[1]) // the handler's own 3 s context ran out: machine stalled
				continue
			}
			r.Violation(v[0], j.name, v[1], d)
		}
	})
	r.Count("responses_ok", okCount)
	r.Count("responses_failed", failCount)
	r.Count("destination_record_reads", recordReads)
	r.Finish()
}

func runCase(lab *tunlab.Lab, retry bool, rng *rand.Rand, name string, caller *tunlab.Client, idx int) (caseDesc, string, [][2]string) {
	var viols [][2]string
	nPhys := 1 + rng.Intn(6)
	ps := make([]phys, nPhys)
	missProb := []float64{0, 0.1, 0.35}[rng.Intn(3)]
	for i := range ps {
		ps[i].Name = string(rune('A' + i))
		ps[i].Addr = fmt.Sprintf("chord-%s-%d.example:%d", ps[i].Name, rng.Intn(1000), 2000+rng.Intn(100))
		ps[i].Chord = &protocol.Node{Id: rng.Uint64() % chord.MaxIdentitifer, Address: ps[i].Addr}
		ps[i].Tunnel = &protocol.Node{Id: rng.Uint64() % chord.MaxIdentitifer, Address: fmt.Sprintf("tunnel-%s-%d.example:%d", ps[i].Name, rng.Intn(1000), 3000+rng.Intn(100))}
		ps[i].TunStr = nodeStr(ps[i].Tunnel)
		ps[i].Record = "present"
		if rng.Float64() < missProb {
			ps[i].Record = []string{"nil", "empty", "error", "garbage"}[rng.Intn(4)]
		}
	}
	if rng.Intn(8) == 0 {
		// an address that is a prefix of another one must still be a different physical node
		if nPhys > 1 {
			ps[1].Addr = ps[0].Addr + "1"
			ps[1].Chord.Address = ps[1].Addr
		}
	}
	// the asked node is a virtual node of physical node A
	self := &protocol.Node{Id: rng.Uint64() % chord.MaxIdentitifer, Address: ps[0].Addr}
	nSucc := rng.Intn(9)
	succ := make([]chord.VNode, 0, nSucc)
	d := caseDesc{Name: name, Retry: retry}
	selfBias := rng.Intn(3) // how often further virtual nodes of the asked node appear
	for k := 0; k < nSucc; k++ {
		if rng.Intn(12) == 0 {
			succ = append(succ, nil)
			d.SuccList = append(d.SuccList, "-")
			continue
		}
		p := rng.Intn(nPhys)
		if selfBias == 2 && rng.Intn(3) == 0 {
			p = 0
		}
		succ = append(succ, &tunlab.IdentVNode{Ident: &protocol.Node{Id: rng.Uint64() % chord.MaxIdentitifer, Address: ps[p].Addr}})
		d.SuccList = append(d.SuccList, ps[p].Name)
	}
	d.Phys = ps

	// ---- the scripted DHT
	byKey := map[string]*phys{}
	for i := range ps {
		byKey[tun.DestinationByChordKey(ps[i].Chord)] = &ps[i]
	}
	var gmu sync.Mutex
	// the worker's server is reused; its scripted node is re-programmed per case
	// (GetNodes keeps no state between calls)
	script := lab.Script
	script.Reset(self)
	script.SuccFn = func() ([]chord.VNode, error) { return succ, nil }
	script.GetFn = func(_ context.Context, key string) ([]byte, error) {
		p, ok := byKey[key]
		if !ok {
			return nil, nil // nothing stored under any other key
		}
		gmu.Lock()
		d.RecordGets = append(d.RecordGets, p.Name)
		gmu.Unlock()
		switch p.Record {
		case "present":
			// the record is published under the physical node's root identity,
			// which is not the virtual node the list entry names
			b, err := (&protocol.TunnelDestination{Chord: p.Chord, Tunnel: p.Tunnel}).MarshalVT()
			if err != nil {
				panic(err)
			}
			return b, nil
		case "nil":
			return nil, nil
		case "empty":
			return []byte{}, nil
		case "error":
			return nil, fmt.Errorf("scripted KV failure for %s", p.Name)
		}
		return []byte{0x0a, 0x7f, 0x01}, nil
	}
	resp, gerr := lab.Server.GetNodes(caller.Ctx(context.Background(), idx), &protocol.GetNodesRequest{})
	if gerr != nil {
		d.GotErr = gerr.Error()
	}
	for _, nd := range resp.GetNodes() {
		d.GotNodes = append(d.GotNodes, nodeStr(nd))
	}
	sort.Strings(d.RecordGets)

	// ---- oracle: walk the description
	needed := []*phys{&ps[0]}
	seen := map[string]bool{ps[0].Addr: true}
	for k, s := range succ {
		if len(needed) >= tun.NumRedundantLinks {
			break
		}
		if s == nil {
			continue
		}
		a := s.Identity().GetAddress()
		if seen[a] {
			continue
		}
		seen[a] = true
		for i := range ps {
			if ps[i].Addr == a {
				needed = append(needed, &ps[i])
			}
		}
		_ = k
	}
	states := []string{}
	for _, p := range needed {
		d.Needed = append(d.Needed, p.Name)
		states = append(states, p.Record)
		if p.Record != "present" {
			d.WantFail = true
		}
	}
	if d.WantFail {
		if gerr == nil {
			viols = append(viols, [2]string{"missing-record-served", fmt.Sprintf("needed nodes %v have record states %v, yet GetNodes answered %v", d.Needed, states, d.GotNodes)})
		}
	} else {
		if gerr != nil {
			viols = append(viols, [2]string{"spurious-failure", fmt.Sprintf("every needed record (%v) is present, GetNodes failed: %v", d.Needed, gerr)})
		} else {
			got := resp.GetNodes()
			if len(got) > tun.NumRedundantLinks {
				viols = append(viols, [2]string{"more-than-three", fmt.Sprintf("%d endpoints returned", len(got))})
			}
			if len(got) == 0 || nodeStr(got[0]) != ps[0].TunStr {
				viols = append(viols, [2]string{"first-not-self", fmt.Sprintf("first endpoint %v is not the asked node's own tunnel endpoint %s", d.GotNodes, ps[0].TunStr)})
			}
			want := []string{}
			for _, p := range needed {
				want = append(want, p.TunStr)
			}
			g := append([]string(nil), d.GotNodes...)
			sort.Strings(g)
			sort.Strings(want)
			if strings.Join(g, ",") != strings.Join(want, ",") {
				viols = append(viols, [2]string{"wrong-endpoints", fmt.Sprintf("successor list %v: got %v, the first distinct physical nodes %v publish %v", d.SuccList, d.GotNodes, d.Needed, want)})
			}
			// distinct physical nodes
			dup := map[string]bool{}
			for _, s := range d.GotNodes {
				if dup[s] {
					viols = append(viols, [2]string{"duplicate-endpoint", fmt.Sprintf("endpoint %s offered twice: %v", s, d.GotNodes)})
				}
				dup[s] = true
			}
		}
	}
	// signature: canonical repetition pattern + record states of the needed nodes
	canon := map[string]byte{"A": 'S'}
	var pat []byte
	for _, s := range d.SuccList {
		if s == "-" {
			pat = append(pat, '-')
			continue
		}
		if _, ok := canon[s]; !ok {
			canon[s] = byte('a' + len(canon) - 1)
		}
		pat = append(pat, canon[s])
	}
	sig := ""
	if len(d.SuccList) > 0 {
		sig = fmt.Sprintf("%s|%s|%v", pat, strings.Join(states, ","), d.Retry)
	}
	return d, sig, viols
}
