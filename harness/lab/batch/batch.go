// Package batch runs lists of cases in parallel child processes and folds
// their reports into the run's evidence.
package batch

import (
	"encoding/json"
	"fmt"
	"os"
	"strings"
	"sync"
	"time"

	"verifharness/lab/child"
	"verifharness/lab/ev"
	"verifharness/lab/racelog"
)

type Viol struct {
	Key     string `json:"key"`
	What    string `json:"what"`
	Witness any    `json:"witness,omitempty"`
}

type CaseResult struct {
	Name         string   `json:"name"`
	Sig          string   `json:"sig"`            // "" = trivial
	Sigs         []string `json:"sigs,omitempty"` // additional distinctness signatures
	Sample       any      `json:"sample,omitempty"`
	Violations   []Viol   `json:"violations,omitempty"`
	Inconclusive string   `json:"inconclusive,omitempty"`
}

type Report struct {
	Cases    []CaseResult     `json:"cases"`
	Counters map[string]int64 `json:"counters,omitempty"`
}

func (rep *Report) Add(c CaseResult) { rep.Cases = append(rep.Cases, c) }
func (rep *Report) Count(k string, n int64) {
	if rep.Counters == nil {
		rep.Counters = map[string]int64{}
	}
	rep.Counters[k] += n
}

// Absorb folds a child's report into the run.
func Absorb(r *ev.Run, rep *Report) {
	for _, c := range rep.Cases {
		r.Case(c.Sig)
		for _, s := range c.Sigs {
			r.Distinct(s)
		}
		if c.Sample != nil {
			r.Sample(c.Sample)
		}
		for _, v := range c.Violations {
			r.Violation(v.Key, c.Name, v.What, v.Witness)
		}
		if c.Inconclusive != "" {
			r.Inconclusive(c.Name + ": " + c.Inconclusive)
		}
	}
	for k, n := range rep.Counters {
		if strings.HasSuffix(k, "_max") {
			if cur := r.Counter(k); n > cur {
				r.Count(k, n-cur)
			}
			continue
		}
		r.Count(k, n)
	}
}

// Max keeps the maximum of a counter whose name ends in "_max".
func (rep *Report) Max(k string, n int64) {
	if rep.Counters == nil {
		rep.Counters = map[string]int64{}
	}
	if n > rep.Counters[k] {
		rep.Counters[k] = n
	}
}

// Progress lets a child persist finished cases so that a crash loses only the
// case in flight: the child appends each finished CaseResult to a file in its
// scratch dir; the parent reads it if the child dies.
type Progress struct {
	mu sync.Mutex
	f  *os.File
}

func OpenProgress() *Progress {
	d := child.InChildDir()
	if d == "" {
		return &Progress{}
	}
	f, _ := os.OpenFile(d+"/progress.jsonl", os.O_CREATE|os.O_WRONLY|os.O_APPEND, 0o644)
	return &Progress{f: f}
}

// Begin records the case about to run (so the parent knows which one crashed).
func (p *Progress) Begin(name string, input any) {
	if p.f == nil {
		return
	}
	b, _ := json.Marshal(map[string]any{"begin": name, "input": input})
	p.mu.Lock()
	p.f.Write(append(b, '\n'))
	p.mu.Unlock()
}

func (p *Progress) Done(c CaseResult) {
	if p.f == nil {
		return
	}
	b, _ := json.Marshal(map[string]any{"done": c})
	p.mu.Lock()
	p.f.Write(append(b, '\n'))
	p.mu.Unlock()
}

type progressLine struct {
	Begin string          `json:"begin"`
	Input json.RawMessage `json:"input"`
	Done  *CaseResult     `json:"done"`
}

// readProgress returns finished cases and the case in flight (if any).
func readProgress(dir string) (done []CaseResult, inflight string, input json.RawMessage) {
	b, err := os.ReadFile(dir + "/progress.jsonl")
	if err != nil {
		return
	}
	dec := json.NewDecoder(bytesReader(b))
	for {
		var l progressLine
		if err := dec.Decode(&l); err != nil {
			break
		}
		if l.Begin != "" {
			inflight, input = l.Begin, l.Input
		}
		if l.Done != nil {
			done = append(done, *l.Done)
			if l.Done.Name == inflight {
				inflight, input = "", nil
			}
		}
	}
	return
}

// Run distributes batches (one JSON-serialisable argument each) over parallel
// children running the registered function fn (which must return *Report) and
// absorbs the results. A dead child is classified: a crash through repository
// code is a violation with key crashKey(<case in flight>); anything else
// (including the watchdog) is inconclusive.
func Run(r *ev.Run, fn string, batches []any, parallel int, timeout time.Duration, crashKey func(inflight string, head string) string) {
	if parallel < 1 {
		parallel = 1
	}
	sem := make(chan struct{}, parallel)
	var wg sync.WaitGroup
	for i, b := range batches {
		wg.Add(1)
		sem <- struct{}{}
		go func(i int, b any) {
			defer wg.Done()
			defer func() { <-sem }()
			res := child.Run(fn, b, child.Opt{Timeout: timeout})
			defer res.Cleanup()
			if !res.Died && res.Err == "" {
				var rep Report
				if err := res.Decode(&rep); err != nil {
					r.Inconclusive(fmt.Sprintf("batch %d: cannot decode child report: %v", i, err))
					return
				}
				Absorb(r, &rep)
				return
			}
			done, inflight, input := readProgress(res.Dir)
			Absorb(r, &Report{Cases: done})
			if res.TimedOut {
				r.Inconclusive(fmt.Sprintf("batch %d: watchdog fired in case %q (log kept in replays)", i, inflight))
				keepLog(r, res.LogPath, fmt.Sprintf("batch%d-watchdog", i))
				return
			}
			if res.Err != "" && !res.Died {
				r.Inconclusive(fmt.Sprintf("batch %d: child error: %s", i, res.Err))
				return
			}
			crashed, inRepo, head, excerpt := child.Crash(res.LogPath)
			if crashed && inRepo {
				key := "crash"
				if crashKey != nil {
					key = crashKey(inflight, head)
				}
				r.Case("")
				r.Violation(key, inflight, "process crashed in repository code: "+head, map[string]any{"case": inflight, "input": input, "crash": excerpt})
				return
			}
			keepLog(r, res.LogPath, fmt.Sprintf("batch%d-died", i))
			r.Inconclusive(fmt.Sprintf("batch %d: child died (exit %d, crashed=%v) in case %q outside repository code: %s", i, res.ExitCode, crashed, inflight, head))
		}(i, b)
	}
	wg.Wait()
}

func keepLog(r *ev.Run, logPath, tag string) {
	b, err := os.ReadFile(logPath)
	if err != nil {
		return
	}
	if len(b) > 2<<20 {
		b = b[:2<<20]
	}
	dir := ev.Root() + "/replays"
	_ = os.MkdirAll(dir, 0o755)
	_ = os.WriteFile(fmt.Sprintf("%s/%s-%s-s%d-%s.log", dir, r.ID, r.Tier, r.Seed, tag), b, 0o644)
}

// ReportRaces turns race-detector reports (this worker was built with -race) whose
// stacks run through the given repository packages into violations.
func ReportRaces(r *ev.Run, pkgs ...string) {
	if !racelog.Enabled() {
		r.Extra("race_detector", "off in this tier/build")
		return
	}
	reps := racelog.Collect(pkgs...)
	n := 0
	for _, rep := range reps {
		if rep.InRepo {
			n++
			r.Violation("data-race:"+rep.Key, "", "race detector report in repository code", map[string]any{"report": rep.Excerpt, "count": rep.Count})
		}
	}
	r.Extra("race_detector", "enabled")
	r.Count("race_reports_in_repository_code", int64(n))
}
