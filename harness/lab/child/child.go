// Package child runs batches of cases in a child process (re-exec of the worker
// binary) so that a panic, a fatal runtime error (stack overflow, checkptr, a
// race-detector abort) or a deliberate SIGKILL never takes the monitors with it.
package child

import (
	"bufio"
	"encoding/json"
	"fmt"
	"os"
	"os/exec"
	"path/filepath"
	"regexp"
	"strings"
	"sync/atomic"
	"syscall"
	"time"
)

type Fn func(args json.RawMessage) (any, error)

var registry = map[string]Fn{}

func Register(name string, fn Fn) { registry[name] = fn }

// Main dispatches to a registered function when the process is a child.
// Call it first thing in main(), after the Register calls.
func Main() {
	name := os.Getenv("VERIF_CHILD")
	if name == "" {
		return
	}
	// die with the worker: a watchdog that kills the worker must not leave children behind
	if pp := os.Getenv("VERIF_PARENT_PID"); pp != "" {
		var pid int
		fmt.Sscan(pp, &pid)
		if pid > 1 {
			go func() {
				for {
					time.Sleep(2 * time.Second)
					if err := syscall.Kill(pid, 0); err != nil {
						fmt.Fprintln(os.Stderr, "parent worker is gone, exiting")
						os.Exit(98)
					}
				}
			}()
		}
	}
	fn, ok := registry[name]
	if !ok {
		fmt.Fprintf(os.Stderr, "unknown child function %q\n", name)
		os.Exit(97)
	}
	var args json.RawMessage
	if p := os.Getenv("VERIF_CHILD_IN"); p != "" {
		b, err := os.ReadFile(p)
		if err != nil {
			fmt.Fprintf(os.Stderr, "child input: %v\n", err)
			os.Exit(97)
		}
		args = b
	}
	out, err := fn(args)
	res := map[string]any{"out": out}
	if err != nil {
		res["err"] = err.Error()
	}
	b, merr := json.Marshal(res)
	if merr != nil {
		fmt.Fprintf(os.Stderr, "child output marshal: %v\n", merr)
		os.Exit(97)
	}
	if p := os.Getenv("VERIF_CHILD_OUT"); p != "" {
		if err := os.WriteFile(p+".tmp", b, 0o644); err == nil {
			_ = os.Rename(p+".tmp", p)
		}
	}
	os.Exit(0)
}

type Result struct {
	Out      json.RawMessage // what the function returned (nil if the child died)
	Err      string          // error returned by the function
	ExitCode int
	Signaled bool // killed by a signal (incl. the watchdog)
	TimedOut bool // the wall-clock watchdog fired: inconclusive, never a violation
	Died     bool // exited without delivering a result
	LogPath  string
	Dir      string // scratch directory of this child (kept until Cleanup)
}

func (r Result) Cleanup() { _ = os.RemoveAll(r.Dir) }

// Decode unmarshals the child's output.
func (r Result) Decode(v any) error {
	if r.Out == nil {
		return fmt.Errorf("child delivered no output")
	}
	return json.Unmarshal(r.Out, v)
}

var seq atomic.Int64

func WorkDir() string {
	d := os.Getenv("VERIF_WORKDIR")
	if d == "" {
		d = filepath.Join(os.TempDir(), "verif-work")
	}
	_ = os.MkdirAll(d, 0o755)
	return d
}

type Opt struct {
	Timeout time.Duration
	Env     []string
	// Wrap, if set, is a command prefix (e.g. strace ...) put before the binary.
	Wrap []string
	// Stdout, if set, receives the child's stdout line by line as it is produced.
	Stdout func(line string)
	// Started is called with the process once it runs (for deliberate kills).
	Started func(p *os.Process)
}

// Run executes the registered function name in a fresh process.
func Run(name string, args any, o Opt) Result {
	dir := filepath.Join(WorkDir(), fmt.Sprintf("child-%d-%d", os.Getpid(), seq.Add(1)))
	_ = os.MkdirAll(dir, 0o755)
	res := Result{Dir: dir, LogPath: filepath.Join(dir, "stderr.log")}
	in := filepath.Join(dir, "in.json")
	out := filepath.Join(dir, "out.json")
	b, err := json.Marshal(args)
	if err != nil {
		res.Died = true
		res.Err = "marshal args: " + err.Error()
		return res
	}
	_ = os.WriteFile(in, b, 0o644)
	exe, _ := os.Executable()
	argv := append(append([]string{}, o.Wrap...), exe)
	cmd := exec.Command(argv[0], argv[1:]...)
	cmd.Env = append(os.Environ(), "VERIF_CHILD="+name, "VERIF_CHILD_IN="+in, "VERIF_CHILD_OUT="+out, "VERIF_CHILD_DIR="+dir, fmt.Sprintf("VERIF_PARENT_PID=%d", os.Getpid()))
	cmd.Env = append(cmd.Env, o.Env...)
	lf, _ := os.Create(res.LogPath)
	cmd.Stderr = lf
	var stdoutDone chan struct{}
	if o.Stdout != nil {
		pr, pw, _ := os.Pipe()
		cmd.Stdout = pw
		stdoutDone = make(chan struct{})
		go func() {
			sc := bufio.NewScanner(pr)
			sc.Buffer(make([]byte, 1<<20), 1<<26)
			for sc.Scan() {
				o.Stdout(sc.Text())
			}
			close(stdoutDone)
		}()
		defer pr.Close()
		defer func() { pw.Close(); <-stdoutDone }()
	} else {
		cmd.Stdout = lf
	}
	cmd.SysProcAttr = &syscall.SysProcAttr{Setpgid: true}
	if err := cmd.Start(); err != nil {
		lf.Close()
		res.Died = true
		res.Err = "start: " + err.Error()
		return res
	}
	if o.Started != nil {
		o.Started(cmd.Process)
	}
	done := make(chan error, 1)
	go func() { done <- cmd.Wait() }()
	timeout := o.Timeout
	if timeout <= 0 {
		timeout = 5 * time.Minute
	}
	select {
	case <-done:
	case <-time.After(timeout):
		res.TimedOut = true
		_ = syscall.Kill(-cmd.Process.Pid, syscall.SIGQUIT) // goroutine dump into the log
		select {
		case <-done:
		case <-time.After(10 * time.Second):
			_ = syscall.Kill(-cmd.Process.Pid, syscall.SIGKILL)
			<-done
		}
	}
	lf.Close()
	if ps := cmd.ProcessState; ps != nil {
		res.ExitCode = ps.ExitCode()
		if ws, ok := ps.Sys().(syscall.WaitStatus); ok && ws.Signaled() {
			res.Signaled = true
		}
	}
	if ob, err := os.ReadFile(out); err == nil {
		var w struct {
			Out json.RawMessage `json:"out"`
			Err string          `json:"err"`
		}
		if json.Unmarshal(ob, &w) == nil {
			res.Out, res.Err = w.Out, w.Err
		}
	}
	if res.Out == nil && res.Err == "" {
		res.Died = true
	}
	return res
}

// InChildDir returns the scratch directory of the running child.
func InChildDir() string { return os.Getenv("VERIF_CHILD_DIR") }

var crashHead = regexp.MustCompile(`^(panic:|fatal error:|runtime: goroutine stack exceeds)`)

// Crash inspects a dead child's log. repo reports whether the crashing stack
// runs through repository code; head is the first line of the crash.
func Crash(logPath string) (crashed bool, repo bool, head string, excerpt string) {
	b, err := os.ReadFile(logPath)
	if err != nil {
		return false, false, "", ""
	}
	lines := strings.Split(string(b), "\n")
	for i, l := range lines {
		if crashHead.MatchString(l) {
			crashed = true
			head = l
			end := i + 60
			if end > len(lines) {
				end = len(lines)
			}
			excerpt = strings.Join(lines[i:end], "\n")
			// the first goroutine block after the head is the crashing one
			blk := []string{}
			seen := false
			for _, m := range lines[i:] {
				if strings.HasPrefix(m, "goroutine ") {
					if seen {
						break
					}
					seen = true
				}
				blk = append(blk, m)
				if len(blk) > 400 {
					break
				}
			}
			repo = strings.Contains(strings.Join(blk, "\n"), "go.miragespace.co/specter/")
			return
		}
	}
	return
}
