// Package crashimg turns an strace log of a child process into crash images.
//
// The child runs under
//
//	strace -f -y -xx -s <big> -o <log> -e trace=<Syscalls> <binary>
//
// (see Wrap). Parse reads the log and extracts, in log order,
//
//   - the state-changing file operations below one directory (the "root"):
//     file creation / truncation by openat, write (at the descriptor's offset,
//     O_APPEND and lseek tracked), pwrite64, ftruncate, rename*, unlink*, mkdir*;
//   - the lines a child wrote with plain write(2) calls to a marker file
//     (outside the root), each tagged with the number of file operations that
//     precede it in the log.
//
// Image k (0 <= k <= len(Ops)) is the directory content after the first k
// operations: "the process stopped abruptly after operation k". For a process
// crash completed system calls persist (page cache), so fsync does not matter
// and is not an operation.
//
// Anything the replay cannot reproduce faithfully (a traced call of a kind it
// does not implement touching the root, a truncated payload, an open of a file
// it has never seen) makes Parse fail: the caller must treat that as
// inconclusive, never as a verdict.
package crashimg

import (
	"bufio"
	"crypto/sha256"
	"encoding/hex"
	"fmt"
	"os"
	"path/filepath"
	"sort"
	"strconv"
	"strings"
)

// Syscalls is the -e trace= list. The first group is replayed; the second
// group is traced only so that an unsupported way of changing the root is
// noticed instead of silently missed.
const Syscalls = "openat,write,pwrite64,lseek,ftruncate,rename,renameat,renameat2,unlink,unlinkat,mkdir,mkdirat,rmdir,fsync,fdatasync,close,dup,dup2,dup3," +
	"open,creat,openat2,writev,pwritev,pwritev2,truncate,link,linkat,symlink,symlinkat,fallocate,copy_file_range,sendfile"

// Wrap returns the command prefix for lab/child's Opt.Wrap.
func Wrap(logPath string) []string {
	return []string{"strace", "-f", "-y", "-xx", "-s", "8388608", "-o", logPath, "-e", "trace=" + Syscalls}
}

// Op is one state-changing file operation below the root.
type Op struct {
	Line int    // line number in the strace log (1-based) where the call completed
	Kind string // mkdir rmdir create truncate write rename unlink
	Path string // relative to the root ("." is the root itself)
	To   string // rename target
	Off  int64  // write offset
	Size int64  // truncate size
	Data []byte // write payload
	Mode os.FileMode
	Call string // system call name as traced
}

func (o Op) String() string {
	switch o.Kind {
	case "write":
		return fmt.Sprintf("%s %s off=%d len=%d", o.Call, o.Path, o.Off, len(o.Data))
	case "truncate":
		return fmt.Sprintf("%s %s size=%d", o.Call, o.Path, o.Size)
	case "rename":
		return fmt.Sprintf("%s %s -> %s", o.Call, o.Path, o.To)
	case "symlink":
		return fmt.Sprintf("%s %s -> %s", o.Call, o.Path, o.To)
	}
	return fmt.Sprintf("%s(%s) %s", o.Call, o.Kind, o.Path)
}

// Marker is one line written to the marker file.
type Marker struct {
	Ops  int // number of Ops that precede the marker in the log
	Line int
	Text string
}

type Trace struct {
	Root    string
	Ops     []Op
	Markers []Marker
	// Syncs[i] = number of Ops preceding the i-th fsync/fdatasync on a file below the root.
	Syncs []int
	Lines int
	Calls map[string]int // traced calls touching the root, by name
}

// ---------------------------------------------------------------- file system

type file struct {
	data []byte
	mode os.FileMode
	path string // current relative path, "" once unlinked
}

// FS is an in-memory directory tree (files and directories by relative path).
type FS struct {
	files map[string]*file
	dirs  map[string]bool
	// links: symbolic links below the root, link path -> target path (both relative to the root).
	// Only links to files are modelled; the parser resolves a link when a path is opened, so
	// file operations always name the target.
	links map[string]string
}

func NewFS() *FS {
	return &FS{files: map[string]*file{}, dirs: map[string]bool{}, links: map[string]string{}}
}

// Resolve follows a symbolic link at rel (one level; links to links are not modelled).
func (fs *FS) Resolve(rel string) string {
	if t, ok := fs.links[rel]; ok {
		return t
	}
	return rel
}

// Apply executes one operation.
func (fs *FS) Apply(o Op) error {
	switch o.Kind {
	case "mkdir":
		fs.dirs[o.Path] = true
	case "rmdir":
		delete(fs.dirs, o.Path)
	case "create":
		fs.files[o.Path] = &file{mode: o.Mode, path: o.Path}
	case "truncate":
		f := fs.files[o.Path]
		if f == nil {
			return fmt.Errorf("truncate of unknown file %s", o.Path)
		}
		f.data = resize(f.data, o.Size)
	case "write":
		f := fs.files[o.Path]
		if f == nil {
			return fmt.Errorf("write to unknown file %s", o.Path)
		}
		end := o.Off + int64(len(o.Data))
		if int64(len(f.data)) < end {
			f.data = resize(f.data, end)
		}
		copy(f.data[o.Off:], o.Data)
	case "symlink":
		fs.links[o.Path] = o.To
	case "rename":
		if t, isLink := fs.links[o.Path]; isLink {
			// the link itself moves
			delete(fs.links, o.Path)
			if old := fs.files[o.To]; old != nil {
				old.path = ""
				delete(fs.files, o.To)
			}
			fs.links[o.To] = t
			return nil
		}
		f := fs.files[o.Path]
		if f == nil {
			return fmt.Errorf("rename of unknown file %s", o.Path)
		}
		delete(fs.files, o.Path)
		delete(fs.links, o.To) // a name that was a link is replaced by the file
		if old := fs.files[o.To]; old != nil {
			old.path = ""
		}
		f.path = o.To
		fs.files[o.To] = f
	case "unlink":
		if _, isLink := fs.links[o.Path]; isLink {
			delete(fs.links, o.Path)
			return nil
		}
		f := fs.files[o.Path]
		if f == nil {
			return fmt.Errorf("unlink of unknown file %s", o.Path)
		}
		f.path = ""
		delete(fs.files, o.Path)
	default:
		return fmt.Errorf("unknown op kind %q", o.Kind)
	}
	return nil
}

func resize(b []byte, n int64) []byte {
	if int64(len(b)) >= n {
		return b[:n]
	}
	nb := make([]byte, n)
	copy(nb, b)
	return nb
}

// Paths returns the files of the tree, sorted.
func (fs *FS) Paths() []string {
	p := make([]string, 0, len(fs.files))
	for k := range fs.files {
		p = append(p, k)
	}
	sort.Strings(p)
	return p
}

// File returns the content of a file (nil, false if absent).
func (fs *FS) File(rel string) ([]byte, bool) {
	f := fs.files[fs.Resolve(rel)]
	if f == nil {
		return nil, false
	}
	return f.data, true
}

// Describe lists "path size sha256/8" of every file plus the directories: enough
// to identify an image in a report.
func (fs *FS) Describe() []string {
	out := []string{}
	ds := make([]string, 0, len(fs.dirs))
	for d := range fs.dirs {
		ds = append(ds, d)
	}
	sort.Strings(ds)
	for _, d := range ds {
		out = append(out, d+"/")
	}
	for _, p := range fs.Paths() {
		f := fs.files[p]
		h := sha256.Sum256(f.data)
		out = append(out, fmt.Sprintf("%s %dB %s", p, len(f.data), hex.EncodeToString(h[:6])))
	}
	ls := make([]string, 0, len(fs.links))
	for l, t := range fs.links {
		ls = append(ls, l+" -> "+t)
	}
	sort.Strings(ls)
	return append(out, ls...)
}

// Digest identifies the tree content.
func (fs *FS) Digest() string {
	h := sha256.New()
	for _, l := range fs.Describe() {
		h.Write([]byte(l))
		h.Write([]byte{0})
	}
	return hex.EncodeToString(h.Sum(nil)[:12])
}

// Materialize writes the tree below dst. The root directory itself is created
// only if the image contains it (Path "." was made) or it has content.
func (fs *FS) Materialize(dst string) error {
	ds := make([]string, 0, len(fs.dirs))
	for d := range fs.dirs {
		ds = append(ds, d)
	}
	sort.Strings(ds)
	for _, d := range ds {
		if err := os.MkdirAll(filepath.Join(dst, d), 0o755); err != nil {
			return err
		}
	}
	for p, f := range fs.files {
		full := filepath.Join(dst, p)
		if err := os.MkdirAll(filepath.Dir(full), 0o755); err != nil {
			return err
		}
		mode := f.mode.Perm()
		if mode == 0 {
			mode = 0o644
		}
		if err := os.WriteFile(full, f.data, mode|0o600); err != nil {
			return err
		}
	}
	for l, t := range fs.links {
		full := filepath.Join(dst, l)
		if err := os.MkdirAll(filepath.Dir(full), 0o755); err != nil {
			return err
		}
		relT, err := filepath.Rel(filepath.Dir(full), filepath.Join(dst, t))
		if err != nil {
			return err
		}
		if err := os.Symlink(relT, full); err != nil {
			return err
		}
	}
	return nil
}

// Walk calls fn with the tree after k operations for k = 0..len(Ops). The tree
// is reused between calls: fn must not keep it.
func (t *Trace) Walk(fn func(k int, fs *FS) error) error {
	fs := NewFS()
	if err := fn(0, fs); err != nil {
		return err
	}
	for i, o := range t.Ops {
		if err := fs.Apply(o); err != nil {
			return fmt.Errorf("op %d (%s): %w", i+1, o, err)
		}
		if err := fn(i+1, fs); err != nil {
			return err
		}
	}
	return nil
}

// At returns a private tree holding image k.
func (t *Trace) At(k int) (*FS, error) {
	fs := NewFS()
	for i := 0; i < k && i < len(t.Ops); i++ {
		if err := fs.Apply(t.Ops[i]); err != nil {
			return nil, err
		}
	}
	return fs, nil
}

// MarkersBefore returns the markers that precede image k, i.e. whose write
// completed before operation k+1 started.
func (t *Trace) MarkersBefore(k int) []Marker {
	n := sort.Search(len(t.Markers), func(i int) bool { return t.Markers[i].Ops > k })
	return t.Markers[:n]
}

// ---------------------------------------------------------------------- parse

type desc struct { // open file description
	f      *file // nil: not a regular file below the root
	path   string
	off    int64
	app    bool
	marker bool
	isDir  bool
}

type parser struct {
	t       *Trace
	root    string
	marker  string
	fs      *FS
	fds     map[int]*desc
	pending map[string]string
	line    int
	mbuf    string
}

// Parse reads an strace log. root is the absolute directory whose content is
// reconstructed (it must not exist when the child starts); markerPath is the
// absolute path of the marker file ("" for none).
func Parse(logPath, root, markerPath string) (*Trace, error) {
	fh, err := os.Open(logPath)
	if err != nil {
		return nil, err
	}
	defer fh.Close()
	p := &parser{
		t:       &Trace{Root: root, Calls: map[string]int{}},
		root:    filepath.Clean(root),
		marker:  markerPath,
		fs:      NewFS(),
		fds:     map[int]*desc{},
		pending: map[string]string{},
	}
	sc := bufio.NewScanner(fh)
	sc.Buffer(make([]byte, 1<<20), 1<<30)
	for sc.Scan() {
		p.line++
		if err := p.doLine(sc.Text()); err != nil {
			return nil, fmt.Errorf("strace log line %d: %w", p.line, err)
		}
	}
	if err := sc.Err(); err != nil {
		return nil, err
	}
	p.t.Lines = p.line
	return p.t, nil
}

func (p *parser) doLine(l string) error {
	sp := strings.IndexByte(l, ' ')
	if sp <= 0 {
		return nil
	}
	pid, rest := l[:sp], strings.TrimLeft(l[sp:], " ")
	if strings.HasPrefix(rest, "+++") || strings.HasPrefix(rest, "---") {
		return nil
	}
	if strings.HasSuffix(rest, "<unfinished ...>") {
		p.pending[pid] = strings.TrimSuffix(rest, "<unfinished ...>")
		return nil
	}
	if strings.HasPrefix(rest, "<... ") {
		i := strings.Index(rest, " resumed>")
		if i < 0 {
			return fmt.Errorf("cannot parse resumed line")
		}
		head, ok := p.pending[pid]
		if !ok {
			return fmt.Errorf("resumed call without an unfinished one (pid %s)", pid)
		}
		delete(p.pending, pid)
		rest = head + rest[i+len(" resumed>"):]
	}
	return p.doCall(rest)
}

// splitCall separates name, argument list and result of "name(args) = result".
func splitCall(s string) (name string, args []string, ret string, ok bool) {
	op := strings.IndexByte(s, '(')
	if op <= 0 {
		return
	}
	name = s[:op]
	// the result follows the last ")" that is followed by blanks and "= " (strace
	// pads short calls with blanks up to a fixed column)
	eq, rs := -1, -1
	for i := len(s) - 3; i > op; i-- {
		if s[i] != ')' {
			continue
		}
		j := i + 1
		for j < len(s) && s[j] == ' ' {
			j++
		}
		if j > i+1 && j+1 < len(s) && s[j] == '=' && s[j+1] == ' ' {
			eq, rs = i, j+2
			break
		}
	}
	if eq < 0 {
		return
	}
	ret = strings.TrimSpace(s[rs:])
	body := s[op+1 : eq]
	// split at top-level ", "
	depth, inq, start := 0, false, 0
	for i := 0; i < len(body); i++ {
		c := body[i]
		switch {
		case inq:
			if c == '\\' {
				i++
			} else if c == '"' {
				inq = false
			}
		case c == '"':
			inq = true
		case c == '<' || c == '{' || c == '[' || c == '(':
			depth++
		case c == '>' || c == '}' || c == ']' || c == ')':
			depth--
		case c == ',' && depth == 0:
			args = append(args, strings.TrimSpace(body[start:i]))
			start = i + 1
		}
	}
	if strings.TrimSpace(body[start:]) != "" || len(args) > 0 {
		args = append(args, strings.TrimSpace(body[start:]))
	}
	return name, args, ret, true
}

func unhex(s string) (string, error) {
	if !strings.Contains(s, "\\") {
		return s, nil
	}
	b := make([]byte, 0, len(s)/4)
	for i := 0; i < len(s); {
		if s[i] == '\\' && i+3 < len(s) && s[i+1] == 'x' {
			v, err := strconv.ParseUint(s[i+2:i+4], 16, 8)
			if err != nil {
				return "", fmt.Errorf("bad escape in %q", trunc(s))
			}
			b = append(b, byte(v))
			i += 4
			continue
		}
		if s[i] == '\\' {
			return "", fmt.Errorf("unexpected escape in %q", trunc(s))
		}
		b = append(b, s[i])
		i++
	}
	return string(b), nil
}

func trunc(s string) string {
	if len(s) > 80 {
		return s[:80] + "..."
	}
	return s
}

// str decodes a quoted string argument; truncated strings ("..."...) are an error.
func str(arg string) (string, error) {
	if strings.HasSuffix(arg, "...") {
		return "", fmt.Errorf("string argument truncated by strace (-s too small)")
	}
	if len(arg) < 2 || arg[0] != '"' || arg[len(arg)-1] != '"' {
		return "", fmt.Errorf("not a string argument: %s", trunc(arg))
	}
	return unhex(arg[1 : len(arg)-1])
}

// fdArg decodes "7</path>" (or "AT_FDCWD</cwd>"); fd is -100 for AT_FDCWD.
func fdArg(arg string) (fd int, path string, err error) {
	num := arg
	if i := strings.IndexByte(arg, '<'); i >= 0 && strings.HasSuffix(arg, ">") {
		num = arg[:i]
		path, err = unhex(arg[i+1 : len(arg)-1])
		if err != nil {
			return
		}
	}
	if num == "AT_FDCWD" {
		return -100, path, nil
	}
	fd, err = strconv.Atoi(num)
	return
}

func (p *parser) rel(abs string) (string, bool) {
	abs = filepath.Clean(abs)
	if abs == p.root {
		return ".", true
	}
	if strings.HasPrefix(abs, p.root+"/") {
		return abs[len(p.root)+1:], true
	}
	return "", false
}

func (p *parser) resolve(dirArg, pathArg string) (string, error) {
	name, err := str(pathArg)
	if err != nil {
		return "", err
	}
	if filepath.IsAbs(name) {
		return filepath.Clean(name), nil
	}
	_, dir, err := fdArg(dirArg)
	if err != nil {
		return "", err
	}
	if dir == "" {
		return "", fmt.Errorf("relative path %q without a directory path (strace -y missing?)", name)
	}
	return filepath.Join(dir, name), nil
}

func (p *parser) op(o Op) error {
	o.Line = p.line
	if err := p.fs.Apply(o); err != nil {
		return err
	}
	p.t.Ops = append(p.t.Ops, o)
	return nil
}

func failed(ret string) bool { return strings.HasPrefix(ret, "-1") || ret == "?" }

func parseMode(s string) os.FileMode {
	v, err := strconv.ParseUint(strings.TrimSpace(s), 8, 32)
	if err != nil {
		return 0o644
	}
	return os.FileMode(v)
}

// touchesRoot reports whether any path-like token of the call lies below the root.
func (p *parser) touchesRoot(args []string, ret string) bool {
	chk := func(s string) bool {
		for _, tok := range extractPaths(s) {
			if _, ok := p.rel(tok); ok {
				return true
			}
			if p.marker != "" && filepath.Clean(tok) == p.marker {
				return true
			}
		}
		return false
	}
	for _, a := range args {
		if chk(a) {
			return true
		}
	}
	return chk(ret)
}

func extractPaths(s string) []string {
	var out []string
	for i := 0; i < len(s); i++ {
		var closer byte
		switch s[i] {
		case '<':
			closer = '>'
		case '"':
			closer = '"'
		default:
			continue
		}
		j := strings.IndexByte(s[i+1:], closer)
		if j < 0 {
			break
		}
		tok := s[i+1 : i+1+j]
		i = i + 1 + j
		if len(tok) > 4*4096 { // payloads are not paths
			continue
		}
		if d, err := unhex(tok); err == nil && strings.HasPrefix(d, "/") {
			out = append(out, d)
		}
	}
	return out
}

func (p *parser) doCall(s string) error {
	name, args, ret, ok := splitCall(s)
	if !ok {
		return nil // exit notices and the like
	}
	if failed(ret) {
		// the call had no effect; a call killed half-way ("= ?") cannot be judged, but
		// only the final call of a killed process looks like that.
		return nil
	}
	switch name {
	case "openat":
		return p.doOpenat(args, ret)
	case "close":
		fd, _, err := fdArg(args[0])
		if err != nil {
			return err
		}
		delete(p.fds, fd)
		return nil
	case "dup", "dup2", "dup3":
		fd, _, err := fdArg(args[0])
		if err != nil {
			return err
		}
		nfd, _, err := fdArg(ret)
		if err != nil {
			return err
		}
		if d := p.fds[fd]; d != nil {
			p.fds[nfd] = d
		} else {
			delete(p.fds, nfd)
		}
		return nil
	case "lseek":
		fd, _, err := fdArg(args[0])
		if err != nil {
			return err
		}
		if d := p.fds[fd]; d != nil {
			v, err := strconv.ParseInt(ret, 10, 64)
			if err != nil {
				return fmt.Errorf("lseek result %q", ret)
			}
			d.off = v
		}
		return nil
	case "write", "pwrite64":
		fd, fdPath, err := fdArg(args[0])
		if err != nil {
			return err
		}
		d := p.fds[fd]
		if d == nil {
			if _, under := p.rel(fdPath); under {
				return fmt.Errorf("%s to a descriptor below the root that was not opened under trace (%s)", name, fdPath)
			}
			return nil
		}
		n, err := strconv.Atoi(ret)
		if err != nil {
			return fmt.Errorf("%s result %q", name, ret)
		}
		data, err := str(args[1])
		if err != nil {
			return err
		}
		if n > len(data) {
			return fmt.Errorf("%s returned %d but only %d bytes are in the log", name, n, len(data))
		}
		data = data[:n]
		if d.marker {
			p.t.Calls["marker-write"]++
			p.mbuf += data
			for {
				i := strings.IndexByte(p.mbuf, '\n')
				if i < 0 {
					break
				}
				p.t.Markers = append(p.t.Markers, Marker{Ops: len(p.t.Ops), Line: p.line, Text: p.mbuf[:i]})
				p.mbuf = p.mbuf[i+1:]
			}
			return nil
		}
		if d.f == nil {
			return nil
		}
		p.t.Calls[name]++
		off := d.off
		if name == "pwrite64" {
			off, err = strconv.ParseInt(args[3], 10, 64)
			if err != nil {
				return fmt.Errorf("pwrite64 offset %q", args[3])
			}
		} else {
			if d.app {
				off = int64(len(d.f.data))
			}
			d.off = off + int64(n)
		}
		if n == 0 {
			return nil
		}
		if d.f.path == "" { // unlinked: invisible after a crash
			end := off + int64(n)
			if int64(len(d.f.data)) < end {
				d.f.data = resize(d.f.data, end)
			}
			copy(d.f.data[off:], data)
			return nil
		}
		return p.op(Op{Kind: "write", Call: name, Path: d.f.path, Off: off, Data: []byte(data)})
	case "ftruncate":
		fd, fdPath, err := fdArg(args[0])
		if err != nil {
			return err
		}
		d := p.fds[fd]
		if d == nil || d.f == nil {
			if _, under := p.rel(fdPath); under {
				return fmt.Errorf("ftruncate of an untracked descriptor below the root (%s)", fdPath)
			}
			return nil
		}
		p.t.Calls[name]++
		size, err := strconv.ParseInt(args[1], 10, 64)
		if err != nil {
			return err
		}
		if size == int64(len(d.f.data)) {
			return nil
		}
		if d.f.path == "" {
			d.f.data = resize(d.f.data, size)
			return nil
		}
		return p.op(Op{Kind: "truncate", Call: name, Path: d.f.path, Size: size})
	case "fsync", "fdatasync":
		fd, _, err := fdArg(args[0])
		if err != nil {
			return err
		}
		if d := p.fds[fd]; d != nil && (d.f != nil || d.isDir) {
			p.t.Calls[name]++
			p.t.Syncs = append(p.t.Syncs, len(p.t.Ops))
		}
		return nil
	case "rename", "renameat", "renameat2":
		var from, to string
		var err error
		if name == "rename" {
			if from, err = p.resolve("", args[0]); err != nil {
				return err
			}
			if to, err = p.resolve("", args[1]); err != nil {
				return err
			}
		} else {
			if from, err = p.resolve(args[0], args[1]); err != nil {
				return err
			}
			if to, err = p.resolve(args[2], args[3]); err != nil {
				return err
			}
		}
		rf, uf := p.rel(from)
		rt, ut := p.rel(to)
		if !uf && !ut {
			return nil
		}
		p.t.Calls[name]++
		if uf != ut {
			return fmt.Errorf("rename across the root boundary (%s -> %s) is not supported", from, to)
		}
		if p.fs.dirs[rf] {
			return fmt.Errorf("rename of a directory (%s) is not supported", from)
		}
		if rf == rt {
			return nil
		}
		return p.op(Op{Kind: "rename", Call: name, Path: rf, To: rt})
	case "unlink", "unlinkat", "rmdir":
		var path string
		var err error
		if name == "unlinkat" {
			path, err = p.resolve(args[0], args[1])
		} else {
			path, err = p.resolve("", args[0])
		}
		if err != nil {
			return err
		}
		r, under := p.rel(path)
		if !under {
			return nil
		}
		p.t.Calls[name]++
		if p.fs.dirs[r] {
			return p.op(Op{Kind: "rmdir", Call: name, Path: r})
		}
		return p.op(Op{Kind: "unlink", Call: name, Path: r})
	case "mkdir", "mkdirat":
		var path string
		var err error
		mode := ""
		if name == "mkdirat" {
			path, err = p.resolve(args[0], args[1])
			mode = args[2]
		} else {
			path, err = p.resolve("", args[0])
			mode = args[1]
		}
		if err != nil {
			return err
		}
		r, under := p.rel(path)
		if !under {
			return nil
		}
		p.t.Calls[name]++
		return p.op(Op{Kind: "mkdir", Call: name, Path: r, Mode: parseMode(mode)})
	case "symlink", "symlinkat":
		// symlink(target, linkpath) / symlinkat(target, newdirfd, linkpath)
		tgt, err := str(args[0])
		if err != nil {
			return err
		}
		var link string
		if name == "symlinkat" {
			link, err = p.resolve(args[1], args[2])
		} else {
			link, err = p.resolve("", args[1])
		}
		if err != nil {
			return err
		}
		rl, under := p.rel(link)
		if !under {
			return nil
		}
		p.t.Calls[name]++
		if !filepath.IsAbs(tgt) {
			tgt = filepath.Join(filepath.Dir(link), tgt)
		}
		rt, ut := p.rel(filepath.Clean(tgt))
		if !ut {
			return fmt.Errorf("symbolic link %s points outside the reconstructed directory (%s)", link, tgt)
		}
		return p.op(Op{Kind: "symlink", Call: name, Path: rl, To: rt})
	default:
		// traced only to notice what the replay does not implement
		if p.touchesRoot(args, ret) {
			return fmt.Errorf("system call %s touches the reconstructed directory but is not replayed: %s", name, trunc(s))
		}
		return nil
	}
}

func (p *parser) doOpenat(args []string, ret string) error {
	if len(args) < 3 {
		return fmt.Errorf("openat with %d arguments", len(args))
	}
	path, err := p.resolve(args[0], args[1])
	if err != nil {
		return err
	}
	fd, _, err := fdArg(ret)
	if err != nil {
		return fmt.Errorf("openat result %q", trunc(ret))
	}
	delete(p.fds, fd)
	flags := map[string]bool{}
	for _, f := range strings.Split(args[2], "|") {
		flags[f] = true
	}
	if p.marker != "" && path == p.marker {
		p.fds[fd] = &desc{path: path, marker: true}
		return nil
	}
	r, under := p.rel(path)
	if !under {
		return nil
	}
	p.t.Calls["openat"]++
	if !flags["O_NOFOLLOW"] {
		r = p.fs.Resolve(r)
	}
	if flags["O_TMPFILE"] || flags["O_PATH"] {
		return fmt.Errorf("openat flags %s below the root are not supported", args[2])
	}
	if p.fs.dirs[r] {
		p.fds[fd] = &desc{path: path, isDir: true}
		return nil
	}
	f := p.fs.files[r]
	if f == nil {
		if !flags["O_CREAT"] {
			return fmt.Errorf("open of %s succeeded but the replay has never seen that file", path)
		}
		mode := os.FileMode(0o644)
		if len(args) >= 4 {
			mode = parseMode(args[3])
		}
		if err := p.op(Op{Kind: "create", Call: "openat", Path: r, Mode: mode}); err != nil {
			return err
		}
		f = p.fs.files[r]
	} else if flags["O_TRUNC"] && (flags["O_WRONLY"] || flags["O_RDWR"]) && len(f.data) > 0 {
		if err := p.op(Op{Kind: "truncate", Call: "openat", Path: r, Size: 0}); err != nil {
			return err
		}
	}
	p.fds[fd] = &desc{f: f, path: path, app: flags["O_APPEND"]}
	return nil
}
