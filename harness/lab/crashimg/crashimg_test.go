package crashimg

import (
	"fmt"
	"os"
	"path/filepath"
	"strings"
	"testing"
)

func hx(s string) string {
	var sb strings.Builder
	for i := 0; i < len(s); i++ {
		fmt.Fprintf(&sb, "\\x%02x", s[i])
	}
	return sb.String()
}

// A synthetic log in the exact format strace -f -y -xx produces here.
func TestParseSynthetic(t *testing.T) {
	root, mark, cwd := "/w/data", "/w/markers", "/w"
	fd := func(n int, p string) string { return fmt.Sprintf("%d<%s>", n, hx(p)) }
	at := "AT_FDCWD<" + hx(cwd) + ">"
	q := func(s string) string { return `"` + hx(s) + `"` }
	lines := []string{
		"10 openat(" + at + ", " + q(mark) + ", O_WRONLY|O_CREAT|O_APPEND|O_CLOEXEC, 0644) = " + fd(5, mark),
		"10 mkdirat(" + at + ", " + q(root) + ", 0750) = 0",
		"10 mkdirat(" + at + ", " + q(root) + ", 0750) = -1 EEXIST (File exists)",
		"10 openat(" + at + ", " + q("data/a") + ", O_RDWR|O_CREAT|O_TRUNC|O_CLOEXEC, 0640) = " + fd(6, root+"/a"),
		"10 write(" + fd(5, mark) + ", " + q("ISSUE 0\n") + ", 8) = 8",
		"11 write(" + fd(6, root+"/a") + ", " + q("hello") + ", 5 <unfinished ...>",
		"12 fsync(" + fd(6, root+"/a") + " <unfinished ...>",
		"11 <... write resumed>)              = 5",
		"12 <... fsync resumed>)              = 0",
		"10 write(" + fd(5, mark) + ", " + q("ACK 0 ok\n") + ", 9 <unfinished ...>",
		"10 <... write resumed>)              = 9",
		"11 pwrite64(" + fd(6, root+"/a") + ", " + q("J") + ", 1, 0) = 1",
		"11 close(" + fd(6, root+"/a") + ")    = 0",
		"11 renameat(" + at + ", " + q(root+"/a") + ", " + at + ", " + q(root+"/b") + ") = 0",
		"11 openat(" + at + ", " + q(root+"/b") + ", O_WRONLY|O_CLOEXEC) = " + fd(6, root+"/b"),
		"11 lseek(" + fd(6, root+"/b") + ", 0, SEEK_END) = 5",
		"11 write(" + fd(6, root+"/b") + ", " + q("!!") + ", 2) = 2",
		"11 ftruncate(" + fd(6, root+"/b") + ", 3) = 0",
		"11 unlinkat(" + at + ", " + q(root+"/zz") + ", 0) = -1 ENOENT (No such file or directory)",
		"11 openat(" + at + ", " + q(root+"/c") + ", O_WRONLY|O_CREAT|O_APPEND|O_CLOEXEC, 0600) = " + fd(7, root+"/c"),
		"11 write(" + fd(7, root+"/c") + ", " + q("x") + ", 1) = 1",
		"11 write(" + fd(7, root+"/c") + ", " + q("y") + ", 1) = 1",
		"11 unlinkat(" + at + ", " + q(root+"/c") + ", 0) = 0",
		"11 write(" + fd(7, root+"/c") + ", " + q("z") + ", 1) = 1",
		"10 +++ exited with 0 +++",
	}
	dir := t.TempDir()
	lp := filepath.Join(dir, "log")
	if err := os.WriteFile(lp, []byte(strings.Join(lines, "\n")+"\n"), 0o644); err != nil {
		t.Fatal(err)
	}
	tr, err := Parse(lp, root, mark)
	if err != nil {
		t.Fatal(err)
	}
	var got []string
	for _, o := range tr.Ops {
		got = append(got, o.String())
	}
	want := []string{
		"mkdirat(mkdir) .", "openat(create) a", "write a off=0 len=5", "pwrite64 a off=0 len=1", "renameat a -> b",
		"write b off=5 len=2", "ftruncate b size=3", "openat(create) c", "write c off=0 len=1", "write c off=1 len=1", "unlinkat(unlink) c",
	}
	if strings.Join(got, "\n") != strings.Join(want, "\n") {
		t.Fatalf("ops:\n%s\nwant:\n%s", strings.Join(got, "\n"), strings.Join(want, "\n"))
	}
	if len(tr.Markers) != 2 || tr.Markers[0].Text != "ISSUE 0" || tr.Markers[0].Ops != 2 || tr.Markers[1].Text != "ACK 0 ok" || tr.Markers[1].Ops != 3 {
		t.Fatalf("markers: %+v", tr.Markers)
	}
	fs, _ := tr.At(len(tr.Ops))
	if b, _ := fs.File("b"); string(b) != "Jel" {
		t.Fatalf("b = %q", b)
	}
	if _, ok := fs.File("c"); ok {
		t.Fatal("c should be gone")
	}
	fs, _ = tr.At(6)
	if b, _ := fs.File("b"); string(b) != "Jello!!" {
		t.Fatalf("b@6 = %q", b)
	}
	// an unsupported way of changing the root must be an error, not a silent miss
	bad := append([]string{}, lines[:4]...)
	bad = append(bad, "10 writev("+fd(6, root+"/a")+", [{iov_base="+q("x")+", iov_len=1}], 1) = 1")
	_ = os.WriteFile(lp, []byte(strings.Join(bad, "\n")+"\n"), 0o644)
	if _, err := Parse(lp, root, mark); err == nil {
		t.Fatal("writev below the root was accepted")
	}
}
