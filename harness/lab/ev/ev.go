// Package ev is the verdict / evidence side of every check: it counts what
// the monitors observed, writes /verif/evidence/<id>.json, prints the
// VIOLATION / KNOWN-FINDING / INCONCLUSIVE lines and picks the exit code.
package ev

import (
	"crypto/sha256"
	"encoding/hex"
	"encoding/json"
	"flag"
	"fmt"
	"hash/fnv"
	"math/rand"
	"os"
	"path/filepath"
	"sort"
	"strconv"
	"strings"
	"sync"
	"time"
)

const (
	ExitHeld         = 0
	ExitViolation    = 1
	ExitInconclusive = 3
)

func Root() string {
	if r := os.Getenv("VERIF_ROOT"); r != "" {
		return r
	}
	return "/verif"
}

type finding struct {
	Property string `json:"property"`
	Key      string `json:"key"`
	What     string `json:"what"`
}

type findingsFile struct {
	Findings []finding `json:"findings"`
	Fixed    []string  `json:"fixed"`
}

type Run struct {
	ID    string
	Level string
	Tier  string
	Seed  int64
	// ReplayCase, when non-empty, asks the worker to run only that case.
	ReplayCase string

	mu           sync.Mutex
	start        time.Time
	evaluations  int
	distinct     map[string]struct{}
	rule         string
	samples      []any
	maxSamples   int
	counters     map[string]int64
	extra        map[string]any
	assumptions  []string
	exhaustive   bool
	violations   int
	printed      int
	knownHit     map[string]bool
	inconclusive []string
	known        findingsFile
	finished     bool
}

type replayFile struct {
	Property string `json:"property"`
	Tier     string `json:"tier"`
	Seed     int64  `json:"seed"`
	Case     string `json:"case"`
	Key      string `json:"key"`
	Witness  any    `json:"witness"`
}

// Start reads VERIF_TIER / VERIF_SEED / --replay and prepares the run.
func Start(id, level string) *Run {
	r := &Run{
		ID: id, Level: level, Tier: "quick", Seed: 1,
		start:      time.Now(),
		distinct:   map[string]struct{}{},
		counters:   map[string]int64{},
		extra:      map[string]any{},
		knownHit:   map[string]bool{},
		maxSamples: 6,
	}
	if t := os.Getenv("VERIF_TIER"); t == "thorough" {
		r.Tier = "thorough"
	}
	if s := os.Getenv("VERIF_SEED"); s != "" {
		if v, err := strconv.ParseInt(s, 10, 64); err == nil {
			r.Seed = v
		}
	}
	fs := flag.NewFlagSet(id, flag.ContinueOnError)
	replay := fs.String("replay", "", "replay file")
	tier := fs.String("tier", "", "quick|thorough")
	_ = fs.Parse(os.Args[1:])
	if *tier == "thorough" || *tier == "quick" {
		r.Tier = *tier
	}
	if *replay != "" {
		var rf replayFile
		if b, err := os.ReadFile(*replay); err == nil && json.Unmarshal(b, &rf) == nil {
			if rf.Tier != "" {
				r.Tier = rf.Tier
			}
			r.Seed = rf.Seed
			r.ReplayCase = rf.Case
		} else {
			fmt.Fprintf(os.Stderr, "cannot read replay file %s: %v\n", *replay, err)
		}
	}
	if b, err := os.ReadFile(filepath.Join(Root(), "known_findings.json")); err == nil {
		_ = json.Unmarshal(b, &r.known)
	}
	return r
}

func (r *Run) Quick() bool { return r.Tier != "thorough" }

// Pick returns q in the quick tier and t in the thorough tier.
func (r *Run) Pick(q, t int) int {
	if r.Quick() {
		return q
	}
	return t
}

// Rand returns a PRNG whose stream is a pure function of (seed, stream name).
func (r *Run) Rand(stream string) *rand.Rand {
	h := fnv.New64a()
	fmt.Fprintf(h, "%s/%d/%s", r.ID, r.Seed, stream)
	return rand.New(rand.NewSource(int64(h.Sum64())))
}

// WantCase reports whether a case should run (always, unless replaying one).
func (r *Run) WantCase(name string) bool {
	return r.ReplayCase == "" || r.ReplayCase == name
}

func (r *Run) SetRule(rule string)     { r.mu.Lock(); r.rule = rule; r.mu.Unlock() }
func (r *Run) SetExhaustive(b bool)    { r.mu.Lock(); r.exhaustive = b; r.mu.Unlock() }
func (r *Run) Assume(s string)         { r.mu.Lock(); r.assumptions = append(r.assumptions, s); r.mu.Unlock() }
func (r *Run) Extra(k string, v any)   { r.mu.Lock(); r.extra[k] = v; r.mu.Unlock() }
func (r *Run) Count(k string, n int64) { r.mu.Lock(); r.counters[k] += n; r.mu.Unlock() }
func (r *Run) SetMaxSamples(n int)     { r.mu.Lock(); r.maxSamples = n; r.mu.Unlock() }
func (r *Run) Counter(k string) int64  { r.mu.Lock(); defer r.mu.Unlock(); return r.counters[k] }
func (r *Run) Violations() int         { r.mu.Lock(); defer r.mu.Unlock(); return r.violations }
func (r *Run) Evaluations() int        { r.mu.Lock(); defer r.mu.Unlock(); return r.evaluations }
func (r *Run) DistinctNontrivial() int { r.mu.Lock(); defer r.mu.Unlock(); return len(r.distinct) }

// Case records one executed case. sig is the distinctness signature of a
// non-trivial case; pass "" for a trivial case (counted as evaluation only).
func (r *Run) Case(sig string) {
	r.mu.Lock()
	r.evaluations++
	if sig != "" {
		if len(sig) > 48 {
			h := sha256.Sum256([]byte(sig))
			sig = hex.EncodeToString(h[:12])
		}
		r.distinct[sig] = struct{}{}
	}
	r.mu.Unlock()
}

// Distinct adds a distinctness signature without counting an evaluation.
func (r *Run) Distinct(sig string) {
	r.mu.Lock()
	if len(sig) > 48 {
		h := sha256.Sum256([]byte(sig))
		sig = hex.EncodeToString(h[:12])
	}
	r.distinct[sig] = struct{}{}
	r.mu.Unlock()
}

// Sample keeps a few actual cases for the evidence file.
func (r *Run) Sample(v any) {
	r.mu.Lock()
	if len(r.samples) < r.maxSamples {
		r.samples = append(r.samples, v)
	}
	r.mu.Unlock()
}

// Violation records a violation. key identifies the specific failing
// input / call site / fault (it is what known_findings.json lists); caseName is
// the case to re-run on replay; witness is written to the replay file.
func (r *Run) Violation(key, caseName, what string, witness any) {
	r.mu.Lock()
	defer r.mu.Unlock()
	for _, f := range r.known.Findings {
		if f.Property == r.ID && f.Key == key {
			if !r.knownHit[key] {
				r.knownHit[key] = true
				fmt.Printf("KNOWN-FINDING: property=%s %s [%s]\n", r.ID, f.What, key)
			}
			return
		}
	}
	r.violations++
	if r.printed >= maxPrint() {
		return
	}
	r.printed++
	dir := filepath.Join(Root(), "replays")
	_ = os.MkdirAll(dir, 0o755)
	name := fmt.Sprintf("%s-%s-s%d-%d.json", r.ID, r.Tier, r.Seed, r.printed)
	path := filepath.Join(dir, name)
	b, err := json.MarshalIndent(replayFile{Property: r.ID, Tier: r.Tier, Seed: r.Seed, Case: caseName, Key: key, Witness: map[string]any{"what": what, "detail": witness}}, "", " ")
	if err != nil {
		b, _ = json.MarshalIndent(replayFile{Property: r.ID, Tier: r.Tier, Seed: r.Seed, Case: caseName, Key: key, Witness: fmt.Sprintf("%s: %+v", what, witness)}, "", " ")
	}
	_ = os.WriteFile(path, b, 0o644)
	fmt.Printf("VIOLATION property=%s replay=%s\n", r.ID, path)
	fmt.Printf("  key=%s case=%s: %s\n", key, caseName, oneLine(what, 400))
}

func oneLine(s string, n int) string {
	s = strings.ReplaceAll(s, "\n", " | ")
	if len(s) > n {
		s = s[:n] + "..."
	}
	return s
}

// Inconclusive records that part of the run could not decide.
func (r *Run) Inconclusive(reason string) {
	r.mu.Lock()
	r.inconclusive = append(r.inconclusive, reason)
	r.mu.Unlock()
}

// Finish writes the evidence file and exits with the verdict.
func (r *Run) Finish() {
	code := r.finish()
	os.Exit(code)
}

func (r *Run) finish() int {
	r.mu.Lock()
	defer r.mu.Unlock()
	if r.finished {
		return ExitHeld
	}
	r.finished = true
	if r.violations == 0 && len(r.inconclusive) == 0 && r.ReplayCase == "" {
		if r.evaluations == 0 {
			r.inconclusive = append(r.inconclusive, "no case was executed")
		} else if len(r.distinct) < 2 {
			r.inconclusive = append(r.inconclusive, "fewer than two distinct non-trivial cases were observed")
		}
	}
	cov := map[string]any{
		"evaluations":         r.evaluations,
		"distinct_nontrivial": len(r.distinct),
		"rule":                r.rule,
		"samples":             r.samples,
	}
	if r.samples == nil {
		cov["samples"] = []any{}
	}
	if r.exhaustive {
		cov["exhaustive"] = true
	}
	keys := make([]string, 0, len(r.counters))
	for k := range r.counters {
		keys = append(keys, k)
	}
	sort.Strings(keys)
	if len(keys) > 0 {
		c := map[string]int64{}
		for _, k := range keys {
			c[k] = r.counters[k]
		}
		cov["counters"] = c
	}
	for k, v := range r.extra {
		cov[k] = v
	}
	kh := make([]string, 0)
	for k := range r.knownHit {
		kh = append(kh, k)
	}
	sort.Strings(kh)
	if len(kh) > 0 {
		cov["known_findings_reproduced"] = kh
	}
	if len(r.inconclusive) > 0 {
		cov["inconclusive"] = r.inconclusive
	}
	out := map[string]any{
		"property_id": r.ID,
		"tier":        r.Tier,
		"seed":        r.Seed,
		"level":       r.Level,
		"coverage":    cov,
		"assumptions": r.assumptions,
		"wall_s":      float64(time.Since(r.start).Milliseconds()) / 1000,
		"violations":  r.violations,
	}
	if r.assumptions == nil {
		out["assumptions"] = []string{}
	}
	if r.ReplayCase == "" && os.Getenv("VERIF_NO_EVIDENCE") == "" {
		dir := filepath.Join(Root(), "evidence")
		_ = os.MkdirAll(dir, 0o755)
		b, err := json.MarshalIndent(out, "", " ")
		if err != nil {
			fmt.Fprintf(os.Stderr, "evidence marshal: %v\n", err)
		} else if err := os.WriteFile(filepath.Join(dir, r.ID+".json"), append(b, '\n'), 0o644); err != nil {
			fmt.Fprintf(os.Stderr, "evidence write: %v\n", err)
		}
	}
	fmt.Printf("SUMMARY property=%s tier=%s seed=%d evaluations=%d distinct=%d violations=%d known=%d wall=%.1fs\n",
		r.ID, r.Tier, r.Seed, r.evaluations, len(r.distinct), r.violations, len(r.knownHit), time.Since(r.start).Seconds())
	switch {
	case r.violations > 0:
		return ExitViolation
	case len(r.inconclusive) > 0:
		if r.fewLoadDependent() {
			// a handful of cases that a stalled machine kept from being decided (watchdogs, checker
			// time-outs, transport time-outs) do not turn the run into "nothing decided": the verdict
			// is "held on everything that was explored"; the undecided cases are listed in the
			// evidence (coverage.inconclusive) and here
			for _, s := range r.inconclusive {
				fmt.Printf("UNDECIDED-CASE property=%s reason=%s\n", r.ID, oneLine(s, 300))
			}
			return ExitHeld
		}
		for _, s := range r.inconclusive {
			fmt.Printf("INCONCLUSIVE property=%s reason=%s\n", r.ID, oneLine(s, 300))
		}
		return ExitInconclusive
	}
	return ExitHeld
}

var loadDependent = []string{"watchdog", "timed out", "time-out", "timeout", "did not return within", "did not finish within", "did not finish after",
	"could not decide", "transport problem", "transport error", "deadline", "rate limited", "load-dependent", "did not stabilise", "did not converge",
	"never reported READY", "could not be parked", "acceptance window", "neither succeeded nor failed within", "machine stalled"}

// fewLoadDependent: every undecided item is a per-case wall-clock casualty, they are few
// (at most 2 % of the evaluated cases, at least 2, at most 20), and the run still observed
// enough (>= 2 distinct non-trivial cases).
func (r *Run) fewLoadDependent() bool {
	if r.evaluations == 0 || len(r.distinct) < 2 || r.ReplayCase != "" {
		return false
	}
	limit := r.evaluations / 50
	if limit < 2 {
		limit = 2
	}
	if limit > 20 {
		limit = 20
	}
	if len(r.inconclusive) > limit {
		return false
	}
	for _, s := range r.inconclusive {
		ok := false
		for _, p := range loadDependent {
			if strings.Contains(s, p) {
				ok = true
				break
			}
		}
		if !ok {
			return false
		}
	}
	return true
}

func maxPrint() int {
	if v, err := strconv.Atoi(os.Getenv("VERIF_MAX_PRINT")); err == nil && v > 0 {
		return v
	}
	return 5
}
