package gwlab

import (
	"bufio"
	"context"
	"crypto/tls"
	"encoding/json"
	"fmt"
	"io"
	"net"
	"net/http"
	"net/url"
	"sync"
	"sync/atomic"
	"time"

	"go.miragespace.co/specter/spec/protocol"
	"go.miragespace.co/specter/spec/tun"
	"go.miragespace.co/specter/util/bufconn"

	"github.com/libp2p/go-yamux/v4"
	"github.com/quic-go/quic-go"
	"github.com/quic-go/quic-go/http3"
)

// Watchdog is the generous bound on any single client operation; hitting it is
// inconclusive for the caller, never a verdict.
const Watchdog = 60 * time.Second

func clientTLS(sni string, protos ...string) *tls.Config {
	return &tls.Config{ServerName: sni, InsecureSkipVerify: true, NextProtos: protos}
}

// H1Client speaks HTTP/1.1 over the TLS listener with the given SNI.
func (l *Lab) H1Client(sni string) *http.Client { return l.ClientFrom("h1", sni, "") }

// H2Client speaks HTTP/2 over the TLS listener with the given SNI.
func (l *Lab) H2Client(sni string) *http.Client { return l.ClientFrom("h2", sni, "") }

// H3Client speaks HTTP/3 over the QUIC listener with the given SNI.
func (l *Lab) H3Client(sni string) *http.Client { return l.ClientFrom("h3", sni, "") }

// Client returns the client for proto "h1" | "h2" | "h3".
func (l *Lab) Client(proto, sni string) *http.Client { return l.ClientFrom(proto, sni, "") }

var cleanups sync.Map // *http.Client -> func()

// ClientFrom is Client with a chosen loopback source address ("" = default),
// so that the gateway sees a peer IP other than 127.0.0.1.
func (l *Lab) ClientFrom(proto, sni, localIP string) *http.Client {
	noRedirect := func(*http.Request, []*http.Request) error { return http.ErrUseLastResponse }
	switch proto {
	case "h1", "h2":
		alpn := "http/1.1"
		if proto == "h2" {
			alpn = tun.ALPN(protocol.Link_HTTP2)
		}
		nd := &net.Dialer{}
		if localIP != "" {
			nd.LocalAddr = &net.TCPAddr{IP: net.ParseIP(localIP)}
		}
		d := &tls.Dialer{NetDialer: nd, Config: clientTLS(sni, alpn)}
		return &http.Client{
			Timeout: Watchdog,
			Transport: &http.Transport{
				ForceAttemptHTTP2: proto == "h2",
				DialTLSContext: func(ctx context.Context, _, _ string) (net.Conn, error) {
					return d.DialContext(ctx, "tcp", l.TLSAddr())
				},
			},
			CheckRedirect: noRedirect,
		}
	case "h3":
		var mu sync.Mutex
		var socks []net.PacketConn
		tr3 := &http3.Transport{
			TLSClientConfig: clientTLS(sni, "h3"),
			Dial: func(ctx context.Context, _ string, tlsCfg *tls.Config, cfg *quic.Config) (*quic.Conn, error) {
				if localIP == "" {
					return quic.DialAddr(ctx, l.QUICAddr(), tlsCfg, cfg)
				}
				pc, err := net.ListenUDP("udp", &net.UDPAddr{IP: net.ParseIP(localIP)})
				if err != nil {
					return nil, err
				}
				mu.Lock()
				socks = append(socks, pc)
				mu.Unlock()
				qt := &quic.Transport{Conn: pc}
				return qt.Dial(ctx, &net.UDPAddr{IP: net.IPv4(127, 0, 0, 1), Port: l.UDPPort}, tlsCfg, cfg)
			},
		}
		c := &http.Client{Timeout: Watchdog, Transport: tr3, CheckRedirect: noRedirect}
		cleanups.Store(c, func() {
			mu.Lock()
			defer mu.Unlock()
			for _, s := range socks {
				s.Close()
			}
		})
		return c
	}
	panic("gwlab: unknown proto " + proto)
}

// CloseClient releases the connections of a client made by Client.
func CloseClient(c *http.Client) {
	switch t := c.Transport.(type) {
	case *http.Transport:
		t.CloseIdleConnections()
	case *http3.Transport:
		t.Close()
	}
	if f, ok := cleanups.LoadAndDelete(c); ok {
		f.(func())()
	}
}

// TCPStream is a raw-TCP tunnel stream towards the gateway.
type TCPStream struct {
	io.ReadWriteCloser
	SetDeadline func(time.Time) error
	closeAll    func()
}

// CloseAll closes the stream and the connection carrying it.
func (s *TCPStream) CloseAll() { s.closeAll() }

// OpenTCPYamux opens a tunnel stream over the TLS listener (tcp ALPN, yamux).
func (l *Lab) OpenTCPYamux(ctx context.Context, sni string) (*TCPStream, error) {
	d := &tls.Dialer{Config: clientTLS(sni, tun.ALPN(protocol.Link_TCP))}
	conn, err := d.DialContext(ctx, "tcp", l.TLSAddr())
	if err != nil {
		return nil, err
	}
	cfg := yamux.DefaultConfig()
	cfg.LogOutput = io.Discard
	sess, err := yamux.Client(conn, cfg, nil)
	if err != nil {
		conn.Close()
		return nil, err
	}
	st, err := sess.OpenStream(ctx)
	if err != nil {
		sess.Close()
		conn.Close()
		return nil, err
	}
	return &TCPStream{ReadWriteCloser: st, SetDeadline: st.SetDeadline, closeAll: func() { st.Close(); sess.Close(); conn.Close() }}, nil
}

// OpenTCPQuic opens a tunnel stream over the QUIC listener (tcp ALPN).
func (l *Lab) OpenTCPQuic(ctx context.Context, sni string) (*TCPStream, error) {
	conn, err := quic.DialAddr(ctx, l.QUICAddr(), clientTLS(sni, tun.ALPN(protocol.Link_TCP)), nil)
	if err != nil {
		return nil, err
	}
	st, err := conn.OpenStreamSync(ctx)
	if err != nil {
		conn.CloseWithError(0, "")
		return nil, err
	}
	return &TCPStream{ReadWriteCloser: st, SetDeadline: st.SetDeadline, closeAll: func() { st.Close(); conn.CloseWithError(0, "") }}, nil
}

// Connect issues an HTTP CONNECT for hostport on the plain HTTP listener and
// returns the response together with the connection (for the tunnelled bytes).
func (l *Lab) Connect(ctx context.Context, hostport string) (*http.Response, net.Conn, *bufio.Reader, error) {
	var d net.Dialer
	conn, err := d.DialContext(ctx, "tcp", l.HTTPAddr())
	if err != nil {
		return nil, nil, nil, err
	}
	if dl, ok := ctx.Deadline(); ok {
		conn.SetDeadline(dl)
	}
	req := &http.Request{
		Method: http.MethodConnect,
		URL:    &url.URL{Opaque: hostport},
		Host:   hostport,
		Header: make(http.Header),
	}
	if err := req.Write(conn); err != nil {
		conn.Close()
		return nil, nil, nil, err
	}
	br := bufio.NewReader(conn)
	resp, err := http.ReadResponse(br, req)
	if err != nil {
		conn.Close()
		return nil, nil, nil, err
	}
	return resp, conn, br, nil
}

// Echoed is what the echo backend saw of one request.
type Echoed struct {
	Method     string              `json:"method"`
	Host       string              `json:"host"`
	URL        string              `json:"url"`
	Proto      string              `json:"proto"`
	Header     map[string][]string `json:"header"`
	RemoteAddr string              `json:"remote_addr"`
}

type chanListener struct {
	ch     chan net.Conn
	closed chan struct{}
	once   sync.Once
}

func (c *chanListener) Accept() (net.Conn, error) {
	select {
	case conn := <-c.ch:
		return conn, nil
	case <-c.closed:
		return nil, net.ErrClosed
	}
}
func (c *chanListener) Close() error   { c.once.Do(func() { close(c.closed) }); return nil }
func (c *chanListener) Addr() net.Addr { return &net.TCPAddr{IP: net.IPv4(127, 0, 0, 1)} }

// Backend plays the tunnel client: an HTTP/1.1 server over in-memory pipes that
// answers every request with a JSON rendering of what it received.
type Backend struct {
	ln       *chanListener
	srv      *http.Server
	Requests atomic.Int64
	Accepted atomic.Int64
}

func NewBackend() *Backend {
	b := &Backend{ln: &chanListener{ch: make(chan net.Conn, 64), closed: make(chan struct{})}}
	b.srv = &http.Server{Handler: http.HandlerFunc(func(w http.ResponseWriter, r *http.Request) {
		b.Requests.Add(1)
		io.Copy(io.Discard, r.Body)
		e := Echoed{Method: r.Method, Host: r.Host, URL: r.URL.String(), Proto: r.Proto, Header: map[string][]string(r.Header), RemoteAddr: r.RemoteAddr}
		w.Header().Set("Content-Type", "application/json")
		w.Header().Set("X-Gwlab-Backend", "1")
		json.NewEncoder(w).Encode(e)
	})}
	go b.srv.Serve(b.ln)
	return b
}

// Dial hands one end of a fresh in-memory pipe to the backend server and
// returns the other (what DialClient gives to the gateway).
func (b *Backend) Dial() (net.Conn, error) {
	c1, c2 := bufconn.BufferedPipe(8192)
	select {
	case b.ln.ch <- c2:
		b.Accepted.Add(1)
		return c1, nil
	case <-b.ln.closed:
		return nil, fmt.Errorf("gwlab: backend closed")
	}
}

func (b *Backend) Close() { b.srv.Close(); b.ln.Close() }

// DecodeEcho parses a backend response body.
func DecodeEcho(body []byte) (*Echoed, error) {
	var e Echoed
	if err := json.Unmarshal(body, &e); err != nil {
		return nil, err
	}
	return &e, nil
}
