// Package gwlab builds a real gateway.Gateway on loopback listeners, the same
// way the repository's own tests (gateway/gateway_test.go setupGateway) do, but
// through exported API only: a TLS listener that negotiates http/1.1, h2 and the
// raw-TCP tunnel ALPN, a QUIC listener (overlay.ALPNMux) for h3 and the raw-TCP
// ALPN, an optional plain HTTP listener (CONNECT + redirect), and a scripted
// fake tun.Server. The "tunnel client" end is an in-memory util/bufconn pipe.
package gwlab

import (
	"context"
	"crypto/ecdsa"
	"crypto/elliptic"
	"crypto/rand"
	"crypto/tls"
	"crypto/x509"
	"crypto/x509/pkix"
	"fmt"
	"math/big"
	"net"
	"sync"
	"time"

	"go.miragespace.co/specter/gateway"
	"go.miragespace.co/specter/overlay"
	"go.miragespace.co/specter/spec/cipher"
	"go.miragespace.co/specter/spec/protocol"
	"go.miragespace.co/specter/spec/tun"

	"github.com/quic-go/quic-go"
	"go.uber.org/zap"
)

var (
	certOnce sync.Once
	cert     tls.Certificate
	certErr  error
)

// Cert returns one process-wide self-signed ECDSA certificate.
func Cert() (tls.Certificate, error) {
	certOnce.Do(func() {
		key, err := ecdsa.GenerateKey(elliptic.P256(), rand.Reader)
		if err != nil {
			certErr = err
			return
		}
		tpl := x509.Certificate{
			SerialNumber: big.NewInt(1),
			Subject:      pkix.Name{CommonName: "gwlab"},
			NotBefore:    time.Now().Add(-time.Hour),
			NotAfter:     time.Now().Add(24 * time.Hour),
		}
		der, err := x509.CreateCertificate(rand.Reader, &tpl, &tpl, &key.PublicKey, key)
		if err != nil {
			certErr = err
			return
		}
		cert = tls.Certificate{Certificate: [][]byte{der}, PrivateKey: key}
	})
	return cert, certErr
}

// DialRecord is one observed call of the fake tun.Server.
type DialRecord struct {
	Kind     string // "client" | "internal"
	Alpn     protocol.Link_ALPN
	Hostname string
	Remote   string
	Node     string // DialInternal target address
}

// FakeServer is a scripted tun.Server. The functions may be replaced at any
// time with SetDialClient / SetDialInternal; every call is recorded.
type FakeServer struct {
	mu           sync.Mutex
	dialClient   func(ctx context.Context, link *protocol.Link) (net.Conn, error)
	dialInternal func(ctx context.Context, node *protocol.Node) (net.Conn, error)
	records      []DialRecord
	ident        *protocol.Node
}

var _ tun.Server = (*FakeServer)(nil)

func NewFakeServer() *FakeServer {
	return &FakeServer{ident: &protocol.Node{Id: 42, Address: "127.0.0.1:1234"}}
}

func (f *FakeServer) Identity() *protocol.Node { return f.ident }

func (f *FakeServer) SetDialClient(fn func(ctx context.Context, link *protocol.Link) (net.Conn, error)) {
	f.mu.Lock()
	f.dialClient = fn
	f.mu.Unlock()
}

func (f *FakeServer) SetDialInternal(fn func(ctx context.Context, node *protocol.Node) (net.Conn, error)) {
	f.mu.Lock()
	f.dialInternal = fn
	f.mu.Unlock()
}

func (f *FakeServer) DialClient(ctx context.Context, link *protocol.Link) (net.Conn, error) {
	f.mu.Lock()
	f.records = append(f.records, DialRecord{Kind: "client", Alpn: link.GetAlpn(), Hostname: link.GetHostname(), Remote: link.GetRemote()})
	fn := f.dialClient
	f.mu.Unlock()
	if fn == nil {
		return nil, tun.ErrDestinationNotFound
	}
	return fn(ctx, link)
}

func (f *FakeServer) DialInternal(ctx context.Context, node *protocol.Node) (net.Conn, error) {
	f.mu.Lock()
	f.records = append(f.records, DialRecord{Kind: "internal", Node: node.GetAddress()})
	fn := f.dialInternal
	f.mu.Unlock()
	if fn == nil {
		return nil, fmt.Errorf("gwlab: no internal dialer scripted")
	}
	return fn(ctx, node)
}

// Records returns a copy of everything dialed so far.
func (f *FakeServer) Records() []DialRecord {
	f.mu.Lock()
	defer f.mu.Unlock()
	return append([]DialRecord(nil), f.records...)
}

// Count returns the number of recorded dials of the kind ("client"/"internal"/"" = all).
func (f *FakeServer) Count(kind string) int {
	f.mu.Lock()
	defer f.mu.Unlock()
	n := 0
	for _, r := range f.records {
		if kind == "" || r.Kind == kind {
			n++
		}
	}
	return n
}

func (f *FakeServer) Reset() {
	f.mu.Lock()
	f.records = nil
	f.mu.Unlock()
}

type Config struct {
	RootDomains []string
	// GatewayPort is what the gateway advertises (headers, redirects); 0 = the UDP port, as the repository tests do.
	GatewayPort int
	AdminUser   string
	AdminPass   string
	Handlers    gateway.InternalHandlers
	// PlainHTTP adds the plain HTTP listener (HTTP CONNECT + redirect).
	PlainHTTP bool
	Logger    *zap.Logger
}

// Lab is one running gateway.
type Lab struct {
	G        *gateway.Gateway
	Server   *FakeServer
	TCPPort  int // TLS listener (http/1.1, h2, tcp ALPN)
	UDPPort  int // QUIC listener (h3, tcp ALPN)
	HTTPPort int // plain HTTP listener, 0 if absent
	Conf     Config

	cancel  context.CancelFunc
	closers []func()
}

// New starts a gateway. Construction mirrors setupGateway in gateway/gateway_test.go.
func New(cfg Config) (*Lab, error) {
	c, err := Cert()
	if err != nil {
		return nil, err
	}
	if cfg.Logger == nil {
		cfg.Logger = zap.NewNop()
	}
	lab := &Lab{Server: NewFakeServer(), Conf: cfg}

	pc, err := net.ListenPacket("udp", "127.0.0.1:0")
	if err != nil {
		return nil, err
	}
	lab.UDPPort = pc.LocalAddr().(*net.UDPAddr).Port

	h2, err := tls.Listen("tcp", "127.0.0.1:0", &tls.Config{
		Certificates: []tls.Certificate{c},
		NextProtos: []string{
			tun.ALPN(protocol.Link_HTTP2),
			tun.ALPN(protocol.Link_HTTP),
			tun.ALPN(protocol.Link_TCP),
			tun.ALPN(protocol.Link_UNKNOWN),
		},
	})
	if err != nil {
		pc.Close()
		return nil, err
	}
	lab.TCPPort = h2.Addr().(*net.TCPAddr).Port

	var httpL net.Listener
	if cfg.PlainHTTP {
		httpL, err = net.Listen("tcp", "127.0.0.1:0")
		if err != nil {
			pc.Close()
			h2.Close()
			return nil, err
		}
		lab.HTTPPort = httpL.Addr().(*net.TCPAddr).Port
	}

	mux, err := overlay.NewMux(&quic.Transport{Conn: pc})
	if err != nil {
		pc.Close()
		h2.Close()
		if httpL != nil {
			httpL.Close()
		}
		return nil, err
	}
	h3 := mux.With(cipher.GetGatewayTLSConfig(func(*tls.ClientHelloInfo) (*tls.Certificate, error) {
		return &c, nil
	}, nil), append(append([]string{}, cipher.H3Protos...), tun.ALPN(protocol.Link_TCP))...)

	port := cfg.GatewayPort
	if port == 0 {
		port = lab.UDPPort
	}
	conf := gateway.GatewayConfig{
		Logger:       cfg.Logger,
		TunnelServer: lab.Server,
		HTTPListener: httpL,
		H2Listener:   h2,
		H3Listener:   h3,
		RootDomains:  cfg.RootDomains,
		GatewayPort:  port,
		AdminUser:    cfg.AdminUser,
		AdminPass:    cfg.AdminPass,
		Handlers:     cfg.Handlers,
		Options: gateway.Options{
			TransportBufferSize: 1024 * 8,
			ProxyBufferSize:     1024 * 8,
		},
	}
	lab.G = gateway.New(conf)
	ctx, cancel := context.WithCancel(context.Background())
	lab.cancel = cancel
	go mux.Accept(ctx)
	lab.G.MustStart(ctx)
	lab.closers = append(lab.closers, func() {
		cancel()
		h2.Close()
		h3.Close()
		mux.Close()
		if httpL != nil {
			httpL.Close()
		}
		lab.G.Close()
		pc.Close()
	})
	return lab, nil
}

func (l *Lab) Close() {
	for _, c := range l.closers {
		c()
	}
	l.closers = nil
}

// TLSAddr / QUICAddr / HTTPAddr are the loopback addresses of the listeners.
func (l *Lab) TLSAddr() string  { return fmt.Sprintf("127.0.0.1:%d", l.TCPPort) }
func (l *Lab) QUICAddr() string { return fmt.Sprintf("127.0.0.1:%d", l.UDPPort) }
func (l *Lab) HTTPAddr() string { return fmt.Sprintf("127.0.0.1:%d", l.HTTPPort) }
