package kvlab

import (
	"fmt"
	"math/rand"
	"time"
)

// FarFuture is a lease token (= expiry in Unix nanoseconds) in the year 2100:
// a lease imported with such a token is held for the whole run.
const FarFuture = uint64(4102444800) * 1_000_000_000

// Gen produces operation sequences as a pure function of its PRNG. Sequences
// do not depend on any backend's answers (tokens are symbolic), so the very
// same sequence can be run on every backend.
type Gen struct {
	Rng      *rand.Rand
	Keys     [][]byte
	Children [][]byte
	Values   [][]byte // small values; the generator adds random longer ones
	MaxValue int      // maximum length of a random value
	Weights  map[OpKind]int
	// HashPoints are interesting range bounds (hashes of keys, boundaries).
	HashPoints []uint64
	// ImportLeases: imported transfers may carry far-future lease tokens.
	ImportLeases bool
	// LeaseTokens, if set, are the token values imported transfers draw from
	// (instead of far-future ones).
	LeaseTokens []uint64
	// BulkMax > 0: about one in five Import / Export / RemoveKeys operations carries many
	// distinct keys (sizes around powers of two and round numbers up to BulkMax) instead of
	// 1-4: a real hand-over moves a whole key range at once, and batching/chunking code only
	// shows its seams at such sizes.
	// EmptyBatches: about one in fifteen Import / Export / RemoveKeys operations carries no keys at all
	// (a legal no-op for the store; the chord layer never sends one, direct users of the KV interface can)
	EmptyBatches bool
	BulkMax      int
	BulkOps      int // number of bulk operations generated so far
	EmptyOps     int // number of zero-key batches generated so far
	bulkPool     [][]byte
	total        int
	kinds        []OpKind
}

var bulkSizes = []int{15, 16, 17, 31, 32, 33, 63, 64, 65, 99, 100, 101, 127, 128, 129, 199, 200, 201, 255, 256, 257, 400, 511, 512, 513, 1000, 1023, 1024, 1025}

// bulkKeys returns n distinct keys (mostly from a pool of synthetic names, a few of the
// ordinary keys mixed in), or nil when this operation is not to be a bulk one.
func (g *Gen) bulkKeys() [][]byte {
	if g.BulkMax <= 0 || g.Rng.Intn(5) != 0 {
		return nil
	}
	var sizes []int
	for _, s := range bulkSizes {
		if s <= g.BulkMax {
			sizes = append(sizes, s)
		}
	}
	if len(sizes) == 0 {
		sizes = []int{g.BulkMax}
	}
	n := sizes[g.Rng.Intn(len(sizes))]
	for len(g.bulkPool) < g.BulkMax+8 {
		g.bulkPool = append(g.bulkPool, []byte(fmt.Sprintf("bulk/%04d", len(g.bulkPool))))
	}
	perm := g.Rng.Perm(len(g.bulkPool))
	seen := map[string]bool{}
	out := make([][]byte, 0, n)
	for _, k := range g.Keys {
		if len(out) < 3 && g.Rng.Intn(2) == 0 && !seen[string(k)] {
			seen[string(k)] = true
			out = append(out, k)
		}
	}
	for _, i := range perm {
		if len(out) >= n {
			break
		}
		out = append(out, g.bulkPool[i])
	}
	g.Rng.Shuffle(len(out), func(i, j int) { out[i], out[j] = out[j], out[i] })
	g.BulkOps++
	return out
}

// DefaultKeys collide under DegenerateHash (lengths 0..3 mod 3) and are
// prefixes of each other for ListKeys.
var DefaultKeys = [][]byte{[]byte("a"), []byte("b"), []byte("ab"), []byte("ba"), []byte("abc"), []byte("abd"), []byte("b\x00"), []byte("abcd"), []byte(""),
	// bytes at the top of the range: a prefix ending in 0xff has no "next" prefix of the same length
	[]byte("a\xff"), []byte("a\xff\xff"), []byte("\xff"),
	// an other-case twin and characters that are wildcards in SQL patterns: a listing done by pattern match instead of byte comparison shows
	[]byte("A"), []byte("a_"), []byte("a%"), []byte("%")}
var DefaultChildren = [][]byte{[]byte("x"), []byte("y"), []byte("xy"), []byte("z\x00"), []byte("")}
var DefaultValues = [][]byte{[]byte(""), []byte("v"), []byte("w"), []byte("a"), []byte("\x00")}

// FullWeights exercises the whole KVProvider interface.
func FullWeights() map[OpKind]int {
	return map[OpKind]int{
		OpPut: 10, OpGet: 8, OpDelete: 5,
		OpPrefixAppend: 10, OpPrefixContains: 5, OpPrefixList: 5, OpPrefixRemove: 6,
		OpListKeys: 5, OpRangeKeys: 6, OpImport: 5, OpExport: 4, OpRemoveKeys: 3,
		OpAcquire: 4, OpRenew: 3, OpRelease: 4,
	}
}

// MutationWeights: only the mutations an append-only log records.
func MutationWeights() map[OpKind]int {
	return map[OpKind]int{OpPut: 10, OpDelete: 4, OpPrefixAppend: 12, OpPrefixRemove: 5, OpImport: 4, OpRemoveKeys: 2}
}

var kindOrder = []OpKind{OpPut, OpGet, OpDelete, OpPrefixAppend, OpPrefixContains, OpPrefixList, OpPrefixRemove,
	OpListKeys, OpRangeKeys, OpImport, OpExport, OpRemoveKeys, OpAcquire, OpRenew, OpRelease}

func NewGen(rng *rand.Rand) *Gen {
	return &Gen{Rng: rng, Keys: DefaultKeys, Children: DefaultChildren, Values: DefaultValues, MaxValue: 48, Weights: FullWeights()}
}

func (g *Gen) prep() {
	g.total = 0
	g.kinds = g.kinds[:0]
	for _, k := range kindOrder {
		if w := g.Weights[k]; w > 0 {
			g.total += w
			g.kinds = append(g.kinds, k)
		}
	}
}

func (g *Gen) pickKind() OpKind {
	n := g.Rng.Intn(g.total)
	for _, k := range g.kinds {
		n -= g.Weights[k]
		if n < 0 {
			return k
		}
	}
	return g.kinds[0]
}

func (g *Gen) key() []byte   { return g.Keys[g.Rng.Intn(len(g.Keys))] }
func (g *Gen) child() []byte { return g.Children[g.Rng.Intn(len(g.Children))] }

func (g *Gen) value() []byte {
	if g.Rng.Intn(3) > 0 || g.MaxValue <= 0 {
		return g.Values[g.Rng.Intn(len(g.Values))]
	}
	b := make([]byte, 1+g.Rng.Intn(g.MaxValue))
	g.Rng.Read(b)
	return b
}

func (g *Gen) keySubset(max int) [][]byte {
	n := 1 + g.Rng.Intn(max)
	out := make([][]byte, n)
	for i := range out {
		out[i] = g.key()
	}
	return out
}

func (g *Gen) bound() uint64 {
	if len(g.HashPoints) > 0 && g.Rng.Intn(4) > 0 {
		p := g.HashPoints[g.Rng.Intn(len(g.HashPoints))]
		switch g.Rng.Intn(4) {
		case 0:
			return (p + 1) % HashSpace
		case 1:
			return (p + HashSpace - 1) % HashSpace
		}
		return p
	}
	return g.Rng.Uint64() % HashSpace
}

func (g *Gen) tokenRef() string {
	switch g.Rng.Intn(5) {
	case 0:
		return TokStale
	case 1:
		return TokForged
	}
	return TokCurrent
}

func (g *Gen) ttl() time.Duration {
	switch g.Rng.Intn(8) {
	case 0:
		return []time.Duration{0, -time.Second, time.Nanosecond, 999 * time.Millisecond}[g.Rng.Intn(4)]
	}
	return time.Duration(3600+g.Rng.Intn(3600)) * time.Second
}

// Next generates one operation.
func (g *Gen) Next() Op {
	if g.total == 0 {
		g.prep()
	}
	k := g.pickKind()
	op := Op{Kind: k}
	switch k {
	case OpPut:
		op.Key, op.Val = g.key(), g.value()
	case OpGet, OpDelete, OpPrefixList:
		op.Key = g.key()
	case OpPrefixAppend, OpPrefixContains, OpPrefixRemove:
		op.Key, op.Val = g.key(), g.child()
	case OpListKeys:
		switch g.Rng.Intn(4) {
		case 0:
			op.Val = nil
		case 1:
			op.Val = []byte{}
		default:
			kk := g.key()
			op.Val = kk[:g.Rng.Intn(len(kk)+1)]
		}
	case OpRangeKeys:
		op.Low, op.High = g.bound(), g.bound()
		if g.Rng.Intn(6) == 0 {
			op.High = op.Low
		}
	case OpImport:
		op.Keys = g.keySubset(3)
		if bk := g.bulkKeys(); bk != nil {
			op.Keys = bk
		}
		if g.EmptyBatches && g.Rng.Intn(15) == 0 {
			op.Keys = [][]byte{}
			g.EmptyOps++
		}
		op.Vals = make([]Transfer, len(op.Keys))
		for i := range op.Vals {
			var t Transfer
			switch g.Rng.Intn(4) {
			case 0: // nil
			case 1:
				t.Simple = []byte{}
			default:
				t.Simple = g.value()
			}
			for n := g.Rng.Intn(4); n > 0; n-- {
				t.Children = append(t.Children, g.child())
			}
			if g.ImportLeases && g.Rng.Intn(4) == 0 {
				t.Lease = FarFuture + uint64(g.Rng.Intn(1_000_000))
				if len(g.LeaseTokens) > 0 {
					t.Lease = g.LeaseTokens[g.Rng.Intn(len(g.LeaseTokens))]
				}
			}
			op.Vals[i] = t
		}
	case OpExport, OpRemoveKeys:
		op.Keys = g.keySubset(4)
		if bk := g.bulkKeys(); bk != nil {
			op.Keys = bk
		}
		if g.EmptyBatches && g.Rng.Intn(15) == 0 {
			op.Keys = nil
			if g.Rng.Intn(2) == 0 {
				op.Keys = [][]byte{}
			}
			g.EmptyOps++
		}
	case OpAcquire:
		op.Key, op.TTL = g.key(), g.ttl()
	case OpRenew:
		op.Key, op.TTL, op.TokenRef = g.key(), g.ttl(), g.tokenRef()
	case OpRelease:
		op.Key, op.TokenRef = g.key(), g.tokenRef()
	}
	return op
}

// Sequence generates n operations.
func (g *Gen) Sequence(n int) []Op {
	out := make([]Op, n)
	for i := range out {
		out[i] = g.Next()
	}
	return out
}
