package kvlab

import (
	"context"
	"fmt"
	"math/rand"
	"sync"
	"sync/atomic"
	"time"

	"go.miragespace.co/specter/spec/chord"
)

// ---- clocks ------------------------------------------------------------------------

// Clock is the time base of a lease run. With a virtual clock Advance moves the
// time the lease code reads (the worker installs Time as memory.VerifNow /
// sqlite3.VerifNow); with the real clock Advance sleeps.
type Clock interface {
	Now() int64 // nanoseconds, comparable with the expiry the backend computes
	Advance(d time.Duration)
	Virtual() bool
}

// VirtualClock starts at a fixed realistic instant (tokens are expiry times in
// Unix nanoseconds and must stay positive) and only moves forward.
type VirtualClock struct{ ns atomic.Int64 }

func NewVirtualClock() *VirtualClock {
	c := &VirtualClock{}
	c.ns.Store(time.Date(2030, 1, 1, 0, 0, 0, 0, time.UTC).UnixNano())
	return c
}
func (c *VirtualClock) Now() int64              { return c.ns.Load() }
func (c *VirtualClock) Advance(d time.Duration) { c.ns.Add(int64(d)) }
func (c *VirtualClock) Virtual() bool           { return true }

// Time is what the overlay's VerifNow returns.
func (c *VirtualClock) Time() time.Time { return time.Unix(0, c.ns.Load()) }

// RealClock reads the wall clock (the lease code compares UnixNano values).
type RealClock struct{}

func (RealClock) Now() int64              { return time.Now().UnixNano() }
func (RealClock) Advance(d time.Duration) { time.Sleep(d) }
func (RealClock) Virtual() bool           { return false }

// ---- interval oracle ---------------------------------------------------------------

// LeaseEvent is one completed lease call as seen at the client boundary.
// Call and Return are clock readings taken before invoking and after returning.
type LeaseEvent struct {
	Op       string // acquire | renew | release
	Lease    string
	TTL      time.Duration
	Token    uint64 // argument of renew / release
	Call     int64
	Return   int64
	OutToken uint64
	Err      error
}

func (e LeaseEvent) String() string {
	switch e.Op {
	case "acquire":
		return fmt.Sprintf("Acquire(%q,%v) -> token=%d err=%q", e.Lease, e.TTL, e.OutToken, ErrClass(e.Err))
	case "renew":
		return fmt.Sprintf("Renew(%q,%v,%d) -> token=%d err=%q", e.Lease, e.TTL, e.Token, e.OutToken, ErrClass(e.Err))
	}
	return fmt.Sprintf("Release(%q,%d) -> err=%q", e.Lease, e.Token, ErrClass(e.Err))
}

// LeaseVerdict: Diffs empty = allowed by the statement. Class names the situation
// (state of the lease as the oracle knows it, position of the call relative to
// the expiry, what happened) for distinctness signatures.
type LeaseVerdict struct {
	Diffs []string
	Class string
	// Before describes the lease as the oracle knew it when the call was made.
	Before string
}

type leaseState struct {
	token        uint64 // 0 = free (never granted, or released)
	expLo, expHi int64  // the grant expires somewhere in [expLo, expHi]
}

// LeaseOracle judges a sequence of lease calls against the statement:
//
//   - a lease can be acquired only when it is free or its previous grant has expired;
//   - a renewal succeeds only with the current unexpired token, a release only
//     with the current token; every other attempt fails with the documented error
//     (Acquire: ErrKVLeaseConflict, Renew/Release: ErrKVLeaseExpired) and changes
//     nothing (which the following calls reveal);
//   - TTLs below one second are rejected with ErrKVLeaseInvalidTTL.
//
// It is interval based: a grant made by a call [c, r] with TTL t expires in the
// window [c + floor_seconds(t), r + t] (+- Margin). A later call that returned
// strictly before the window must be treated as "unexpired", one that was
// invoked strictly after it as "expired"; a call overlapping the window
// (including now == expiry) is don't-care and the oracle adopts what happened.
// Release(0) on a free lease is not judged (the statement is silent).
//
// Calls on one lease must be fed in an order consistent with real time
// (sequential callers, or a linearization chosen by the driver); different
// leases are independent. Safe for concurrent use.
type LeaseOracle struct {
	// Margin widens every expiry window on both sides (clock granularity /
	// wall-vs-monotonic skew in real-time runs; 0 with a virtual clock).
	Margin int64

	mu     sync.Mutex
	leases map[string]*leaseState
}

func NewLeaseOracle(margin time.Duration) *LeaseOracle {
	return &LeaseOracle{Margin: int64(margin), leases: map[string]*leaseState{}}
}

// Current returns the token the oracle believes is current (0 = free).
func (o *LeaseOracle) Current(lease string) uint64 {
	o.mu.Lock()
	defer o.mu.Unlock()
	if s := o.leases[lease]; s != nil {
		return s.token
	}
	return 0
}

// Expiry returns the expiry window of the current grant.
func (o *LeaseOracle) Expiry(lease string) (lo, hi int64, held bool) {
	o.mu.Lock()
	defer o.mu.Unlock()
	if s := o.leases[lease]; s != nil && s.token != 0 {
		return s.expLo, s.expHi, true
	}
	return 0, 0, false
}

// Adopt installs a grant the oracle did not observe (e.g. a token that arrived
// by key transfer): the lease is held with this token and expires in [lo, hi].
func (o *LeaseOracle) Adopt(lease string, token uint64, lo, hi int64) {
	o.mu.Lock()
	defer o.mu.Unlock()
	o.leases[lease] = &leaseState{token: token, expLo: lo, expHi: hi}
}

func (o *LeaseOracle) grant(s *leaseState, e LeaseEvent) {
	s.token = e.OutToken
	s.expLo = e.Call + int64(e.TTL.Truncate(time.Second)) - o.Margin
	s.expHi = e.Return + int64(e.TTL) + o.Margin
}

// position of the call relative to the expiry window of the current grant
func (s *leaseState) position(e LeaseEvent) string {
	switch {
	case e.Return < s.expLo:
		return "unexpired"
	case e.Call > s.expHi:
		return "expired"
	}
	return "at-expiry"
}

func (o *LeaseOracle) Observe(e LeaseEvent) LeaseVerdict {
	o.mu.Lock()
	defer o.mu.Unlock()
	s := o.leases[e.Lease]
	if s == nil {
		s = &leaseState{}
		o.leases[e.Lease] = s
	}
	var v LeaseVerdict
	if s.token == 0 {
		v.Before = "free"
	} else {
		v.Before = fmt.Sprintf("held by token %d, call made %+dns..%+dns relative to its expiry window", s.token, e.Call-s.expHi, e.Return-s.expLo)
	}
	got := ErrClass(e.Err)
	expect := func(want string) {
		if got != want {
			w, g := want, got
			if w == "" {
				w = "success"
			}
			if g == "" {
				g = "success"
			}
			v.Diffs = append(v.Diffs, fmt.Sprintf("%s returned %s, the statement requires %s", e.Op, g, w))
		}
	}
	okToken := func() {
		if e.Err == nil && e.OutToken == 0 {
			v.Diffs = append(v.Diffs, e.Op+" succeeded with token 0")
		}
	}
	if (e.Op == "acquire" || e.Op == "renew") && e.TTL < time.Second {
		v.Class = e.Op + "/ttl-below-1s"
		expect("lease-invalid-ttl")
		return v
	}
	switch e.Op {
	case "acquire":
		switch {
		case s.token == 0:
			v.Class = "acquire/free"
			expect("")
			okToken()
			if e.Err == nil {
				o.grant(s, e)
			}
		default:
			pos := s.position(e)
			v.Class = "acquire/held-" + pos
			switch pos {
			case "unexpired":
				expect("lease-conflict")
			case "expired":
				expect("")
				okToken()
				if e.Err == nil {
					o.grant(s, e)
				}
			default: // don't care: either outcome, but only the documented ones
				if got != "" && got != "lease-conflict" {
					expect("lease-conflict")
				}
				okToken()
				if e.Err == nil {
					o.grant(s, e)
					v.Class += "-granted"
				}
			}
		}
	case "renew":
		switch {
		case s.token == 0:
			v.Class = "renew/free"
			expect("lease-expired")
		case e.Token != s.token:
			v.Class = "renew/other-token-" + s.position(e)
			expect("lease-expired")
		default:
			pos := s.position(e)
			v.Class = "renew/current-" + pos
			switch pos {
			case "unexpired":
				expect("")
				okToken()
				if e.Err == nil {
					o.grant(s, e)
				}
			case "expired":
				expect("lease-expired")
			default:
				if got != "" && got != "lease-expired" {
					expect("lease-expired")
				}
				okToken()
				if e.Err == nil {
					o.grant(s, e)
					v.Class += "-renewed"
				}
			}
		}
	case "release":
		switch {
		case s.token != 0 && e.Token == s.token:
			v.Class = "release/current-" + s.position(e)
			expect("")
			if e.Err == nil {
				s.token = 0
			}
		case s.token == 0 && e.Token == 0:
			v.Class = "" // statement silent
		case s.token == 0:
			v.Class = "release/free"
			expect("lease-expired")
		default:
			v.Class = "release/other-token-" + s.position(e)
			expect("lease-expired")
		}
	default:
		v.Diffs = append(v.Diffs, "unknown lease op "+e.Op)
	}
	return v
}

// ---- driver ------------------------------------------------------------------------

// LeaseCall performs one lease call on kv, stamps it with clock and returns the event.
func LeaseCall(kv chord.LeaseKV, clock Clock, op, lease string, ttl time.Duration, token uint64) LeaseEvent {
	ctx := context.Background()
	e := LeaseEvent{Op: op, Lease: lease, TTL: ttl, Token: token}
	e.Call = clock.Now()
	switch op {
	case "acquire":
		e.OutToken, e.Err = kv.Acquire(ctx, []byte(lease), ttl)
	case "renew":
		e.OutToken, e.Err = kv.Renew(ctx, []byte(lease), ttl, token)
	case "release":
		e.Err = kv.Release(ctx, []byte(lease), token)
	}
	e.Return = clock.Now()
	if e.Err != nil {
		e.OutToken = 0
	}
	return e
}

// LeaseScenario drives one lease through steps random calls from several
// logical holders (own, stale, foreign and forged tokens, valid and invalid
// TTLs), moving the clock between calls to instants around the expiry of the
// current grant (expiry -1ns / +0 / +1ns with a virtual clock, well before /
// well after with the real one). Every event is passed to observe together with
// the oracle's verdict; it returns false to stop the scenario.
func LeaseScenario(kv chord.LeaseKV, clock Clock, o *LeaseOracle, rng *rand.Rand, lease string, steps int, observe func(LeaseEvent, LeaseVerdict) bool) {
	holders := 2 + rng.Intn(3)
	own := make([]uint64, holders) // last token each holder was granted
	var history []uint64           // every token ever granted
	ttls := []time.Duration{time.Second, time.Second, 2 * time.Second, 3 * time.Second, 1500 * time.Millisecond}
	badTTLs := []time.Duration{0, -time.Second, time.Nanosecond, 999 * time.Millisecond, 999999999 * time.Nanosecond}
	if !clock.Virtual() {
		ttls = []time.Duration{time.Second, time.Second, 2 * time.Second}
	}
	for i := 0; i < steps; i++ {
		// ---- move time
		lo, hi, held := o.Expiry(lease)
		now := clock.Now()
		if clock.Virtual() {
			var d int64
			switch rng.Intn(10) {
			case 0, 1, 2:
				d = 0
			case 3:
				d = 1
			case 4:
				d = int64(time.Duration(rng.Intn(900)+1) * time.Millisecond)
			case 5:
				d = int64(time.Duration(1+rng.Intn(4)) * time.Second)
			default:
				if held && lo > now {
					// land exactly around the (point) expiry window
					d = []int64{lo - now - 1, lo - now, hi - now, hi - now + 1, hi - now + 2}[rng.Intn(5)]
				}
			}
			if d > 0 {
				clock.Advance(time.Duration(d))
			}
		} else if held && rng.Intn(3) > 0 {
			// real time: either stay well inside the grant or sleep well past it
			if rng.Intn(2) == 0 && hi > now {
				clock.Advance(time.Duration(hi-now) + 400*time.Millisecond)
			} else if rng.Intn(2) == 0 {
				clock.Advance(time.Duration(50+rng.Intn(150)) * time.Millisecond)
			}
		}
		// ---- pick a call
		h := rng.Intn(holders)
		ttl := ttls[rng.Intn(len(ttls))]
		if rng.Intn(12) == 0 {
			ttl = badTTLs[rng.Intn(len(badTTLs))]
		}
		pickToken := func() uint64 {
			switch rng.Intn(6) {
			case 0:
				if len(history) > 0 {
					return history[rng.Intn(len(history))] // stale (or, by value, possibly current)
				}
			case 1:
				return own[rng.Intn(holders)] | 1<<62 // forged
			case 2:
				if t := own[rng.Intn(holders)]; t != 0 {
					return t // somebody's, maybe not ours
				}
			}
			if own[h] != 0 {
				return own[h]
			}
			return 1 + uint64(rng.Intn(1000)) // never 0: Release(0) on a free lease is not judged
		}
		var e LeaseEvent
		switch rng.Intn(10) {
		case 0, 1, 2, 3:
			e = LeaseCall(kv, clock, "acquire", lease, ttl, 0)
		case 4, 5, 6:
			e = LeaseCall(kv, clock, "renew", lease, ttl, pickToken())
		default:
			e = LeaseCall(kv, clock, "release", lease, 0, pickToken())
		}
		v := o.Observe(e)
		if e.Err == nil && (e.Op == "acquire" || e.Op == "renew") {
			own[h] = e.OutToken
			history = append(history, e.OutToken)
		}
		if !observe(e, v) {
			return
		}
	}
}
