package kvlab

import (
	"bytes"
	"context"
	"errors"
	"fmt"
	"sort"
	"strings"
	"time"

	"go.miragespace.co/specter/spec/chord"
	"go.miragespace.co/specter/spec/protocol"
)

// ---- operations at the client boundary -----------------------------------------

type OpKind string

const (
	OpPut            OpKind = "Put"
	OpGet            OpKind = "Get"
	OpDelete         OpKind = "Delete"
	OpPrefixAppend   OpKind = "PrefixAppend"
	OpPrefixContains OpKind = "PrefixContains"
	OpPrefixList     OpKind = "PrefixList"
	OpPrefixRemove   OpKind = "PrefixRemove"
	OpListKeys       OpKind = "ListKeys"
	OpRangeKeys      OpKind = "RangeKeys"
	OpImport         OpKind = "Import"
	OpExport         OpKind = "Export"
	OpRemoveKeys     OpKind = "RemoveKeys"
	OpAcquire        OpKind = "Acquire"
	OpRenew          OpKind = "Renew"
	OpRelease        OpKind = "Release"
)

// Transfer mirrors protocol.KVTransfer.
type Transfer struct {
	Simple   []byte   `json:"simple"`
	Children [][]byte `json:"children"`
	Lease    uint64   `json:"lease"`
}

// Token references are resolved against the model of the run the op executes
// in (every backend hands out its own token values).
const (
	TokCurrent = "current" // the token of the current grant (a non-zero bogus one when free)
	TokStale   = "stale"   // the token of an earlier, released or replaced grant
	TokForged  = "forged"  // a value never handed out
)

type Op struct {
	Kind     OpKind        `json:"kind"`
	Key      []byte        `json:"key,omitempty"`
	Val      []byte        `json:"val,omitempty"` // value, child, or listing prefix
	Low      uint64        `json:"low,omitempty"`
	High     uint64        `json:"high,omitempty"`
	Keys     [][]byte      `json:"keys,omitempty"`
	Vals     []Transfer    `json:"vals,omitempty"`
	TTL      time.Duration `json:"ttl,omitempty"`
	TokenRef string        `json:"token_ref,omitempty"`
	Token    uint64        `json:"token,omitempty"` // resolved token
}

func (o Op) String() string {
	switch o.Kind {
	case OpPut, OpPrefixAppend, OpPrefixContains, OpPrefixRemove:
		return fmt.Sprintf("%s(%q,%q)", o.Kind, o.Key, o.Val)
	case OpGet, OpDelete, OpPrefixList:
		return fmt.Sprintf("%s(%q)", o.Kind, o.Key)
	case OpListKeys:
		return fmt.Sprintf("ListKeys(%q)", o.Val)
	case OpRangeKeys:
		return fmt.Sprintf("RangeKeys(%d,%d)", o.Low, o.High)
	case OpImport:
		var sb strings.Builder
		for i, k := range o.Keys {
			if i == 6 && len(o.Keys) > 8 {
				fmt.Fprintf(&sb, " ... %d keys in all, last %q", len(o.Keys), o.Keys[len(o.Keys)-1])
				break
			}
			fmt.Fprintf(&sb, " %q:{%q,%q,%d}", k, o.Vals[i].Simple, o.Vals[i].Children, o.Vals[i].Lease)
		}
		return "Import(" + sb.String() + " )"
	case OpExport, OpRemoveKeys:
		if len(o.Keys) > 8 {
			return fmt.Sprintf("%s(%q ... %d keys in all, last %q)", o.Kind, o.Keys[:6], len(o.Keys), o.Keys[len(o.Keys)-1])
		}
		return fmt.Sprintf("%s(%q)", o.Kind, o.Keys)
	case OpAcquire:
		return fmt.Sprintf("Acquire(%q,%v)", o.Key, o.TTL)
	case OpRenew:
		return fmt.Sprintf("Renew(%q,%v,%s=%d)", o.Key, o.TTL, o.TokenRef, o.Token)
	case OpRelease:
		return fmt.Sprintf("Release(%q,%s=%d)", o.Key, o.TokenRef, o.Token)
	}
	return string(o.Kind)
}

// IsMutation reports whether the op can change the store.
func (o Op) IsMutation() bool {
	switch o.Kind {
	case OpPut, OpDelete, OpPrefixAppend, OpPrefixRemove, OpImport, OpRemoveKeys, OpAcquire, OpRenew, OpRelease:
		return true
	}
	return false
}

// KeyKind is one ListKeys entry.
type KeyKind struct {
	Key  string
	Kind string // SIMPLE | PREFIX | LEASE
}

// Result is what an operation returned, in a backend-independent form.
type Result struct {
	Err   error
	Val   []byte
	Bool  bool
	List  [][]byte
	Comp  []KeyKind
	Vals  []Transfer
	Token uint64
}

// ErrClass names the documented errors; anything else is "other: <text>".
func ErrClass(err error) string {
	switch {
	case err == nil:
		return ""
	case errors.Is(err, chord.ErrKVPrefixConflict):
		return "prefix-conflict"
	case errors.Is(err, chord.ErrKVSimpleConflict):
		return "simple-conflict"
	case errors.Is(err, chord.ErrKVLeaseConflict):
		return "lease-conflict"
	case errors.Is(err, chord.ErrKVLeaseExpired):
		return "lease-expired"
	case errors.Is(err, chord.ErrKVLeaseInvalidTTL):
		return "lease-invalid-ttl"
	}
	return "other: " + err.Error()
}

func toProto(vals []Transfer) []*protocol.KVTransfer {
	out := make([]*protocol.KVTransfer, len(vals))
	for i, v := range vals {
		out[i] = &protocol.KVTransfer{SimpleValue: v.Simple, PrefixChildren: v.Children, LeaseToken: v.Lease}
	}
	return out
}

func fromProto(vals []*protocol.KVTransfer) []Transfer {
	out := make([]Transfer, len(vals))
	for i, v := range vals {
		if v == nil {
			continue
		}
		out[i] = Transfer{Simple: clone(v.GetSimpleValue()), Lease: v.GetLeaseToken()}
		for _, c := range v.GetPrefixChildren() {
			out[i].Children = append(out[i].Children, cloneNonNil(c))
		}
	}
	return out
}

func clone(b []byte) []byte {
	if b == nil {
		return nil
	}
	return append([]byte{}, b...)
}

func cloneNonNil(b []byte) []byte { return append([]byte{}, b...) }

func cloneList(l [][]byte) [][]byte {
	out := make([][]byte, len(l))
	for i, b := range l {
		out[i] = cloneNonNil(b)
	}
	return out
}

// Exec runs one operation against a real backend. Arguments are copied first so
// that a backend which keeps references never aliases the generator's buffers.
func Exec(kv chord.KVProvider, op Op) Result {
	ctx := context.Background()
	var r Result
	switch op.Kind {
	case OpPut:
		r.Err = kv.Put(ctx, cloneNonNil(op.Key), clone(op.Val))
	case OpGet:
		v, err := kv.Get(ctx, cloneNonNil(op.Key))
		r.Val, r.Err = clone(v), err
	case OpDelete:
		r.Err = kv.Delete(ctx, cloneNonNil(op.Key))
	case OpPrefixAppend:
		r.Err = kv.PrefixAppend(ctx, cloneNonNil(op.Key), cloneNonNil(op.Val))
	case OpPrefixContains:
		r.Bool, r.Err = kv.PrefixContains(ctx, cloneNonNil(op.Key), cloneNonNil(op.Val))
	case OpPrefixList:
		l, err := kv.PrefixList(ctx, cloneNonNil(op.Key))
		r.List, r.Err = cloneList(l), err
	case OpPrefixRemove:
		r.Err = kv.PrefixRemove(ctx, cloneNonNil(op.Key), cloneNonNil(op.Val))
	case OpListKeys:
		l, err := kv.ListKeys(ctx, clone(op.Val))
		r.Err = err
		for _, kc := range l {
			r.Comp = append(r.Comp, KeyKind{Key: string(kc.GetKey()), Kind: kc.GetType().String()})
		}
	case OpRangeKeys:
		l, err := kv.RangeKeys(ctx, op.Low, op.High)
		r.List, r.Err = cloneList(l), err
	case OpImport:
		vals := make([]Transfer, len(op.Vals))
		for i, v := range op.Vals {
			vals[i] = Transfer{Simple: clone(v.Simple), Children: cloneList(v.Children), Lease: v.Lease}
			if v.Children == nil {
				vals[i].Children = nil
			}
		}
		r.Err = kv.Import(ctx, cloneList(op.Keys), toProto(vals))
	case OpExport:
		v, err := kv.Export(ctx, cloneList(op.Keys))
		r.Err = err
		if err == nil {
			r.Vals = fromProto(v)
		}
	case OpRemoveKeys:
		r.Err = kv.RemoveKeys(ctx, cloneList(op.Keys))
	case OpAcquire:
		r.Token, r.Err = kv.Acquire(ctx, cloneNonNil(op.Key), op.TTL)
	case OpRenew:
		r.Token, r.Err = kv.Renew(ctx, cloneNonNil(op.Key), op.TTL, op.Token)
	case OpRelease:
		r.Err = kv.Release(ctx, cloneNonNil(op.Key), op.Token)
	default:
		r.Err = fmt.Errorf("kvlab: unknown op %q", op.Kind)
	}
	return r
}

// ---- reference model ---------------------------------------------------------------
//
// Written from spec/chord/kv.go and the property statements, not from any
// backend:
//   * a key has three independent keyspaces: a simple value, a set of prefix
//     children, a lease token;
//   * Put overwrites, Delete removes the simple value only, an empty simple
//     value reads as absent;
//   * PrefixAppend of an existing child conflicts, PrefixRemove is idempotent;
//   * ListKeys(p) reports, for every key starting with p, one entry per kind of
//     data present; RangeKeys(low,high) reports the keys holding data whose
//     hash is in the circular interval (low, high] (everything if low == high);
//   * Export returns the three keyspaces, Import of a key that holds nothing
//     reproduces them, RemoveKeys removes all three;
//   * (timeless lease part, used with TTLs far longer than a run) Acquire
//     succeeds iff the lease is free, Renew/Release succeed iff the token is the
//     current one.
//
// Where the contract is silent the model says so instead of guessing:
//   * whether a key whose simple value is present-but-empty is *listed* as
//     SIMPLE / counted as holding data (the backends differ, the repository's
//     own tests pin both);
//   * Import onto a key that already holds data, when the transferred simple
//     value is empty or the transferred token is 0: "kept" and "cleared" are
//     both allowed; the model adopts what the backend did (Resolve).

type ent struct {
	simple       []byte
	emptyPresent bool // an empty simple value was stored (listing is don't-care)
	children     map[string]struct{}
	lease        uint64
	prevLease    uint64 // a token that used to be current
	ambSimple    []byte // previous value if the last Import made the simple value ambiguous
	ambSimpleSet bool
	ambLease     uint64 // previous token if the last Import made the lease ambiguous
}

func (e *ent) hasData() bool { return len(e.simple) > 0 || len(e.children) > 0 || e.lease != 0 }

type Model struct {
	Hash     chord.HashFn
	m        map[string]*ent
	universe map[string]struct{}
	pending  map[string]struct{} // keys with an unresolved ambiguity
}

func NewModel(hash chord.HashFn) *Model {
	return &Model{Hash: hash, m: map[string]*ent{}, universe: map[string]struct{}{}, pending: map[string]struct{}{}}
}

func (m *Model) get(k []byte) *ent {
	m.universe[string(k)] = struct{}{}
	e := m.m[string(k)]
	if e == nil {
		e = &ent{children: map[string]struct{}{}}
		m.m[string(k)] = e
	}
	return e
}

// Universe returns every key the model has ever seen, sorted.
func (m *Model) Universe() [][]byte {
	ks := make([]string, 0, len(m.universe))
	for k := range m.universe {
		ks = append(ks, k)
	}
	sort.Strings(ks)
	out := make([][]byte, len(ks))
	for i, k := range ks {
		out[i] = []byte(k)
	}
	return out
}

// Resolve fills in op.Token from op.TokenRef.
func (m *Model) Resolve(op Op) Op {
	if op.Kind != OpRenew && op.Kind != OpRelease {
		return op
	}
	e := m.get(op.Key)
	const bogus = uint64(0x1234567890)
	switch op.TokenRef {
	case TokCurrent:
		op.Token = e.lease
		if op.Token == 0 {
			op.Token = bogus
		}
	case TokStale:
		op.Token = e.prevLease
		if op.Token == 0 {
			op.Token = bogus + 1
		}
	case TokForged:
		op.Token = e.lease + 1
		if e.lease == 0 {
			op.Token = bogus + 2
		}
	}
	return op
}

// InRange is the statement's definition of the circular interval (low, high]
// on the 2^48 ring, the whole ring when low == high.
func InRange(low, h, high uint64) bool {
	if low == high {
		return true
	}
	dh := (high - low) % HashSpace
	dt := (h - low) % HashSpace
	// uint64 wrap-around of the subtraction is harmless: 2^48 divides 2^64
	return dt > 0 && dt <= dh
}

func sortedStrings(l [][]byte) []string {
	out := make([]string, len(l))
	for i, b := range l {
		out[i] = string(b)
	}
	sort.Strings(out)
	return out
}

func setToSorted(s map[string]struct{}) []string {
	out := make([]string, 0, len(s))
	for k := range s {
		out = append(out, k)
	}
	sort.Strings(out)
	return out
}

// compareMultiset: got must contain every required element exactly once, may
// contain each optional element at most once, and nothing else.
func compareMultiset(what string, got []string, required, optional map[string]struct{}) []string {
	var diffs []string
	seen := map[string]int{}
	for _, g := range got {
		seen[g]++
	}
	for g, n := range seen {
		_, req := required[g]
		_, opt := optional[g]
		if !req && !opt {
			diffs = append(diffs, fmt.Sprintf("%s: unexpected %q", what, g))
		} else if n > 1 {
			diffs = append(diffs, fmt.Sprintf("%s: %q reported %d times", what, g, n))
		}
	}
	for r := range required {
		if seen[r] == 0 {
			diffs = append(diffs, fmt.Sprintf("%s: missing %q", what, r))
		}
	}
	sort.Strings(diffs)
	return diffs
}

func (m *Model) expectTransfer(k []byte) Transfer {
	e := m.get(k)
	t := Transfer{Simple: clone(e.simple), Lease: e.lease}
	for _, c := range setToSorted(e.children) {
		t.Children = append(t.Children, []byte(c))
	}
	return t
}

func compareTransfer(what string, got, want Transfer) []string {
	var diffs []string
	if !bytes.Equal(got.Simple, want.Simple) { // nil and empty are equal here
		diffs = append(diffs, fmt.Sprintf("%s: simple value %s, want %s", what, short(string(got.Simple)), short(string(want.Simple))))
	}
	g, w := sortedStrings(got.Children), sortedStrings(want.Children)
	if strings.Join(quoteAll(g), ",") != strings.Join(quoteAll(w), ",") {
		diffs = append(diffs, fmt.Sprintf("%s: children %q, want %q", what, g, w))
	}
	if got.Lease != want.Lease {
		diffs = append(diffs, fmt.Sprintf("%s: lease token %d, want %d", what, got.Lease, want.Lease))
	}
	return diffs
}

func quoteAll(l []string) []string {
	out := make([]string, len(l))
	for i, s := range l {
		out[i] = fmt.Sprintf("%q", s)
	}
	return out
}

// StepResult is the verdict of the model about one executed operation.
type StepResult struct {
	Diffs     []string // empty = the backend behaved as the contract says
	Outcome   string   // short class of what happened, for distinctness signatures
	Ambiguous [][]byte // keys whose state must be resolved by Export + Resolve before going on
}

func wantErr(diffs []string, got error, want string) []string {
	if c := ErrClass(got); c != want {
		if want == "" {
			want = "no error"
		}
		if c == "" {
			c = "no error"
		}
		diffs = append(diffs, fmt.Sprintf("returned %s, want %s", c, want))
	}
	return diffs
}

// Step compares the result of op (already executed on the backend, with tokens
// resolved by Resolve) with the contract and advances the model.
func (m *Model) Step(op Op, got Result) StepResult {
	var sr StepResult
	d := &sr.Diffs
	switch op.Kind {
	case OpPut:
		*d = wantErr(*d, got.Err, "")
		e := m.get(op.Key)
		e.simple = clone(op.Val)
		e.emptyPresent = len(op.Val) == 0
		sr.Outcome = "ok"
		if len(op.Val) == 0 {
			sr.Outcome = "empty"
		}
	case OpGet:
		*d = wantErr(*d, got.Err, "")
		e := m.get(op.Key)
		if !bytes.Equal(got.Val, e.simple) {
			*d = append(*d, fmt.Sprintf("value %s, want %s", short(string(got.Val)), short(string(e.simple))))
		}
		sr.Outcome = "hit"
		if len(e.simple) == 0 {
			sr.Outcome = "miss"
		}
	case OpDelete:
		*d = wantErr(*d, got.Err, "")
		e := m.get(op.Key)
		sr.Outcome = "absent"
		if len(e.simple) > 0 {
			sr.Outcome = "removed"
		}
		e.simple, e.emptyPresent = nil, false
	case OpPrefixAppend:
		e := m.get(op.Key)
		if _, dup := e.children[string(op.Val)]; dup {
			*d = wantErr(*d, got.Err, "prefix-conflict")
			sr.Outcome = "conflict"
		} else {
			*d = wantErr(*d, got.Err, "")
			e.children[string(op.Val)] = struct{}{}
			sr.Outcome = "added"
		}
	case OpPrefixContains:
		*d = wantErr(*d, got.Err, "")
		e := m.get(op.Key)
		_, want := e.children[string(op.Val)]
		if got.Bool != want {
			*d = append(*d, fmt.Sprintf("returned %v, want %v", got.Bool, want))
		}
		sr.Outcome = fmt.Sprint(want)
	case OpPrefixList:
		*d = wantErr(*d, got.Err, "")
		e := m.get(op.Key)
		*d = append(*d, compareMultiset("children", sortedStrings(got.List), e.children, nil)...)
		sr.Outcome = fmt.Sprintf("n=%d", len(e.children))
	case OpPrefixRemove:
		*d = wantErr(*d, got.Err, "")
		e := m.get(op.Key)
		sr.Outcome = "noop"
		if _, ok := e.children[string(op.Val)]; ok {
			sr.Outcome = "removed"
			delete(e.children, string(op.Val))
		}
	case OpListKeys:
		*d = wantErr(*d, got.Err, "")
		req, opt := m.expectListKeys(op.Val)
		gl := make([]string, len(got.Comp))
		for i, kk := range got.Comp {
			gl[i] = fmt.Sprintf("%q/%s", kk.Key, kk.Kind)
		}
		*d = append(*d, compareMultiset("listing", gl, req, opt)...)
		sr.Outcome = fmt.Sprintf("n=%d,opt=%d", min(len(req), 3), min(len(opt), 1))
	case OpRangeKeys:
		*d = wantErr(*d, got.Err, "")
		req, opt := m.expectRangeKeys(op.Low, op.High)
		*d = append(*d, compareMultiset("keys", quoteAll(sortedStrings(got.List)), req, opt)...)
		cls := "norm"
		if op.Low == op.High {
			cls = "full"
		} else if op.Low > op.High {
			cls = "wrap"
		}
		sr.Outcome = fmt.Sprintf("%s,n=%d", cls, min(len(req), 3))
	case OpImport:
		*d = wantErr(*d, got.Err, "")
		overlap := false
		for i, k := range op.Keys {
			e := m.get(k)
			if e.hasData() || e.emptyPresent {
				overlap = true
			}
			v := op.Vals[i]
			for _, c := range v.Children {
				e.children[string(c)] = struct{}{}
			}
			if len(v.Simple) > 0 {
				e.simple, e.emptyPresent = clone(v.Simple), false
				e.ambSimpleSet = false
			} else {
				if len(e.simple) > 0 && !e.ambSimpleSet {
					// contract silent: kept or cleared
					e.ambSimple, e.ambSimpleSet = e.simple, true
					m.pending[string(k)] = struct{}{}
				}
				if len(e.simple) == 0 {
					e.emptyPresent = true
				}
			}
			if v.Lease != 0 {
				if e.lease != 0 && e.lease != v.Lease {
					e.prevLease = e.lease
				}
				e.lease = v.Lease
				e.ambLease = 0
			} else if e.lease != 0 && e.ambLease == 0 {
				e.ambLease = e.lease
				m.pending[string(k)] = struct{}{}
			}
		}
		for k := range m.pending {
			sr.Ambiguous = append(sr.Ambiguous, []byte(k))
		}
		sort.Slice(sr.Ambiguous, func(i, j int) bool { return bytes.Compare(sr.Ambiguous[i], sr.Ambiguous[j]) < 0 })
		sr.Outcome = "fresh"
		if overlap {
			sr.Outcome = "overlap"
		}
		if len(sr.Ambiguous) > 0 {
			sr.Outcome = "ambiguous"
		}
	case OpExport:
		*d = wantErr(*d, got.Err, "")
		if got.Err == nil {
			if len(got.Vals) != len(op.Keys) {
				*d = append(*d, fmt.Sprintf("%d values for %d keys", len(got.Vals), len(op.Keys)))
			} else {
				for i, k := range op.Keys {
					*d = append(*d, compareTransfer(fmt.Sprintf("key %q", k), got.Vals[i], m.expectTransfer(k))...)
				}
			}
		}
		sr.Outcome = fmt.Sprintf("n=%d", min(len(op.Keys), 3))
	case OpRemoveKeys:
		*d = wantErr(*d, got.Err, "")
		n := 0
		for _, k := range op.Keys {
			e := m.get(k)
			if e.hasData() {
				n++
			}
			prev := e.lease
			*e = ent{children: map[string]struct{}{}, prevLease: prev}
		}
		sr.Outcome = fmt.Sprintf("removed=%d", min(n, 2))
	case OpAcquire:
		e := m.get(op.Key)
		if op.TTL < time.Second {
			*d = wantErr(*d, got.Err, "lease-invalid-ttl")
			sr.Outcome = "invalid-ttl"
		} else if e.lease == 0 {
			*d = wantErr(*d, got.Err, "")
			if got.Err == nil {
				if got.Token == 0 {
					*d = append(*d, "granted token is 0")
				}
				e.lease = got.Token
			}
			sr.Outcome = "granted"
		} else {
			*d = wantErr(*d, got.Err, "lease-conflict")
			sr.Outcome = "conflict"
		}
	case OpRenew:
		e := m.get(op.Key)
		if op.TTL < time.Second {
			*d = wantErr(*d, got.Err, "lease-invalid-ttl")
			sr.Outcome = "invalid-ttl"
		} else if e.lease != 0 && op.Token == e.lease {
			*d = wantErr(*d, got.Err, "")
			if got.Err == nil {
				if got.Token == 0 {
					*d = append(*d, "renewed token is 0")
				}
				if got.Token != e.lease {
					e.prevLease = e.lease
				}
				e.lease = got.Token
			}
			sr.Outcome = "renewed"
		} else {
			*d = wantErr(*d, got.Err, "lease-expired")
			sr.Outcome = "rejected-" + op.TokenRef
		}
	case OpRelease:
		e := m.get(op.Key)
		switch {
		case e.lease != 0 && op.Token == e.lease:
			*d = wantErr(*d, got.Err, "")
			e.prevLease, e.lease = e.lease, 0
			sr.Outcome = "released"
		case e.lease == 0 && op.Token == 0:
			sr.Outcome = "" // contract silent; never generated
		default:
			*d = wantErr(*d, got.Err, "lease-expired")
			sr.Outcome = "rejected-" + op.TokenRef
		}
	}
	return sr
}

// ResolveAmbiguity settles what an Import did to a key where the contract
// allows two outcomes, from what the backend exports for it.
func (m *Model) ResolveAmbiguity(k []byte, got Transfer) []string {
	var diffs []string
	e := m.get(k)
	if e.ambSimpleSet {
		switch {
		case bytes.Equal(got.Simple, e.ambSimple):
			e.simple = e.ambSimple
		case len(got.Simple) == 0:
			e.simple, e.emptyPresent = nil, true
		default:
			diffs = append(diffs, fmt.Sprintf("key %q: after Import with an empty simple value the value is %q, neither kept (%q) nor cleared", k, got.Simple, e.ambSimple))
		}
		e.ambSimple, e.ambSimpleSet = nil, false
	}
	if e.ambLease != 0 {
		switch got.Lease {
		case e.ambLease:
			e.lease = e.ambLease
		case 0:
			e.prevLease, e.lease = e.ambLease, 0
		default:
			diffs = append(diffs, fmt.Sprintf("key %q: after Import with token 0 the token is %d, neither kept (%d) nor cleared", k, got.Lease, e.ambLease))
		}
		e.ambLease = 0
	}
	delete(m.pending, string(k))
	return diffs
}

func (m *Model) expectListKeys(prefix []byte) (req, opt map[string]struct{}) {
	req, opt = map[string]struct{}{}, map[string]struct{}{}
	for k, e := range m.m {
		if !strings.HasPrefix(k, string(prefix)) {
			continue
		}
		if len(e.simple) > 0 {
			req[fmt.Sprintf("%q/SIMPLE", k)] = struct{}{}
		} else if e.emptyPresent {
			opt[fmt.Sprintf("%q/SIMPLE", k)] = struct{}{}
		}
		if len(e.children) > 0 {
			req[fmt.Sprintf("%q/PREFIX", k)] = struct{}{}
		}
		if e.lease != 0 {
			req[fmt.Sprintf("%q/LEASE", k)] = struct{}{}
		}
	}
	return
}

func (m *Model) expectRangeKeys(low, high uint64) (req, opt map[string]struct{}) {
	req, opt = map[string]struct{}{}, map[string]struct{}{}
	for k, e := range m.m {
		if !InRange(low, m.Hash([]byte(k)), high) {
			continue
		}
		if e.hasData() {
			req[fmt.Sprintf("%q", k)] = struct{}{}
		} else if e.emptyPresent {
			opt[fmt.Sprintf("%q", k)] = struct{}{}
		}
	}
	return
}

// ---- snapshots ---------------------------------------------------------------

// KeyState is the content of one key with "empty simple value = absent".
type KeyState struct {
	Simple   string   `json:"simple,omitempty"`
	Children []string `json:"children,omitempty"`
	Lease    uint64   `json:"lease,omitempty"`
}

func short(s string) string {
	if len(s) > 40 {
		return fmt.Sprintf("%q...(%d bytes)", s[:32], len(s))
	}
	return fmt.Sprintf("%q", s)
}

func (k KeyState) String() string {
	return fmt.Sprintf("{simple:%s children:%q lease:%d}", short(k.Simple), k.Children, k.Lease)
}

// Snapshot maps every key holding data to its content.
type Snapshot map[string]KeyState

func (s Snapshot) Fingerprint() string {
	ks := make([]string, 0, len(s))
	for k := range s {
		ks = append(ks, k)
	}
	sort.Strings(ks)
	var sb strings.Builder
	for _, k := range ks {
		v := s[k]
		fmt.Fprintf(&sb, "%q=%q|%q|%d;", k, v.Simple, v.Children, v.Lease)
	}
	return sb.String()
}

// Diff describes the first few differences between two snapshots ("" if equal).
func (s Snapshot) Diff(want Snapshot) string {
	var out []string
	for k, w := range want {
		g, ok := s[k]
		if !ok {
			out = append(out, fmt.Sprintf("key %q missing (want %v)", k, w))
		} else if fmt.Sprintf("%q|%q|%d", g.Simple, g.Children, g.Lease) != fmt.Sprintf("%q|%q|%d", w.Simple, w.Children, w.Lease) {
			out = append(out, fmt.Sprintf("key %q is %v, want %v", k, g, w))
		}
	}
	for k, g := range s {
		if _, ok := want[k]; !ok {
			out = append(out, fmt.Sprintf("key %q present (%v), want absent", k, g))
		}
	}
	sort.Strings(out)
	if len(out) > 4 {
		out = append(out[:4], fmt.Sprintf("... %d more", len(out)-4))
	}
	return strings.Join(out, "; ")
}

// Snapshot of the model. withLease=false leaves lease tokens out.
func (m *Model) Snapshot(withLease bool) Snapshot {
	s := Snapshot{}
	for k, e := range m.m {
		ks := KeyState{Simple: string(e.simple), Children: setToSorted(e.children)}
		if withLease {
			ks.Lease = e.lease
		}
		if ks.Simple == "" && len(ks.Children) == 0 && ks.Lease == 0 {
			continue
		}
		if len(ks.Children) == 0 {
			ks.Children = nil
		}
		s[k] = ks
	}
	return s
}

// OptionalEmpty returns the keys whose only content is a present-but-empty
// simple value (their listing is don't-care).
func (m *Model) OptionalEmpty() map[string]struct{} {
	out := map[string]struct{}{}
	for k, e := range m.m {
		if e.emptyPresent && len(e.simple) == 0 {
			out[k] = struct{}{}
		}
	}
	return out
}

// Observe reads the content of every key of the universe from a real backend
// through Get, PrefixList and Export, and cross-checks that (a) Export agrees
// with Get/PrefixList and (b) RangeKeys(0,0) and ListKeys(nil) list exactly the
// keys/kinds that hold data (keys in optionalEmpty may or may not be listed;
// with optionalEmpty == nil every universe key without data is optional).
func Observe(kv chord.KVProvider, universe [][]byte, withLease bool, optionalEmpty map[string]struct{}) (Snapshot, []string) {
	ctx := context.Background()
	var diffs []string
	s := Snapshot{}
	leases := map[string]uint64{}
	exp, err := kv.Export(ctx, cloneList(universe))
	if err != nil {
		diffs = append(diffs, "Export: "+err.Error())
	} else if len(exp) != len(universe) {
		diffs = append(diffs, fmt.Sprintf("Export returned %d values for %d keys", len(exp), len(universe)))
		exp = nil
	}
	for i, k := range universe {
		v, err := kv.Get(ctx, cloneNonNil(k))
		if err != nil {
			diffs = append(diffs, fmt.Sprintf("Get(%q): %v", k, err))
		}
		l, err := kv.PrefixList(ctx, cloneNonNil(k))
		if err != nil {
			diffs = append(diffs, fmt.Sprintf("PrefixList(%q): %v", k, err))
		}
		ks := KeyState{Simple: string(v), Children: sortedStrings(l)}
		if len(ks.Children) == 0 {
			ks.Children = nil
		}
		if exp != nil && exp[i] != nil {
			t := fromProto(exp[i : i+1])[0]
			if string(t.Simple) != ks.Simple {
				diffs = append(diffs, fmt.Sprintf("key %q: Export simple value %q but Get %q", k, t.Simple, v))
			}
			if c := sortedStrings(t.Children); strings.Join(quoteAll(c), ",") != strings.Join(quoteAll(ks.Children), ",") {
				diffs = append(diffs, fmt.Sprintf("key %q: Export children %q but PrefixList %q", k, c, ks.Children))
			}
			leases[string(k)] = t.Lease
			if withLease {
				ks.Lease = t.Lease
			}
		}
		if ks.Simple == "" && len(ks.Children) == 0 && ks.Lease == 0 {
			continue
		}
		s[string(k)] = ks
	}
	// listings
	inUniverse := map[string]struct{}{}
	for _, k := range universe {
		inUniverse[string(k)] = struct{}{}
	}
	reqK, optK := map[string]struct{}{}, map[string]struct{}{}
	reqL, optL := map[string]struct{}{}, map[string]struct{}{}
	for k := range inUniverse {
		ks, has := s[k]
		hasLease := leases[k] != 0
		if (has && (ks.Simple != "" || len(ks.Children) > 0)) || hasLease {
			reqK[fmt.Sprintf("%q", k)] = struct{}{}
		}
		_, oe := optionalEmpty[k]
		if optionalEmpty == nil {
			oe = true
		}
		if has && ks.Simple != "" {
			reqL[fmt.Sprintf("%q/SIMPLE", k)] = struct{}{}
		} else if oe {
			optL[fmt.Sprintf("%q/SIMPLE", k)] = struct{}{}
			if _, r := reqK[fmt.Sprintf("%q", k)]; !r {
				optK[fmt.Sprintf("%q", k)] = struct{}{}
			}
		}
		if has && len(ks.Children) > 0 {
			reqL[fmt.Sprintf("%q/PREFIX", k)] = struct{}{}
		}
		if hasLease {
			reqL[fmt.Sprintf("%q/LEASE", k)] = struct{}{}
		}
	}
	rk, err := kv.RangeKeys(ctx, 0, 0)
	if err != nil {
		diffs = append(diffs, "RangeKeys(0,0): "+err.Error())
	} else {
		diffs = append(diffs, compareMultiset("RangeKeys(0,0)", quoteAll(sortedStrings(rk)), reqK, optK)...)
	}
	lk, err := kv.ListKeys(ctx, nil)
	if err != nil {
		diffs = append(diffs, "ListKeys(nil): "+err.Error())
	} else {
		gl := make([]string, len(lk))
		for i, kc := range lk {
			gl[i] = fmt.Sprintf("%q/%s", kc.GetKey(), kc.GetType().String())
		}
		diffs = append(diffs, compareMultiset("ListKeys(nil)", gl, reqL, optL)...)
	}
	return s, diffs
}
