package kvlab

import (
	"context"
	"fmt"

	"go.miragespace.co/specter/spec/chord"
)

// Executed is one operation as it ran against a backend, with the model's verdict.
type Executed struct {
	Index int
	Op    Op // tokens resolved
	Res   Result
	Step  StepResult
}

// RunOp resolves, executes and judges one operation, and settles Import
// ambiguities (contract-silent outcomes) from what the backend exports.
func RunOp(kv chord.KVProvider, m *Model, op Op) Executed {
	op = m.Resolve(op)
	res := Exec(kv, op)
	sr := m.Step(op, res)
	if len(sr.Ambiguous) > 0 {
		exp, err := kv.Export(context.Background(), cloneList(sr.Ambiguous))
		if err != nil || len(exp) != len(sr.Ambiguous) {
			sr.Diffs = append(sr.Diffs, fmt.Sprintf("Export after Import: %v (%d values)", err, len(exp)))
		} else {
			ts := fromProto(exp)
			for i, k := range sr.Ambiguous {
				sr.Diffs = append(sr.Diffs, m.ResolveAmbiguity(k, ts[i])...)
			}
		}
	}
	return Executed{Op: op, Res: res, Step: sr}
}
