// Package kvlab is what the storage-backend checks (C16..C19, C21, C22) share:
// constructors for the three real backends in a scratch directory, a reference
// model of the KV contract written from the interface documentation
// (spec/chord/kv.go) and the property statements, operation generators and
// comparison helpers, and an interval-based lease oracle.
package kvlab

import (
	"fmt"
	"os"
	"path/filepath"
	"sync"
	"sync/atomic"
	"time"

	"verifharness/lab/ev"

	"go.miragespace.co/specter/kv/aof"
	"go.miragespace.co/specter/kv/memory"
	"go.miragespace.co/specter/kv/sqlite3"
	"go.miragespace.co/specter/spec/chord"

	"go.uber.org/zap"
)

const (
	Memory = "memory"
	AOF    = "aof"
	SQLite = "sqlite"
)

// Backends lists the three backends in a fixed order.
var Backends = []string{Memory, AOF, SQLite}

var (
	sqliteOnce sync.Once
	sqliteErr  error
)

// InitSQLite configures the wazero compilation cache (one per checkout) so
// that the embedded SQLite module is compiled once, not once per process.
func InitSQLite() error {
	sqliteOnce.Do(func() {
		dir := filepath.Join(ev.Root(), ".cache", "wazero")
		if err := os.MkdirAll(dir, 0o755); err != nil {
			sqliteErr = err
			return
		}
		sqliteErr = sqlite3.Initialize(dir)
	})
	return sqliteErr
}

var scratchSeq atomic.Int64

// Scratch returns a fresh directory under $VERIF_WORKDIR (or /tmp/verif-work).
func Scratch(name string) string {
	base := os.Getenv("VERIF_CHILD_DIR")
	if base == "" {
		base = os.Getenv("VERIF_WORKDIR")
	}
	if base == "" {
		base = filepath.Join(os.TempDir(), "verif-work")
	}
	d := filepath.Join(base, fmt.Sprintf("%s-%d-%d", name, os.Getpid(), scratchSeq.Add(1)))
	_ = os.MkdirAll(d, 0o755)
	return d
}

// Store is one real backend instance.
type Store struct {
	Kind string
	Dir  string // data directory ("" for memory)
	Hash chord.HashFn
	KV   chord.KVProvider

	ownDir bool
	mem    *memory.MemoryKV
	disk   *aof.DiskKV
	sql    *sqlite3.SqliteKV
	// FlushInterval of the AOF store (default 50ms)
	flush time.Duration
}

// Open creates a backend of the given kind. dir == "" allocates a scratch
// directory that Destroy removes.
func Open(kind, dir string, hash chord.HashFn) (*Store, error) {
	s := &Store{Kind: kind, Hash: hash, flush: 50 * time.Millisecond}
	if kind != Memory {
		if dir == "" {
			dir = Scratch(kind)
			s.ownDir = true
		}
		s.Dir = dir
	}
	if err := s.open(); err != nil {
		if s.ownDir {
			_ = os.RemoveAll(s.Dir)
		}
		return nil, err
	}
	return s, nil
}

func (s *Store) open() error {
	switch s.Kind {
	case Memory:
		s.mem = memory.WithHashFn(s.Hash)
		s.KV = s.mem
	case AOF:
		d, err := aof.New(aof.Config{Logger: zap.NewNop(), HasnFn: s.Hash, DataDir: s.Dir, FlushInterval: s.flush})
		if err != nil {
			return err
		}
		s.disk = d
		s.KV = d
		go d.Start()
	case SQLite:
		if err := InitSQLite(); err != nil {
			return fmt.Errorf("sqlite initialize: %w", err)
		}
		d, err := sqlite3.New(sqlite3.Config{Logger: zap.NewNop(), HashFn: s.Hash, DataDir: s.Dir})
		if err != nil {
			return err
		}
		s.sql = d
		s.KV = d
	default:
		return fmt.Errorf("unknown backend %q", s.Kind)
	}
	return nil
}

// Close stops the backend cleanly (AOF: Stop = flush + close; SQLite: Close).
func (s *Store) Close() {
	switch {
	case s.disk != nil:
		s.disk.Stop()
		s.disk = nil
	case s.sql != nil:
		s.sql.Close()
		s.sql = nil
	}
	s.KV = nil
}

// Reopen stops the backend cleanly and opens it again on the same directory.
// The memory backend has no persistence: Reopen is an error there.
func (s *Store) Reopen() error {
	if s.Kind == Memory {
		return fmt.Errorf("memory backend cannot be reopened")
	}
	s.Close()
	return s.open()
}

// Destroy closes the backend and removes a scratch directory it allocated.
func (s *Store) Destroy() {
	s.Close()
	if s.ownDir && s.Dir != "" {
		_ = os.RemoveAll(s.Dir)
	}
}

// WALDir is the directory that holds the AOF segment files.
func (s *Store) WALDir() string { return filepath.Join(s.Dir, aof.LogDir) }

// ---- hash functions ---------------------------------------------------------

// HashSpace is the size of the identifier ring.
const HashSpace = uint64(1) << 48

// RealHash is the hash the repository uses.
func RealHash(b []byte) uint64 { return chord.Hash(b) }

// DegenerateHash forces collisions: only three hash values exist.
func DegenerateHash(b []byte) uint64 { return uint64(len(b) % 3) }

// TableHash maps a key to table[firstByte mod len(table)] (empty key: table[0]),
// so a test chooses the hash of every key (boundary values, collisions).
func TableHash(table []uint64) chord.HashFn {
	t := append([]uint64(nil), table...)
	return func(b []byte) uint64 {
		if len(b) == 0 {
			return t[0]
		}
		return t[int(b[0])%len(t)]
	}
}
