// Package racelog reads the race detector's report files (GORACE log_path=...)
// and de-duplicates reports by the pair of outermost repository frames.
package racelog

import (
	"os"
	"path/filepath"
	"regexp"
	"sort"
	"strings"
)

type Report struct {
	Key     string   // de-duplication key: sorted pair of innermost repository frames of the two accesses
	Frames  []string // repository frames involved
	InRepo  bool     // at least one access stack runs through repository code
	Excerpt string
	Count   int
}

// Enabled reports whether this binary was built with -race (set by vcheck).
func Enabled() bool { return os.Getenv("VERIF_RACE_BUILD") == "1" }

func logGlob() string {
	gr := os.Getenv("GORACE")
	for _, f := range strings.Fields(gr) {
		if strings.HasPrefix(f, "log_path=") {
			return strings.TrimPrefix(f, "log_path=") + ".*"
		}
	}
	return ""
}

var fnLine = regexp.MustCompile(`^  (\S+)\(\)$`)

// Collect parses every report written so far by this process and its children.
// pkgFilter, if non-empty, restricts InRepo to frames containing one of the substrings.
func Collect(pkgFilter ...string) []Report {
	g := logGlob()
	if g == "" {
		return nil
	}
	files, _ := filepath.Glob(g)
	byKey := map[string]*Report{}
	for _, f := range files {
		b, err := os.ReadFile(f)
		if err != nil {
			continue
		}
		blocks := strings.Split(string(b), "==================")
		for _, blk := range blocks {
			if !strings.Contains(blk, "WARNING: DATA RACE") {
				continue
			}
			// split into stacks; take the two access stacks (first two sections)
			sections := regexp.MustCompile(`(?m)^(?:Write|Read|Previous write|Previous read|Atomic|Previous atomic)[^\n]*:\n`).Split(blk, -1)
			var firstRepo []string
			var all []string
			for si, sec := range sections {
				if si == 0 {
					continue
				}
				// an access section ends at the first blank line
				if i := strings.Index(sec, "\n\n"); i >= 0 {
					sec = sec[:i]
				}
				inner := ""
				for _, l := range strings.Split(sec, "\n") {
					m := fnLine.FindStringSubmatch(l)
					if m == nil {
						continue
					}
					fn := m[1]
					if strings.Contains(fn, "go.miragespace.co/specter/") {
						ok := len(pkgFilter) == 0
						for _, p := range pkgFilter {
							if strings.Contains(fn, p) {
								ok = true
							}
						}
						if ok {
							all = append(all, fn)
							if inner == "" {
								inner = fn
							}
						}
					}
				}
				if inner != "" {
					firstRepo = append(firstRepo, inner)
				}
				if si >= 2 {
					break
				}
			}
			sort.Strings(firstRepo)
			key := strings.Join(firstRepo, " <-> ")
			if key == "" {
				key = "(no repository frame)"
			}
			r := byKey[key]
			if r == nil {
				ex := blk
				if len(ex) > 3000 {
					ex = ex[:3000]
				}
				r = &Report{Key: key, Frames: all, InRepo: len(firstRepo) > 0, Excerpt: ex}
				byKey[key] = r
			}
			r.Count++
		}
	}
	out := make([]Report, 0, len(byKey))
	for _, r := range byKey {
		out = append(out, *r)
	}
	sort.Slice(out, func(i, j int) bool { return out[i].Key < out[j].Key })
	return out
}
